"""Entry point: python -m harness.run Cxx [--tier T] [--replay file]."""
import importlib
import sys
import traceback

from harness import common


def main():
  if len(sys.argv) < 2:
    print('usage: check Cxx [--tier quick|thorough] [--replay file]')
    return 2
  prop = sys.argv[1]
  try:
    mod = importlib.import_module(f'harness.props.{prop}')
  except ModuleNotFoundError:
    print(f'no check for {prop}')
    return 2
  try:
    if '--replay' in sys.argv:
      return mod.replay(sys.argv[sys.argv.index('--replay') + 1])
    return mod.run(common.tier())
  except common.Infra as e:
    print(f'INFRASTRUCTURE: {e}')
    return 2
  except Exception:
    traceback.print_exc()
    print('INFRASTRUCTURE: check crashed')
    return 2


if __name__ == '__main__':
  sys.exit(main())
