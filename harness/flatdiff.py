"""Flat stage of C10 / C13: pairs of single Buildables with named arguments and tags, run
through the real build_diff / apply_diff / fiddler_from_diff and through the Lean model
(Model/Diff.lean) by the driver's `diff` family."""
from __future__ import annotations

import ast
import copy

import fiddle as fdl
from fiddle import daglish
from fiddle._src import diffing
from fiddle._src.codegen import codegen_diff

from harness import targets


def fd_a(a=0, b=0, c=0):
  return ('fd_a', a, b, c)


def fd_b(b=0, c=0, d=0):
  return ('fd_b', b, c, d)


def fd_c(a=0, d=0, e=0):
  return ('fd_c', a, d, e)


def fd_d(x=0):
  return ('fd_d', x)


FNS = [fd_a, fd_b, fd_c, fd_d]
SIGS = [['fd_a', ['a', 'b', 'c']], ['fd_b', ['b', 'c', 'd']], ['fd_c', ['a', 'd', 'e']], ['fd_d', ['x']]]
NAMES = {f.__name__: f for f in FNS}


def gen_flat(r, fn=None):
  fn = fn or r.choice(FNS)
  names = dict(SIGS)[fn.__name__]
  args = [[n, r.randrange(4)] for n in names if r.random() < 0.55]
  r.shuffle(args)
  tags = []
  for n in names:
    if r.random() < 0.4:
      ts = sorted(r.sample(range(len(targets.TAGS)), r.randint(1, 2)))
      tags.append([n, ts])
  return {'fn': fn.__name__, 'args': args, 'tags': tags}


def gen_pair(r):
  old = gen_flat(r)
  mode = r.random()
  if mode < 0.15:
    new = copy.deepcopy(old)                       # equal pair: empty diff
  elif mode < 0.55:
    new = gen_flat(r, NAMES[old['fn']])            # same callable
  else:
    new = gen_flat(r)
  return old, new


def to_config(flat):
  cfg = fdl.Config(NAMES[flat['fn']], **{k: v for k, v in flat['args']})
  for k, ts in flat['tags']:
    for t in ts:
      fdl.add_tag(cfg, k, targets.TAGS[t])
  return cfg


def flat_of(cfg):
  """Canonical view (mirror of Driver.Diff.flatJson)."""
  args = sorted([k, v] for k, v in cfg.__arguments__.items())
  tags = sorted([k, sorted(targets.tag_no(t) for t in ts)] for k, ts in cfg.__argument_tags__.items() if ts)
  return {'fn': cfg.__fn_or_cls__.__name__, 'args': args, 'tags': tags}


def change_proto(ch):
  """A real DiffOperation on the root as a model Change."""
  if len(ch.target) != 1:
    raise ValueError(f'nested target {ch.target}')
  pe = ch.target[0]
  if isinstance(pe, daglish.BuildableFnOrCls):
    if isinstance(ch, diffing.ModifyValue):
      return ['ModifyFn', ch.new_value.__name__]
    raise ValueError(f'unexpected change of the callable: {ch}')
  name = pe.name
  if isinstance(ch, diffing.DeleteValue):
    return ['DeleteValue', name]
  if isinstance(ch, diffing.ModifyValue):
    return ['ModifyValue', name, ch.new_value]
  if isinstance(ch, diffing.SetValue):
    return ['SetValue', name, ch.new_value]
  if isinstance(ch, diffing.AddTag):
    return ['AddTag', name, targets.tag_no(ch.tag)]
  if isinstance(ch, diffing.RemoveTag):
    return ['RemoveTag', name, targets.tag_no(ch.tag)]
  raise ValueError(f'unknown change {ch}')


def parse_fiddler(src, func_name=None):
  """The statements of an emitted fiddler (for a single node) as model Stmts, read off the
  emitted SOURCE TEXT."""
  mod = ast.parse(src)
  fn = next(n for n in mod.body if isinstance(n, ast.FunctionDef))
  if func_name is not None and fn.name != func_name:
    raise ValueError(f'emitted function is called {fn.name}, expected {func_name}')
  param = fn.args.args[0].arg
  aliases = {param}
  out = []

  def is_cfg(e):
    return isinstance(e, ast.Name) and e.id in aliases

  def tag_of(e):
    name = e.attr if isinstance(e, ast.Attribute) else e.id
    return [t.__name__ for t in targets.TAGS].index(name)

  def last_name(e):
    return e.attr if isinstance(e, ast.Attribute) else e.id

  for st in fn.body:
    if isinstance(st, ast.Assign) and isinstance(st.targets[0], ast.Name) and is_cfg(st.value):
      aliases.add(st.targets[0].id)
    elif isinstance(st, ast.Delete) and isinstance(st.targets[0], ast.Attribute) and is_cfg(st.targets[0].value):
      out.append(['del', st.targets[0].attr])
    elif isinstance(st, ast.Assign) and isinstance(st.targets[0], ast.Attribute) and is_cfg(st.targets[0].value):
      out.append(['assign', st.targets[0].attr, ast.literal_eval(st.value)])
    elif isinstance(st, ast.Expr) and isinstance(st.value, ast.Call):
      call = st.value
      f = last_name(call.func)
      if not is_cfg(call.args[0]):
        raise ValueError(f'call on something else than the configuration: {ast.unparse(st)}')
      if f == 'update_callable':
        out.append(['update_callable', last_name(call.args[1])])
      elif f in ('add_tag', 'remove_tag'):
        out.append([f, ast.literal_eval(call.args[1]), tag_of(call.args[2])])
      else:
        raise ValueError(f'unexpected call {ast.unparse(st)}')
    elif isinstance(st, (ast.Return, ast.Pass)):
      continue
    else:
      raise ValueError(f'unexpected statement {ast.unparse(st)}')
  return out


def fiddler_source(diff, **kw):
  import libcst as cst
  m = codegen_diff.fiddler_from_diff(diff, **kw)
  return m.code if hasattr(m, 'code') else cst.Module(body=[m]).code


def run_fiddler(src, cfg, func_name='fiddler'):
  g = {'fdl': fdl}
  g.update(NAMES)
  exec(compile(src, '<fiddler>', 'exec'), g)
  g[func_name](cfg)
  return cfg


def execute(case, with_fiddler):
  """Returns (observations, driver request)."""
  old_f, new_f = case['old'], case['new']
  old, new = to_config(old_f), to_config(new_f)
  obs = {'flat': True}
  req = {'p': 'diff', 'sigs': SIGS, 'old': old_f, 'new': new_f}
  try:
    d = diffing.build_diff(old, new)
    obs['build_diff'] = 'ok'
  except Exception as e:
    obs['build_diff'] = f'{type(e).__name__}: {e}'[:200]
    return obs, req
  try:
    chs = [change_proto(c) for c in d.changes]
  except Exception as e:
    obs['changes'] = f'unmappable: {e}'[:200]
    return obs, req
  obs['changes'] = chs
  obs['new_shared'] = len(d.new_shared_values)
  req['changes'] = chs
  cp = copy.deepcopy(old)
  try:
    diffing.apply_diff(d, cp)
    obs['apply'] = flat_of(cp)
  except Exception as e:
    obs['apply'] = f'{type(e).__name__}: {e}'[:200]
  obs['want'] = flat_of(new)
  obs['old_unchanged'] = flat_of(old) == flat_of(to_config(old_f))
  if with_fiddler:
    mode = case.get('mode', 0)
    kw = [dict(), dict(old=copy.deepcopy(old)), dict(func_name='tweak', param_name='config'),
          dict(old=copy.deepcopy(old), func_name='tweak', param_name='c')][mode % 4]
    fname = kw.get('func_name', 'fiddler')
    try:
      src = fiddler_source(d, **kw)
      obs['src'] = src
      obs['stmts'] = parse_fiddler(src, fname)
      req['stmts'] = obs['stmts']
    except Exception as e:
      obs['fiddler_codegen'] = f'{type(e).__name__}: {e}'[:300]
      return obs, req
    cp2 = copy.deepcopy(old)
    try:
      run_fiddler(src, cp2, fname)
      obs['fiddler'] = flat_of(cp2)
    except Exception as e:
      obs['fiddler'] = f'{type(e).__name__}: {e}'[:200]
  return obs, req


def norm_flat(m):
  if not isinstance(m, dict):
    return m
  return {'fn': m['fn'], 'args': [list(x) for x in m['args']], 'tags': [[k, list(ts)] for k, ts in m['tags']]}


def compare(real, model, with_fiddler):
  if model is None or real.get('build_diff') != 'ok' or not isinstance(real.get('changes'), list):
    return []
  diffs = []
  canon = lambda chs: sorted(map(repr, chs))
  if canon(real['changes']) != canon(model['model_diff']):
    diffs.append(('build_diff: set of changes', sorted(real['changes'], key=repr), sorted(model['model_diff'], key=repr)))
  if real['apply'] != norm_flat(model.get('apply_real_changes')):
    diffs.append(('apply_diff(real changes): result', real['apply'], model.get('apply_real_changes')))
  if real['apply'] != norm_flat(model.get('apply_model_diff')):
    diffs.append(('apply_diff(model diff): result', real['apply'], model.get('apply_model_diff')))
  if with_fiddler and 'stmts' in real:
    if real['stmts'] != [list(s) for s in model.get('emit_real_changes', [])]:
      diffs.append(('fiddler: emitted statements (in order)', real['stmts'], model.get('emit_real_changes')))
    if real.get('fiddler') != norm_flat(model.get('exec_real_stmts')):
      diffs.append(('fiddler: result of running the emitted statements', real.get('fiddler'), model.get('exec_real_stmts')))
  return diffs


def oracle(case, real, with_fiddler):
  if real.get('build_diff') != 'ok':
    return {'what': 'build_diff raised on a pair of Buildables of the same type', 'raised': real.get('build_diff')}
  if not isinstance(real.get('changes'), list):
    return None
  if real['apply'] != real['want']:
    return {'what': 'applying build_diff(old, new) to a copy of old does not yield new',
            'got': real['apply'], 'want': real['want']}
  if not real['old_unchanged']:
    return {'what': 'build_diff / apply_diff modified old'}
  if case['old'] == case['new'] and real['changes']:
    return {'what': 'the diff between a configuration and an equal one is not empty', 'changes': real['changes']}
  if with_fiddler:
    if 'fiddler_codegen' in real:
      return {'what': 'fiddler_from_diff raised / emitted something unexpected', 'raised': real['fiddler_codegen']}
    if real.get('fiddler') != real['apply']:
      return {'what': 'the emitted fiddler does not produce what apply_diff produces',
              'fiddler': real.get('fiddler'), 'apply': real['apply'], 'src': real.get('src')}
  return None
