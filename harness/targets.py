"""Recording callables, value tokens, tags: the *effect layer* of the harness.

A recording callable is a free constructor: calling it returns a `Rec` that remembers the
callable and the exact binding it received, and appends itself to `LOG`.
"""
from __future__ import annotations

import dataclasses
import functools
import itertools
import typing

import fiddle as fdl

LOG: list = []          # invocation log: Rec objects in call order
FAIL = {'at': None, 'make': None, 'seen': None, 'raised': None}   # crash point: index of the failing invocation
HOOK = {'fn': None}     # called at the start of every (non-failing) invocation
_serial = itertools.count()


class Tok:
  """An opaque user value `v n` (compared by token number)."""
  __slots__ = ('n',)

  def __init__(self, n):
    self.n = n

  def __eq__(self, other):
    return isinstance(other, Tok) and other.n == self.n

  def __ne__(self, other):
    return not self.__eq__(other)

  def __hash__(self):
    return hash(('Tok', self.n))

  def __repr__(self):
    return f'Tok({self.n})'


class Dflt:
  """The default object of parameter `name` (unique sentinel per parameter name)."""
  __slots__ = ('name',)
  _cache: dict = {}

  def __new__(cls, name):
    if name not in cls._cache:
      o = object.__new__(cls)
      o.name = name
      cls._cache[name] = o
    return cls._cache[name]

  def __repr__(self):
    return f'Dflt({self.name!r})'

  def __deepcopy__(self, memo):
    return self

  def __copy__(self):
    return self

  def __reduce__(self):
    return (Dflt, (self.name,))


class Rec:
  """Result of a recording callable."""

  def __init__(self, fn_name, slots, var, kw):
    if FAIL['at'] is not None and len(LOG) == FAIL['at']:
      FAIL['seen'] = (fn_name, slots, var, kw)
      exc = FAIL['make']()
      FAIL['raised'] = exc
      raise exc
    if HOOK['fn'] is not None:
      HOOK['fn'](fn_name)
    self.fn_name = fn_name
    self.slots = slots      # list of (param name, value)
    self.var = var          # tuple
    self.kw = kw            # dict
    self.serial = next(_serial)
    LOG.append(self)

  def __repr__(self):
    return f'Rec<{self.fn_name}#{self.serial}>'


KINDS = ('po', 'pk', 'vp', 'ko', 'vk')


def sig_source(sig, fn_name='f') -> str:
  """Python source of a recording function with signature `sig` = [[name, kind, dflt], ...]."""
  parts = []
  seen_slash = False
  po = [p for p in sig if p[1] == 'po']
  for i, (name, kind, dflt) in enumerate(sig):
    d = f'=Dflt({name!r})' if dflt else ''
    if kind == 'po':
      parts.append(name + d)
      if i == len(po) - 1:
        parts.append('/')
    elif kind == 'pk':
      parts.append(name + d)
    elif kind == 'vp':
      parts.append('*' + name)
    elif kind == 'ko':
      if not any(p[1] == 'vp' for p in sig) and not seen_slash:
        parts.append('*')
        seen_slash = True
      parts.append(name + d)
    elif kind == 'vk':
      parts.append('**' + name)
  named = [p[0] for p in sig if p[1] in ('po', 'pk', 'ko')]
  vp = next((p[0] for p in sig if p[1] == 'vp'), None)
  vk = next((p[0] for p in sig if p[1] == 'vk'), None)
  body = (f"  return Rec({fn_name!r}, [{', '.join(f'({n!r}, {n})' for n in named)}], "
          f"{'tuple(' + vp + ')' if vp else '()'}, {'dict(' + vk + ')' if vk else '{}'})")
  return f"def {fn_name}({', '.join(parts)}):\n{body}\n"


_fn_cache: dict = {}


def make_fn(sig, species='function', fn_name=None, ann=None):
  """A recording callable of the given species with signature `sig`.  `ann` = [[name, [tag
  numbers]], ...] gives parameters an `Annotated[int, tags...]` annotation (functions only)."""
  if ann:
    import typing
    base = make_fn(sig, species, fn_name)
    key = (tuple(map(tuple, sig)), species, fn_name, tuple((n, tuple(ts)) for n, ts in ann))
    if key in _fn_cache:
      return _fn_cache[key]
    import types
    fn = types.FunctionType(base.__code__, base.__globals__, base.__name__, base.__defaults__,
                            base.__closure__)
    fn.__kwdefaults__ = base.__kwdefaults__
    fn.__qualname__ = base.__qualname__
    fn.__annotations__ = {n: typing.Annotated[tuple([int] + [TAGS[t] for t in ts])]
                          for n, ts in ann}
    _fn_cache[key] = fn
    return fn
  key = (tuple(map(tuple, sig)), species, fn_name)
  if key in _fn_cache:
    return _fn_cache[key]
  name = fn_name or ('f_' + '_'.join(f'{n}{k}{int(d)}' for n, k, d in sig))
  ns = {'Rec': Rec, 'Dflt': Dflt}
  if species == 'function':
    exec(sig_source(sig, name), ns)
    fn = ns[name]
  elif species == 'class':
    src = sig_source(sig, '__init__').replace('def __init__(', 'def __init__(self, ', 1)
    src = src.replace('self, )', 'self)')
    src = src.replace("return Rec('__init__', ", 'self.rec = Rec(' + repr(name) + ', ')
    cls_src = f'class {name}:\n' + '\n'.join('  ' + l for l in src.splitlines()) + '\n'
    exec(cls_src, ns)
    fn = ns[name]
  elif species == 'duck_class':
    # a class whose __eq__ is duck-typed (no class check): an instance compares equal to ANY
    # object exposing equal attributes - in particular to the Config it was built from
    src = sig_source(sig, '__init__').replace('def __init__(', 'def __init__(self, ', 1)
    src = src.replace('self, )', 'self)')
    src = src.replace("return Rec('__init__', ", 'self.rec = Rec(' + repr(name) + ', ')
    eq = ('def __eq__(self, other):\n'
          '  try:\n'
          '    return all(getattr(other, n) == v for n, v in self.rec.slots)\n'
          '  except Exception:\n'
          '    return False\n'
          '__hash__ = object.__hash__\n')
    cls_src = (f'class {name}:\n' + '\n'.join('  ' + l for l in src.splitlines()) + '\n'
               + '\n'.join('  ' + l for l in eq.splitlines()) + '\n')
    exec(cls_src, ns)
    fn = ns[name]
  elif species == 'classmethod':
    src = sig_source(sig, 'make').replace('def make(', 'def make(cls, ', 1).replace('cls, )', 'cls)')
    src = src.replace("Rec('make', ", 'Rec(' + repr(name) + ', ')
    cls_src = f'class {name}_H:\n  @classmethod\n' + '\n'.join('  ' + l for l in src.splitlines()) + '\n'
    exec(cls_src, ns)
    fn = ns[name + '_H'].make
  elif species == 'callable_instance':
    src = sig_source(sig, '__call__').replace('def __call__(', 'def __call__(self, ', 1).replace('self, )', 'self)')
    src = src.replace("Rec('__call__', ", 'Rec(' + repr(name) + ', ')
    cls_src = f'class {name}_C:\n' + '\n'.join('  ' + l for l in src.splitlines()) + '\n'
    exec(cls_src, ns)
    fn = ns[name + '_C']()
  elif species == 'unhashable_instance':
    # a NEW instance on every call (never cached): instances are freed between cases, so
    # id()-keyed caches meet address reuse; `__eq__` without `__hash__` makes it unhashable
    ckey = (tuple(map(tuple, sig)), 'unhashable_class', fn_name)
    if ckey not in _fn_cache:
      src = sig_source(sig, '__call__').replace('def __call__(', 'def __call__(self, ', 1).replace('self, )', 'self)')
      src = src.replace("Rec('__call__', ", 'Rec(' + repr(name) + ', ')
      cls_src = (f'class {name}_U:\n  __hash__ = None\n  def __eq__(self, other):\n    return self is other\n'
                 + '\n'.join('  ' + l for l in src.splitlines()) + '\n')
      exec(cls_src, ns)
      _fn_cache[ckey] = ns[name + '_U']
    return _fn_cache[ckey]()
  elif species == 'partial':
    exec(sig_source(sig, name), ns)
    fn = functools.partial(ns[name])
  else:
    raise ValueError(species)
  try:
    fn.__module__ = __name__
  except (AttributeError, TypeError):
    pass
  if species == 'function':
    # importable by qualified name, so that configurations holding it can be pickled
    fn.__qualname__ = name
    globals()[name] = fn
  _fn_cache[key] = fn
  return fn


def rec_of(result):
  """The Rec produced by a built callable of any species."""
  if isinstance(result, Rec):
    return result
  return getattr(result, 'rec', None)


# Tags ---------------------------------------------------------------------------------


class T0(fdl.Tag):
  "tag 0"


class T1(fdl.Tag):
  "tag 1"


class T2(fdl.Tag):
  "tag 2"


class T3(T1):
  "tag 3, a subclass of tag 1"


class T4(T3):
  "tag 4, a subclass of tag 3"


TAGS = [T0, T1, T2, T3, T4]


def tag_no(t) -> int:
  return TAGS.index(t)


# A small class hierarchy of recording classes (C15: subclass matching) -------------------


class KA:
  def __init__(self, p=Dflt('p'), q=Dflt('q'), r=Dflt('r')):
    self.rec = Rec(type(self).__name__, [('p', p), ('q', q), ('r', r)], (), {})


class KB(KA):
  pass


class KC(KB):
  pass


class KD(KA):
  pass


class KE(KB, metaclass=__import__('abc').ABCMeta):
  """A class whose metaclass is not `type` (abc.ABC style), in the same hierarchy."""


class KF(KE):
  pass


CLASSES = [KA, KB, KC, KD, KE, KF]
