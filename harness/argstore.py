"""ArgStore family: generators, the real-code executor and the observation function that
mirrors `Driver/ArgStore.lean::observe` (used by C01, C03, C16 and tag edits of C14)."""
from __future__ import annotations

import itertools

import fiddle as fdl
from fiddle import daglish  # noqa: F401
from fiddle._src import history as fdl_history

from harness import targets
from harness.targets import Dflt, Tok

# ----------------------------------------------------------------------------------------
# protocol <-> python values


# opaque value numbers from SPECIAL_BASE on stand for Python values that code is tempted to treat
# as "missing": None and the falsy literals (to the model they are values like any other)
SPECIAL_BASE = 1000000
SPECIALS = [None, 0, '', False, (), 0.0]


def _special_index(x):
  for i, s_ in enumerate(SPECIALS):
    if type(x) is type(s_) and x == s_:
      return i
  return None


def to_py(v):
  if v == 'nov':
    return fdl.NO_VALUE
  if 'v' in v:
    if v['v'] >= SPECIAL_BASE:
      return SPECIALS[v['v'] - SPECIAL_BASE]
    return Tok(v['v'])
  if 'd' in v:
    return Dflt(v['d'])
  if 'tv' in v:
    inner = fdl.NO_VALUE if v.get('in') is None else Tok(v['in'])
    return fdl.TaggedValue(tags=[targets.TAGS[t] for t in v['tv']], default=inner)
  raise ValueError(v)


def to_proto(x):
  if x is fdl.NO_VALUE:
    return 'nov'
  if isinstance(x, Tok):
    return {'v': x.n}
  if _special_index(x) is not None:
    return {'v': SPECIAL_BASE + _special_index(x)}
  if isinstance(x, Dflt):
    return {'d': x.name}
  if callable(x) and not isinstance(x, fdl.Buildable):
    return {'v': 0}          # the callable itself (history entry of __fn_or_cls__)
  return {'other': repr(x)}


def key_proto(k):
  return k


def slice_py(sl, cfg):
  def part(x):
    return fdl.VARARGS if x == 'V' else x
  return slice(part(sl[0]), part(sl[1]), sl[2])


# ----------------------------------------------------------------------------------------
# signatures

PO_NAMES = ['a', 'b', 'c']
PK_NAMES = ['p', 'q', 'r']
KO_NAMES = ['k', 'l']


def all_shapes(max_named: int):
  """Every signature shape with at most `max_named` named parameters (Python's rule: among
  positional parameters a non-default one may not follow a default one)."""
  out = []
  for npo in range(0, 3):
    for npk in range(0, 3):
      for nko in range(0, 3):
        if npo + npk + nko > max_named:
          continue
        for vp in (False, True):
          for vk in (False, True):
            npos = npo + npk
            for first_default in range(0, npos + 1):      # positional defaults form a suffix
              for ko_mask in range(0, 2 ** nko):
                sig = []
                for i in range(npo):
                  sig.append([PO_NAMES[i], 'po', i >= first_default])
                for i in range(npk):
                  sig.append([PK_NAMES[i], 'pk', npo + i >= first_default])
                if vp:
                  sig.append(['args', 'vp', False])
                for i in range(nko):
                  sig.append([KO_NAMES[i], 'ko', bool(ko_mask >> i & 1)])
                if vk:
                  sig.append(['kw', 'vk', False])
                out.append(sig)
  return out


def random_sig(r, max_named=6):
  while True:
    npo, npk, nko = r.randint(0, 3), r.randint(0, 3), r.randint(0, 2)
    if npo + npk + nko <= max_named:
      break
  names_po = ['a', 'b', 'c'][:npo]
  names_pk = ['p', 'q', 'r'][:npk]
  npos = npo + npk
  first_default = r.randint(0, npos)
  sig = []
  for i, n in enumerate(names_po):
    sig.append([n, 'po', i >= first_default])
  for i, n in enumerate(names_pk):
    sig.append([n, 'pk', npo + i >= first_default])
  if r.random() < 0.6:
    sig.append(['args', 'vp', False])
  for n in KO_NAMES[:nko]:
    sig.append([n, 'ko', r.random() < 0.5])
  if r.random() < 0.4:
    sig.append(['kw', 'vk', False])
  return sig


def rekind_sig(r, sig):
  """A signature over the SAME parameter names under other kinds (a name that was keyword-capable
  may become positional-only, keyword-only, or the name of *args / **kwargs): what
  `update_callable` meets when a function's signature evolves."""
  names = [p[0] for p in sig if p[1] in ('po', 'pk', 'ko')]
  if not names:
    return random_sig(r, max_named=5)
  r.shuffle(names)
  i = r.randint(0, len(names))
  j = r.randint(i, len(names))
  first_default = r.randint(0, j)
  out = []
  for n, name in enumerate(names[:i]):
    out.append([name, 'po', n >= first_default])
  for n, name in enumerate(names[i:j]):
    out.append([name, 'pk', i + n >= first_default])
  rest = names[j:]
  x = r.random()
  if rest and x < 0.35:
    out.append([rest.pop(0), 'vp', False])
  elif x < 0.7:
    out.append(['args', 'vp', False])
  vk = None
  if rest and r.random() < 0.3:
    vk = rest.pop()
  for name in rest:
    out.append([name, 'ko', r.random() < 0.5])
  if vk:
    out.append([vk, 'vk', False])
  elif r.random() < 0.4:
    out.append(['kw', 'vk', False])
  return out


class Fresh:
  def __init__(self, start=1):
    self.c = itertools.count(start)

  def val(self, r, sig=None, allow_default=True, allow_tv=False, positional=False):
    x = r.random()
    if allow_default and sig and x < 0.12:
      ds = [p[0] for p in sig if p[2]]
      if ds:
        return {'d': r.choice(ds)}
    if allow_tv and x > 0.9:
      tags = r.sample(range(len(targets.TAGS)), r.randint(1, 2))
      # a value-less TaggedValue in a positional slot leaves a hole in *args (entries after it
      # become unreachable); only named parameters get value-less TaggedValues
      return {'tv': tags, 'in': next(self.c) if (positional or r.random() < 0.7) else None}
    if x < 0.2:
      return {'v': SPECIAL_BASE + r.randrange(len(SPECIALS))}
    return {'v': next(self.c)}


def gen_ann(r, sig, p=0.35):
  """Annotated[...] tags for some parameters, in signature order (any kind of parameter)."""
  return [[q[0], sorted(r.sample(range(len(targets.TAGS)), r.randint(1, 2)))]
          for q in sig if r.random() < p]


def gen_init(r, sig, fresh, malformed=0.1, allow_tv=False):
  """Constructor arguments (mostly valid)."""
  pos = [p for p in sig if p[1] in ('po', 'pk')]
  has_vp = any(p[1] == 'vp' for p in sig)
  has_vk = any(p[1] == 'vk' for p in sig)
  bad = r.random() < malformed
  npos = r.randint(0, len(pos) + (3 if has_vp else 0) + (1 if bad else 0))
  if not has_vp and not bad:
    npos = min(npos, len(pos))
  args = [fresh.val(r, sig, allow_tv=allow_tv, positional=True) for _ in range(npos)]
  kwargs = []
  for p in sig:
    if p[1] == 'pk' and pos.index(p) >= npos and r.random() < 0.5:
      kwargs.append([p[0], fresh.val(r, sig, allow_tv=allow_tv)])
    elif p[1] == 'ko' and r.random() < 0.5:
      kwargs.append([p[0], fresh.val(r, sig, allow_tv=allow_tv)])
  if has_vk or bad:
    for n in ('x', 'y'):
      if r.random() < 0.4:
        kwargs.append([n, fresh.val(r, sig, allow_tv=allow_tv)])
  if bad and pos and r.random() < 0.3 and not any(k == pos[0][0] for k, _ in kwargs):
    kwargs.append([pos[0][0], fresh.val(r, sig)])       # multiple values / positional-only by keyword
  if has_vk and r.random() < 0.08:
    special = [p[0] for p in sig if p[1] in ('po', 'vp', 'vk')]
    n = r.choice(special)
    if not any(k == n for k, _ in kwargs):
      kwargs.append([n, fresh.val(r, sig)])             # **kwargs entry named like a non-keyword parameter
  r.shuffle(kwargs)
  return args, kwargs


def rand_index(r, L):
  return r.randint(-L - 2, L + 2)


def rand_slice(r, L, sig):
  has_vp = any(p[1] == 'vp' for p in sig)

  def part():
    x = r.random()
    if x < 0.3:
      return None
    if has_vp and x < 0.45:
      return 'V'
    return r.randint(-L - 2, L + 2)
  step = r.choice([None, None, None, 1, 1, -1, 2, -2, 3, 0])
  return [part(), part(), step]


def gen_ops(r, sig, fresh, n_ops, with_tracking=False, allow_tv=False):
  named = [p[0] for p in sig]
  has_vp = any(p[1] == 'vp' for p in sig)
  P = len([p for p in sig if p[1] in ('po', 'pk')])
  ops = []
  for _ in range(n_ops):
    L = P + (r.randint(0, 5) if has_vp else 0)
    x = r.random()
    name = r.choice(named + ['x', 'y', 'zz']) if named else r.choice(['x', 'y'])
    if x < 0.07:
      ops.append(['getattr', name])
    elif x < 0.22:
      ops.append(['setattr', name, fresh.val(r, sig, allow_tv=allow_tv)])
    elif x < 0.30:
      ops.append(['delattr', name])
    elif x < 0.36:
      ops.append(['getitem', rand_index(r, L)])
    elif x < 0.40:
      ops.append(['getslice', rand_slice(r, L, sig)])
    elif x < 0.55:
      ops.append(['setitem', rand_index(r, L), fresh.val(r, sig, allow_tv=allow_tv, positional=True)])
    elif x < 0.58 and has_vp:
      ops.append(['setvar', fresh.val(r, sig)])
    elif x < 0.78:
      k = r.randint(0, 4)
      ops.append(['setslice', rand_slice(r, L, sig), [fresh.val(r, sig, allow_tv=allow_tv, positional=True) for _ in range(k)]])
    elif x < 0.88:
      ops.append(['delitem', rand_index(r, L)])
    elif x < 0.97:
      ops.append(['delslice', rand_slice(r, L, sig)])
    elif with_tracking:
      ops.append([r.choice(['suspend', 'resume', 'enter_suspend', 'enter_suspend', 'exit_suspend', 'exit_suspend'])])
    else:
      ops.append(['getitem', rand_index(r, L)])
  return ops


# ----------------------------------------------------------------------------------------
# real executor


def oa_proto(cfg, **flags):
  try:
    d = fdl.ordered_arguments(cfg, **flags)
  except Exception:
    return 'err'
  return [[k, to_proto(v)] for k, v in d.items()]


def binding_of(rec):
  return {'slots': [[n, to_proto(v)] for n, v in rec.slots],
          'var': [to_proto(v) for v in rec.var],
          'kw': [[n, to_proto(v)] for n, v in rec.kw.items()]}


def real_build(cfg):
  del targets.LOG[:]
  try:
    res = fdl.build(cfg)
  except Exception:
    return 'err'
  rec = targets.rec_of(res)
  if rec is None:
    return {'other': repr(res)}
  return binding_of(rec)


def hval_proto(entry):
  if entry.kind == fdl_history.ChangeKind.UPDATE_TAGS:
    return {'tags': sorted(targets.tag_no(t) for t in entry.new_value)}
  if entry.new_value is fdl_history.DELETED:
    return 'deleted'
  return {'val': to_proto(entry.new_value)}


def observe(cfg, with_build=True):
  try:
    view = [to_proto(v) for v in cfg[:]]
  except Exception:
    view = 'err'
  entries = sorted((e for es in cfg.__argument_history__.values() for e in es),
                   key=lambda e: e.sequence_id)
  try:
    d = sorted(x for x in dir(cfg) if not x.startswith('_'))
  except Exception:
    d = 'err'
  return {
      'view': view,
      'oa': oa_proto(cfg),
      'oa_defaults': oa_proto(cfg, include_defaults=True),
      'oa_unset': oa_proto(cfg, include_unset=True),
      'oa_nopos': oa_proto(cfg, include_positional=False),
      'oa_novk': oa_proto(cfg, include_var_keyword=False),
      'oa_noeq': oa_proto(cfg, include_equal_to_default=False),
      'oa_all': oa_proto(cfg, include_defaults=True, include_unset=True),
      'dir': d,
      'build': real_build(cfg) if with_build else None,
      'args_real': [[k, to_proto(v)] for k, v in cfg.__arguments__.items()],
      'locs': [[e.param_name, e.location.filename, e.location.function_name] for e in entries],
      'hist': [[e.param_name, hval_proto(e)] for e in entries],
      'seqs': [e.sequence_id for e in entries],
      'tags': sorted(([k, sorted(targets.tag_no(t) for t in ts)]
                      for k, ts in cfg.__argument_tags__.items() if ts), key=repr),
      # the history of the callable ends with the callable the Buildable has now
      'fn_last_is_current': (lambda es: bool(es) and es[-1].new_value is cfg.__fn_or_cls__)(
          cfg.__argument_history__.get('__fn_or_cls__', [])),
  }


class BadOp(Exception):
  pass


def common_infra(name):
  return BadOp(f'unknown op {name}')


def real_step(cfg, op):
  """Apply one op to the real Buildable. Returns the op's result in protocol form."""
  name = op[0]
  try:
    if name == 'getattr':
      return to_proto(getattr(cfg, op[1]))
    if name == 'setattr':
      setattr(cfg, op[1], to_py(op[2]))
    elif name == 'delattr':
      delattr(cfg, op[1])
    elif name == 'getitem':
      return to_proto(cfg[op[1]])
    elif name == 'getslice':
      return [to_proto(v) for v in cfg[slice_py(op[1], cfg)]]
    elif name == 'setitem':
      cfg[op[1]] = to_py(op[2])
    elif name == 'setvar':
      cfg[fdl.VARARGS] = to_py(op[1])
    elif name == 'setslice':
      cfg[slice_py(op[1], cfg)] = [to_py(v) for v in op[2]]
    elif name == 'delitem':
      del cfg[op[1]]
    elif name == 'delslice':
      del cfg[slice_py(op[1], cfg)]
    elif name == 'addtag':
      fdl.add_tag(cfg, op[1], targets.TAGS[op[2]])
    elif name == 'removetag':
      fdl.remove_tag(cfg, op[1], targets.TAGS[op[2]])
    elif name == 'cleartags':
      fdl.clear_tags(cfg, op[1])
    elif name == 'settags':
      fdl.set_tags(cfg, op[1], [targets.TAGS[t] for t in op[2]])
    elif name == 'materialize':
      from fiddle._src import materialize
      materialize.materialize_defaults(cfg)
    elif name == 'setattr2':
      shared = to_py(op[3])          # the SAME object assigned to two arguments
      setattr(cfg, op[1], shared)
      setattr(cfg, op[2], shared)
    elif name == 'update_callable':
      fdl.update_callable(cfg, targets.make_fn(op[1]), drop_invalid_args=op[2])
    elif name == 'assign':
      fdl.assign(cfg, **{k: to_py(v) for k, v in op[1]})
    elif name == 'enter_suspend':
      cm = fdl_history.suspend_tracking()
      cm.__enter__()
      _SUSPEND_STACK.append(cm)
    elif name == 'exit_suspend':
      if _SUSPEND_STACK:
        _SUSPEND_STACK.pop().__exit__(None, None, None)
    elif name == 'suspend':
      fdl_history.set_tracking(False)
    elif name == 'resume':
      fdl_history.set_tracking(True)
    else:
      raise common_infra(name)
  except Exception as e:  # the property fixes "raises", not the class
    if isinstance(e, BadOp):
      raise
    return 'err'
  return 'ok'


_SUSPEND_STACK = []


def run_real(case, species='function', buildable=fdl.Config, with_build=True):
  """Runs a case on the real code; same shape as the driver's response."""
  del _SUSPEND_STACK[:]
  fn = targets.make_fn(case['sig'], species, ann=case.get('ann'))
  fdl_history.set_tracking(True)
  try:
    try:
      if case.get('init_suspended'):
        with fdl_history.suspend_tracking():
          cfg = buildable(fn, *[to_py(v) for v in case['args']],
                          **{k: to_py(v) for k, v in case['kwargs']})
      else:
        cfg = buildable(fn, *[to_py(v) for v in case['args']],
                        **{k: to_py(v) for k, v in case['kwargs']})
    except Exception:
      return {'init': 'err', 'steps': []}, None
    out = {'init': observe(cfg, with_build), 'steps': []}
    for op in case.get('ops', []):
      if op[0] == 'copy_with':
        # the copy takes over; the original must not change (checked by the caller via 'orig_same')
        before = observe(cfg, False)
        try:
          new_cfg = fdl.copy_with(cfg, **{k: to_py(v) for k, v in op[1]})
          res = 'ok'
        except Exception:
          new_cfg, res = None, 'err'
        same = observe(cfg, False) == before
        if new_cfg is None:
          # model: edits applied before the failing one persist on the (discarded) copy only
          out['steps'].append({'res': res, 'state': observe(cfg, with_build), 'orig_same': same,
                               'discarded_copy': True})
        else:
          cfg = new_cfg
          out['steps'].append({'res': res, 'state': observe(cfg, with_build), 'orig_same': same})
        continue
      res = real_step(cfg, op)
      out['steps'].append({'res': res, 'state': observe(cfg, with_build)})
    return out, cfg
  finally:
    while _SUSPEND_STACK:
      try:
        _SUSPEND_STACK.pop().__exit__(None, None, None)
      except Exception:
        pass
    fdl_history.set_tracking(True)


def norm_model(resp):
  """Canonicalise the driver's response the same way `observe` canonicalises the real one."""
  def st(s):
    if s == 'err':
      return s
    s = dict(s)
    s['dir'] = sorted(s['dir'])
    s['tags'] = sorted(([k, sorted(ts)] for k, ts in s['tags'] if ts), key=repr)
    s['hist'] = [[k, ({'tags': sorted(h['tags'])} if isinstance(h, dict) and 'tags' in h else h)]
                 for k, h in s['hist']]
    return s
  return {'init': st(resp['init']),
          'steps': [{'res': x['res'], 'state': st(x['state'])} for x in resp['steps']]}


def diff_fields(real, model, fields):
  """List of (where, field, real, model) differences restricted to `fields`."""
  diffs = []
  if (real['init'] == 'err') != (model['init'] == 'err'):
    return [('init', 'raised', real['init'] if real['init'] == 'err' else 'ok',
             model['init'] if model['init'] == 'err' else 'ok')]
  if real['init'] == 'err':
    return []

  def cmp(where, rs, ms):
    for f in fields:
      a, b = rs.get(f), ms.get(f)
      if f == 'seqs':
        # absolute sequence numbers are global; compare count and strict monotonicity only
        a = [len(a), all(x < y for x, y in zip(a, a[1:]))]
        b = [len(b), all(x < y for x, y in zip(b, b[1:]))]
      if a != b:
        diffs.append((where, f, a, b))
  cmp('init', real['init'], model['init'])
  for i, (rs, ms) in enumerate(zip(real['steps'], model['steps'])):
    if 'res' in fields and rs['res'] != ms['res']:
      diffs.append((f'step{i}', 'res', rs['res'], ms['res']))
    cmp(f'step{i}', rs['state'], ms['state'])
  return diffs


def gen_tag_ops(r, sig, fresh, n_ops):
  """Edit histories for C16/C14: the ops of C03 interleaved with tag edits, TaggedValue
  assignments, materialize_defaults and tracking switches."""
  named = [p[0] for p in sig]
  P = len([p for p in sig if p[1] in ('po', 'pk')])
  has_vp = any(p[1] == 'vp' for p in sig)
  ops = []
  for _ in range(n_ops):
    x = r.random()
    if x < 0.45:
      ops += gen_ops(r, sig, fresh, 1, with_tracking=True, allow_tv=True)
      continue
    if r.random() < 0.5 and named:
      key = r.choice(named + ['x'])
    else:
      key = r.randint(-1, P + (2 if has_vp else 0))
    t = r.randrange(len(targets.TAGS))
    if x < 0.62:
      ops.append(['addtag', key, t])
    elif x < 0.72:
      ops.append(['removetag', key, t])
    elif x < 0.78:
      ops.append(['cleartags', key])
    elif x < 0.86:
      ops.append(['settags', key, r.sample(range(len(targets.TAGS)), r.randint(0, 3))])
    elif x < 0.895 and len(named) >= 2:
      # ONE TaggedValue object assigned to two arguments, usually followed by a tag edit of one
      a, b = r.sample(named, 2)
      tags = r.sample(range(len(targets.TAGS)), r.randint(1, 2))
      ops.append(['setattr2', a, b, {'tv': tags, 'in': next(fresh.c) if r.random() < 0.7 else None}])
      if r.random() < 0.7:
        ops.append([r.choice(['addtag', 'removetag', 'cleartags']), r.choice([a, b])] +
                   ([t] if ops[-1][0] != 'x' else []))
        if ops[-1][0] == 'cleartags':
          ops[-1] = ['cleartags', ops[-1][1]]
    elif x < 0.91:
      ops.append(['materialize'])
    elif x < 0.95:
      kvs = [[r.choice(named + ['x', 'y']) if named else 'x', fresh.val(r, sig)] for _ in range(r.randint(1, 3))]
      seen = set()
      kvs = [kv for kv in kvs if not (kv[0] in seen or seen.add(kv[0]))]
      ops.append([r.choice(['assign', 'copy_with']), kvs])
    elif x < 0.975:
      # switch to a callable with another signature (keeps, drops or rejects stored arguments)
      new_sig = random_sig(r, max_named=5) if r.random() < 0.6 else rekind_sig(r, sig)
      ops.append(['update_callable', new_sig, r.random() < 0.6])
      sig = new_sig
      named = [p[0] for p in sig]
      P = len([p for p in sig if p[1] in ('po', 'pk')])
      has_vp = any(p[1] == 'vp' for p in sig)
    else:
      ops.append([r.choice(['suspend', 'resume', 'enter_suspend', 'enter_suspend', 'exit_suspend', 'exit_suspend'])])
  return ops
