"""The reference model of C03 (DESIGN.md Appendix B), written directly from the property
statement: named parameters are a dict restricted to the signature, the positional view is a
Python list whose non-variadic prefix has fixed length.  Independent of the Lean model and of
Fiddle's implementation; values are protocol values."""
from __future__ import annotations

import copy


class Raises(Exception):
  pass


UNSET = object()


class Ref:

  def __init__(self, sig):
    self.sig = sig
    self.pos = [p for p in sig if p[1] in ('po', 'pk')]
    self.P = len(self.pos)
    self.has_vp = any(p[1] == 'vp' for p in sig)
    self.has_vk = any(p[1] == 'vk' for p in sig)
    self.slots = [UNSET] * self.P
    self.var = []
    self.ko = {p[0]: UNSET for p in sig if p[1] == 'ko'}
    self.extra = {}        # insertion ordered

  # -- construction: Python call binding, partial ---------------------------------------
  @classmethod
  def construct(cls, sig, args, kwargs):
    self = cls(sig)
    if len(args) > self.P and not self.has_vp:
      raise Raises('too many positional')
    for i, v in enumerate(args[:self.P]):
      self.slots[i] = v
    self.var = list(args[self.P:])
    seen = set()
    for n, v in kwargs:
      if n in seen:
        raise Raises('dup')
      seen.add(n)
      p = next((q for q in sig if q[0] == n), None)
      if p is not None and p[1] == 'pk':
        i = self.pos.index(p)
        if self.slots[i] is not UNSET:
          raise Raises('multiple values')
        self.slots[i] = v
      elif p is not None and p[1] == 'ko':
        self.ko[n] = v
      elif p is not None and p[1] == 'po' and self.slots[self.pos.index(p)] is UNSET:
        raise Raises('positional-only passed as keyword')
      elif self.has_vk:
        self.extra[n] = v
      else:
        raise Raises('unexpected keyword')
    return self

  # -- reports --------------------------------------------------------------------------
  def default(self, p):
    return {'d': p[0]} if p[2] else None

  def shown(self, i):
    if self.slots[i] is not UNSET:
      return self.slots[i]
    d = self.default(self.pos[i])
    return d if d is not None else 'nov'

  def view(self):
    return [self.shown(i) for i in range(self.P)] + list(self.var)

  def L(self):
    return self.P + len(self.var)

  def ordered(self, var_keyword=True, defaults=False, unset=False, positional=True,
              equal_to_default=True):
    if not equal_to_default and defaults:
      raise Raises('flags')
    out = []

    def named(key, p, stored):
      if stored is not UNSET:
        v = stored
      elif p[2]:
        if not defaults:
          return
        v = {'d': p[0]}
      elif unset:
        v = 'nov'
      else:
        return
      if not equal_to_default and p[2] and v == {'d': p[0]}:
        return
      out.append([key, v])
    for i, p in enumerate(self.pos):
      named(i if p[1] == 'po' else p[0], p, self.slots[i])
    for j, v in enumerate(self.var):
      out.append([self.P + j, v])
    for p in self.sig:
      if p[1] == 'ko':
        named(p[0], p, self.ko[p[0]])
    if var_keyword:
      for n, v in self.extra.items():
        out.append([n, v])
    if not positional:
      out = [kv for kv in out if isinstance(kv[0], str)]
    return out

  def dir(self):
    return sorted(set([p[0] for p in self.sig if p[1] in ('pk', 'ko')]) | set(self.extra))

  # -- attribute ops ---------------------------------------------------------------------
  def param(self, n):
    return next((q for q in self.sig if q[0] == n), None)

  def getattr(self, n):
    p = self.param(n)
    if n in self.extra:
      return self.extra[n]
    if p is not None and p[1] in ('po', 'vp'):
      raise Raises('positional by name')
    if p is not None and p[1] == 'pk':
      s = self.slots[self.pos.index(p)]
    elif p is not None and p[1] == 'ko':
      s = self.ko[n]
    else:
      s = self.extra.get(n, UNSET)
    if s is not UNSET:
      return s
    if p is not None and p[1] in ('pk', 'ko') and p[2]:
      return {'d': n}
    raise Raises('not set')

  def setattr(self, n, v):
    p = self.param(n)
    if p is not None and p[1] in ('po', 'vp'):
      raise Raises('positional by name')
    if p is not None and p[1] == 'pk':
      self.slots[self.pos.index(p)] = v
    elif p is not None and p[1] == 'ko':
      self.ko[n] = v
    elif self.has_vk:
      self.extra[n] = v
    else:
      raise Raises('unknown name')

  def delattr(self, n):
    p = self.param(n)
    if p is not None and p[1] == 'pk':
      i = self.pos.index(p)
      if self.slots[i] is UNSET:
        raise Raises('not set')
      self.slots[i] = UNSET
    elif p is not None and p[1] == 'ko':
      if self.ko[n] is UNSET:
        raise Raises('not set')
      self.ko[n] = UNSET
    elif n in self.extra:
      del self.extra[n]
    else:
      raise Raises('not set')

  # -- positional ops --------------------------------------------------------------------
  def norm(self, i):
    L = self.L()
    if i < 0:
      i += L
    if not 0 <= i < L:
      raise Raises('index out of range')
    return i

  def resolve(self, x):
    if x == 'V':
      if not self.has_vp:
        raise Raises('no varargs')
      return self.P
    return x

  def getitem(self, i):
    return self.view()[self.norm(i)]

  def py_slice(self, sl):
    if sl[2] == 0:
      raise Raises('zero step')
    return slice(self.resolve(sl[0]), self.resolve(sl[1]), sl[2])

  def getslice(self, sl):
    return self.view()[self.py_slice(sl)]

  def put(self, i, v):
    if i < self.P:
      self.slots[i] = v
    else:
      self.var[i - self.P] = v

  def setitem(self, i, v):
    self.put(self.norm(i), v)

  def setslice(self, sl, vs):
    s = self.py_slice(sl)
    L = self.L()
    ind = s.indices(L)
    I = list(range(*ind))
    fixed = (not self.has_vp) or (any(i < self.P for i in I) if I else ind[0] < self.P)
    if fixed:
      if len(vs) != len(I):
        raise Raises('length-changing slice over the fixed prefix')
      for i, v in zip(I, vs):
        self.put(i, v)
    else:
      w = self.view()
      try:
        w[s] = list(vs)
      except ValueError:
        raise Raises('extended slice size')
      self.var = w[self.P:]

  def delitem(self, i):
    i = self.norm(i)
    if i < self.P:
      self.slots[i] = UNSET
    else:
      del self.var[i - self.P]

  def delslice(self, sl):
    s = self.py_slice(sl)
    I = list(range(*s.indices(self.L())))
    for i in I:
      if i < self.P:
        self.slots[i] = UNSET
    drop = {i - self.P for i in I if i >= self.P}
    self.var = [v for j, v in enumerate(self.var) if j not in drop]

  # -- driver ----------------------------------------------------------------------------
  def step(self, op):
    """Returns the op's result in protocol form ('ok', a value, a list, or 'err'); on 'err'
    the state is unchanged."""
    saved = copy.deepcopy((self.slots, self.var, self.ko, self.extra))
    name = op[0]
    try:
      if name == 'getattr':
        return self.getattr(op[1])
      if name == 'setattr':
        self.setattr(op[1], op[2])
      elif name == 'delattr':
        self.delattr(op[1])
      elif name == 'getitem':
        return self.getitem(op[1])
      elif name == 'getslice':
        return self.getslice(op[1])
      elif name == 'setitem':
        self.setitem(op[1], op[2])
      elif name == 'setvar':
        if not self.has_vp:
          raise Raises('no varargs')
        self.setitem(self.P, op[1])
      elif name == 'setslice':
        self.setslice(op[1], op[2])
      elif name == 'delitem':
        self.delitem(op[1])
      elif name == 'delslice':
        self.delslice(op[1])
      elif name in ('suspend', 'resume'):
        pass
      else:
        raise AssertionError(name)
    except Raises:
      self.slots, self.var, self.ko, self.extra = saved
      # UNSET must stay the singleton after deepcopy
      return 'err'
    return 'ok'

  def reports(self):
    def oa(**f):
      try:
        return self.ordered(**f)
      except Raises:
        return 'err'
    return {
        'view': self.view(),
        'oa': oa(),
        'oa_defaults': oa(defaults=True),
        'oa_unset': oa(unset=True),
        'oa_nopos': oa(positional=False),
        'oa_novk': oa(var_keyword=False),
        'oa_noeq': oa(equal_to_default=False),
        'oa_all': oa(defaults=True, unset=True),
        'dir': self.dir(),
    }


# deepcopy must preserve the UNSET singleton
copy._deepcopy_dispatch[type(UNSET)] = lambda x, memo: x
