"""Callables living in two modules with the same last name (`harness.c13lib.layers` and a
top-level `layers`), for import-naming clashes in generated code."""
