from harness.targets import Rec


def Dense(units=0, inner=None):  # pylint: disable=invalid-name
  return Rec('top.layers.Dense', [('units', units), ('inner', inner)], (), {})
