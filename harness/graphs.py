"""Graph layer of the harness: random configuration DAGs, the heap encoding sent to the Lean
driver, and the identity-aware canonical form used to compare object graphs."""
from __future__ import annotations

import json

import collections
import enum
import functools
import typing

import fiddle as fdl
from fiddle import daglish
from fiddle._src import config as config_lib
from fiddle._src import partial as partial_lib

from harness import targets
from harness.targets import Dflt, Rec, Tok

# ----------------------------------------------------------------------------------------
# node types used by the generators


class NT(typing.NamedTuple):
  u: typing.Any
  v: typing.Any = 7


NT2 = collections.namedtuple('NT2', ['first', 'second'])


class NTSub(NT2):
  """A class inheriting from a namedtuple class (still a named tuple for daglish)."""
  __slots__ = ()


class Color(enum.Enum):
  RED = 1
  BLUE = 2


class Pair:
  """A user-registered custom node type whose flatten creates temporaries."""

  def __init__(self, left, right):
    self.left, self.right = left, right

  def __eq__(self, other):
    return isinstance(other, Pair) and self.left == other.left and self.right == other.right

  __hash__ = None


def _register_pair():
  try:
    daglish.register_node_traverser(
        Pair,
        flatten_fn=lambda p: (tuple([p.left, p.right]), None),   # fresh tuple/list temporaries
        unflatten_fn=lambda values, _: Pair(*values),
        path_elements_fn=lambda p: (daglish.Attr('left'), daglish.Attr('right')))
  except ValueError:
    pass


_register_pair()

KW_SIGS = [
    [['p', 'pk', False], ['q', 'pk', True]],
    [['p', 'pk', True], ['q', 'pk', True], ['r', 'pk', True]],
    [['p', 'pk', False], ['k', 'ko', True], ['kw', 'vk', False]],
    [['a', 'po', False], ['p', 'pk', True], ['args', 'vp', False], ['k', 'ko', True]],
    [['a', 'po', True], ['b', 'po', True], ['p', 'pk', True]],
    [['p', 'pk', True], ['args', 'vp', False], ['kw', 'vk', False]],
    [['a', 'po', False], ['p', 'pk', True], ['kw', 'vk', False]],
]
FN_NAMES = ['f', 'g', 'h']


def node_fn(sig_i, name_i, species='function'):
  return targets.make_fn(KW_SIGS[sig_i], species, fn_name=f'{FN_NAMES[name_i]}{sig_i}')


# ----------------------------------------------------------------------------------------
# random DAGs


class GraphGen:
  """Builds a random DAG of Buildables and containers bottom-up: every new node picks its
  children among leaves and previously created nodes (sharing), so the result is acyclic."""

  def __init__(self, r, *, size=10, positional=True, tags=False, partials=False, custom=True,
               buildable_types=(fdl.Config,), leaf_values=None, nt_bias=0.0, classes=0.0,
               duck=0.0, tagged_values=0.0):
    self.nt_bias = nt_bias
    self.duck = duck
    self.tagged_values = tagged_values
    self.classes = classes
    self.r = r
    self.size = size
    self.positional = positional
    self.tags = tags
    self.custom = custom
    self.buildable_types = buildable_types
    self.pool = []
    self.counter = 0
    self.leaf_values = leaf_values

  def leaf(self):
    r = self.r
    self.counter += 1
    x = r.random()
    if self.leaf_values is not None:
      return r.choice(self.leaf_values)
    if x < 0.35:
      return r.randint(0, 3)
    if x < 0.5:
      return r.choice(['s', 't', ''])
    if x < 0.6:
      return None
    if x < 0.68:
      return r.choice([Color.RED, Color.BLUE])
    if x < 0.76:
      return ()
    if x < 0.84:
      return (1, 's')                       # internable tuple literal
    if x < 0.9:
      return r.choice([1.5, True])
    return Tok(1000 + self.counter)         # memoizable, not traversable

  def child(self, p_leaf=0.45):
    if not self.pool or self.r.random() < p_leaf:
      return self.leaf()
    # bias towards recent nodes (depth) but allow any (multi-depth reach)
    if self.r.random() < 0.5:
      return self.r.choice(self.pool[-4:])
    return self.r.choice(self.pool)

  def container(self):
    r = self.r
    x = r.random()
    n = r.randint(0, 3)
    kids = [self.child() for _ in range(n)]
    if self.tagged_values:
      # a filled TaggedValue that sits inside a container stays a node of its own (as a direct
      # argument it would be unwrapped); it builds to its value
      kids = [fdl.TaggedValue(tags=[r.choice(targets.TAGS)], default=k)
              if r.random() < self.tagged_values else k for k in kids]
    if r.random() < self.nt_bias:
      # named tuples (direct, typing.NamedTuple, and a class inheriting from one) holding nodes
      cls = r.choice([NT, NT2, NTSub])
      return cls(self.child(0.2), self.child(0.2))
    if x < 0.3:
      return list(kids)
    if x < 0.5:
      return tuple(kids) if kids else [self.child()]
    if x < 0.7:
      return {r.choice(['a', 'b', 'c', 1, 2, 'key with space']): k for k in kids}
    if x < 0.78:
      d = collections.defaultdict(list)
      for i, k in enumerate(kids):
        d[f'd{i}'] = k
      return d
    if x < 0.86:
      return NT(self.child(), self.child())
    if x < 0.92:
      return NTSub(self.child(), self.child())
    if x < 0.96 and self.custom:
      return Pair(self.child(), self.child())
    return NT2(self.child(), self.child())

  def buildable(self):
    r = self.r
    sig_i = r.randrange(len(KW_SIGS))
    sig = KW_SIGS[sig_i]
    fn = node_fn(sig_i, r.randrange(len(FN_NAMES)))
    if self.duck and r.random() < self.duck and not any(p[1] in ('po', 'vp') for p in sig):
      fn = node_fn(sig_i, r.randrange(len(FN_NAMES)), species='duck_class')
    if self.classes and r.random() < self.classes:
      sig_i = 1
      sig = KW_SIGS[1]
      fn = r.choice(targets.CLASSES)
    btype = r.choice(self.buildable_types)
    args, kwargs = [], {}
    pos = [p for p in sig if p[1] in ('po', 'pk')]
    has_vp = any(p[1] == 'vp' for p in sig)
    npos = 0
    if self.positional or any(p[1] == 'po' and not p[2] for p in sig):
      npos = r.randint(0, len(pos) + (2 if has_vp else 0))
      req_po = len([p for p in sig if p[1] == 'po' and not p[2]])
      npos = max(npos, req_po)
      if not self.positional:
        npos = req_po
      args = [self.child() for _ in range(npos)]
    for p in sig:
      if p[1] == 'pk' and pos.index(p) >= npos and (not p[2] or r.random() < 0.6):
        kwargs[p[0]] = self.child()
      elif p[1] == 'ko' and (not p[2] or r.random() < 0.5):
        kwargs[p[0]] = self.child()
    if any(p[1] == 'vk' for p in sig) and r.random() < 0.5:
      # **kwargs entries, also ones named like the variadic parameters themselves
      names = ['extra', 'extra', 'kw'] + (['args'] if has_vp else [])
      # ... or like a positional-only parameter that is bound positionally (legal in Python)
      names += [p[0] for i, p in enumerate(pos) if p[1] == 'po' and i < npos]
      kwargs[r.choice(names)] = self.child(0.2)
    cfg = btype(fn, *args, **kwargs)
    if self.tags and r.random() < 0.5:
      keys = list(cfg.__arguments__.keys())
      if keys:
        k = r.choice(keys)
        try:
          fdl.add_tag(cfg, k, r.choice(targets.TAGS))
        except (AttributeError, IndexError):
          pass      # a **kwargs entry named like a positional parameter cannot be tagged by name
    return cfg

  def generate(self):
    for _ in range(self.size):
      if self.r.random() < 0.55:
        node = self.buildable()
      else:
        node = self.container()
      self.pool.append(node)
      # equal-but-distinct twin
      if self.r.random() < 0.1:
        import copy
        self.pool.append(copy.copy(node) if not isinstance(node, (tuple,)) else node)
    # root reaches a good part of the pool
    roots = [n for n in self.pool[-3:]]
    x = self.r.random()
    if x < 0.6:
      root = self.buildable_with(roots)
    elif x < 0.8:
      root = list(roots)
    else:
      root = {'r%d' % i: n for i, n in enumerate(roots)}
    return root

  def buildable_with(self, kids):
    fn = node_fn(1, 0)
    names = ['p', 'q', 'r']
    return fdl.Config(fn, **{n: k for n, k in zip(names, kids)})


def gen_graph(r, size=10, **kw):
  return GraphGen(r, size=size, **kw).generate()


# ----------------------------------------------------------------------------------------
# atoms


def safe_repr(x) -> str:
  try:
    return repr(x)
  except Exception:
    return f'<{type(x).__name__}>'


def atom_token(x) -> str:
  if isinstance(x, enum.Enum):
    return f'enum:{type(x).__name__}.{x.name}'
  if type(x) not in (bool, int, float, complex, str, bytes) and isinstance(x, (int, float, complex, str, bytes)):
    # a user subclass of a primitive keeps its type in the token
    base = next(t for t in (bool, int, float, complex, str, bytes) if isinstance(x, t))
    return f'{type(x).__name__}({atom_token(base(x))})'
  if isinstance(x, bool):
    return f'bool:{x}'
  if isinstance(x, int):
    return f'int:{x:x}'        # hex: no digit limit for huge ints
  if isinstance(x, float):
    return f'float:{x!r}'
  if isinstance(x, complex):
    return f'complex:{x!r}'
  if isinstance(x, str):
    return f'str:{x!r}'
  if isinstance(x, bytes):
    return f'bytes:{x.hex()}'
  if x is None:
    return 'None'
  if isinstance(x, enum.Enum):
    return f'enum:{type(x).__name__}.{x.name}'
  if x is NotImplemented:
    return 'NotImplemented'
  if x is Ellipsis:
    return 'Ellipsis'
  if isinstance(x, tuple) and x == ():
    return 'tuple:()'
  if x is fdl.NO_VALUE:
    return 'NO_VALUE'
  raise TypeError(f'not an atom: {x!r}')


# The harness's own notion of "immutable scalar" (independent of daglish's predicates, which
# are part of the code under test).
_ATOM_TYPES = (bool, int, float, complex, str, bytes, enum.Enum, type(None), type(NotImplemented),
               type(Ellipsis))


def is_atom(x) -> bool:
  return isinstance(x, _ATOM_TYPES) or (type(x) is tuple and len(x) == 0)


def is_namedtuple(x) -> bool:
  t = type(x)
  return (isinstance(x, tuple) and t is not tuple and hasattr(t, '_fields') and hasattr(t, '_asdict')
          and all(isinstance(f, str) for f in t._fields))


def is_internable(x) -> bool:
  return is_atom(x) or (type(x) is tuple and all(is_internable(e) for e in x))


def callable_name(fn) -> str:
  if isinstance(fn, functools.partial):
    return 'partial(' + callable_name(fn.func) + ')'
  import inspect as _inspect
  if _inspect.ismethod(fn) and isinstance(fn.__self__, type):
    # a classmethod reached through a subclass is a different callable than through its base
    return f'{fn.__self__.__qualname__}.{fn.__name__}'
  if getattr(fn, '__module__', '') in ('layers', 'harness.c13lib.layers'):
    return f'{fn.__module__}:{fn.__qualname__}'       # same name in two modules
  return getattr(fn, '__qualname__', None) or getattr(fn, '__name__', None) or type(fn).__name__


def pelem_proto(pe):
  if isinstance(pe, daglish.Index):
    return ['i', pe.index]
  if isinstance(pe, daglish.Key):
    return ['k', atom_token(pe.key) if is_atom(pe.key) else safe_repr(pe.key)]
  if isinstance(pe, daglish.Attr):
    return ['a', pe.name]
  raise TypeError(pe)


def path_proto(path):
  return [pelem_proto(pe) for pe in path]


# ----------------------------------------------------------------------------------------
# heap encoding (children before parents: object id = index in the list)


def kind_of(x):
  if isinstance(x, fdl.Buildable):
    return 'cfg'
  t = type(x)
  if t is list:
    return 'list'
  if t is tuple:
    return 'tuple'
  if t is dict:
    return 'dict'
  if t is collections.defaultdict:
    return 'ddict'
  if is_namedtuple(x):
    return 'ntuple'
  if isinstance(x, Pair):
    return 'custom'
  return 'opaque'


def configured_args(cfg):
  """The configured arguments of a Buildable in signature order, read directly from its
  storage (independent of fdl.ordered_arguments): positional-only by index, named parameters by
  name, *args by contiguous indices, then every other string key (a **kwargs entry)."""
  import inspect
  store = cfg.__arguments__
  out = {}
  K = inspect.Parameter
  params = list(cfg.__signature_info__.parameters.values())
  kw_capable = {p.name for p in params if p.kind in (K.POSITIONAL_OR_KEYWORD, K.KEYWORD_ONLY)}
  for i, p in enumerate(params):
    if p.kind == K.POSITIONAL_ONLY:
      if i in store:
        out[i] = store[i]
    elif p.kind in (K.POSITIONAL_OR_KEYWORD, K.KEYWORD_ONLY):
      if p.name in store:
        out[p.name] = store[p.name]
    elif p.kind == K.VAR_POSITIONAL:
      j = i
      while j in store:
        out[j] = store[j]
        j += 1
  for k, v in store.items():
    if isinstance(k, str) and k not in kw_capable:
      out[k] = v
  return out


class Encoder:
  """Encodes a Python object graph as a topologically ordered heap. Independent of daglish's
  traversal machinery: children are read directly from the Python objects."""

  def __init__(self, with_defaults=True, atom_pred=None, transparent_tagged=False):
    self.transparent_tagged = transparent_tagged   # a filled stand-alone TaggedValue = its value
    self.with_defaults = with_defaults
    self.atom_pred = atom_pred      # extra values to encode by token instead of by identity
    self.objs = []
    self.ids = {}         # id(obj) -> index
    self.keep = []        # keep objects alive so id() stays unique
    self.onstack = set()

  def children(self, x, kind):
    if kind == 'cfg':
      out = []
      for k, v in configured_args(x).items():
        out.append((['i', k] if isinstance(k, int) else ['a', k], v))
      return out
    if kind in ('list', 'tuple'):
      return [(['i', i], v) for i, v in enumerate(x)]
    if kind in ('dict', 'ddict'):
      return [(['k', atom_token(k) if is_atom(k) else safe_repr(k)], v) for k, v in x.items()]
    if kind == 'ntuple':
      return [(['a', n], v) for n, v in x._asdict().items()]
    if kind == 'custom':
      if isinstance(x, Pair):
        return [(['a', 'left'], x.left), (['a', 'right'], x.right)]
      tr = daglish.find_node_traverser(type(x))
      vals, _ = tr.flatten(x)
      return [(pelem_proto(pe), v) for pe, v in zip(tr.path_elements(x), vals)]
    return []

  def val(self, x):
    if is_atom(x):
      return {'a': atom_token(x)}
    if self.transparent_tagged and isinstance(x, config_lib.TaggedValueCls) and 'value' in x.__arguments__:
      self.keep.append(x)
      return self.val(x.__arguments__['value'])
    if self.atom_pred is not None and id(x) not in self.ids:
      tok = self.atom_pred(x)
      if tok:
        return {'a': tok if isinstance(tok, str) else 'val:' + safe_repr(x)}
    if id(x) in self.ids:
      return {'r': self.ids[id(x)]}
    if id(x) in self.onstack:
      raise ValueError('cycle')
    self.onstack.add(id(x))
    kind = kind_of(x)
    ch = [[pe, self.val(v)] for pe, v in self.children(x, kind)]
    self.onstack.discard(id(x))
    obj = {'k': kind, 'ch': ch}
    if kind == 'cfg':
      obj['bk'] = type(x).__name__
      obj['fn'] = callable_name(x.__fn_or_cls__)
      obj['sig'] = sig_of(x)
      # default objects of the parameters (identity matters: a default may be shared)
      import inspect as _inspect
      dfl = []
      for i, prm in enumerate(x.__signature_info__.parameters.values() if self.with_defaults else ()):
        if prm.default is not prm.empty and prm.kind not in (prm.VAR_POSITIONAL, prm.VAR_KEYWORD):
          pe = ['i', i] if prm.kind == prm.POSITIONAL_ONLY else ['a', prm.name]
          dfl.append([pe, self.val(prm.default)])
      obj['dfl'] = dfl
      obj['tags'] = sorted(([k, sorted(targets.tag_no(t) for t in ts)]
                            for k, ts in x.__argument_tags__.items() if ts), key=repr)
    elif kind in ('ntuple', 'custom'):
      obj['t'] = type(x).__name__
    elif kind == 'opaque':
      obj['t'] = opaque_token(x)
    idx = len(self.objs)
    self.objs.append(obj)
    self.ids[id(x)] = idx
    self.keep.append(x)
    return {'r': idx}


KIND_NAME = {'ddict': 'defaultdict'}


def unique_fn_names(enc, req):
  """Names the callable of every encoded Buildable uniquely per callable *object* (two distinct
  callables may share a __qualname__) and rewrites the request; returns the naming function."""
  names, used = {}, {}

  def name_of(fn):
    if id(fn) in names:
      return names[id(fn)][1]
    base = callable_name(fn)
    n = used.get(base, 0)
    used[base] = n + 1
    nm = base if n == 0 else f'{base}#{n}'
    names[id(fn)] = (fn, nm)
    return nm
  for obj, x in zip(req['objs'], enc.keep):
    if obj['k'] == 'cfg':
      obj['fn'] = name_of(x.__fn_or_cls__)
  return name_of


def shape_val(x, enc, new_tokens=()):
  """Mirror of Driver.Graph.shapeVal: containers expanded, Buildables by encoded identity."""
  for pred, tok in new_tokens:
    if pred(x):
      return {'a': tok}
  if is_atom(x):
    return {'a': atom_token(x)}
  kind = kind_of(x)
  if kind == 'cfg':
    return {'r': enc.ids.get(id(x))}
  if kind == 'opaque':
    return {'o': opaque_token(x)}
  return {'c': KIND_NAME.get(kind, kind),
          'ch': [[pe, shape_val(v, enc, new_tokens)] for pe, v in enc.children(x, kind)]}


def cfg_shapes(nodes, enc, name_of, new_tokens=()):
  """Mirror of Driver.Graph.cfgShapes for the given Buildables (sorted by encoded identity)."""
  out = []
  for n in sorted(nodes, key=lambda n: enc.ids[id(n)]):
    tags = sorted(([k, sorted(targets.tag_no(t) for t in ts)]
                   for k, ts in n.__argument_tags__.items() if ts), key=repr)
    out.append([enc.ids[id(n)], name_of(n.__fn_or_cls__),
                [[pe, shape_val(v, enc, new_tokens)] for pe, v in enc.children(n, 'cfg')], tags])
  return out


def norm_shapes(shapes):
  """Argument order of a Buildable is not part of the compared state: sort by key."""
  if shapes is None:
    return None
  return [[e[0], e[1], sorted(e[2], key=lambda c: json.dumps(c[0])), e[3]] for e in shapes]


def matcher_request(enc, target, match_subclasses, btype, name_of):
  universe = [x.__fn_or_cls__ for x in enc.keep if kind_of(x) == 'cfg'] + list(targets.CLASSES) + [target]
  classes = {}
  for c in universe:
    if isinstance(c, type):
      classes[name_of(c)] = [name_of(b) for b in c.__mro__[1:] if b is not object]
  bks = {}
  for t in [type(x) for x in enc.keep if kind_of(x) == 'cfg'] + [btype]:
    bks[t.__name__] = [b.__name__ for b in t.__mro__[1:]]
  return {'target': None if target is None else name_of(target), 'match_sub': bool(match_subclasses),
          'btype': btype.__name__, 'classes': sorted(classes.items()), 'bk_bases': sorted(bks.items())}


def opaque_token(x):
  if isinstance(x, Tok):
    return f'Tok:{x.n}'
  if isinstance(x, Dflt):
    return f'Dflt:{x.name}'
  if isinstance(x, (set, frozenset)):
    return f'{type(x).__name__}:{sorted(map(repr, x))}'
  if callable(x):
    return 'callable:' + callable_name(x)
  if isinstance(x, slice):
    return f'slice:{safe_repr(x.start)}:{safe_repr(x.stop)}:{safe_repr(x.step)}'
  if isinstance(x, range):
    return f'range:{x.start}:{x.stop}:{x.step}'
  return f'{type(x).__name__}'


def sig_of(cfg):
  import inspect
  out = []
  K = inspect.Parameter
  kinds = {K.POSITIONAL_ONLY: 'po', K.POSITIONAL_OR_KEYWORD: 'pk', K.VAR_POSITIONAL: 'vp',
           K.KEYWORD_ONLY: 'ko', K.VAR_KEYWORD: 'vk'}
  for p in cfg.__signature_info__.parameters.values():
    out.append([p.name, kinds[p.kind], p.default is not p.empty])
  return out


def encode(root, **kw):
  e = Encoder(**kw)
  rv = e.val(root)
  return {'objs': e.objs, 'root': rv}, e


# ----------------------------------------------------------------------------------------
# canonical form (identity aware)


def canon(root, *, order_dicts=False, with_tags=True, ituples=False):
  """DFS from the root in child order; memoizable objects are numbered at first visit and
  later visits print ('^', n); atoms print as tokens. Built recording results print callable +
  binding; functools.partial objects print (func, args, keywords)."""
  seen = {}
  keep = []
  counter = [0]

  def go(x):
    if isinstance(x, (tuple,)) and x == () and type(x) is tuple:
      return 'tuple:()'
    try:
      if is_atom(x):
        return atom_token(x)
    except TypeError:
      pass
    if ituples and type(x) is tuple and is_internable(x):
      # a tuple of literals: Python may merge equal ones (constant folding), so whether two
      # positions hold "the same" such tuple is not an observable of a configuration
      return ['ituple', [go(e) for e in x]]
    if id(x) in seen:
      return ['^', seen[id(x)]]
    n = counter[0]
    counter[0] += 1
    seen[id(x)] = n
    keep.append(x)
    if isinstance(x, fdl.Buildable):
      items = list(configured_args(x).items())
      if order_dicts:
        items = sorted(items, key=lambda kv: repr(kv[0]))      # **kwargs insertion order is ignored
      out = ['cfg', n, type(x).__name__, callable_name(x.__fn_or_cls__),
             [[k, go(v)] for k, v in items]]
      if with_tags:
        out.append(sorted(([k, sorted(targets.tag_no(t) if t in targets.TAGS else str(t) for t in ts)]
                           for k, ts in x.__argument_tags__.items() if ts), key=repr))
      return out
    if isinstance(x, Rec):
      kw_items = sorted(x.kw.items()) if order_dicts else list(x.kw.items())
      return ['rec', n, x.fn_name, [[k, go(v)] for k, v in x.slots], [go(v) for v in x.var],
              [[k, go(v)] for k, v in kw_items]]
    if hasattr(x, 'rec') and isinstance(getattr(x, 'rec'), Rec):
      # an instance of a recording class is identified with its record (one object, one number)
      rec = x.rec
      seen[id(rec)] = n
      keep.append(rec)
      kw_items = sorted(rec.kw.items()) if order_dicts else list(rec.kw.items())
      return ['rec', n, rec.fn_name, [[k, go(v)] for k, v in rec.slots], [go(v) for v in rec.var],
              [[k, go(v)] for k, v in kw_items]]
    if isinstance(x, functools.partial):
      return ['partial', n, go(x.func), [go(v) for v in x.args],
              [[k, go(v)] for k, v in x.keywords.items()]]
    t = type(x)
    if t is list:
      return ['list', n, [go(v) for v in x]]
    if t is tuple:
      return ['tuple', n, [go(v) for v in x]]
    if t is dict or t is collections.defaultdict:
      pairs = [(atom_token(k) if is_atom(k) else safe_repr(k), v) for k, v in x.items()]
      if order_dicts:
        pairs = sorted(pairs, key=lambda kv: kv[0])       # canonical traversal order
      return [t.__name__, n, [[k, go(v)] for k, v in pairs]]
    if is_namedtuple(x):
      return ['ntuple', n, t.__name__, [[k, go(v)] for k, v in x._asdict().items()]]
    if isinstance(x, Pair):
      return ['Pair', n, go(x.left), go(x.right)]
    if isinstance(x, (set, frozenset)):
      return [t.__name__, n, sorted(repr(v) for v in x)]
    return ['opaque', n, opaque_token(x)]
  return go(root)


def skeleton(root, _depth=0):
  """The unfolding of `root` with identities erased: shared objects are expanded at every
  occurrence (values and types only, no sharing)."""
  c = canon(root)
  table = {}

  def index(node):
    if isinstance(node, list) and node and node[0] != '^' and len(node) > 1 and isinstance(node[1], int):
      table[node[1]] = node
    if isinstance(node, list):
      for v in node:
        index(v)
  index(c)

  def expand(node):
    if isinstance(node, list):
      if len(node) == 2 and node[0] == '^':
        return expand(table[node[1]])
      return [expand(v) if not (i == 1 and isinstance(v, int) and isinstance(node[0], str)) else 0
              for i, v in enumerate(node)]
    return node
  return expand(c)


def strip_ids(c):
  """Deprecated helper kept for replay files: erase visit numbers of a canonical form."""
  if isinstance(c, list):
    if c and c[0] == '^':
      return ['^']
    return [strip_ids(v) if i != 1 or not isinstance(v, int) else 0 for i, v in enumerate(c)]
  return c


# ----------------------------------------------------------------------------------------
# reference build (independent re-implementation of the property's right-hand side)


def ref_build(root):
  """Builds `root` the way the property describes: each distinct Buildable / container
  instance once (memo by identity), children first, every callable called directly on what
  the Config reports (cfg[:] + keyword arguments)."""
  memo = {}
  keep = []

  def go(x):
    if is_atom(x):
      return x
    if id(x) in memo:
      return memo[id(x)]
    keep.append(x)
    kind = kind_of(x)
    if kind == 'cfg':
      oa = configured_args(x)
      built = {k: go(v) for k, v in oa.items()}
      sig = sig_of(x)
      pos = [p for p in sig if p[1] in ('po', 'pk')]
      P = len(pos)
      # positional-only parameters and *args can only be passed positionally
      last_po = max([i for i, p in enumerate(pos) if p[1] == 'po'] + [-1])
      var = [built[k] for k in sorted(k for k in built if isinstance(k, int) and k >= P)]
      n_pos = P if var else last_po + 1
      args = []
      for i in range(n_pos):
        p = pos[i]
        key = i if p[1] == 'po' else p[0]
        if key in built:
          args.append(built[key])
        elif p[2]:
          args.append(Dflt(p[0]))
        else:
          raise TypeError(f'missing positional {p[0]}')
      args += var
      passed = [pos[i][0] for i in range(n_pos) if pos[i][1] == 'pk']
      kwargs = {k: v for k, v in built.items() if isinstance(k, str) and k not in passed}
      if isinstance(x, config_lib.TaggedValueCls):
        res = config_lib.tagged_value_fn(*args, tags=x.tags, **kwargs)
      elif type(x) is fdl.Config:
        res = x.__fn_or_cls__(*args, **kwargs)
      else:
        raise NotImplementedError(type(x))
    elif kind == 'list':
      res = [go(v) for v in x]
    elif kind == 'tuple':
      res = tuple(go(v) for v in x)
    elif kind == 'dict':
      res = {k: go(v) for k, v in x.items()}
    elif kind == 'ddict':
      res = collections.defaultdict(x.default_factory, {k: go(v) for k, v in x.items()})
    elif kind == 'ntuple':
      res = type(x)(*[go(v) for v in x])
    elif kind == 'custom' and isinstance(x, Pair):
      res = Pair(go(x.left), go(x.right))
    else:
      res = x
    memo[id(x)] = res
    return res
  return go(root)


# ----------------------------------------------------------------------------------------
# real traversal observations (same shapes as Driver/Graph.lean)


def vproto(enc, v):
  if is_atom(v):
    return {'a': atom_token(v)}
  return {'r': enc.ids.get(id(v), -1)}


def real_traversals(root, enc, queries):
  out = {}
  for q in queries:
    try:
      if q == 'iterate_memo':
        out[q] = [[vproto(enc, v), path_proto(p)] for v, p in daglish.iterate(root)]
      elif q == 'iterate_basic':
        out[q] = [[vproto(enc, v), path_proto(p)] for v, p in daglish.iterate(root, memoized=False)]
      elif q == 'iterate_noint':
        out[q] = [[vproto(enc, v), path_proto(p)]
                  for v, p in daglish.iterate(root, memoized=True, memoize_internables=False)]
      elif q == 'paths_by_id':
        d = daglish.collect_paths_by_id(root, memoizable_only=True)
        out[q] = sorted([enc.ids.get(i, -1), path_proto(p)] for i, ps in d.items() for p in ps)
      elif q == 'all_paths':
        res = []

        def fn(v, state):
          got = state.get_all_paths()
          res.append([path_proto(state.current_path), [path_proto(p) for p in got]])
          # the answer belongs to the caller: editing it must not change later answers
          if isinstance(got, list):
            del got[:]
          for _ in state.yield_map_child_values(v, ignore_leaves=True):
            pass
        tr = daglish.BasicTraversal(fn, root)
        fn(root, tr.initial_state())
        out[q] = res
    except Exception as e:
      out[q] = {'raised': type(e).__name__}
  return out
