"""Reads the module text the code generators emit into the statement language of the Lean
model (Model/Codegen.lean): assignments of expressions to variables and a `return`, where an
expression is a literal, a variable or an object-creating constructor call / container display.
Leaf expressions (enum members, classes, special floats, ...) are evaluated in the emitted
module's own namespace and enter the model as tokens."""
from __future__ import annotations

import ast
import functools

import fiddle as fdl
from fiddle._src import tagging
from fiddle._src.experimental import with_tags as with_tags_lib

from harness import graphs, targets


class Unsupported(Exception):
  pass


def token_of(x):
  """Token of a leaf value (same rule as `leaf_atom_pred` gives the encoder)."""
  if graphs.is_atom(x):
    return graphs.atom_token(x)
  return 'val:' + (graphs.callable_name(x) if callable(x) and hasattr(x, '__name__') else graphs.safe_repr(x))


def leaf_atom_pred(x):
  """Everything that is neither a Buildable nor a (non-internable) container is a token."""
  if graphs.is_atom(x) or graphs.kind_of(x) == 'opaque':
    return token_of(x)
  return None              # tuples (also tuples of literals) are nodes; see canon_heap


class Translator:
  def __init__(self, tree, namespace, auto):
    self.ns = namespace
    self.auto = auto
    self.funcs = {n.name: n for n in tree.body if isinstance(n, ast.FunctionDef)}
    self.assigns = []
    self.counter = 0
    self.opaque_calls = set()
    self.tagged_vars = {}   # local name -> (variable of the value or None, tag numbers)
    self.consts = {}        # local names bound to literal (atom) values: usable inside leaf expressions

  def fresh(self):
    self.counter += 1
    return self.counter

  def pyeval(self, node):
    ns = dict(self.ns)
    ns.update(self.consts)
    return eval(compile(ast.Expression(node), '<leaf>', 'eval'), ns)

  def try_pyeval(self, node):
    try:
      return True, self.pyeval(node)
    except Exception:
      return False, None

  # -- expressions ---------------------------------------------------------------------
  def expr(self, node, env):
    if isinstance(node, ast.Name) and node.id in env and node.id not in self.consts:
      return {'v': env[node.id]}
    if isinstance(node, ast.Call):
      return self.call(node, env)
    if isinstance(node, (ast.List, ast.Tuple, ast.Dict)):
      return self.display(node, env)
    if self.mentions_local(node, env):
      raise Unsupported(f'expression over local variables: {ast.unparse(node)}')
    val = self.pyeval(node)
    tok = leaf_atom_pred(val)
    if tok is None:
      raise Unsupported(f'leaf expression evaluates to a container/Buildable: {ast.unparse(node)}')
    return {'a': tok}

  def mentions_local(self, node, env):
    return any(isinstance(n, ast.Name) and n.id in env and n.id not in self.consts for n in ast.walk(node))

  def display(self, node, env):
    if isinstance(node, ast.Dict):
      ch = []
      for k, v in zip(node.keys, node.values):
        if k is None:
          raise Unsupported('dict unpacking')
        kv = self.pyeval(k)
        ch.append([['k', graphs.atom_token(kv) if graphs.is_atom(kv) else graphs.safe_repr(kv)], self.expr(v, env)])
      return {'n': {'k': 'dict', 'ch': ch}}
    kind = 'list' if isinstance(node, ast.List) else 'tuple'
    if any(isinstance(e, ast.Starred) for e in node.elts):
      raise Unsupported('starred display')
    return {'n': {'k': kind, 'ch': [[['i', i], self.expr(e, env)] for i, e in enumerate(node.elts)]}}

  def tagged(self, node, env):
    """(value expression or None, tag numbers) when `node` is TaggedValue(...) / with_tags(...);
    a tagged value given as the value of a tagged value merges into it."""
    r = self.tagged1(node, env)
    while r is not None and r[0] is not None:
      inner = self.tagged1(r[0], env)
      if inner is None:
        break
      r = (inner[0], sorted(set(r[1]) | set(inner[1])))
    return r

  def tagged1(self, node, env):
    if not isinstance(node, ast.Call) or self.mentions_local(node.func, env):
      return None
    ok, f = self.try_pyeval(node.func)
    if not ok:
      return None
    if f is fdl.TaggedValue or f is tagging.TaggedValue:
      kw = {k.arg: k.value for k in node.keywords}
      tags = self.pyeval(kw['tags'])
      return (kw.get('default'), sorted(targets.tag_no(t) for t in tags))
    if f is with_tags_lib.with_tags:
      tags = []
      for a in node.args[1:]:
        t = self.pyeval(a)
        tags.extend(t if isinstance(t, (list, tuple, set, frozenset)) else [t])
      return (node.args[0], sorted(targets.tag_no(t) for t in tags))
    return None

  def cfg_node(self, fn, bk, keywords, env, positional=()):
    ch, tags = [], []
    positional = list(positional)
    if any(isinstance(a, ast.Starred) for a in positional):
      flat = []
      for a in positional:
        if isinstance(a, ast.Starred):
          if not isinstance(a.value, (ast.List, ast.Tuple)) or any(isinstance(e, ast.Starred) for e in a.value.elts):
            raise Unsupported('*splat of a non-literal')
          flat.extend(a.value.elts)          # f(*[x, y]) is f(x, y)
        else:
          flat.append(a)
      positional = flat
    keywords = list(keywords)
    if any(k.arg is None for k in keywords):
      flat = []
      for k in keywords:
        if k.arg is None:
          if not isinstance(k.value, ast.Dict) or any(kk is None or not isinstance(kk, ast.Constant) or not isinstance(kk.value, str)
                                                       for kk in k.value.keys):
            raise Unsupported('**splat of a non-literal')
          for kk, vv in zip(k.value.keys, k.value.values):      # f(**{'a': x}) is f(a=x)
            flat.append(ast.keyword(arg=kk.value, value=vv))
        else:
          flat.append(k)
      keywords = flat
    if positional:
      import inspect
      try:
        params = list(inspect.signature(fn).parameters.values())
      except (TypeError, ValueError):
        raise Unsupported('callable without a signature')
      for i, a in enumerate(positional):
        K = inspect.Parameter
        if i < len(params) and params[i].kind is K.POSITIONAL_OR_KEYWORD:
          key = ['a', params[i].name]
        elif any(q.kind is K.VAR_POSITIONAL for q in params) or (i < len(params) and params[i].kind is K.POSITIONAL_ONLY):
          key = ['i', i]
        else:
          raise Unsupported('too many positional arguments')
        tv = self.tagged(a, env)
        if tv is None and isinstance(a, ast.Name) and a.id in self.tagged_vars and a.id in env:
          xv, ts = self.tagged_vars[a.id]
          if ts:
            tags.append([key[1], ts])
          if xv is not None:
            ch.append([key, {'v': xv}])
          continue
        if tv is not None:
          val, ts = tv
          if ts:
            tags.append([key[1], ts])
          if val is not None:
            ch.append([key, self.expr(val, env)])
          continue
        ch.append([key, self.expr(a, env)])
    for k in keywords:
      if k.arg is None:
        raise Unsupported('** in a constructor call')
      tv = self.tagged(k.value, env)
      if tv is None and isinstance(k.value, ast.Name) and k.value.id in self.tagged_vars and k.value.id in env:
        xv, ts = self.tagged_vars[k.value.id]
        # a TaggedValue assigned to an argument expands into its value and its tags
        if ts:
          tags.append([k.arg, ts])
        if xv is not None:
          ch.append([['a', k.arg], {'v': xv}])
        continue
      if tv is not None:
        val, ts = tv
        if ts:
          tags.append([k.arg, ts])
        if val is None:
          continue
        ch.append([['a', k.arg], self.expr(val, env)])
      else:
        ch.append([['a', k.arg], self.expr(k.value, env)])
    return {'n': {'k': 'cfg', 'fn': graphs.callable_name(fn), 'bk': bk, 'ch': ch,
                  'tags': sorted(tags, key=repr)}}

  def call(self, node, env):
    if isinstance(node.func, ast.Name) and node.func.id in self.funcs and node.func.id not in env:
      return self.inline(self.funcs[node.func.id], node, env)
    if self.mentions_local(node.func, env):
      raise Unsupported(f'call of a local value: {ast.unparse(node)}')
    f = self.pyeval(node.func)
    if f in (fdl.Config, fdl.Partial, fdl.ArgFactory):
      if self.mentions_local(node.args[0], env) or isinstance(node.args[0], ast.Call):
        raise Unsupported('callable given by an expression')
      fn = self.pyeval(node.args[0])
      return self.cfg_node(fn, f.__name__, node.keywords, env, node.args[1:])
    if f is functools.partial and self.auto:
      inner = node.args[0]
      if isinstance(inner, ast.Call) and not self.mentions_local(inner.func, env):
        ok, g = self.try_pyeval(inner.func)
        if ok and g is functools.partial:
          # functools.partial(functools.partial(f, ...), ...): one Partial with the arguments merged
          base = self.call(inner, env)['n']
          if node.args[1:]:
            raise Unsupported('positional arguments on a chained functools.partial')
          extra = self.cfg_node(self.pyeval(inner.args[0]) if not isinstance(inner.args[0], ast.Call) else _chain_fn(self, inner),
                                'Partial', node.keywords, env)['n']
          merged = [c for c in base['ch'] if c[0] not in [d[0] for d in extra['ch']]]
          # an overriding keyword keeps the position of the original argument
          ch = []
          over = {json_key(d[0]): d for d in extra['ch']}
          used = set()
          for c in base['ch']:
            k = json_key(c[0])
            if k in over:
              ch.append(over[k]); used.add(k)
            else:
              ch.append(c)
          ch += [d for d in extra['ch'] if json_key(d[0]) not in used]
          tags = sorted({repr(t): t for t in base['tags'] + extra['tags']}.values(), key=repr)
          return {'n': {'k': 'cfg', 'fn': base['fn'], 'bk': 'Partial', 'ch': ch, 'tags': tags}}
      if self.mentions_local(inner, env) or isinstance(inner, ast.Call):
        raise Unsupported('functools.partial of an expression')
      fn = self.pyeval(inner)
      return self.cfg_node(fn, 'Partial', node.keywords, env, node.args[1:])
    tv = self.tagged(node, env)
    if tv is not None:
      # outside an argument position a TaggedValue is a node of its own
      val, ts = tv
      ch = [] if val is None else [[['a', 'value'], self.expr(val, env)]]
      return {'n': {'k': 'cfg', 'fn': 'tagged_value_fn', 'bk': 'TaggedValueCls', 'ch': ch,
                    'tags': [['value', ts]] if ts else []}}
    module = getattr(f, '__module__', '') or ''
    if module == 'builtins' and not self.mentions_local(node, env):
      val = self.pyeval(node)                     # float('inf'), complex(...), frozenset(...)
      tok = leaf_atom_pred(val)
      if tok is None:
        raise Unsupported(f'builtin call builds a container: {ast.unparse(node)[:60]}')
      return {'a': tok}
    if self.auto and callable(f):
      if module.startswith('fiddle') or module == 'functools':
        raise Unsupported(f'helper call: {ast.unparse(node.func)}')
      if getattr(f, '__name__', '') in self.opaque_calls or isinstance(f, type(lambda: 0)) and f.__name__ == '<lambda>':
        raise Unsupported(f'call outside the modelled subset: {ast.unparse(node.func)}')
      if hasattr(f, 'as_buildable'):
        return self.inline_auto_config(f, node, env)
      return self.cfg_node(f, 'Config', node.keywords, env, node.args)
    raise Unsupported(f'call: {ast.unparse(node.func)}')

  def inline_auto_config(self, f, call, env):
    """A call of another auto_config function that is inlined: its body is evaluated by
    as_buildable as part of the caller's."""
    import inspect
    import textwrap
    if getattr(f, 'always_inline', True) is False or getattr(f, '_always_inline', True) is False:
      raise Unsupported('call of a never-inline auto_config function')
    func = getattr(f, 'func', None) or getattr(f, '__wrapped__', None)
    if func is None:
      raise Unsupported('auto_config function without source')
    try:
      tree = ast.parse(textwrap.dedent(inspect.getsource(func)))
    except (OSError, TypeError):
      raise Unsupported('auto_config function without source')
    fn = next(n for n in tree.body if isinstance(n, ast.FunctionDef))
    if call.keywords or any(isinstance(a, ast.Starred) for a in call.args):
      raise Unsupported('keywords in a call of an auto_config function')
    saved_ns, saved_consts = self.ns, dict(self.consts)
    # arguments are evaluated in the caller
    params = [a.arg for a in fn.args.args]
    bound = {}
    for p_, a in zip(params, call.args):
      e = self.expr(a, env)
      x = self.fresh()
      self.assigns.append([x, e])
      bound[p_] = (x, e, a)
    if len(bound) != len(params):
      raise Unsupported('auto_config function called with defaults')
    try:
      self.ns = dict(getattr(func, '__globals__', {}))
      local = {}
      self.consts = {}
      for p_, (x, e, a) in bound.items():
        local[p_] = x
        if 'a' in e and not self.mentions_local_in(a, env, saved_consts):
          self.ns_saved = saved_ns
          ok, val = self._eval_in(a, saved_ns, saved_consts)
          if ok and graphs.is_atom(val):
            self.consts[p_] = val
      return self.body(fn, local)
    finally:
      self.ns, self.consts = saved_ns, saved_consts

  def mentions_local_in(self, node, env, consts):
    return any(isinstance(n, ast.Name) and n.id in env and n.id not in consts for n in ast.walk(node))

  def _eval_in(self, node, ns, consts):
    try:
      g = dict(ns)
      g.update(consts)
      return True, eval(compile(ast.Expression(node), '<leaf>', 'eval'), g)
    except Exception:
      return False, None

  # -- function bodies -----------------------------------------------------------------
  def inline(self, fn, call, env):
    """A call of another emitted fixture: its body runs with the parameters bound."""
    params = [a.arg for a in fn.args.args]
    local = {}
    given = {}
    for p, a in zip(params, call.args):
      given[p] = a
    for k in call.keywords:
      given[k.arg] = k.value
    for p in params:
      if p not in given:
        raise Unsupported('fixture parameter without an argument')
      x = self.fresh()
      self.assigns.append([x, self.expr(given[p], env)])
      local[p] = x
    return self.body(fn, local)

  def body(self, fn, env):
    env = dict(env)
    for st in fn.body:
      if isinstance(st, ast.Expr) and isinstance(st.value, ast.Constant):
        continue                                        # docstring
      if isinstance(st, ast.Assign) and len(st.targets) == 1 and isinstance(st.targets[0], ast.Name):
        name = st.targets[0].id
        if isinstance(st.value, ast.Name) and st.value.id in env and st.value.id in self.tagged_vars:
          src_name = st.value.id                 # an alias of a variable holding a tagged value
          env[name] = env[src_name]
          self.tagged_vars[name] = self.tagged_vars[src_name]
          self.consts.pop(name, None)
          continue
        tvv = self.tagged(st.value, env)
        self.tagged_vars.pop(name, None)
        if tvv is not None:
          val, ts = tvv
          xv = None
          if val is not None:
            xv = self.fresh()
            self.assigns.append([xv, self.expr(val, env)])
          x = self.fresh()
          self.assigns.append([x, {'n': {'k': 'cfg', 'fn': 'tagged_value_fn', 'bk': 'TaggedValueCls',
                                          'ch': [] if xv is None else [[['a', 'value'], {'v': xv}]],
                                          'tags': [['value', ts]] if ts else []}}])
          env[name] = x
          self.consts.pop(name, None)
          self.tagged_vars[name] = (xv, ts)
          continue
        e = self.expr(st.value, env)
        if 'a' in e and not self.mentions_local(st.value, env):
          ok, val = self.try_pyeval(st.value)
          if ok and graphs.is_atom(val):
            self.consts[name] = val
          else:
            self.consts.pop(name, None)
        else:
          self.consts.pop(name, None)
        x = self.fresh()
        self.assigns.append([x, e])
        env[name] = x
      elif isinstance(st, ast.Return):
        return self.expr(st.value, env)
      else:
        raise Unsupported(f'statement: {ast.unparse(st)[:80]}')
    raise Unsupported('no return')


def _chain_fn(tr, call):
  """The underlying callable of functools.partial(functools.partial(... f ...))."""
  while isinstance(call, ast.Call):
    call = call.args[0]
  return tr.pyeval(call)


def program_of(code, namespace, auto, entry='config_fixture', args=None, opaque_calls=()):
  """`args`: literal values of the entry function's parameters (name -> atom)."""
  tree = ast.parse(code)
  tr = Translator(tree, namespace, auto)
  tr.opaque_calls = set(opaque_calls)
  env = {}
  for name, val in (args or {}).items():
    x = tr.fresh()
    tr.assigns.append([x, {'a': token_of(val)}])
    env[name] = x
    tr.consts[name] = val
  try:
    ret = tr.body(tr.funcs[entry], env)
  except Unsupported:
    raise
  except Exception as e:
    raise Unsupported(f'reader: {type(e).__name__}: {e}')
  return {'p': 'codegen', 'assigns': tr.assigns, 'ret': ret}


def canon_heap(objs, root):
  """Identity-aware canonical form of a heap in the driver's heapJson projection."""
  seen = {}

  def internable(v):
    if 'a' in v:
      return True
    o = objs[v['r']]
    return o['k'] == 'tuple' and all(internable(c) for _, c in o['ch'])

  def go(v):
    if 'a' in v:
      return v['a']
    i = v['r']
    if internable(v):
      # tuples of literals have no identity of their own (Python may intern / share them)
      return ['ituple', [go(c) for _, c in objs[i]['ch']]] if objs[i]['ch'] else 'tuple:()'
    if i in seen:
      return ['^', seen[i]]
    n = len(seen)
    seen[i] = n
    o = objs[i]
    if o['k'] == 'cfg':
      ch = sorted(([json_key(pe), go(c)] for pe, c in o['ch']), key=lambda x: x[0])
      return ['cfg', n, o.get('fn', ''), o.get('bk', ''), ch, sorted(o.get('tags', []), key=repr)]
    if o['k'] in ('dict', 'defaultdict'):
      return [o['k'], n, sorted(([json_key(pe), go(c)] for pe, c in o['ch']), key=lambda x: x[0])]
    if o['k'] in ('list', 'tuple'):
      return [o['k'], n, [go(c) for _, c in o['ch']]]
    return [o['k'], n, o.get('fn', ''), [[json_key(pe), go(c)] for pe, c in o['ch']]]
  return go(root)


def json_key(pe):
  return f'{pe[0]}:{pe[1]}'
