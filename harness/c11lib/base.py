"""Callables used by generated auto_config programs (C11). Importable by the generated modules."""
import functools

from fiddle.experimental import auto_config

from harness import targets
from harness.targets import Rec


class Enc:
  def __init__(self, units=1, act=None, sub=None, *extra, name='e', **kw):
    self.rec = Rec('Enc', [('units', units), ('act', act), ('sub', sub), ('name', name)], tuple(extra), dict(kw))


class Dec:
  def __init__(self, enc=None, width=2, opts=None):
    self.rec = Rec('Dec', [('enc', enc), ('width', width), ('opts', opts)], (), {})

  @classmethod
  def make(cls, enc=None):
    return cls(enc=enc, width=9)

  @staticmethod
  def helper(x=0):
    return Enc(units=x)


def relu(x=0, gain=1):
  return Rec('relu', [('x', x), ('gain', gain)], (), {})


def scale(a, b=2, /, c=3, *rest, k=None):
  return Rec('scale', [('a', a), ('b', b), ('c', c), ('k', k)], tuple(rest), {})


def dims(*d, scale_by=1):
  """Only *args: an argument factory over it binds everything positionally."""
  return Rec('dims', [('scale_by', scale_by)], tuple(d), {})


import enum as _enum


class Kind(_enum.Enum):
  FAST = 1
  SLOW = 2


def gather(*items, sink=None, note=None):
  """*args plus keywords: chained partials bind the positional group and the keywords apart."""
  return Rec('gather', [('sink', sink), ('note', note)], tuple(items), {})


def front(a, /, v=None, w=None):
  """A positional-only parameter followed by keywords."""
  return Rec('front', [('a', a), ('v', v), ('w', w)], (), {})


class QuotaError(Exception):
  """A user-defined exception class: a configurable callable like any other class."""

  def __init__(self, what='quota', limit=1):
    super().__init__(what, limit)
    self.rec = Rec('QuotaError', [('what', what), ('limit', limit)], (), {})


def plain_helper(n):
  """NOT configurable: exempted via auto_config.exempt / called through exempt()."""
  return n * 2 + 1


@auto_config.auto_config
def inner_inline(n):
  return Enc(units=n, act=relu(x=n))


@auto_config.auto_config(experimental_always_inline=False)
def inner_opaque(n):
  e = Enc(units=n)
  return Dec(enc=e, opts=[e, n])


@auto_config.auto_config
def fresh_enc():
  """An auto_config function usable as an argument factory: every call makes new objects."""
  return Enc(units=1, act=relu(x=2))


class Stack:
  """A container that is falsy while empty; methods can be auto_config'd."""

  def __init__(self, width):
    self.width = width
    self.items = []

  def __len__(self):
    return len(self.items)

  def layer_plain(self, n=1):
    return Enc(units=self.width, act=relu(x=n), name='L%d' % len(self))

  layer = auto_config.auto_config(layer_plain)
