"""Generic check loop shared by the property modules.

A property module supplies:
  cases(tier, rng)            -> iterable of (tag, case)     (corpus first, then generated)
  execute(case)               -> (real_obs, model_request)   real code run + request for driver
  compare(real_obs, model)    -> list of correspondence differences (property-level only)
  oracle(case, real_obs)      -> None or a dict describing how the PROPERTY fails on real code
  classify(case, failure)     -> class name of a known finding, or None
  nontrivial(case, real_obs)  -> hashable key if the case is non-trivial (distinct counted), else None
"""
from __future__ import annotations

import collections
import json
import time

from harness import common


def run_check(prop, tier, *, lean_module, cases, execute, compare, oracle, classify=None, level='proof',
              nontrivial=None, widen=None, time_budget=None, normalise_model=None,
              extra_coverage=None, level_note=None, floor_nontrivial=0.05):
  rep = common.Report(prop, tier)
  lean = common.lean_build(lean_module, leanchecker=(tier == 'thorough'))
  drv = common.Driver() if lean.get('errors') is not None else None
  known_open = {e['class']: e for e in common.known_findings(prop) if e['status'] == 'open'}
  t0 = time.time()
  n = 0
  disagreements = []
  failures = []
  distinct = set()
  hist = collections.Counter()
  known_hits = collections.Counter()
  model_stats = collections.Counter()
  samples = []
  r = common.rng(prop, tier)

  def one(tag, case, count=True):
    nonlocal n
    real, req = execute(case)
    model = drv.ask(req) if req is not None else None
    if model is not None and 'err' in model and set(model) == {'err'}:
      raise common.Infra(f'driver rejected request: {model} {json.dumps(req)[:300]}')
    if model is not None and normalise_model:
      model = normalise_model(model)
    diffs = compare(real, model)      # model is None when the property module talks to the driver itself
    fail = oracle(case, real)
    if count:
      n += 1
      hist[tag] += 1
      if model is not None:
        model_stats['compared_with_model'] += 1
      elif isinstance(real, dict) and 'm_unsupported' in real:
        model_stats['outside_modelled_subset'] += 1
      else:
        model_stats['oracle_only'] += 1
      if nontrivial:
        k = nontrivial(case, real)
        if k is not None:
          distinct.add(k)
      if len(samples) < 3 and tag != 'corpus':
        samples.append(case)
    return diffs, fail, real, model

  def all_cases():
    for e in common.known_findings(prop):
      if e.get('witness'):
        yield 'corpus', e['witness']
    yield from cases(tier, r)

  for tag, case in all_cases():
    if time_budget and time.time() - t0 > time_budget:
      break
    diffs, fail, real, model = one(tag, case)
    if diffs:
      model_stats['cases_where_model_and_code_disagree'] += 1
    if fail:
      cls = classify(case, fail) if classify else None
      if cls is not None and cls in known_open:
        known_hits[cls] += 1
        rep.known_finding(f"{cls}: {known_open[cls]['what_fails']}")
        if diffs:
          # the code deviates from the model on this case because of the recorded defect
          model_stats['disagreements_explained_by_known_findings'] += 1
      else:
        failures.append((case, fail, real, model))
    elif diffs:
      disagreements.append((case, diffs, real, model))
    if len(failures) + len(disagreements) >= 25:
      break

  # A broken proof obligation or a correspondence disagreement is not by itself a violation:
  # search the real code for a failing input (widened seeded search with the oracle).
  searched = 0
  if (not lean['ok'] or disagreements) and not failures and widen:
    for tag, case in widen(tier, r):
      searched += 1
      diffs, fail, real, model = one(tag, case, count=False)
      if fail:
        cls = classify(case, fail) if classify else None
        if cls is not None and cls in known_open:
          continue          # a recorded finding is not the failing input we are looking for
        failures.append((case, fail, real, model))
        break

  reported = 0
  for case, fail, real, model in failures:
    cls = classify(case, fail) if classify else None
    if cls is not None and cls in known_open:
      rep.known_finding(f"{cls}: {known_open[cls]['what_fails']}")
      continue
    if reported < 5:
      rep.violation({'kind': 'property-fails-on-real-code', 'case': case, 'failure': fail,
                     'real': real, 'model': model})
      reported += 1
  if not reported:
    if not lean['ok']:
      rep.violation({'kind': 'proof-obligation-broken', 'lean_errors': lean['errors'],
                     'build_log_tail': lean.get('build_log_tail', ''),
                     'audit_output_tail': lean.get('audit_output_tail', ''),
                     'tables_changed': lean.get('tables_changed'),
                     'widened_search_cases': searched}, no_failing_input=True)
    elif disagreements:
      case, diffs, real, model = disagreements[0]
      rep.violation({'kind': 'correspondence-broken', 'case': case,
                     'differences': [list(map(_j, d)) for d in diffs[:5]],
                     'n_disagreeing_cases': len(disagreements),
                     'widened_search_cases': searched}, no_failing_input=True)

  cov = {
      'evaluations': n,
      'distinct_nontrivial': len(distinct),
      'rule': '',
      'samples': samples,
      'traces_validated_against_impl': n,
      'disagreements': len(disagreements),
      'oracle_failures': len(failures),
      'input_distribution': dict(hist),
      'programs': n,
      'disagreements_checked': len(disagreements) + len(failures),
      'explanation': 'see rule; Lean obligations are re-checked and audited on every run',
      'known_finding_hits': dict(known_hits),
      'model_correspondence': dict(model_stats),
  }
  if extra_coverage:
    cov.update(extra_coverage() if callable(extra_coverage) else extra_coverage)
  rep.coverage = cov
  if level_note:
    rep.assumptions = list(level_note)
  if drv:
    drv.close()
  if n and nontrivial and len(distinct) < floor_nontrivial * n and not rep.violations:
    raise common.Infra(f'generator degenerate: {len(distinct)} non-trivial of {n}')
  return rep.finish(lean, level=level)


def _j(x):
  try:
    json.dumps(x)
    return x
  except TypeError:
    return repr(x)
