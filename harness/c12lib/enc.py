"""A user module called `enc` - the name of a parameter of the callables configured in the C12 cases.
Its members appear as LEAF values only (an enum member, a plain function), never as the callable of a
Buildable: a variable the generator extracts for the argument `enc` must not shadow this module."""
import enum


class Kind(enum.Enum):
  SGD = 1
  ADAM = 2


def rate(step=0):
  return 1.0 / (1 + step)
