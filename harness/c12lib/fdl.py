"""A user module that happens to be called `fdl` - a name generated code also uses for one of
its own imports. Callables and tags defined here must still be importable from emitted code."""
import fiddle as _fiddle

from harness import targets as _targets


def block_fdl(item=None, units=4):
  return _targets.Rec('block_fdl', [('item', item), ('units', units)], (), {})


class Tag_fdl(_fiddle.Tag):
  """A tag defined in a module named fdl."""
