"""An independent reader of the document `serialization.dump_json` writes.

It does not use fiddle's Deserialization: it reads the JSON text and turns the `objects` table
into the heap representation of the Lean model (one heap object per entry that is reachable
through `items`, in table order, children as atoms or references), so that the table can be
compared with `Model/Rebuild.lean`'s result heap for the dumped configuration and executed by
`Model/Codegen.lean`'s `straightLine … .run`.

Buildable entries keep their callable, argument names and tags in a metadata object
(`BuildableTraverserMetadata`); those metadata objects (and the tuples / dicts / frozensets
they are made of) are read here and are NOT heap objects of the configuration."""
from __future__ import annotations

import json
import re

from harness import graphs, targets


class Unreadable(Exception):
  pass


_PE = re.compile(r"^(Index|Key|Attr|BuildableFnOrCls)\((?:\w+=)?(.*)\)$")


def path_element(text):
  m = _PE.match(text)
  if not m:
    raise Unreadable(f'path element {text!r}')
  kind, arg = m.group(1), m.group(2)
  if kind == 'Index':
    return ['i', int(arg)]
  if kind == 'Attr':
    return ['a', eval(arg)]
  if kind == 'Key':
    k = eval(arg, {'__builtins__': {}})
    return ['k', graphs.atom_token(k) if graphs.is_atom(k) else graphs.safe_repr(k)]
  raise Unreadable(f'path element {text!r}')


def raw_key(text):
  m = _PE.match(text)
  if not m or m.group(1) != 'Key':
    raise Unreadable(f'dict key {text!r}')
  return eval(m.group(2), {'__builtins__': {}})


def pyref_name(ref):
  return ref['name'].split('.')[-1] if '.' in ref['name'] and ref['module'] != 'builtins' else ref['name']


KINDS = {('builtins', 'list'): 'list', ('builtins', 'tuple'): 'tuple', ('builtins', 'dict'): 'dict',
         ('collections', 'defaultdict'): 'defaultdict'}
BUILDABLES = {'Config', 'Partial', 'ArgFactory'}


class Reader:
  def __init__(self, text):
    self.doc = json.loads(text)
    self.objects = self.doc['objects']
    self.index = {}          # entry name -> heap index
    self.heap = []
    self._inline = 0

  # ---- values inside metadata (plain Python data) ------------------------------------
  def meta(self, v):
    if not isinstance(v, dict):
      return v
    t = v.get('type')
    if t == 'ref':
      return self.meta(self.objects[v['key']])
    if t == 'pyref':
      return ('pyref', v['module'], v['name'])
    if t == 'leaf':
      return v['value']
    if isinstance(t, dict) and t.get('type') == 'pyref':
      items = [(k, self.meta(x)) for k, x in v['items']]
      name = (t['module'], t['name'])
      if name in (('builtins', 'tuple'), ('builtins', 'list'), ('builtins', 'frozenset'), ('builtins', 'set')):
        return [x for _, x in items]
      if name == ('builtins', 'dict'):
        md = self.meta(v.get('metadata'))
        keys = md if isinstance(md, list) else [path_element(k)[1] for k, _ in items]
        return {'__dict__': [(raw_key(k), x) for k, x in items]}
      return {'__obj__': t['name'], 'fields': {path_element(k)[1]: x for k, x in items}}
    raise Unreadable(f'metadata value {str(v)[:80]}')

  # ---- configuration values -----------------------------------------------------------
  def value(self, v):
    if not isinstance(v, dict):
      return {'a': graphs.atom_token(v)}
    t = v.get('type')
    if t == 'ref':
      return {'r': self.entry(v['key'])}
    if t == 'leaf':
      return {'a': graphs.atom_token(v['value'])}
    if t == 'pyref':
      return {'a': self.symbol_token(v)}
    if isinstance(t, dict) and t.get('type') == 'pyref':
      key = (t['module'], t['name'])
      if key == ('builtins', 'bytes'):
        text = v['items'][0][1]
        return {'a': graphs.atom_token(text.encode('latin-1'))}
      # a container that is not memoized (a tuple of literals): a heap object per occurrence
      self._inline += 1
      name = f'__inline_{self._inline}'
      self.objects[name] = v
      return {'r': self.entry(name)}
    raise Unreadable(f'inline object {str(v)[:80]}')

  def symbol_token(self, ref):
    """Token of a symbol reference, obtained by importing it (independent of fiddle's loader)."""
    import importlib
    from harness import codeparse
    try:
      obj = importlib.import_module(ref['module'])
      for part in ref['name'].split('.'):
        obj = getattr(obj, part)
    except Exception as e:
      raise Unreadable(f'symbol {ref}: {e}')
    return codeparse.token_of(obj)

  def entry(self, name):
    if name in self.index:
      return self.index[name]
    e = self.objects[name]
    t = e['type']
    if not (isinstance(t, dict) and t.get('type') == 'pyref'):
      raise Unreadable(f'entry type {t}')
    ch = [[path_element(k), self.value(x)] for k, x in e['items']]
    key = (t['module'], t['name'])
    obj = {'k': None, 'fn': '', 'bk': '', 'ch': ch, 'tags': []}
    if key in KINDS:
      obj['k'] = KINDS[key]
    elif key[0] == 'harness.graphs' and key[1] == 'NT':
      obj['k'] = 'ntuple'
      obj['fn'] = 'NT'
    elif t['name'] in BUILDABLES:
      md = self.meta(e['metadata'])
      f = md['fields']
      fn = f['fn_or_cls']
      obj['k'] = 'cfg'
      obj['bk'] = t['name']
      if not isinstance(fn, tuple):
        raise Unreadable(f'callable {fn}')
      obj['fn'] = self.symbol_token({'module': fn[1], 'name': fn[2]})[len('val:'):]
      tags = []
      names = [t.__name__ for t in targets.TAGS]
      for key, ts in (f.get('argument_tags') or {}).get('__dict__', []):
        nums = sorted(names.index(x[2].split('.')[-1]) for x in ts)
        if nums:
          tags.append([key, nums])
      obj['tags'] = sorted(tags, key=repr)
    else:
      raise Unreadable(f'entry of type {key}')
    idx = len(self.heap)
    self.heap.append(obj)
    self.index[name] = idx
    return idx

  def read(self):
    root = self.value(self.doc['root'])
    return self.heap, root
