"""C02 — one invocation per Buildable instance; built graph mirrors config graph."""
from __future__ import annotations

import json
import os

import fiddle as fdl
from fiddle import daglish

from harness import common, family, graphs, targets


def _delegated_cases(tier, r):
  """Cases of C05's check that exercise clauses this property shares with it."""
  import importlib
  mod = importlib.import_module('harness.props.C05')
  n = 0
  for tag, case in mod.cases(tier, r):
    if not case.get('guard') and not case.get('species_stage'):
      n += 1
      yield 'via_C05', {'delegate': 'C05', 'case': case}
      if n >= (60 if tier == 'quick' else 600):
        return


def cases(tier, r):
  yield from _cases(tier, r)
  for _ in range(40 if tier == 'quick' else 600):
    yield 'partials', {'partials': True, 'seed': r.getrandbits(48)}
  for _ in range(60 if tier == 'quick' else 900):
    yield 'factory_positional', {'partials': True, 'factory_positional': True, 'seed': r.getrandbits(48)}
  for n in ((70000,) if tier == 'quick' else (70000, 140000, 300000)):
    yield 'big', {'big': n, 'seed': r.getrandbits(48)}
  yield from _delegated_cases(tier, r)


class _Layer:
  def __init__(self, name):
    targets.LOG.append(('layer', name))
    self.name = name


def _stack(*layers):
  return list(layers)


def _stack_kw(*layers, tail=None):
  return list(layers) + [tail]


def _identity(x=None, /):
  return x


def _pair(x=None, y=None, /, z=None):
  return [x, y, z]


def _train(stack=None, probe=None, shared=None, extra=None):
  return {'stack': stack, 'probe': probe, 'shared': shared, 'extra': extra}


def run_factory_positional(case):
  """Buildables handed POSITIONALLY (variadic / positional-only parameters) to ArgFactory and
  Partial nodes: every reference to one Buildable instance is the one object built for it, each
  instance is invoked once - at build time, not when the resulting partial is called."""
  import random
  r = random.Random(case['seed'])
  leaves = [fdl.Config(_Layer, f's{i}') for i in range(r.randint(1, 3))]
  pick = lambda: r.randrange(len(leaves))
  wrap = r.choice([fdl.ArgFactory, fdl.ArgFactory, fdl.Partial])
  refs = {'stack': [pick() for _ in range(r.randint(1, 4))], 'probe': [pick()], 'extra': [pick(), pick()],
          'shared': [pick()]}
  with_kw = r.random() < 0.4
  stack_node = (wrap(_stack_kw, *[leaves[i] for i in refs['stack']], tail=leaves[refs['stack'][0]])
                if with_kw else wrap(_stack, *[leaves[i] for i in refs['stack']]))
  probe_node = wrap(_identity, leaves[refs['probe'][0]])
  extra_node = wrap(_pair, leaves[refs['extra'][0]], leaves[refs['extra'][1]])
  root = fdl.Partial(_train, stack=stack_node, probe=probe_node, shared=leaves[refs['shared'][0]],
                     extra=extra_node)
  del targets.LOG[:]
  problems = []
  fn = fdl.build(root)
  at_build = [x[1] for x in targets.LOG if x[0] == 'layer']
  reachable = sorted({f's{i}' for v in refs.values() for i in v})
  if sorted(at_build) != reachable:
    problems.append(f'invoked during build: {sorted(at_build)}; distinct reachable Buildable instances: {reachable}')
  outs = [fn(), fn()]
  after = [x[1] for x in targets.LOG if x[0] == 'layer']
  if len(after) != len(at_build):
    problems.append(f'Buildables were invoked again when the built partial was called: {after}')
  built = {}

  def see(label, i, obj):
    if not isinstance(obj, _Layer) or obj.name != f's{i}':
      problems.append(f'{label}: reference to Buildable s{i} received {obj!r:.60}')
    elif built.setdefault(i, obj) is not obj:
      problems.append(f'{label}: a second object was built for Buildable instance s{i}')
  for n, out in enumerate(outs):
    def val(x):
      return x() if wrap is fdl.Partial and callable(x) and not isinstance(x, _Layer) else x
    st, pr, ex = val(out['stack']), val(out['probe']), val(out['extra'])
    if not isinstance(st, list) or len(st) != len(refs['stack']) + (1 if with_kw else 0):
      problems.append(f'call {n}: stack received {st!r:.80}')
    else:
      for i, o in zip(refs['stack'] + ([refs['stack'][0]] if with_kw else []), st):
        see(f'call {n} stack', i, o)
    see(f'call {n} probe', refs['probe'][0], pr)
    if not isinstance(ex, list) or len(ex) != 3:
      problems.append(f'call {n}: extra received {ex!r:.80}')
    else:
      see(f'call {n} extra[0]', refs['extra'][0], ex[0])
      see(f'call {n} extra[1]', refs['extra'][1], ex[1])
    see(f'call {n} shared', refs['shared'][0], out['shared'])
  return {'partials': True, 'problems': problems[:4], 'n': len(reachable)}


def run_partials(case):
  """Partial / ArgFactory nodes (with and WITHOUT bound arguments) shared and duplicated inside
  one configuration: one built object per instance, the same object for every reference to it,
  distinct objects for distinct (even equal) instances and for separate builds."""
  import functools
  import random
  r = random.Random(case['seed'])
  g = graphs.node_fn(1, r.randrange(3))
  mk = lambda: r.choice([lambda: fdl.Partial(g), lambda: fdl.Partial(g), lambda: fdl.Partial(g, p=1),
                         lambda: fdl.Partial(g, q=[2])])()
  nodes = [mk() for _ in range(r.randint(2, 4))]
  refs = [r.randrange(len(nodes)) for _ in range(r.randint(3, 6))]
  root = fdl.Config(graphs.node_fn(1, 0), p=[nodes[i] for i in refs], q={'k': nodes[refs[0]]},
                    r=(nodes[refs[-1]],))
  b1, b2 = fdl.build(root), fdl.build(root)

  def parts(b):
    rec = targets.rec_of(b)
    s = dict(rec.slots)
    return list(s['p']) + [s['q']['k'], s['r'][0]]
  idx = refs + [refs[0], refs[-1]]
  p1, p2 = parts(b1), parts(b2)
  problems = []
  for a, i in zip(p1, idx):
    if not isinstance(a, functools.partial) or a.func is not g:
      problems.append(f'reference to Partial #{i} was built to {type(a).__name__}, not a functools.partial of its callable')
  for x in range(len(idx)):
    for y in range(x + 1, len(idx)):
      if (p1[x] is p1[y]) != (idx[x] == idx[y]):
        problems.append(f'positions {x},{y}: same built object = {p1[x] is p1[y]}, same Buildable instance = {idx[x] == idx[y]}')
  if any(a is b for a in p1 for b in p2):
    problems.append('two separate fdl.build calls share a built partial')
  return {'partials': True, 'problems': problems[:4], 'n': len(idx)}


def _cases(tier, r):
  n = 1500 if tier == 'quick' else 25000
  for i in range(n):
    size = r.choice([3, 5, 8, 12, 18]) if tier == 'quick' else r.choice([3, 5, 8, 12, 20, 40])
    yield 'dag', {'seed': r.getrandbits(48), 'size': size, 'positional': r.random() < 0.7,
                  'duck': r.choice([0, 0, 0.3]), 'tagged_values': r.choice([0, 0, 0.25])}
  # deep chains up to a fraction of the recursion budget
  for depth in ((30, 60) if tier == 'quick' else (30, 60, 100, 140)):
    yield 'deep', {'seed': r.getrandbits(48), 'size': 2, 'deep': depth, 'positional': False}


def make_root(case):
  import random
  r = random.Random(case['seed'])
  root = graphs.gen_graph(r, size=case['size'], positional=case.get('positional', True),
                          nt_bias=case.get('nt_bias', 0.0), duck=case.get('duck', 0.0),
                          tagged_values=case.get('tagged_values', 0.0))
  if case.get('gaps') or r.random() < 0.25:
    # positional gaps made by later edits: a positional parameter with a default is unset again
    # while *args entries (or later positional values) stay
    for v, _ in list(daglish.iterate(root)):
      if isinstance(v, fdl.Buildable) and r.random() < 0.6:
        sig = graphs.sig_of(v)
        has_var = any(isinstance(k, int) and k >= len([p for p in sig if p[1] in ('po', 'pk')])
                      for k in v.__arguments__)
        for i, p in enumerate(sig):
          if p[2] and p[1] == 'pk' and p[0] in v.__arguments__ and has_var and r.random() < 0.7:
            delattr(v, p[0])
  # deep chains stay inside CPython's recursion budget (a list link costs two traversal levels;
  # fdl.build needs about five frames per level, the default limit is 1000 frames)
  levels = 0
  for _ in range(case.get('deep', 0)):
    wrap = r.random() < 0.5
    levels += 2 if wrap else 1
    if levels > 150:
      break
    root = [fdl.Config(graphs.node_fn(1, 0), p=root)] if wrap else fdl.Config(graphs.node_fn(1, 1), q=root)
  return root


def run_big(case):
  """One shared Buildable referenced before and after a very large number of other values."""
  shared = fdl.Config(graphs.node_fn(1, 1), p=1)
  root = fdl.Config(graphs.node_fn(1, 0), p=shared, q=[float(i) + 0.5 for i in range(case['big'])],
                    r=[shared, {'k': shared}])
  del targets.LOG[:]
  built = fdl.build(root)
  n_inv = sum(1 for rec in targets.LOG if rec.fn_name == graphs.callable_name(graphs.node_fn(1, 1)))
  slots = dict(targets.rec_of(built).slots)
  same = slots['p'] is slots['r'][0] is slots['r'][1]['k']
  problems = []
  if n_inv != 1:
    problems.append(f'the shared Buildable was invoked {n_inv} times')
  if not same:
    problems.append('references to one Buildable received different built objects')
  del targets.LOG[:]
  return {'partials': True, 'problems': problems, 'n': case['big']}


def execute(case):
  if case.get('big'):
    return run_big(case), None
  if case.get('factory_positional'):
    return run_factory_positional(case), None
  if case.get('partials'):
    return run_partials(case), None
  if case.get('delegate'):
    import importlib
    mod = importlib.import_module('harness.props.' + case['delegate'])
    real, req = mod.execute(case['case'])
    real = dict(real)
    real['__delegate'] = case['delegate']
    return real, req
  root = make_root(case)
  heap, enc = graphs.encode(root, transparent_tagged=True)
  obs = {'n_cfg': sum(1 for o in heap['objs'] if o['k'] == 'cfg')}
  del targets.LOG[:]
  try:
    res = fdl.build(root)
    log = list(targets.LOG)
    obs['build'] = {'log': [r_.fn_name for r_ in log], 'canon': graphs.canon(res)}
    # dependencies first: every Rec inside a Rec's binding was created earlier
    order_ok = True
    for rec in log:
      inner = []

      def walk(x, seen=set()):
        if isinstance(x, targets.Rec):
          inner.append(x)
          return
        if isinstance(x, (list, tuple)):
          for v in x:
            walk(v)
        elif isinstance(x, dict):
          for v in x.values():
            walk(v)
        elif isinstance(x, graphs.Pair):
          walk(x.left)
          walk(x.right)
      for _, v in rec.slots:
        walk(v)
      walk(rec.var)
      walk(rec.kw)
      if any(i.serial >= rec.serial for i in inner):
        order_ok = False
    obs['deps_first'] = order_ok
    obs['n_invocations'] = len(log)
    # separate builds share no built objects
    res2 = fdl.build(root)
    ids1 = built_ids(res)
    ids2 = built_ids(res2)
    obs['separate_disjoint'] = not (ids1 & ids2)
    obs['second_canon_equal'] = graphs.canon(res2) == obs['build']['canon']
  except Exception as e:
    obs['build'] = {'raised': type(e).__name__}
  try:
    del targets.LOG[:]
    ref = graphs.ref_build(root)
    obs['ref_canon'] = graphs.canon(ref)
    if 'raised' not in obs['build']:
      obs['skeleton_equal'] = graphs.skeleton(res) == graphs.skeleton(ref)
  except Exception as e:
    obs['ref_canon'] = {'raised': type(e).__name__}
  req = {'p': 'graph', 'objs': heap['objs'], 'root': heap['root'], 'q': ['build']}
  obs['fn_of'] = {i: o.get('fn') for i, o in enumerate(heap['objs']) if o['k'] == 'cfg'}
  return obs, req


def built_ids(res):
  """ids of the objects created by a build (Recs and rebuilt containers)."""
  out = set()

  def walk(x):
    if isinstance(x, targets.Rec):
      if id(x) in out:
        return
      out.add(id(x))
      for _, v in x.slots:
        walk(v)
      walk(x.var)
      walk(x.kw)
    elif isinstance(x, (list, dict, graphs.Pair)) or (isinstance(x, tuple) and x != ()):
      if id(x) in out:
        return
      if not (type(x) is tuple and graphs.is_internable(x)):
        out.add(id(x))
      vals = x.values() if isinstance(x, dict) else ([x.left, x.right] if isinstance(x, graphs.Pair) else x)
      for v in vals:
        walk(v)
  walk(res)
  return out


def compare(real, model):
  if isinstance(real, dict) and real.get('__delegate'):
    import importlib
    inner = {k: v for k, v in real.items() if k != '__delegate'}
    return importlib.import_module('harness.props.' + real['__delegate']).compare(inner, model)
  if model is None or real.get('partials'):
    return []
  diffs = []
  rb, mb = real['build'], model['build']
  if 'raised' in rb or 'err' in mb:
    if ('raised' in rb) != ('err' in mb):
      diffs.append(('build', 'raised', rb if 'raised' in rb else 'ok', mb if 'err' in mb else 'ok'))
    return diffs
  mlog = [real['fn_of'].get(i) for i in mb['log']]
  if mlog != rb['log']:
    diffs.append(('build', 'log', rb['log'], mlog))
  if mb['canon'] != rb['canon']:
    diffs.append(('build', 'canon', rb['canon'], mb['canon']))
  return diffs


def oracle(case, real):
  if case.get('delegate'):
    import importlib
    return importlib.import_module('harness.props.' + case['delegate']).oracle(case['case'], real)
  if case.get('partials') or case.get('big'):
    if real['problems']:
      return {'what': 'built Partial nodes do not mirror the Partial instances of the configuration',
              'problems': real['problems']}
    return None
  rb = real['build']
  ref = real['ref_canon']
  if 'raised' in rb:
    if isinstance(ref, dict) and 'raised' in ref:
      return None
    return {'what': 'build raised on a configuration whose direct evaluation succeeds', 'raised': rb}
  if isinstance(ref, dict) and 'raised' in ref:
    return {'what': 'build succeeded where the direct evaluation cannot form the call', 'ref': ref}
  if real['n_invocations'] != real['n_cfg']:
    return {'what': 'number of invocations differs from the number of distinct Buildable instances',
            'invocations': real['n_invocations'], 'buildables': real['n_cfg']}
  if not real['deps_first']:
    return {'what': 'a Buildable was invoked before one it depends on'}
  if rb['canon'] != ref:
    return {'what': 'built graph differs from the direct evaluation (values or sharing)',
            'built': rb['canon'], 'reference': ref}
  if not real['separate_disjoint']:
    return {'what': 'two separate fdl.build calls share built objects'}
  if not real['second_canon_equal']:
    return {'what': 'second build differs from the first'}
  return None


def nontrivial(case, real):
  if case.get('delegate'):
    import importlib, json as _json
    k = importlib.import_module('harness.props.' + case['delegate']).nontrivial(case['case'], real)
    return None if k is None else ('via', _json.dumps(k, default=str))
  if real.get('partials'):
    return ('partials', case['seed'])
  if 'raised' in real['build']:
    return None
  c = json.dumps(real['build']['canon'])
  if '"^"' not in c:
    return None       # no sharing in the result
  return hash(c)


def run(tier):
  return family.run_check(
      'C02', tier, lean_module='C02', cases=cases, execute=execute, compare=compare,
      oracle=oracle, nontrivial=nontrivial, widen=None,
      time_budget=150 if tier == 'quick' else 1500, floor_nontrivial=0.2,
      extra_coverage={'rule': 'random DAGs of Configs (six signature shapes incl. positional-only, '
                      '*args, **kwargs), lists, tuples, dicts, defaultdicts, named tuples (also a '
                      'class inheriting from a namedtuple), a registered custom node type, opaque '
                      'leaves, equal-but-distinct twins; children drawn from earlier nodes (sharing '
                      'of and through containers, multi-depth reach); deep chains. Non-trivial = '
                      'build succeeded and the result contains a shared object; distinct by '
                      'canonical form of the result.'},
      level_note=['invocation order among siblings is compared with the model by callable name'])


def replay(path):
  data = json.load(open(path if os.path.isabs(path) else os.path.join(common.ROOT, path)))
  real, req = execute(data['case'])
  fail = oracle(data['case'], real)
  print(json.dumps({'oracle': fail}, indent=1, default=str)[:3000])
  return 1 if fail else 0
