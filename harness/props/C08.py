"""C08 — traversal paths are sound and complete; identity traversal rebuilds faithfully."""
from __future__ import annotations

import collections
import json
import os
import random

import fiddle as fdl
from fiddle import daglish
from fiddle._src.experimental import daglish_legacy

from harness import common, family, graphs, targets

QUERIES = ['iterate_memo', 'iterate_basic', 'iterate_noint', 'paths_by_id', 'all_paths']


class Bag:
  """A node type whose flatten exposes its members as a FRESH dict each time."""

  def __init__(self, **members):
    self.members = members

  def __eq__(self, other):
    return isinstance(other, Bag) and self.members == other.members

  __hash__ = None

  def __repr__(self):
    return f'Bag({self.members!r})'


def _register_bag():
  try:
    daglish.register_node_traverser(
        Bag, flatten_fn=lambda b: ((dict(b.members),), None),
        unflatten_fn=lambda values, _: Bag(**tuple(values)[0]),
        path_elements_fn=lambda b: (daglish.Attr('members'),))
  except ValueError:
    pass


class _Skip(Exception):
  pass


class Cell:
  """A leaf (no traverser)."""

  def __init__(self, i):
    self.i = i


class Row:
  def __init__(self, i):
    self.i = i


class Grid:
  """A node whose children exist only while it is being flattened."""

  def __init__(self, n):
    self.n = n


class Pair2:
  """A node type registered only in a caller-supplied registry."""

  def __init__(self, first, second):
    self.first, self.second = first, second


REGISTRY = daglish.NodeTraverserRegistry(use_fallback=True)
REGISTRY.register_node_traverser(
    Pair2,
    flatten_fn=lambda p: ((p.first, p.second), None),
    unflatten_fn=lambda values, _: Pair2(*values),
    path_elements_fn=lambda p: (daglish.Attr('first'), daglish.Attr('second')))


def cases(tier, r):
  n = 900 if tier == 'quick' else 15000
  for i in range(n):
    yield 'dag', {'seed': r.getrandbits(48), 'size': r.choice([2, 4, 6, 9, 12]),
                  'nt_bias': r.choice([0, 0, 0.3])}
  for i in range(40 if tier == 'quick' else 400):
    yield 'cyclic', {'seed': r.getrandbits(48), 'cyclic': True}


def make_root(case):
  r = random.Random(case['seed'])
  if case.get('cyclic'):
    kind = r.choice(['list', 'dict', 'cfg_in_list', 'deep'])
    if kind == 'list':
      a = [1, 2]
      a.append(a)
      return a
    if kind == 'dict':
      d = {'x': 1}
      d['self'] = [d]
      return d
    if kind == 'cfg_in_list':
      lst = [3]
      c = fdl.Config(graphs.node_fn(1, 0), p=lst)
      lst.append(c)
      return c
    a = [0]
    b = {'a': a, 't': (a,)}
    a.append([b])
    return [b, a]
  return graphs.gen_graph(r, size=case['size'], positional=True, nt_bias=case.get('nt_bias', 0))


def independent_paths(root):
  """All (object-or-atom, path) pairs by a walk that does not use daglish's traversal."""
  enc = graphs.Encoder()
  out = []

  def walk(x, path):
    out.append((x, tuple(path)))
    if graphs.is_atom(x):
      return
    kind = graphs.kind_of(x)
    for pe, v in enc.children(x, kind):
      walk(v, path + [pe])
  walk(root, [])
  return out


def execute(case):
  root = make_root(case)
  obs = {}
  if case.get('cyclic'):
    res = {}
    for name, fn in [
        ('iterate_memo', lambda: list(daglish.iterate(root))),
        ('iterate_basic', lambda: list(daglish.iterate(root, memoized=False))),
        ('paths_by_id', lambda: daglish.collect_paths_by_id(root, memoizable_only=True)),
        ('map_children', lambda: daglish.MemoizedTraversal.run(lambda v, s: s.map_children(v), root)),
        ('build', lambda: fdl.build(root)),
    ]:
      try:
        fn()
        res[name] = 'returned'
      except RecursionError:
        res[name] = 'RecursionError'
      except Exception as e:
        res[name] = type(e).__name__
    obs['cyclic'] = res
    return obs, None
  heap, enc = graphs.encode(root)
  obs.update(graphs.real_traversals(root, enc, QUERIES))
  # soundness: follow_path(root, path) is value, for every pair of every mode
  sound = True
  for mode in (dict(), dict(memoized=False), dict(memoized=True, memoize_internables=False)):
    for v, p in daglish.iterate(root, **mode):
      try:
        got = daglish.follow_path(root, p)
      except Exception:
        sound = False
        continue
      if graphs.is_atom(v):
        sound = sound and (got == v and type(got) is type(v))
      else:
        sound = sound and got is v
  obs['sound'] = sound
  # independent enumeration
  ind = independent_paths(root)
  obs['ind_paths'] = [[graphs.vproto(enc, v), [list(pe) for pe in p]] for v, p in ind]
  obs['n_objects'] = len(heap['objs'])
  # identity rebuild
  rebuilt = daglish.MemoizedTraversal.run(lambda v, s: s.map_children(v), root)
  obs['rebuild_equal'] = graphs.canon(rebuilt) == graphs.canon(root)
  try:
    from harness import codeparse
    from harness.props import C07
    rb_req, _rb_enc = graphs.encode(rebuilt)
    obs['m_rebuild'] = codeparse.canon_heap([C07.project_obj(o) for o in rb_req['objs']], rb_req['root'])
  except Exception as e:
    obs['m_rebuild'] = f'encoding the rebuilt structure raised {type(e).__name__}'
  obs['rebuild_ddict_ok'] = all(
      type(a) is type(b) and (not isinstance(a, collections.defaultdict) or a.default_factory is b.default_factory)
      for (a, _), (b, _) in zip(daglish.iterate(root, memoized=False), daglish.iterate(rebuilt, memoized=False)))
  # a caller-supplied registry (a node type registered only there) in both traversal modes
  wrapped = Pair2(root, [root, 5])
  want = []

  def walk2(x, path):
    want.append(json.dumps([graphs.vproto(enc, x) if not isinstance(x, Pair2) else {'r': 'P'}, path]))
    if isinstance(x, Pair2):
      walk2(x.first, path + [['a', 'first']])
      walk2(x.second, path + [['a', 'second']])
      return
    if graphs.is_atom(x):
      return
    if type(x) is list and x and x[0] is root and len(x) == 2 and x[1] == 5:
      for i, v in enumerate(x):
        walk2(v, path + [['i', i]])
      return
    for pe, v in enc.children(x, graphs.kind_of(x)):
      walk2(v, path + [pe])
  walk2(wrapped, [])
  for memoized in (False, True):
    try:
      got = [json.dumps([graphs.vproto(enc, v) if not isinstance(v, Pair2) else {'r': 'P'},
                         graphs.path_proto(p)])
             for v, p in daglish.iterate(wrapped, memoized=memoized, registry=REGISTRY)]
    except Exception as e:
      got = f'raised {type(e).__name__}'
    if memoized:
      obs['registry_memo_subset'] = isinstance(got, list) and set(got) <= set(want) and len(got) > 1
    else:
      obs['registry_basic_complete'] = isinstance(got, list) and sorted(got) == sorted(want)
  # a node type registered AFTER a registry (and the registry falling back on it) has already
  # been asked about it: the traversal must follow the registries as they are now
  Late = type('Late', (), {'__init__': lambda self, a, b: (setattr(self, 'first', a), setattr(self, 'second', b)) and None})
  parent = daglish.NodeTraverserRegistry(use_fallback=True)
  child = daglish.NodeTraverserRegistry(use_fallback=parent)
  late_root = [Late(root, 7), 8]
  try:
    before_n = len(list(daglish.iterate(late_root, memoized=False, registry=child)))
    leaf_before = not child.is_traversable_type(Late)
    parent.register_node_traverser(
        Late, flatten_fn=lambda p: ((p.first, p.second), None), unflatten_fn=lambda values, _: Late(*values),
        path_elements_fn=lambda p: (daglish.Attr('first'), daglish.Attr('second')))
    after = list(daglish.iterate(late_root, memoized=False, registry=child))
    n_root = len(list(daglish.iterate(root, memoized=False)))
    rebuild_fn = lambda v, s: s.map_children(v)
    rebuilt_late = rebuild_fn(late_root, daglish.BasicTraversal(
        traversal_fn=rebuild_fn, root_obj=late_root, registry=child).initial_state())
    obs['late_registration'] = (leaf_before and before_n == 3 and len(after) == 3 + 2 + n_root - 1 + 0
                                and any(v is root for v, _ in after)
                                and rebuilt_late[0] is not late_root[0]
                                and child.is_traversable_type(Late))
    if obs['late_registration'] is not True:
      obs['late_registration'] = [leaf_before, before_n, len(after), n_root]
  except Exception as e:
    obs['late_registration'] = f'raised {type(e).__name__}: {e}'[:200]
  # a traversal whose function ATTACHES a new node to a part it has not reached yet: the
  # all-paths query must also answer for that node when the walk gets there
  try:
    if case['seed'] % 8 != 1:
      raise _Skip()
    problems = []
    for cls in (daglish.BasicTraversal, daglish.MemoizedTraversal):
      f_ = graphs.node_fn(1, 1)
      first, second = fdl.Config(f_, p=[4, 4]), fdl.Config(f_, p=[8, 8])
      groot = {'layers': [first, second], 'notes': {}, 'sub': root}

      def own_paths(target):
        out = []

        def walk(x, path):
          if x is target:
            out.append(tuple(path))
          if isinstance(x, fdl.Buildable):
            for k, y in fdl.ordered_arguments(x).items():
              walk(y, path + [daglish.attr_or_index(k)])
          elif isinstance(x, (list, tuple)):
            for i, y in enumerate(x):
              walk(y, path + [daglish.Index(i)])
          elif isinstance(x, dict):
            for k, y in x.items():
              walk(y, path + [daglish.Key(k)])
        walk(groot, [])
        return sorted(map(daglish.path_str, out))

      def visit(value, state, first=first, second=second, groot=groot):
        if state.is_traversable(value) and (value is second.__arguments__.get('q') or value is groot['notes']
                                            or value is first or value is second):
          try:
            got = sorted(daglish.path_str(p_) for p_ in state.get_all_paths())
          except Exception as e:
            got = f'raised {type(e).__name__}'
          if got != own_paths(value):
            problems.append([cls.__name__, daglish.path_str(state.current_path), got, own_paths(value)])
        if value is first:
          second.q = fdl.Config(f_, p=[0.5])          # a brand new node, reached later
          groot['notes']['filled'] = ['second.q']
        for _ in state.yield_map_child_values(value, ignore_leaves=True):
          pass
      visit(groot, cls(visit, groot).initial_state())
    obs['attached_during_traversal'] = problems[:3] or True
  except _Skip:
    pass
  except Exception as e:
    obs['attached_during_traversal'] = f'raised {type(e).__name__}: {e}'[:200]
  # a registered node type whose flatten makes its children on the fly (temporaries that nothing
  # else keeps alive): every one of them is a distinct object and must be visited
  try:
    if case['seed'] % 8:
      raise _Skip()
    n_cells = 150
    grid_reg = daglish.NodeTraverserRegistry(use_fallback=True)
    grid_reg.register_node_traverser(
        Grid, flatten_fn=lambda g: (tuple(Row(i) for i in range(g.n)), g.n),
        unflatten_fn=lambda values, n: Grid(n),
        path_elements_fn=lambda g: tuple(daglish.Index(i) for i in range(g.n)))
    # each row makes its one cell when flattened; nothing refers to the cell afterwards
    grid_reg.register_node_traverser(
        Row, flatten_fn=lambda row: ((Cell(row.i),), row.i),
        unflatten_fn=lambda values, i: Row(i),
        path_elements_fn=lambda row: (daglish.Attr('cell'),))
    seen_vals = [v.i for v, _ in daglish.iterate([Grid(n_cells), root], registry=grid_reg) if isinstance(v, Cell)]
    visited = []

    def visit(v, state):
      if isinstance(v, Cell):
        visited.append(v.i)
      return state.map_children(v) if state.is_traversable(v) else v
    grid_root = [Grid(n_cells)]
    daglish.MemoizedTraversal(visit, grid_root, registry=grid_reg).initial_state().map_children(grid_root)
    obs['temporaries'] = (sorted(seen_vals) == list(range(n_cells)) and sorted(visited) == list(range(n_cells)))
    if obs['temporaries'] is not True:
      obs['temporaries'] = [len(seen_vals), len(visited)]
  except _Skip:
    pass
  except Exception as e:
    obs['temporaries'] = f'raised {type(e).__name__}: {e}'[:200]
  # the same kind of node type through the LEGACY memoized traversal (default registry): each
  # flatten hands out a fresh dict that nothing keeps alive; an identity traversal rebuilds the
  # structure as it is
  try:
    if case['seed'] % 8:
      raise _Skip()
    _register_bag()
    bags = {f'k{i}': Bag(x=[i], y=(i, [i])) for i in range(2 + case['seed'] % 5)}
    bag_root = [bags, Bag(inner=Bag(z=[7]))] if case['seed'] % 16 else bags
    rebuilt = daglish_legacy.memoized_traverse(lambda paths, value: (yield), bag_root)
    obs['legacy_temporaries'] = True if rebuilt == bag_root else f'rebuilt {rebuilt!r:.200} from {bag_root!r:.200}'
  except _Skip:
    pass
  except Exception as e:
    obs['legacy_temporaries'] = f'raised {type(e).__name__}: {e}'[:200]
  # legacy API: identity traversal and paths
  try:
    # traverse_with_path rebuilds without preserving sharing (documented); memoized_traverse
    # preserves it
    legacy = daglish_legacy.traverse_with_path(lambda path, value: (yield), root)
    legacy_m = daglish_legacy.memoized_traverse(lambda paths, value: (yield), root)
    obs['legacy_equal'] = (
        graphs.skeleton(legacy) == graphs.skeleton(root)
        and graphs.canon(legacy_m) == graphs.canon(root))
    # memoized legacy traversal visits each distinct mutable object exactly once, whatever the
    # visitor returns
    visits = collections.Counter()

    def count(paths, value):
      if not graphs.is_atom(value):
        visits[enc.ids.get(id(value), -1)] += 1
      yield
      return None
    daglish_legacy.memoized_traverse(count, root)
    reach = {enc.ids.get(id(v), -1) for v, _ in ind if not graphs.is_atom(v)}
    obs['legacy_memo_visits_once'] = all(v == 1 for v in visits.values()) and set(visits) == reach
  except Exception as e:
    obs['legacy_equal'] = f'raised {type(e).__name__}'
  # legacy all-paths API: for EVERY visited value (leaves too) each reported path leads to that
  # value, the current path is among them, no path is reported twice
  try:
    lp_problems = []

    def check_paths(all_paths, current_path, value):
      paths = [tuple(p) for p in all_paths]
      if tuple(current_path) not in paths:
        lp_problems.append(f'current path {daglish.path_str(current_path)!r} not among the paths reported')
      if len(set(paths)) != len(paths):
        lp_problems.append(f'a path is reported twice at {daglish.path_str(current_path)!r}')
      for q in paths:
        try:
          t = daglish.follow_path(root, q)
        except Exception as e:
          lp_problems.append(f'reported path {daglish.path_str(q)!r} does not resolve ({type(e).__name__})')
          continue
        same = t is value or (graphs.is_atom(value) and type(t) is type(value) and (t == value or t != t))
        if not same:
          lp_problems.append(f'reported path {daglish.path_str(q)!r} leads to another value than the one at '
                             f'{daglish.path_str(current_path)!r}')
      yield
      return None
    daglish_legacy.traverse_with_all_paths(check_paths, root)
    obs['legacy_all_paths'] = lp_problems[:3]
  except _Skip:
    pass
  except Exception as e:
    obs['legacy_all_paths'] = [f'raised {type(e).__name__}: {e}'[:160]]
  try:
    lp = daglish_legacy.collect_paths_by_id(root, memoizable_only=True)
    obs['legacy_paths'] = sorted([enc.ids.get(i, -1), graphs.path_proto(p)] for i, ps in lp.items() for p in ps)
  except Exception as e:
    obs['legacy_paths'] = f'raised {type(e).__name__}'
  req = {'p': 'graph', 'objs': heap['objs'], 'root': heap['root'], 'q': QUERIES + ['rebuild']}
  return obs, req


def refs_only(entries):
  return [e for e in entries if 'r' in e[0]]


def compare(real, model):
  if model is None:
    return []
  diffs = []
  for q in QUERIES:
    a, b = real[q], model[q]
    if q == 'iterate_memo':
      # atoms are memoized by CPython identity (interning), which the protocol does not carry
      a, b = refs_only(a), refs_only(b)
    if q == 'paths_by_id':
      b = sorted(b)
    if a != b:
      diffs.append((q, 'stream', a if len(str(a)) < 2000 else '...', b if len(str(b)) < 2000 else '...'))
  if 'm_rebuild' in real and isinstance(model.get('rebuild'), dict):
    from harness import codeparse
    rb = model['rebuild']
    got = codeparse.canon_heap(rb['heap'], rb['root'])
    if got != real['m_rebuild']:
      diffs.append(('rebuild', 'identity traversal result vs Model/Rebuild', real['m_rebuild'], got))
  elif 'm_rebuild' in real:
    diffs.append(('rebuild', 'model', 'ok', model.get('rebuild')))
  return diffs


def oracle(case, real):
  if 'cyclic' in real:
    bad = {k: v for k, v in real['cyclic'].items() if v == 'returned'}
    if bad:
      return {'what': 'a reference cycle was not reported as an error', 'apis': bad}
    return None
  for q in QUERIES:
    if isinstance(real[q], dict) and 'raised' in real[q]:
      return {'what': f'{q} raised on an acyclic structure', 'raised': real[q]}
  if not real['sound']:
    return {'what': 'follow_path(root, path) is not the reported value'}
  ind = real['ind_paths']
  # un-memoized traversal reports every path exactly once
  if sorted(map(json.dumps, real['iterate_basic'])) != sorted(map(json.dumps, ind)):
    return {'what': 'un-memoized traversal does not report every path exactly once'}
  # memoized traversal visits every distinct mutable object exactly once
  memo_ids = [e[0]['r'] for e in real['iterate_memo'] if 'r' in e[0]]
  all_ids = {e[0]['r'] for e in ind if 'r' in e[0]}
  if sorted(memo_ids) != sorted(all_ids):
    return {'what': 'memoized traversal does not visit every distinct mutable object exactly once',
            'visited': sorted(memo_ids), 'objects': sorted(all_ids)}
  # all-paths query returns exactly the paths that reach an object
  want = sorted([e[0]['r'], e[1]] for e in ind if 'r' in e[0])
  if real['paths_by_id'] != want:
    return {'what': 'collect_paths_by_id is not exactly the set of paths reaching each object'}
  if isinstance(real['legacy_paths'], str) or real['legacy_paths'] != want:
    return {'what': 'legacy collect_paths_by_id differs from the set of paths reaching each object',
            'observed': real['legacy_paths'] if isinstance(real['legacy_paths'], str) else '...'}
  # State.get_all_paths at every state
  by_obj = collections.defaultdict(list)
  for v, p in ind:
    if 'r' in v:
      by_obj[v['r']].append(p)
  path_to_val = {json.dumps(p): v for v, p in ind}
  for path, allp in real['all_paths']:
    v = path_to_val[json.dumps(path)]
    if 'r' in v:
      expect = by_obj[v['r']]
    else:
      # nearest memoizable ancestor's paths + the non-memoizable suffix
      k = len(path)
      while k > 0 and 'r' not in path_to_val[json.dumps(path[:k])]:
        k -= 1
      anc = path_to_val[json.dumps(path[:k])]
      expect = [p + path[k:] for p in by_obj[anc['r']]] if 'r' in anc else [path]
    if sorted(map(json.dumps, allp)) != sorted(map(json.dumps, expect)):
      return {'what': 'State.get_all_paths is not exactly the set of paths to the value',
              'path': path, 'observed': allp, 'expected': expect}
  if real.get('registry_basic_complete') is False:
    return {'what': 'un-memoized traversal with a caller-supplied registry does not report every path'}
  if real.get('attached_during_traversal', True) is not True:
    return {'what': 'the all-paths query fails / is wrong for a node attached earlier in the same traversal',
            'observed': real['attached_during_traversal']}
  deferred = None
  if real.get('legacy_temporaries', True) is not True:
    # recorded finding; keep checking everything else of this case
    deferred = {'what': 'legacy memoized_traverse (identity) over a node type whose flatten makes temporaries does '
                        'not rebuild the structure', 'observed': real['legacy_temporaries'],
                'class': 'legacy-traversal-temporaries'}
  if real.get('temporaries', True) is not True:
    return {'what': 'memoized traversal over children created on the fly by a registered flatten does not '
            'visit every distinct object exactly once', 'observed': real['temporaries']}
  if real.get('late_registration', True) is not True:
    return {'what': 'a node type registered after a first lookup is not traversed by a registry that falls '
            'back on the registry it was registered in', 'observed': real['late_registration']}
  if real.get('registry_memo_subset') is False:
    return {'what': 'memoized traversal with a caller-supplied registry reports invalid paths'}
  if not real['rebuild_equal'] or not real['rebuild_ddict_ok']:
    return {'what': 'identity traversal does not rebuild an equal structure (types / sharing)'}
  if real.get('legacy_all_paths'):
    return {'what': 'legacy traverse_with_all_paths reports paths that are not the paths of the visited value',
            'problems': real['legacy_all_paths']}
  if real.get('legacy_memo_visits_once') is False:
    return {'what': 'legacy memoized traversal does not visit every distinct mutable object exactly once'}
  if real['legacy_equal'] is not True:
    return {'what': 'legacy identity traversal does not rebuild an equal structure',
            'observed': real['legacy_equal']}
  return deferred


def nontrivial(case, real):
  if 'cyclic' in real:
    return ('cyclic', json.dumps(real['cyclic'], sort_keys=True), case['seed'] % 4)
  shared = len(real['paths_by_id']) - len({e[0] for e in real['paths_by_id']})
  if shared == 0:
    return None
  return hash(json.dumps(real['paths_by_id']))


def run(tier):
  return family.run_check(
      'C08', tier, lean_module='C08', cases=cases, execute=execute, compare=compare,
      oracle=oracle, classify=lambda case, fail: fail.get('class'), nontrivial=nontrivial, widen=None,
      time_budget=150 if tier == 'quick' else 1500, floor_nontrivial=0.2,
      extra_coverage={'rule': 'random structures of lists, tuples (incl. empty and interned '
                      'literals), dicts, defaultdicts, named tuples (three flavours), a registered '
                      'custom node type with temporaries, Buildables with positional / *args / '
                      '**kwargs arguments, opaque leaves, sharing at several depths; plus cyclic '
                      'lists/dicts/Buildables. Non-trivial = some object reachable by two paths (or '
                      'a cyclic case); distinct by the id->paths table. Streams of daglish.iterate in '
                      'its three modes, collect_paths_by_id, State.get_all_paths at every state are '
                      'compared with the model; the oracle checks soundness, completeness, '
                      'exact-once, exactness of all-paths, identity rebuild (new and legacy API) '
                      'against an independent walk.'},
      level_note=['in the default memoized mode atoms are memoized by CPython object identity '
                  '(interning); only memoizable objects are compared there'])


def replay(path):
  data = json.load(open(path if os.path.isabs(path) else os.path.join(common.ROOT, path)))
  real, req = execute(data['case'])
  fail = oracle(data['case'], real)
  print(json.dumps({'oracle': fail}, indent=1, default=str)[:3000])
  return 1 if fail else 0
