"""C10 — applying build_diff(old, new) to old yields new."""
from __future__ import annotations

import copy
import json
import os

import fiddle as fdl
from fiddle import daglish
from fiddle._src import diffing

from harness import common, family, graphs, pairs, targets


def cases(tier, r):
  # flat stage: single-node pairs against the Lean model (Model/Diff.lean)
  from harness import flatdiff
  for _ in range(700 if tier == 'quick' else 12000):
    old, new = flatdiff.gen_pair(r)
    yield 'flat', {'flat': True, 'old': old, 'new': new, 'mode': r.randrange(4)}
  for _ in range(1000 if tier == 'quick' else 18000):
    yield 'pair', {'seed': r.getrandbits(48), 'depth': r.choice([1, 2, 3]), 'n_edits': r.randint(1, 5),
                   'flavour': r.choice(['edits', 'edits', 'edits', 'unrelated', 'shared', 'deepcopy']),
                   'tuples': r.random() < 0.25}
  yield 'nan', {'nan': 'flat'}
  yield 'nan', {'nan': 'nested'}
  for _ in range(150 if tier == 'quick' else 2500):
    # values of a user-registered node type among the arguments, their fields edited in place
    yield 'custom', {'seed': r.getrandbits(48), 'depth': r.choice([2, 3]), 'n_edits': r.randint(1, 4),
                     'flavour': r.choice(['edits', 'edits', 'unrelated']), 'tuples': False, 'custom': True}


def _collapse_custom(c):
  if isinstance(c, list):
    if c and c[0] == 'Pair':
      return 'PAIR'
    return [_collapse_custom(x) for x in c]
  return c


def _only_inside_equal_custom_nodes(target, new):
  """The result differs from new only INSIDE values of the user-registered node type, and every
  such value of the result is == (Python equality) to the value new holds at that path: the
  aligned-as-a-whole-by-== behaviour of the recorded finding (a 1 vs True leaf, an object shared
  differently), not a lost change."""
  if _collapse_custom(graphs.skeleton(target)) != _collapse_custom(graphs.skeleton(new)):
    return False
  for v, path in daglish.iterate(new, memoized=False):
    if isinstance(v, graphs.Pair):
      try:
        t = daglish.follow_path(target, path)
      except Exception:
        return False
      if not (isinstance(t, graphs.Pair) and t == v):
        return False
  return True


def _cycle_through_custom_node(root):
  """The structure contains a reference cycle that passes through a value of the user-registered
  node type (a new value referring back into the aligned-as-a-whole custom node it sits in)."""
  onstack, kinds = [], []

  def children(x):
    if isinstance(x, fdl.Buildable):
      return list(x.__arguments__.values())
    if isinstance(x, graphs.Pair):
      return [x.left, x.right]
    if isinstance(x, (list, tuple)):
      return list(x)
    if isinstance(x, dict):
      return list(x.values())
    return []

  def walk(x, depth=0):
    if graphs.is_atom(x) or depth > 200:
      return False
    if any(y is x for y in onstack):
      i = next(n for n, y in enumerate(onstack) if y is x)
      return any(isinstance(y, graphs.Pair) for y in onstack[i:])
    onstack.append(x)
    try:
      return any(walk(c, depth + 1) for c in children(x))
    finally:
      onstack.pop()
  return walk(root)


def diff_canon(d):
  return [repr(c) for c in d.changes] + ['--'] + [graphs.canon(v) for v in d.new_shared_values]


def has_positional(c):
  return any(isinstance(k, int) for v, _ in daglish.iterate(c) if isinstance(v, fdl.Buildable)
             for k in v.__arguments__)


def execute(case):
  if case.get('flat'):
    from harness import flatdiff
    return flatdiff.execute(case, False)
  if case.get('nan'):
    # leaves that are not equal to themselves (NaN): the diff to a deep copy is still empty, and an
    # edit elsewhere is reported as exactly that edit
    nan = float('nan')
    f = graphs.node_fn(1, 0)
    old = fdl.Config(f, p=nan, q=[nan, 1, {'k': float('nan')}, (nan, 2)])
    if case['nan'] == 'nested':
      old = fdl.Config(f, p=fdl.Config(f, p=old, q=float('nan')), q=[old])
    d0 = diffing.build_diff(old, copy.deepcopy(old))
    new = copy.deepcopy(old)
    leaf = new
    while isinstance(leaf.p, fdl.Config):
      leaf = leaf.p
    leaf.q[1] = 5
    d1 = diffing.build_diff(old, new)
    target = copy.deepcopy(old)
    obs = {'kinds': [], 'flavour': 'deepcopy', 'build_diff': 'ok', 'old_unchanged_by_build': True,
           'n_changes': len(d1.changes), 'diff_unchanged': True, 'new_unchanged': True, 'shares_with_new': 0,
           'in_place': True}
    try:
      diffing.apply_diff(d1, target)
      obs['apply'] = 'ok'
    except Exception as e:
      obs['apply'] = f'raised {type(e).__name__}: {e}'[:300]
      return obs, None
    t = target
    while isinstance(t.p, fdl.Config):
      t = t.p
    obs['equal_new'] = t.q[1] == 5 and repr(target) == repr(new)
    obs['deepcopy_empty'] = (len(d0.changes) == 0 and len(d0.new_shared_values) == 0
                             and len(d1.changes) == 1 and len(d1.new_shared_values) == 0)
    if not obs['deepcopy_empty']:
      obs['spurious'] = [repr(c)[:120] for c in (list(d0.changes) + list(d1.changes))][:6]
    return obs, None
  if case.get('positional'):
    # witness of the recorded finding: positional arguments
    f = targets.make_fn([['a', 'po', False], ['p', 'pk', True]])
    try:
      diffing.build_diff(fdl.Config(f, 1, p=2), fdl.Config(f, 1, p=3))
      return {'build_diff': 'ok', 'flavour': 'positional', 'kinds': [], 'n_changes': 0,
              'old_unchanged_by_build': True, 'apply': 'ok', 'equal_new': True, 'diff_unchanged': True,
              'new_unchanged': True, 'shares_with_new': 0}, None
    except TypeError as e:
      return {'build_diff': f'raised TypeError: {e}'[:200], 'flavour': 'positional', 'kinds': [],
              'positional': True}, None
  old, new, kinds = pairs.make_pair(case['seed'], case['depth'], case['n_edits'], case['flavour'],
                                    case.get('tuples', False), custom=case.get('custom', False))
  obs = {'kinds': kinds, 'flavour': case['flavour']}
  try:
    graphs.encode(new)
    graphs.encode(old)
  except ValueError:
    obs['build_diff'] = 'skipped: generator produced a cycle'
    return obs, None
  new_before = graphs.canon(new, order_dicts=True)
  old_before = graphs.canon(old, order_dicts=True)
  try:
    d = diffing.build_diff(old, new)
  except Exception as e:
    obs['build_diff'] = f'raised {type(e).__name__}: {e}'[:200]
    obs['tuples'] = case.get('tuples', False)
    return obs, None
  obs['build_diff'] = 'ok'
  obs['n_changes'] = len(d.changes)
  obs['old_unchanged_by_build'] = (graphs.canon(old, order_dicts=True) == old_before
                                   and graphs.canon(new, order_dicts=True) == new_before)
  dc = diff_canon(d)
  target = copy.deepcopy(old)
  try:
    diffing.apply_diff(d, target)
    obs['apply'] = 'ok'
  except Exception as e:
    obs['apply'] = f'raised {type(e).__name__}: {e}'[:300]
    obs['changes'] = [repr(c)[:150] for c in d.changes][:8]
    obs['aligned_tuple_changed'] = any(
        isinstance(c, diffing.ModifyValue) and any(
            isinstance(daglish.follow_path(old, c.target[:i]), tuple) for i in range(len(c.target)))
        for c in d.changes if c.target)
    return obs, None
  try:
    graphs.encode(target)
  except Exception as e:
    obs['equal_new'] = False
    obs['got'] = f'the patched copy cannot be traversed: {type(e).__name__} {e}'
    obs['want'] = new_before
    obs['same_values'] = _cycle_through_custom_node(target)
    obs['diff_unchanged'] = obs['new_unchanged'] = True
    obs['shares_with_new'] = 0
    return obs, None
  obs['equal_new'] = graphs.canon(target, order_dicts=True) == new_before
  if not obs['equal_new']:
    obs['got'] = graphs.canon(target, order_dicts=True)
    obs['want'] = new_before
    try:
      obs['same_values'] = graphs.skeleton(target) == graphs.skeleton(new) or _only_inside_equal_custom_nodes(target, new)
    except Exception:
      obs['same_values'] = False
  obs['diff_unchanged'] = diff_canon(d) == dc
  obs['new_unchanged'] = graphs.canon(new, order_dicts=True) == new_before
  # in place: the root keeps its identity (apply_diff returns None and mutates `target`)
  obs['in_place'] = True
  # nothing of the diff / of new is aliased into the result
  tids = {id(v) for v, _ in daglish.iterate(target) if not graphs.is_atom(v) and not graphs.is_internable(v)
          and not isinstance(v, targets.Tok)}
  nids = {id(v) for v, _ in daglish.iterate(new) if not graphs.is_atom(v) and not graphs.is_internable(v)
          and not isinstance(v, targets.Tok)}
  obs['shares_with_new'] = len([i for i in tids & nids]) if case['flavour'] not in ('shared',) else 0
  if case['flavour'] == 'deepcopy':
    obs['deepcopy_empty'] = len(d.changes) == 0 and len(d.new_shared_values) == 0
  return obs, None


def compare(real, model):
  if real.get('flat'):
    from harness import flatdiff
    return flatdiff.compare(real, model, False)
  return []


def oracle(case, real):
  if real.get('flat'):
    from harness import flatdiff
    return flatdiff.oracle(case, real, False)
  if real['build_diff'].startswith('skipped'):
    return None
  if real['build_diff'] != 'ok':
    f = {'what': 'build_diff raised', 'raised': real['build_diff']}
    if real.get('positional'):
      f['class'] = 'diff-positional-args'
    return f
  if not real['old_unchanged_by_build']:
    return {'what': 'build_diff modified old or new'}
  if real['apply'] != 'ok':
    f = {'what': 'apply_diff raised on the diff build_diff produced', 'raised': real['apply'],
         'changes': real.get('changes')}
    if real.get('aligned_tuple_changed') and 'tuple' in real['apply']:
      f['class'] = 'diff-aligned-tuple'
    return f
  if not real['equal_new']:
    f = {'what': 'applying the diff to a copy of old does not yield new', 'got': real.get('got'),
         'want': real.get('want'), 'kinds': real['kinds']}
    if case.get('custom') and real.get('same_values'):
      # recorded finding: values of a user-registered node type are aligned as wholes (by ==), their
      # children are then aligned elsewhere: all VALUES are right, objects inside them are shared
      f['class'] = 'diff-custom-node-sharing'
    return f
  if not real['diff_unchanged']:
    return {'what': 'apply_diff modified the diff'}
  if not real['new_unchanged']:
    return {'what': 'apply_diff modified new'}
  if real['shares_with_new']:
    return {'what': 'the patched copy shares mutable objects with new'}
  if real.get('deepcopy_empty') is False:
    return {'what': 'the diff between a configuration and its deep copy is not empty'}
  return None


def classify(case, fail):
  return fail.get('class')


def nontrivial(case, real):
  if real.get('flat'):
    if real.get('build_diff') != 'ok' or not real.get('changes'):
      return None
    import json as _json
    return ('flat', _json.dumps(case['old'], sort_keys=True), _json.dumps(case['new'], sort_keys=True))
  if real['build_diff'] != 'ok' or real.get('apply') != 'ok' or not real.get('n_changes'):
    return None
  return (case.get('seed', case.get('nan')),)


def run(tier):
  return family.run_check(
      'C10', tier, lean_module='C10', cases=cases, execute=execute, compare=compare,
      oracle=oracle, classify=classify, nontrivial=nontrivial, widen=None, floor_nontrivial=0.3,
      time_budget=200 if tier == 'quick' else 1500,
      extra_coverage={'rule': 'pairs (old, new) of Config / Partial roots of the same type: new = deepcopy(old) '
                      'followed by 1-5 random edits (value change, callable swap with dropped arguments, '
                      'argument add / remove, tag add / remove also on unset arguments, alias created, alias '
                      'broken, subtree moved, list append), unrelated pairs, pairs sharing objects by identity, '
                      'deep copies; a quarter of the pairs contain tuples. Non-trivial = diff has changes and '
                      'applies; distinct by seed. Keyword arguments only (positional arguments: open finding).'},
      level_note=['alignment heuristics are not modelled: any diff build_diff produces must apply to new'])


def replay(path):
  data = json.load(open(path if os.path.isabs(path) else os.path.join(common.ROOT, path)))
  real, _ = execute(data['case'])
  fail = oracle(data['case'], real)
  print(json.dumps({'oracle': fail}, indent=1, default=str)[:3000])
  return 1 if fail else 0
