"""C16 — argument history is a faithful, ordered log of edits."""
from __future__ import annotations

import copy
import json
import os
import threading

import fiddle as fdl
from fiddle._src import history as fdl_history

from harness import argstore, common, family, graphs, targets

FIELDS = ['res', 'hist', 'seqs', 'tags']
SEEN_SEQS: set = set()        # sequence ids seen in this run, across all configurations
TAG_EDITS = ('addtag', 'removetag', 'cleartags', 'settags')


def corpus():
  p = os.path.join(common.ROOT, 'corpus', 'C16.jsonl')
  if os.path.exists(p):
    for line in open(p):
      if line.strip():
        yield json.loads(line)


def cases(tier, r):
  for c in corpus():
    yield 'corpus', c
  shapes = argstore.all_shapes(3)
  for sig in shapes:
    fresh = argstore.Fresh()
    for _ in range(3 if tier == 'quick' else 12):
      args, kwargs = argstore.gen_init(r, sig, fresh, malformed=0.0, allow_tv=True)
      ops = argstore.gen_tag_ops(r, sig, fresh, r.randint(1, 6))
      yield 'small', {'p': 'argstore', 'sig': sig, 'args': args, 'kwargs': kwargs, 'ops': ops}
  for _ in range(2500 if tier == 'quick' else 40000):
    sig = argstore.random_sig(r)
    fresh = argstore.Fresh()
    args, kwargs = argstore.gen_init(r, sig, fresh, allow_tv=True)
    ops = argstore.gen_tag_ops(r, sig, fresh, r.randint(1, 14 if tier == 'quick' else 30))
    ann = argstore.gen_ann(r, sig) if r.random() < 0.3 else []     # Annotated[...] tags: logged by the constructor
    case = {'p': 'argstore', 'sig': sig, 'args': args, 'kwargs': kwargs, 'ops': ops, 'ann': ann}
    if r.random() < 0.1:
      case['init_suspended'] = True       # constructed inside `with suspend_tracking():`
    yield 'random', case


  for how in ('suspend', 'switch'):
    for depth in (1, 2, 3):
      for second in (False, True):
        yield 'threads', {'threads_stage': True, 'how': how, 'depth': depth, 'second': second}

  # stage C: direct edits made from frames with arbitrary file names (code compiled from a
  # string, a notebook cell, user files whose names resemble Fiddle's): the recorded location
  for _ in range(250 if tier == 'quick' else 4000):
    yield 'stack', {'stack': True, 'files': [r.choice(FILE_POOL) for _ in range(r.randint(1, 3))],
                    'pad': [r.randint(0, 6) for _ in range(3)], 'edit': r.choice(sorted(EDITS))}


FILE_POOL = ['<string>', '<stdin>', '<ipython-input-7-5c1ab0>', '/work/exp/train.py', '/work/exp/my_config.py',
             '/work/exp/config.py', '/work/configs/history.py', '/work/fiddle/auto_config.py',
             '/work/_src/daglish.py', '<frozen runner>', '/work/exp/flags.py']
EDITS = {
    'setattr': 'cfg.p = v',
    'delattr': 'del cfg.q',
    'tagged_value': 'cfg.p = tv',        # a TaggedValue made beforehand (it has a history of its own)
    'assign': 'fdl.assign(cfg, p=v, q=v)',
    'construct': 'out.append(fdl.Config(fn, p=v))',
    'construct_partial': 'out.append(fdl.Partial(fn, v, q=v))',
    'update_callable': 'fdl.update_callable(cfg, fn2)',
    'materialize': 'materialize.materialize_defaults(cfg)',
    'copy_with': 'out.append(fdl.copy_with(cfg, p=v))',
    'setitem': 'cfg[0] = v',
}


def run_stack(case):
  """Performs one direct edit from a chain of generated frames; returns the locations recorded
  for the new history entries and the real stack seen by the location provider."""
  import sys
  from fiddle._src import materialize
  fn = targets.make_fn([['p', 'pk', True], ['q', 'pk', True]])
  fn2 = targets.make_fn([['p', 'pk', True], ['q', 'pk', True], ['r', 'pk', True]])
  cfg = fdl.Config(fn, q=targets.Tok(1))
  out = []
  ns = {'fdl': fdl, 'materialize': materialize, 'tv': targets.TAGS[0].new(targets.Tok(3)), 'fn': fn,
        'fn2': fn2, 'out': out}
  files, pad = case['files'], case['pad']
  src = '\n' * pad[0] + 'def edit(cfg, v):\n  ' + EDITS[case['edit']] + '\n'
  exec(compile(src, files[0], 'exec'), ns)
  call = ns['edit']
  edit_line = pad[0] + 2
  for i, f in enumerate(files[1:], 1):
    lsrc = '\n' * pad[i] + f'def level{i}(inner, cfg, v):\n  return inner(cfg, v)\n'
    lns = {}
    exec(compile(lsrc, f, 'exec'), lns)
    call = (lambda lv, inner: (lambda cfg, v: lv(inner, cfg, v)))(lns[f'level{i}'], call)
  stacks = []

  def prof(frame, event, arg):
    if event == 'call' and frame.f_code.co_name == '_stacktrace_location_provider':
      st, f = [], frame
      while f is not None and len(st) < 30:
        st.append([f.f_code.co_filename, f.f_lineno, f.f_code.co_name])
        f = f.f_back
      stacks.append(st)
  before = {id(e) for es in cfg.__argument_history__.values() for e in es}
  sys.setprofile(prof)
  try:
    call(cfg, targets.Tok(2))
  finally:
    sys.setprofile(None)
  target = out[0] if out else cfg
  entries = sorted((e for es in target.__argument_history__.values() for e in es if id(e) not in before),
                   key=lambda e: e.sequence_id)
  if case['edit'] == 'copy_with':
    # the copy carries the original's entries (deep-copied); its new ones are the last
    entries = entries[-1:]
    stacks = stacks[-1:]
  return {'stack': True, 'edit_site': [files[0], edit_line, 'edit'],
          'locs': [[e.location.filename, e.location.line_number, e.location.function_name] for e in entries],
          'stacks': stacks}


def stack_oracle(case, real):
  if not real['locs']:
    return {'what': 'the edit recorded no history entry', 'edit': case['edit']}
  for loc in real['locs']:
    if loc != real['edit_site']:
      return {'what': "a direct edit is not attributed to the caller's source location",
              'edit': EDITS[case['edit']], 'caller': real['edit_site'], 'recorded': loc,
              'frames': case['files']}
  return None


def widen(tier, r):
  for _ in range(15000):
    sig = argstore.random_sig(r)
    fresh = argstore.Fresh()
    args, kwargs = argstore.gen_init(r, sig, fresh, allow_tv=True)
    ops = argstore.gen_tag_ops(r, sig, fresh, r.randint(1, 10))
    yield 'widen', {'p': 'argstore', 'sig': sig, 'args': args, 'kwargs': kwargs, 'ops': ops}


def _hist_values(cfg, name):
  return [('deleted' if e.new_value is fdl_history.DELETED else e.new_value)
          for e in cfg.__argument_history__.get(name, [])]


def run_threads(case):
  """Tracking is per thread: while THIS thread is inside (nested) suspend_tracking() blocks - or has
  switched tracking off - another thread editing its own configuration still logs every change,
  and a thread that starts, edits and ends does not switch tracking back on here."""
  import threading
  f = graphs.node_fn(1, 0)
  main_cfg = fdl.Config(f, p=1)
  out = {}

  def worker(tag):
    try:
      c = fdl.Config(f, p=1)
      c.p = 2
      c.q = 3
      del c.q
      out[tag] = {'p': _hist_values(c, 'p'), 'q': _hist_values(c, 'q'), 'value': c.p}
    except Exception as e:
      out[tag] = f'raised {type(e).__name__}: {e}'[:160]

  def run_worker(tag):
    t = threading.Thread(target=worker, args=(tag,))
    t.start()
    t.join()

  how = case['how']
  run_worker('before')
  cms = []
  if how == 'switch':
    fdl_history.set_tracking(False)
  else:
    for _ in range(case['depth']):
      cm = fdl_history.suspend_tracking()
      cm.__enter__()
      cms.append(cm)
  try:
    main_cfg.q = 5                       # suspended: no entry
    run_worker('during')                 # a new thread: tracks, and leaves this thread suspended
    main_cfg.r = 6                       # still suspended: no entry
    if case['second']:
      run_worker('during2')
      main_cfg.q = 7
  finally:
    if how == 'switch':
      fdl_history.set_tracking(True)
    else:
      while cms:
        cms.pop().__exit__(None, None, None)
  main_cfg.p = 8                         # tracked again
  run_worker('after')
  return {'threads_stage': True, 'workers': out,
          'main_suspended_entries': {n: _hist_values(main_cfg, n) for n in ('q', 'r') if _hist_values(main_cfg, n)},
          'main_p': _hist_values(main_cfg, 'p')}


def execute(case):
  if case.get('threads_stage'):
    return run_threads(case), None
  if case.get('stack'):
    real = run_stack(case)
    # the model runs on the real stack of the LAST entry's provider call (line numbers of the
    # function's own frame differ per call; one representative is enough)
    frames = [[f, ln] for f, ln, _ in (real['stacks'][-1] if real['stacks'] else [])]
    return real, {'p': 'locate', 'frames': frames}
  real, cfg = argstore.run_real(case, with_build=True)
  if cfg is not None:
    # history never influences equality or building: compare with a history-erased copy
    twin = copy.deepcopy(cfg)
    for k in list(twin.__argument_history__):
      del twin.__argument_history__[k]
    try:
      real['eq_without_history'] = bool(twin == cfg)
    except Exception as e:      # == must not raise either (C06), report as not equal
      real['eq_without_history'] = f'raised {type(e).__name__}'
    real['build_without_history'] = argstore.real_build(twin)
  req = {k: case.get(k, []) for k in ('p', 'sig', 'args', 'kwargs', 'ops', 'ann')}
  req['init_suspended'] = bool(case.get('init_suspended'))
  return real, req


def compare(real, model):
  if real.get('threads_stage'):
    return []
  if real.get('stack'):
    if len(real['stacks']) != len(real['locs']):
      return [('stack', 'provider calls vs entries', len(real['stacks']), len(real['locs']))]
    if not real['locs']:
      return []
    got = real['locs'][-1][:2]
    return [] if model.get('located') == got else [('stack', 'located', got, model.get('located'))]
  return argstore.diff_fields(real, model, FIELDS)


def per_key(hist):
  d = {}
  for k, h in hist:
    d.setdefault(str(k) if not isinstance(k, str) else k, []).append(h)
  return d


def check_state(state):
  """Clauses that hold of every state reached with tracking never suspended."""
  args = {(k if isinstance(k, str) else str(k)): v for k, v in state['args_real']}
  tags = {(k if isinstance(k, str) else str(k)): ts for k, ts in state['tags']}
  pk = per_key(state['hist'])
  for key, entries in pk.items():
    if key == '__fn_or_cls__':
      continue
    vals = [h for h in entries if h == 'deleted' or 'val' in h]
    tgs = [h for h in entries if isinstance(h, dict) and 'tags' in h]
    if vals:
      last = vals[-1]
      cur = args.get(key)
      if cur is None and last != 'deleted':
        return {'what': 'history of an unset parameter does not end with DELETED', 'key': key, 'last': last}
      if cur is not None and last != {'val': cur}:
        return {'what': 'last NEW_VALUE entry is not the current value', 'key': key, 'last': last, 'current': cur}
    if tgs:
      if tgs[-1]['tags'] != tags.get(key, []):
        return {'what': 'last UPDATE_TAGS entry is not the current tag set', 'key': key,
                'last': tgs[-1], 'current': tags.get(key, [])}
  for key, cur in args.items():
    if key not in pk:
      return {'what': 'a set parameter has no history', 'key': key}
  return None


def oracle(case, real):
  if real.get('threads_stage'):
    want = {'p': [1, 2], 'q': [3, 'deleted'], 'value': 2}
    for tag, got in real['workers'].items():
      if got != want:
        return {'what': f'a thread editing its own configuration ({tag} the suspension in another thread) did not '
                        'log exactly its changes', 'observed': got, 'expected': want}
    if real['main_suspended_entries']:
      return {'what': 'edits made while tracking is suspended in this thread added entries (another thread '
                      'ran meanwhile)', 'entries': real['main_suspended_entries']}
    if real['main_p'] != [1, 8]:
      return {'what': 'tracking was not back on after the suspension ended', 'history of p': real['main_p']}
    return None
  if case.get('stack'):
    return stack_oracle(case, real)
  if real['init'] == 'err':
    return None
  for i, s in enumerate(real['steps']):
    if s.get('orig_same') is False:
      return {'where': f'step{i}', 'what': 'copy_with modified the original configuration'}
  if case.get('init_suspended') and real['init']['hist']:
    return {'where': 'init', 'what': 'entries added (a sequence number drawn) while tracking is suspended: '
            'the Buildable was constructed inside suspend_tracking()', 'entries': real['init']['hist']}
  states = [('init', None, real['init'])] + [
      (f'step{i}', case['ops'][i], s['state']) for i, s in enumerate(real['steps'])]
  suspended_ever = bool(case.get('init_suspended'))
  tracking = True
  saved = []
  prev = None
  deferred = None
  for where, op, st in states:
    seqs = st['seqs']
    if any(a >= b for a, b in zip(seqs, seqs[1:])):
      return {'where': where, 'what': 'sequence numbers not strictly increasing in program order'}
    if prev is not None:
      new_entries = st['hist'][len(prev['hist']):]
      new_locs = st['locs'][len(prev['locs']):]
      if st['hist'][:len(prev['hist'])] != prev['hist']:
        return {'where': where, 'what': 'existing history entries were rewritten'}
      if not tracking and new_entries:
        return {'where': where, 'op': op, 'what': 'entries added while tracking is suspended',
                'entries': new_entries}
      if tracking:
        # every change to a parameter's stored value appended exactly one entry for it
        before = {str(k): v for k, v in prev['args_real']}
        after = {str(k): v for k, v in st['args_real']}
        for key in set(before) | set(after):
          if before.get(key) != after.get(key):
            n = sum(1 for k, h in new_entries if str(k) == key and (h == 'deleted' or 'val' in h))
            if n != 1:
              return {'where': where, 'op': op, 'key': key,
                      'what': f'{n} NEW_VALUE entries for one change of the stored value'}
        # direct edits are attributed to the caller (the harness), not to Fiddle internals
        for key, filename, func in new_locs:
          if '/fiddle/_src/' in filename.replace(os.sep, '/') or filename.endswith('fiddle/__init__.py'):
            f = {'where': where, 'op': op, 'key': key, 'what': 'edit attributed to Fiddle internals',
                 'location': [filename, func]}
            if filename.endswith('fiddle/_src/tagging.py') and op[0] in TAG_EDITS:
              # recorded finding: keep looking for anything else in this history
              f['class'] = 'tagging-location'
              deferred = deferred or f
            else:
              return f
    if op is not None and op[0] == 'suspend':
      tracking = False
      suspended_ever = True
    elif op is not None and op[0] == 'resume':
      tracking = True
    elif op is not None and op[0] == 'enter_suspend':
      # a `with suspend_tracking():` block is entered; blocks nest
      saved.append(tracking)
      tracking = False
      suspended_ever = True
    elif op is not None and op[0] == 'exit_suspend':
      if saved:
        tracking = saved.pop()
    if not suspended_ever:
      bad = check_state(st)
      if bad is None and isinstance(st, dict) and st.get('fn_last_is_current') is False:
        bad = {'what': "the history of __fn_or_cls__ does not end with the Buildable's current callable"}
      if bad:
        bad['where'] = where
        bad['op'] = op
        return bad
    prev = st
  last = states[-1][2]
  for s_ in last['seqs']:
    if s_ in SEEN_SEQS:
      return {'where': 'final', 'what': 'sequence number reused across configurations', 'seq': s_}
  SEEN_SEQS.update(last['seqs'])
  if real.get('eq_without_history') is not True:
    return {'where': 'final', 'what': 'history influences ==', 'observed': real.get('eq_without_history')}
  if real.get('build_without_history') != last['build']:
    return {'where': 'final', 'what': 'history influences build'}
  return deferred


def classify(case, fail):
  return fail.get('class')


def nontrivial(case, real):
  if real.get('threads_stage'):
    return ('threads', case['how'], case['depth'], case['second'])
  if case.get('stack'):
    return ('stack', case['edit'], tuple(case['files']))
  if real['init'] == 'err' or not real['steps']:
    return None
  last = real['steps'][-1]['state']
  kinds = tuple(sorted({op[0] + ':' + ('err' if s['res'] == 'err' else 'ok')
                        for op, s in zip(case['ops'], real['steps'])}))
  return (tuple((p[1], p[2]) for p in case['sig']), kinds, len(last['hist']))


def thread_check(tier, r):
  """Real threads editing distinct configurations: sequence ids unique across threads and
  increasing within each thread; suspension in one thread does not silence another."""
  n_threads = 4
  n_edits = 300 if tier == 'quick' else 3000
  fn = targets.make_fn([['p', 'pk', True], ['q', 'pk', True]])
  cfgs = [fdl.Config(fn) for _ in range(n_threads)]
  barrier = threading.Barrier(n_threads)

  def work(i):
    barrier.wait()
    for j in range(n_edits):
      if i == 0 and j % 7 == 3:
        with fdl_history.suspend_tracking():
          cfgs[i].p = targets.Tok(j)
      else:
        cfgs[i].p = targets.Tok(j)
  ts = [threading.Thread(target=work, args=(i,)) for i in range(n_threads)]
  for t in ts:
    t.start()
  for t in ts:
    t.join()
  all_ids = []
  for i, c in enumerate(cfgs):
    ids = [e.sequence_id for e in c.__argument_history__['p']]
    if any(a >= b for a, b in zip(ids, ids[1:])):
      return {'what': 'sequence ids not increasing within a thread', 'thread': i}
    expected = n_edits - (len([j for j in range(n_edits) if j % 7 == 3]) if i == 0 else 0)
    if len(ids) != expected:
      return {'what': 'suspension leaked across threads or entries lost', 'thread': i,
              'entries': len(ids), 'expected': expected}
    all_ids += ids
  if len(set(all_ids)) != len(all_ids):
    return {'what': 'sequence ids not unique across threads'}
  return None


def run(tier):
  extra = {'rule': 'every signature shape with <=3 named parameters x random initial state x '
           'histories of C03 edits interleaved with add_tag/remove_tag/set_tags/clear_tags (by name '
           'and by index), TaggedValue assignments, materialize_defaults and tracking switches; '
           'plus seeded random signatures/histories. Non-trivial = at least one op ran; distinct by '
           '(shape, op kinds x outcome, history length). After every op the flattened history '
           '(key, kind, value), tag sets and relative sequence order are compared with the model; '
           'the oracle checks last-entry-is-current, one-entry-per-change, monotone unique '
           'sequence ids (also across configurations and 4 real threads), silence while '
           'suspended, caller attribution, and that erasing history changes neither == nor build.'}
  r = common.rng('C16-threads', tier)
  tfail = thread_check(tier, r)
  extra['thread_check'] = 'failed' if tfail else 'passed'

  def oracle_with_threads(case, real, _state={'reported': False}):
    if tfail and not _state['reported']:
      _state['reported'] = True
      return dict(tfail, where='threads')
    return oracle(case, real)
  return family.run_check(
      'C16', tier, lean_module='C16', cases=cases, execute=execute, compare=compare,
      oracle=oracle_with_threads, classify=classify, nontrivial=nontrivial, widen=widen,
      normalise_model=lambda m: argstore.norm_model(m) if 'init' in m else m, time_budget=150 if tier == 'quick' else 1500,
      extra_coverage=extra,
      level_note=['update_callable / copy_with / assign are exercised by the oracle only through '
                  'their constituent setattr edits', 'absolute sequence ids are not compared with '
                  'the model (the counter is global); order and uniqueness are'])


def replay(path):
  data = json.load(open(path if os.path.isabs(path) else os.path.join(common.ROOT, path)))
  case = data['case']
  real, req = execute(case)
  fail = oracle(case, real)
  print(json.dumps({'oracle': fail}, indent=1, default=str))
  return 1 if fail else 0
