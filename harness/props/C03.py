"""C03 — attribute, index and slice edits behave like edits to a bound-argument list."""
from __future__ import annotations

import json
import os

from harness import argstore, common, family, refmodel

FIELDS = ['res', 'view', 'oa', 'oa_defaults', 'oa_unset', 'oa_nopos', 'oa_novk', 'oa_noeq',
          'oa_all', 'dir']
REPORT_FIELDS = FIELDS[1:]
SPECIES = ['function', 'class', 'classmethod', 'callable_instance', 'partial', 'unhashable_instance']


def corpus():
  p = os.path.join(common.ROOT, 'corpus', 'C03.jsonl')
  if os.path.exists(p):
    for line in open(p):
      if line.strip():
        yield json.loads(line)


def small_ops(sig):
  """A small exhaustive op alphabet for a signature (used for histories of length <= 2)."""
  P = len([p for p in sig if p[1] in ('po', 'pk')])
  has_vp = any(p[1] == 'vp' for p in sig)
  names = [p[0] for p in sig][:3] + ['x']
  ops = []
  for n in names:
    ops += [['setattr', n, {'v': 100}], ['delattr', n], ['getattr', n]]
  for i in sorted({0, P - 1, P, -1, -P - 1, P + 1}):
    ops += [['setitem', i, {'v': 101}], ['delitem', i]]
  sls = [[None, None, None], [None, None, -1], [P, None, None], [0, P, None], [P, P, None],
         [1, 1, None], [None, None, 2], [-1, None, None]]
  if has_vp:
    sls += [['V', None, None], [None, 'V', None]]
    ops.append(['setvar', {'v': 102}])
  for sl in sls:
    ops.append(['delslice', sl])
    ops.append(['setslice', sl, [{'v': 103}, {'v': 104}]])
    ops.append(['setslice', sl, []])
  return ops


def cases(tier, r):
  for c in corpus():
    yield 'corpus', c
  shapes = argstore.all_shapes(3 if tier == 'quick' else 4)
  # small-scope exhaustive: every shape x a representative initial state x op histories
  per_shape = 14 if tier == 'quick' else 60
  for sig in shapes:
    alphabet = small_ops(sig)
    fresh = argstore.Fresh()
    for _ in range(per_shape):
      args, kwargs = argstore.gen_init(r, sig, fresh, malformed=0.0)
      ops = [r.choice(alphabet) for _ in range(r.randint(1, 3))]
      yield 'small', {'p': 'argstore', 'sig': sig, 'args': args, 'kwargs': kwargs, 'ops': ops,
                      'species': r.choice(SPECIES)}
  n_random = 3000 if tier == 'quick' else 40000
  for _ in range(n_random):
    sig = argstore.random_sig(r)
    fresh = argstore.Fresh()
    args, kwargs = argstore.gen_init(r, sig, fresh)
    ops = argstore.gen_ops(r, sig, fresh, r.randint(1, 12 if tier == 'quick' else 30))
    yield 'random', {'p': 'argstore', 'sig': sig, 'args': args, 'kwargs': kwargs, 'ops': ops,
                     'species': r.choice(SPECIES)}


def widen(tier, r):
  for _ in range(20000):
    sig = argstore.random_sig(r)
    fresh = argstore.Fresh()
    args, kwargs = argstore.gen_init(r, sig, fresh)
    ops = argstore.gen_ops(r, sig, fresh, r.randint(1, 10))
    yield 'widen', {'p': 'argstore', 'sig': sig, 'args': args, 'kwargs': kwargs, 'ops': ops,
                    'species': 'function'}


def execute(case):
  real, cfg = argstore.run_real(case, species=case.get('species', 'function'), with_build=False)
  req = {k: case[k] for k in ('p', 'sig', 'args', 'kwargs', 'ops')}
  return real, req


def compare(real, model):
  return argstore.diff_fields(real, model, FIELDS)


def collides(case):
  """Constructor keyword whose name is a positional-only / variadic parameter (accepted into
  **kwargs by Python's binding; outside the op set of the reference model)."""
  special = {p[0] for p in case['sig'] if p[1] in ('po', 'vp', 'vk')}
  return any(k in special for k, _ in case['kwargs'])


def oracle(case, real):
  """The property, transcribed: the real Buildable must report what the reference model
  predicts after every op; rejected edits raise and change nothing."""
  if collides(case):
    return None
  try:
    ref = refmodel.Ref.construct(case['sig'], case['args'], case['kwargs'])
  except refmodel.Raises:
    if real['init'] != 'err':
      return {'where': 'init', 'what': 'constructor accepted arguments the reference rejects'}
    return None
  if real['init'] == 'err':
    return {'where': 'init', 'what': 'constructor raised on arguments the reference accepts'}

  def check(where, state):
    exp = ref.reports()
    for f in REPORT_FIELDS:
      if state[f] != exp[f]:
        return {'where': where, 'field': f, 'real': state[f], 'reference': exp[f]}
    return None
  bad = check('init', real['init'])
  if bad:
    return bad
  for i, (op, st) in enumerate(zip(case['ops'], real['steps'])):
    exp_res = ref.step(op)
    if (exp_res == 'err') != (st['res'] == 'err'):
      return {'where': f'step{i}', 'op': op, 'what': 'raised / not raised',
              'real': st['res'], 'reference': exp_res}
    if exp_res != 'err' and op[0] in ('getattr', 'getitem', 'getslice') and exp_res != st['res']:
      return {'where': f'step{i}', 'op': op, 'what': 'read result', 'real': st['res'],
              'reference': exp_res}
    bad = check(f'step{i}', st['state'])
    if bad:
      bad['op'] = op
      return bad
  return None


def nontrivial(case, real):
  if real['init'] == 'err' or not real['steps']:
    return None
  kinds = tuple(sorted({op[0] + ':' + ('err' if s['res'] == 'err' else 'ok')
                        for op, s in zip(case['ops'], real['steps'])}))
  shape = tuple((p[1], p[2]) for p in case['sig'])
  return (shape, kinds, len(real['steps'][-1]['state']['view']))


def run(tier):
  return family.run_check(
      'C03', tier, lean_module='C03', cases=cases, execute=execute, compare=compare,
      oracle=oracle, nontrivial=nontrivial, widen=widen, normalise_model=argstore.norm_model,
      time_budget=120 if tier == 'quick' else 1500,
      extra_coverage={'rule': 'every signature shape with <=3 (quick) / <=4 (thorough) named '
                      'parameters x random initial state x op histories of length 1-3 over a '
                      'boundary-biased alphabet, plus seeded random signatures/histories; five '
                      'callable species. Non-trivial = construction succeeded and at least one '
                      'op ran; distinct by (signature shape, set of op kinds x outcome, final '
                      'view length). After every op: cfg[:], ordered_arguments under 7 flag '
                      'combinations, dir, op result, raised/not raised.'},
      level_note=['reference model harness/refmodel.py is a transcription of the property '
                  '(DESIGN.md Appendix B)', 'exception classes are not compared'])


def replay(path):
  data = json.load(open(path if os.path.isabs(path) else os.path.join(common.ROOT, path)))
  case = data['case']
  real, req = execute(case)
  fail = oracle(case, real)
  print(json.dumps({'oracle': fail}, indent=1, default=str))
  return 1 if fail else 0
