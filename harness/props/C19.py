"""C19 — threads working on different configurations do not interfere."""
from __future__ import annotations

import copy
import json
import os
import random
import threading

import fiddle as fdl
from fiddle._src import building
from fiddle._src import history as fdl_history
from fiddle._src import signatures
from fiddle._src.experimental import serialization

from harness import common, family, graphs, sched, targets


def fresh_fn(tag, sig=None):
  """A fresh callable (never seen by the signature cache)."""
  ns = {}
  sig = sig or 'p=None, q=1'
  exec(f'def {tag}({sig}):\n  return ("{tag}", {", ".join(s.split("=")[0].strip() for s in sig.split(","))})\n', ns)
  fn = ns[tag]
  fn.__module__ = 'harness.props.C19'
  fn.__qualname__ = tag
  import sys as _sys
  setattr(_sys.modules['harness.props.C19'], tag, fn)      # importable: serializable by reference
  return fn


SHARED = {}


def shared_callable(i):
  """A callable looked up for the first time by several threads at once."""
  if i not in SHARED:           # (racing first lookups may both create one; the last registered wins)
    SHARED[i] = fresh_fn(f'shared_{i}', 'x=0, y=1')
  return SHARED[i]


def annotated_callable(i):
  """A callable with Annotated[...] tags, configured for the first time by several threads at once."""
  key = ('annotated', i)
  if key not in SHARED:
    import typing
    ns = {'typing': typing, 'T0': targets.T0, 'T1': targets.T1}
    exec(f"def annot_{i}(lr: typing.Annotated[float, T1] = 0.1, wd: typing.Annotated[float, T0, T1] = 0.0, "
         f"name='n'):\n  return ('annot_{i}', lr, wd, name)\n", ns)
    fn = ns[f'annot_{i}']
    fn.__module__ = 'harness.props.C19'
    fn.__qualname__ = f'annot_{i}'
    import sys as _sys
    setattr(_sys.modules['harness.props.C19'], f'annot_{i}', fn)
    SHARED[key] = fn
  return SHARED[key]


def prog_annotated(tid, seed):
  def run():
    f = annotated_callable(seed % 5)
    cfg = fdl.Config(f, name=f't{tid}')
    tags = {n: sorted(t.__name__ for t in ts) for n, ts in cfg.__argument_tags__.items() if ts}
    fdl.set_tagged(cfg, tag=targets.T0, value=0.5 + tid)
    sel = sorted(repr(x) for x in fdl.selectors.select(cfg, tag=targets.T1)) if hasattr(fdl, 'selectors') else []
    return ['annotated', tags, cfg.wd, repr(fdl.build(cfg)), sel]
  return run


def prog_build(tid, seed):
  def run():
    f = fresh_fn(f'b{tid}_{seed}')
    g = fresh_fn(f'bg{tid}_{seed}', 'z=2')
    inner = fdl.Config(g, z=tid)
    cfg = fdl.Config(f, p=[inner, inner], q=inner)
    out = fdl.build(cfg)
    # a nested build from inside a callable must be rejected in THIS thread
    def nested(p=None):
      try:
        fdl.build(fdl.Config(g))
        return 'nested-accepted'
      except ValueError:
        return 'nested-rejected'
    nested.__module__ = 'harness.props.C19'
    nested.__qualname__ = 'nested'
    n = fdl.build(fdl.Config(nested, p=fdl.Config(g, z=1)))
    return ['build', repr(out), n, bool(getattr(building._state, 'in_build', False))]
  return run


def prog_edit(tid, seed):
  def run():
    f = fresh_fn(f'e{tid}_{seed}', 'p=None, q=1, r=2')
    cfg = fdl.Config(f, p=tid)
    cfg.q = 10
    with fdl_history.suspend_tracking():
      cfg.r = 11
      inside = fdl_history.tracking_enabled()
      with fdl_history.suspend_tracking():
        cfg.p = 12
      still = fdl_history.tracking_enabled()
    cfg.q = 13
    del cfg.r
    after = fdl_history.tracking_enabled()
    # (with the place each change was made from: the same source lines in every thread)
    hist = {k: [(e.kind.name, repr(e.new_value), e.location.function_name, e.location.line_number) for e in v]
            for k, v in cfg.__argument_history__.items() if k != '__fn_or_cls__'}
    ids = [e.sequence_id for v in cfg.__argument_history__.values() for e in v]
    ids_sorted = sorted(ids)
    order = [k for _, k in sorted((e.sequence_id, k) for k, v in cfg.__argument_history__.items()
                                  if k != '__fn_or_cls__' for e in v)]
    return ['edit', hist, [inside, still, after], ids_sorted == sorted(set(ids)), ids, order]
  return run


def prog_copy_dump(tid, seed):
  def run():
    # one thread's callable is another thread's argument VALUE, at a place that depends on the thread
    f = shared_callable((seed + tid) % 3)
    g = shared_callable((seed + tid + 1) % 3)
    cfg = fdl.Config(f, x=[tid, {'k': tid}], y=fdl.Config(f, x=tid))
    if tid % 2:
      cfg.y.y = {'fn': g}
    else:
      cfg.x.append(g)
    c2 = copy.deepcopy(cfg)
    doc = serialization.dump_json(cfg)
    back = serialization.load_json(doc)
    eq = (c2 == cfg, back == cfg)
    return ['copy', graphs.canon(c2), eq, doc]
  return run


def prog_sig(tid, seed):
  def run():
    f = shared_callable(10 + seed % 2)
    own = fresh_fn(f's{tid}_{seed}', 'u=0')
    a = fdl.Config(own, u=tid)
    b = fdl.Config(f, x=tid)          # first-time signature lookup of a SHARED callable
    c = fdl.Config(own, u=tid + 1)
    return ['sig', repr(fdl.build(a)), repr(fdl.build(b)), repr(fdl.build(c)),
            [p for p in signatures.get_signature(f).parameters], [p for p in signatures.get_signature(own).parameters]]
  return run


def prog_fail(tid, seed):
  """A build that fails with an exception class private to this thread (every thread's class
  has the same module and qualified name): the thread must be able to catch ITS OWN class, and
  the message must carry the context of ITS OWN configuration."""
  def run():
    class StageFailed(RuntimeError):
      pass
    StageFailed.__module__ = 'harness.props.C19'
    StageFailed.__qualname__ = 'StageFailed'

    def stage(owner=None, pad=0):
      raise StageFailed(f'stage of {owner} failed')
    stage.__module__ = 'harness.props.C19'
    stage.__qualname__ = f'stage_{tid}'
    cfg = fdl.Config(fresh_fn(f'f{tid}_{seed}'), p=[fdl.Config(stage, owner=tid)])
    try:
      fdl.build(cfg)
      return ['fail', 'no exception']
    except StageFailed as e:
      return ['fail', 'caught own class', f'owner={tid}' in str(e) and f'stage of {tid} failed' in str(e),
              bool(getattr(building._state, 'in_build', False))]
    except Exception as e:
      return ['fail', 'not caught by its own class', type(e).__qualname__]
  return run


def prog_tracking_off(tid, seed):
  """A thread that switches history tracking off for itself and ends that way, followed (in the
  same OS thread slot) by nothing: other threads, also later ones, must still track."""
  def run():
    f = fresh_fn(f't{tid}_{seed}', 'p=None, q=1')
    box = {}

    def child():
      fdl_history.set_tracking(enabled=False)
      c = fdl.Config(f)
      c.p = 1
      box['child_entries'] = len(c.__argument_history__.get('p', []))
    t = threading.Thread(target=child)
    t.start()
    t.join()
    # a NEW thread started afterwards (it may get the recycled thread identifier)
    def later():
      c = fdl.Config(f)
      c.p = 2
      box['later_enabled'] = fdl_history.tracking_enabled()
      box['later_entries'] = len(c.__argument_history__.get('p', []))
    t2 = threading.Thread(target=later)
    t2.start()
    t2.join()
    cfg = fdl.Config(f)
    cfg.q = 3
    return ['tracking_off', box.get('child_entries'), box.get('later_enabled'), box.get('later_entries'),
            fdl_history.tracking_enabled(), len(cfg.__argument_history__.get('q', []))]
  return run


EXPECTED_ALONE = {
    'fail': lambda tid: ['fail', 'caught own class', True, False],
    'tracking_off': lambda tid: ['tracking_off', 0, True, 1, True, 1],
}

PROGS = {'build': prog_build, 'edit': prog_edit, 'copy': prog_copy_dump, 'sig': prog_sig,
         'fail': prog_fail, 'tracking_off': prog_tracking_off, 'annotated': prog_annotated}


def cases(tier, r):
  kinds = list(PROGS)
  n_pairs = 10 if tier == 'quick' else 60
  for i in range(n_pairs):
    a, b = r.choice(kinds), r.choice(kinds)
    yield 'preempt1', {'progs': [a, b], 'seed': r.getrandbits(24), 'mode': 'single',
                       'stride': 7 if tier == 'quick' else 2}
  # a failing build pre-empted at EVERY line by another thread's build (the failing callable is
  # entered, the other thread builds, then the callable raises)
  for progs in (['fail', 'build'], ['fail', 'fail'], ['build', 'fail']):
    yield 'fail_preempt', {'progs': progs, 'seed': r.getrandbits(24), 'mode': 'single', 'stride': 1}
  # an editing thread pre-empted at (up to 200 evenly spaced) single lines - inside the constructor
  # too - by another thread that constructs and edits its own configuration
  for progs in (['annotated', 'annotated'], ['annotated', 'annotated', 'edit']):
    yield 'annot_preempt', {'progs': progs, 'seed': r.getrandbits(24), 'mode': 'single', 'stride': 1}
  for progs in (['edit', 'edit'], ['edit', 'tracking_off']):
    yield 'edit_preempt', {'progs': progs, 'seed': r.getrandbits(24), 'mode': 'single', 'stride': 1}
  for i in range(2 if tier == 'quick' else 12):
    yield 'copies', {'progs': ['copy', 'copy', 'copy'][:2 + i % 2], 'seed': r.getrandbits(24), 'mode': 'random',
                     'p': 0.02, 'runs': 1 if tier == 'quick' else 4}
  for i in range(40 if tier == 'quick' else 600):
    n = r.choice([2, 2, 3])
    yield 'random', {'progs': [r.choice(kinds) for _ in range(n)], 'seed': r.getrandbits(24), 'mode': 'random',
                     'p': r.choice([0.02, 0.1, 0.3]), 'runs': 3 if tier == 'quick' else 10}


def strip_ids(res):
  """Absolute sequence ids depend on the interleaving; everything else must not."""
  if res and res[0] == 'edit':
    ids = res[4]
    return res[:4] + [[a < b for a, b in zip(ids, ids[1:])] == sorted([a < b for a, b in zip(ids, ids[1:])]), len(ids)] + res[5:]
  return res


def run_alone(kinds, seed):
  signatures._signature_cache.clear() if hasattr(signatures._signature_cache, 'clear') else None
  out = []
  for tid, k in enumerate(kinds):
    # every program on its own: fresh shared callables, so nothing an earlier program left in a
    # process-wide cache is visible to it
    SHARED.clear()
    try:
      out.append(strip_ids(PROGS[k](tid, seed)()))
    except Exception as e:
      out.append(['raised', type(e).__name__])
  return out


def run_scheduled(kinds, seed, decide):
  SHARED.clear()
  programs = [PROGS[k](tid, seed) for tid, k in enumerate(kinds)]
  s = sched.Scheduler(programs, decide)
  results, errors = s.run()
  out = []
  all_ids = []
  for res, err in zip(results, errors):
    if err is not None:
      out.append(['raised', type(err).__name__])
    else:
      if res and res[0] == 'edit':
        all_ids += res[4]
      out.append(strip_ids(res))
  return out, s.step, all_ids, s.trace_log


# the programs as operation lists of the Lean thread model (Model/Threads.lean) ---------------

MODEL_OPS = {
    'build': [['enterBuild'], ['exitBuild'], ['enterBuild'], ['enterBuild'], ['exitBuild'], ['readInBuild']],
    'edit': [['log', 'p'], ['log', 'q'], ['suspend'], ['log', 'r'], ['readTracking'], ['suspend'], ['log', 'p'],
             ['resume'], ['readTracking'], ['resume'], ['log', 'q'], ['log', 'r'], ['readTracking']],
    'copy': [],
    'sig': [],
    'fail': [['enterBuild'], ['exitBuild'], ['readInBuild']],
    'tracking_off': [],
    'annotated': [],
}


def model_request(kinds, seed):
  """A seeded interleaving of the threads' operation lists."""
  r = random.Random(seed ^ 0x5EED)
  queues = [[[tid] + op for op in MODEL_OPS[k]] for tid, k in enumerate(kinds)]
  sched_ = []
  while any(queues):
    q = r.choice([q for q in queues if q])
    sched_.append(q.pop(0))
  return {'p': 'threads', 'threads': len(kinds), 'sched': sched_}


def real_as_model_outputs(kind, res):
  """What the model's operations return, read off a thread's real result."""
  if not res or res[0] == 'raised':
    return ['raised']
  if kind == 'build':
    return ['ok', 'ok', 'ok', 'nested-rejected' if res[2] == 'nested-rejected' else 'ok', 'ok', bool(res[3])]
  if kind == 'fail':
    return ['ok', 'ok', bool(res[3])] if len(res) > 3 else ['raised']
  if kind == 'edit':
    inside, still, after = res[2]
    logged = list(res[6]) if len(res) > 6 else None
    return {'flags': [inside, still, after], 'logged': logged}
  return []


def model_outputs_view(kind, outs):
  if kind == 'edit':
    return {'flags': [o for o in outs if isinstance(o, bool)],
            'logged': [o[1] for o in outs if isinstance(o, list) and o[0] == 'logged']}
  return outs


def execute(case):
  kinds, seed = case['progs'], case['seed']
  alone = run_alone(kinds, seed)
  obs = {'alone': alone, 'mismatches': [], 'runs': 0, 'steps': 0, 'dup_ids': 0}
  for tid, (k, res) in enumerate(zip(kinds, alone)):
    if k in EXPECTED_ALONE and res != EXPECTED_ALONE[k](tid):
      obs['mismatches'].append(['alone', f'program {k} run after other programs of the same process does not '
                                'observe what it observes in a fresh process', res])
  # calibrate: number of line-level steps of thread 0 when it runs first to completion
  seq, total, seq_ids, seq_tl = run_scheduled(kinds, seed, lambda step, cur, alive: cur)
  obs['steps'] = total
  # the programs one after the other in ONE process (no pre-emption at all): already here nothing
  # an earlier program left behind may be visible to a later one
  if seq != alone:
    diff = [i for i, (a, b) in enumerate(zip(seq, alone)) if a != b]
    obs['mismatches'].append(['sequential', 'thread results differ from running alone', diff,
                              [json.dumps(seq[i], default=str)[:300] for i in diff][:2], seq_tl[:4]])
  schedules = []
  if case['mode'] == 'single':
    # pre-empt the first thread after k lines, run the others, then resume (every `stride`-th k)
    # (at most `cap` evenly spaced pre-emption points per family: a serialization is thousands of lines)
    cap = 24 if case['stride'] >= 7 else 200
    ks = list(range(1, total, case['stride']))
    ks = ks[::max(1, len(ks) // cap)]
    for k in ks:
      schedules.append(('preempt@%d' % k, sched.switch_each([k])))
    ks3 = list(range(3, total, case['stride'] * 3))
    ks3 = ks3[::max(1, len(ks3) // cap)]
    for k in ks3:
      schedules.append(('preempt@%d+%d' % (k, k + 40), sched.switch_each([k, k + 40, k + 80])))
  else:
    n_runs = case['runs'] if 'copy' not in kinds else max(1, case['runs'] // 3)
    for i in range(n_runs):
      rr = random.Random(seed * 1000 + i)
      schedules.append((f'random{i}', sched.random_switch(rr, case['p'])))
  for name, decide in schedules:
    try:
      got, steps, ids, tl = run_scheduled(kinds, seed, decide)
    except Exception as e:
      obs['mismatches'].append([name, f'scheduler: {type(e).__name__}: {e}'])
      continue
    obs['runs'] += 1
    if len(ids) != len(set(ids)):
      obs['dup_ids'] += 1
      obs['mismatches'].append([name, 'sequence ids not unique across threads', tl[:4]])
    if got != alone:
      diff = [i for i, (a, b) in enumerate(zip(got, alone)) if a != b]
      obs['mismatches'].append([name, 'thread results differ from running alone', diff,
                                [json.dumps(got[i], default=str)[:300] for i in diff][:2], tl[:4]])
    if getattr(building._state, 'in_build', False) or not fdl_history.tracking_enabled():
      obs['mismatches'].append([name, 'main thread state disturbed'])
      try:
        building._state.in_build = False
      except Exception:
        pass
      fdl_history.set_tracking(True)
    obs.setdefault('m_threads', [real_as_model_outputs(k, r) for k, r in zip(kinds, got)])
    if len(obs['mismatches']) > 3:
      break
  obs['kinds'] = kinds
  return obs, model_request(kinds, seed)


def compare(real, model):
  if model is None or 'm_threads' not in real:
    return []
  diffs = []
  if not model.get('unique') or not model.get('per_thread_increasing'):
    diffs.append(('model sequence numbers', 'n/a', model))
  for tid, (kind, r, m) in enumerate(zip(real['kinds'], real['m_threads'], model['out'])):
    mv = model_outputs_view(kind, m)
    if r != mv and r != ['raised']:
      diffs.append((f'thread {tid} ({kind}) observations', r, mv))
  return diffs


def oracle(case, real):
  if real['mismatches']:
    return {'what': 'a thread observed something it would not observe running alone',
            'programs': case['progs'], 'mismatches': real['mismatches'][:3]}
  return None


def nontrivial(case, real):
  return (tuple(case['progs']), case['seed'], case['mode']) if real['runs'] else None


def run(tier):
  return family.run_check(
      'C19', tier, lean_module='C19', cases=cases, execute=execute, compare=compare,
      oracle=oracle, nontrivial=nontrivial, widen=None, floor_nontrivial=0.3,
      time_budget=260 if tier == 'quick' else 1700,
      extra_coverage={'rule': '2-3 real threads under a sys.settrace baton scheduler that can switch at every '
                      'source line inside fiddle/_src; programs: build with a nested-build attempt, edits inside '
                      'and outside (nested) suspend_tracking, deepcopy + dump_json + load_json + ==, first-time '
                      'signature lookup of a callable shared between threads. Schedules: systematic single '
                      'pre-emption of the first thread after k lines (stride 7 quick / 2 thorough), triple '
                      'pre-emption windows, and seeded random schedules with switch probability 0.02-0.3. Each '
                      'thread\'s results (values, histories, guard / tracking flags, relative order of its '
                      'sequence ids) are compared with the same programs run alone; ids unique across threads. '
                      'One case = one program tuple x all its schedules.'},
      level_note=['atomicity below line granularity (next(itertools.count()), dict / WeakKeyDictionary '
                  'operations) is trusted; the scheduler cannot pre-empt inside a bytecode'])


def replay(path):
  data = json.load(open(path if os.path.isabs(path) else os.path.join(common.ROOT, path)))
  real, _ = execute(data['case'])
  fail = oracle(data['case'], real)
  print(json.dumps({'oracle': fail}, indent=1, default=str)[:3000])
  return 1 if fail else 0
