"""C06 — == on Buildables is an equivalence relation congruent with build."""
from __future__ import annotations

import copy
import json
import os
import random

import fiddle as fdl
from fiddle import daglish

from harness import common, family, graphs, targets
from harness.targets import Dflt, Tok


def leaves(r):
  return [r.randint(2, 5), 's', 't', None, Tok(r.randint(1, 4)), (2, 's')]


_SD = Tok(0)       # one memoizable default object shared by two parameters


def shared_defaults(u=_SD, w=_SD, n=2):
  return targets.Rec('shared_defaults', [('u', u), ('w', w), ('n', n)], (), {})


class LateBox:
  """A container type that gets its daglish traverser only AFTER it has been compared once."""

  def __init__(self, item):
    self.item = item

  def __eq__(self, other):
    return isinstance(other, LateBox) and self.item == other.item

  def __hash__(self):
    return 1


import dataclasses as _dc


@_dc.dataclass
class FactoryDC:
  width: int = 4
  hooks: list = _dc.field(default_factory=list)
  opts: dict = _dc.field(default_factory=dict)


def atomic_defaults(steps, warmup=0, decay=0, *, seed=0):
  return targets.Rec('atomic_defaults', [('steps', steps), ('warmup', warmup), ('decay', decay), ('seed', seed)], (), {})


_LD = [7]


def list_default(x=None, y=_LD, z=_LD):
  return (x, y, z)


def scenario_pairs(name):
  """Hand-made pairs (a, b, expect_equal)."""
  if name == 'default_alias':
    # an explicit argument IS the (mutable) default object of another, unset parameter - read off
    # the configuration itself (`cfg.x = cfg.y`): a deep copy is still equal to its original
    f = graphs.node_fn(1, 0)
    for wrap in (lambda c: c, lambda c: fdl.Config(f, p=[c], q={'k': c})):
      c = fdl.Config(list_default)
      c.x = c.y
      yield wrap(c), copy.deepcopy(wrap(c)), True
      d = fdl.Config(list_default, z=[7])
      d.x = d.y
      yield wrap(d), copy.deepcopy(wrap(d)), True
      e = fdl.Config(list_default)
      e.x = [7]                          # equal to the default, NOT the default object
      yield wrap(c), wrap(e), False
    return
  if name == 'same_count_different_keys':
    # both sides set the same NUMBER of arguments, but different ones; the argument set only on
    # the left happens to equal its default
    g = graphs.node_fn(1, 1)
    yield fdl.Config(atomic_defaults, steps=10, warmup=0), fdl.Config(atomic_defaults, steps=10, decay=7), False
    yield fdl.Config(atomic_defaults, 10, seed=0), fdl.Config(atomic_defaults, 10, warmup=3), False
    yield fdl.Config(atomic_defaults, steps=10, warmup=0), fdl.Config(atomic_defaults, steps=10, decay=0), True
    yield (fdl.Config(g, p=[fdl.Config(atomic_defaults, steps=1, decay=0)]),
           fdl.Config(g, p=[fdl.Config(atomic_defaults, steps=1, seed=5)]), False)
    yield (fdl.Partial(atomic_defaults, warmup=0), fdl.Partial(atomic_defaults, seed=2), False)
    return
  if name == 'mixed_containers':
    # equal-valued containers of DIFFERENT registered types at the same position (Python says
    # tuple == namedtuple, dict == defaultdict): the configurations build different objects, so
    # == is False - in both directions, never an exception
    import collections
    f = graphs.node_fn(1, 0)
    g = graphs.node_fn(1, 1)
    # (also where Python itself calls the two containers equal and nothing but their type differs:
    # a defaultdict vs a dict, a named tuple of literals vs a tuple of literals - repaired, see
    # known_findings.json `eq-value-types`)
    for inner, opaque in ((lambda: fdl.Config(g, p=1), False), (lambda: [1], False), (lambda: 7, True)):
      yield fdl.Config(f, p=graphs.NT(inner(), 2)), fdl.Config(f, p=(inner(), 2)), False
      yield fdl.Config(f, p=(inner(), 2)), fdl.Config(f, p=graphs.NT(inner(), 2)), False
      dd = collections.defaultdict(list)
      dd['k'] = inner()
      yield fdl.Config(f, p=dd), fdl.Config(f, p={'k': inner()}), False
      yield fdl.Config(f, p={'k': inner()}), fdl.Config(f, p=dd), False
      yield fdl.Config(f, p=graphs.NT(inner(), 2)), fdl.Config(f, p=graphs.NT(inner(), 2)), True
      dd2 = collections.defaultdict(list)
      dd2['k'] = inner()
      yield fdl.Config(f, p=dd), fdl.Config(f, p=dd2), True
      yield fdl.Config(f, p=[inner(), 2]), fdl.Config(f, p=(inner(), 2)), False
      shared = inner()
      yield (fdl.Config(f, p=graphs.NT(shared, 2), q=shared), fdl.Config(f, p=(inner(), 2), q=inner()),
             False)
    return
  if name == 'namedtuple_subclass':
    # sharing that runs through a SUBCLASS of a namedtuple class (and a sub-subclass)
    f = graphs.node_fn(1, 0)
    g = graphs.node_fn(1, 1)

    class SubSub(graphs.NTSub):
      pass
    for cls in (graphs.NTSub, SubSub, graphs.NT):
      a, b = fdl.Config(g, p=1), fdl.Config(g, p=1)
      yield fdl.Config(f, p=cls(a, a)), fdl.Config(f, p=cls(a, b)), False
      a2 = fdl.Config(g, p=1)
      yield fdl.Config(f, p=cls(a, a)), fdl.Config(f, p=cls(a2, a2)), True
      x, y = [1], [1]
      yield fdl.Config(f, p=cls(x, 2), q=x), fdl.Config(f, p=cls(y, 2), q=[1]), False
      yield fdl.Config(f, p=cls(x, 2), q=x), fdl.Config(f, p=cls(y, 2), q=y), True
    return
  if name == 'dataclass_factory':
    # a dataclass field with a default_factory has no default VALUE: set on one side only it
    # makes the configurations unequal - and == must say so rather than raise
    f = graphs.node_fn(1, 0)
    yield fdl.Config(FactoryDC, width=8), fdl.Config(FactoryDC, width=8, hooks=[]), False
    yield fdl.Config(FactoryDC, hooks=[1]), fdl.Config(FactoryDC), False
    yield fdl.Config(f, p=[fdl.Config(FactoryDC, opts={})]), fdl.Config(f, p=[fdl.Config(FactoryDC)]), False
    c = fdl.Config(FactoryDC, hooks=[2], width=1)
    d = fdl.Config(FactoryDC, hooks=[2], width=1)
    del d.hooks
    yield c, d, False
    yield fdl.Config(FactoryDC, width=4), fdl.Config(FactoryDC), True
    yield fdl.Config(FactoryDC, hooks=[3]), fdl.Config(FactoryDC, hooks=[3]), True
    return
  if name == 'shared_defaults':
    a = fdl.Config(shared_defaults)
    yield a, fdl.Config(shared_defaults, u=Tok(0), w=Tok(0)), False     # shared default vs two objects
    one = Tok(0)
    yield a, fdl.Config(shared_defaults, u=one, w=one), True
    yield fdl.Config(shared_defaults, n=3), fdl.Config(shared_defaults, n=3, u=Tok(0), w=Tok(0)), False
    yield fdl.Config(shared_defaults, u=Tok(0), w=Tok(0)), fdl.Config(shared_defaults, u=Tok(0), w=Tok(0)), True
  elif name == 'leaf_vs_buildable':
    # one parameter holds a plain leaf (a number, None, a container, nothing at all) on one side and a
    # sub-Buildable on the other: == answers False in BOTH directions and never raises
    f = graphs.node_fn(1, 0)
    g = graphs.node_fn(2, 0)
    for sub in (fdl.Config(g, p=1), fdl.Partial(g, p=1), fdl.Config(f)):
      mk = lambda: fdl.Config(f, p=copy.deepcopy(sub), q=2)
      for other in (lambda: fdl.Config(f, p=1, q=2), lambda: fdl.Config(f, q=2), lambda: fdl.Config(f, p=None, q=2),
                    lambda: fdl.Config(f, p=[1], q=2), lambda: fdl.Config(f, p=(copy.deepcopy(sub),), q=2),
                    lambda: fdl.Config(f, p=Tok(0), q=2)):
        yield mk(), other(), False
        yield other(), mk(), False
      yield fdl.Config(f, p=[copy.deepcopy(sub), 1]), fdl.Config(f, p=[1, copy.deepcopy(sub)]), False
      yield fdl.Config(f, p={'k': copy.deepcopy(sub)}), fdl.Config(f, p={'k': 1}), False
      yield fdl.Config(f, p={'k': 1}), fdl.Config(f, p={'k': copy.deepcopy(sub)}), False
      yield mk(), mk(), True
  elif name == 'late_registration':
    f = graphs.node_fn(1, 0)
    x1 = [1]
    yield fdl.Config(f, p=LateBox(x1), q=2), fdl.Config(f, p=LateBox([1]), q=2), True   # first contact
    try:
      daglish.register_node_traverser(
          LateBox, flatten_fn=lambda b: ((b.item,), None), unflatten_fn=lambda v, _: LateBox(*v),
          path_elements_fn=lambda b: (daglish.Attr('item'),))
    except ValueError:
      pass
    s1 = [1]
    yield fdl.Config(f, p=LateBox(s1), q=s1), fdl.Config(f, p=LateBox([1]), q=[1]), False  # alias into the box


def cases(tier, r):
  yield 'scenario', {'scenario': 'shared_defaults', 'seed': 0}
  yield 'scenario', {'scenario': 'late_registration', 'seed': 0}
  yield 'scenario', {'scenario': 'dataclass_factory', 'seed': 0}
  yield 'scenario', {'scenario': 'namedtuple_subclass', 'seed': 0}
  yield 'scenario', {'scenario': 'same_count_different_keys', 'seed': 0}
  yield 'scenario', {'scenario': 'mixed_containers', 'seed': 0}
  yield 'scenario', {'scenario': 'default_alias', 'seed': 0}
  yield 'scenario', {'scenario': 'transitive_mixed', 'seed': 0}
  yield 'scenario', {'scenario': 'leaf_vs_buildable', 'seed': 0}
  # the same scenarios again after a comparison that RAISED earlier in the thread (an array-like
  # leaf): == keeps no state from one comparison to the next
  for name in ('shared_defaults', 'namedtuple_subclass', 'mixed_containers'):
    yield 'scenario', {'scenario': name, 'seed': 1, 'after_raising_eq': True}
  for _ in range(900 if tier == 'quick' else 15000):
    yield 'pair', {'seed': r.getrandbits(48), 'size': r.choice([3, 5, 8]),
                   'rewrites': [r.choice(REWRITES) for _ in range(2)], 'mixed': r.random() < 0.3,
                   'after_raising_eq': r.random() < 0.1}


def base_config(r, case):
  lv = leaves(r)
  root = graphs.gen_graph(r, size=case['size'], positional=True, leaf_values=lv, custom=False)
  if not isinstance(root, fdl.Buildable):
    root = fdl.Config(graphs.node_fn(1, 0), p=root)
  if case.get('mixed'):
    shared = [3]
    root.q = {1: 'a', 'b': shared, (2, 's'): shared}
  return root


def all_buildables(root):
  out = []
  for v, _ in daglish.iterate(root):
    if isinstance(v, fdl.Buildable):
      out.append(v)
  return out


# -- equality-preserving rewrites (return a new config that must be == to `cfg`) -----------


def rw_deepcopy(r, cfg):
  return copy.deepcopy(cfg)


def rw_default_explicit(r, cfg):
  c = copy.deepcopy(cfg)
  nodes = all_buildables(c)
  r.shuffle(nodes)
  for n in nodes:
    sig = graphs.sig_of(n)
    pos = [p for p in sig if p[1] in ('po', 'pk')]
    for i, p in enumerate(sig):
      if not p[2]:
        continue
      if p[1] == 'po' and i not in n.__arguments__:
        # only a contiguous prefix can be made explicit without changing *args
        n[i] = Dflt(p[0])
        return c
      if p[1] in ('pk', 'ko') and p[0] not in n.__arguments__:
        setattr(n, p[0], Dflt(p[0]))
        return c
  return c


def rw_dict_reorder(r, cfg):
  c = copy.deepcopy(cfg)
  for v, _ in daglish.iterate(c):
    if type(v) is dict and len(v) > 1:
      items = list(v.items())
      items.reverse()
      v.clear()
      v.update(items)
    if isinstance(v, fdl.Buildable):
      extras = [k for k in v.__arguments__ if isinstance(k, str) and k not in
                [p[0] for p in graphs.sig_of(v) if p[1] in ('pk', 'ko')]]
      sigv = graphs.sig_of(v)
      extras = [k for k in extras if not any(p[0] == k for p in sigv)]
      if len(extras) > 1:
        vals = [(k, v.__arguments__[k]) for k in extras]
        for k, _ in vals:
          delattr(v, k)
        for k, val in reversed(vals):
          setattr(v, k, val)
  return c


def rw_history(r, cfg):
  c = copy.deepcopy(cfg)
  for n in all_buildables(c)[:3]:
    for k, v in list(n.__arguments__.items()):
      if isinstance(k, str):
        try:
          setattr(n, k, Tok(999))
        except AttributeError:
          continue     # a **kwargs entry named like a positional parameter cannot be re-assigned
        setattr(n, k, v)
  return c


def rw_rebuild(r, cfg):
  return daglish.MemoizedTraversal.run(lambda v, s: s.map_children(v), cfg)


PRESERVING = [rw_deepcopy, rw_default_explicit, rw_dict_reorder, rw_history, rw_rebuild]

# -- equality-breaking rewrites (must be != and, for aliasing changes, build differently) ----


def own_walk(root):
  """Every distinct container / Buildable reachable from root - the harness's own walk (it does
  not ask daglish which types can be entered)."""
  seen, out = set(), []

  def go(x):
    if graphs.is_atom(x) or id(x) in seen:
      return
    seen.add(id(x))
    out.append(x)
    if isinstance(x, fdl.Buildable):
      for y in x.__arguments__.values():
        go(y)
    elif isinstance(x, (list, tuple)):
      for y in x:
        go(y)
    elif isinstance(x, dict):
      for y in x.values():
        go(y)
  go(root)
  return out


def positions(c):
  """(parent, setter) for every argument / container slot reachable from c."""
  out = []
  for v in own_walk(c):
    if isinstance(v, fdl.Buildable):
      sigv = graphs.sig_of(v)
      for k in list(v.__arguments__):
        if isinstance(k, str) and not any(p[0] == k and p[1] in ('po', 'vp', 'vk') for p in sigv):
          out.append((v, k, v.__arguments__[k], lambda n=v, k=k: (lambda x: setattr(n, k, x))))
    elif type(v) is list:
      for i in range(len(v)):
        out.append((v, i, v[i], lambda l=v, i=i: (lambda x: l.__setitem__(i, x))))
    elif type(v) is dict:
      for k in v:
        out.append((v, k, v[k], lambda d=v, k=k: (lambda x: d.__setitem__(k, x))))
  return out


def rb_leaf(r, cfg):
  c = copy.deepcopy(cfg)
  ps = [p for p in positions(c) if graphs.is_atom(p[2]) or isinstance(p[2], Tok)]
  if not ps:
    return None
  p = r.choice(ps)
  p[3]()(Tok(777))
  return c


def rb_callable(r, cfg):
  c = copy.deepcopy(cfg)
  n = r.choice(all_buildables(c))
  other = targets.make_fn(graphs.sig_of(n), fn_name='other_' + graphs.callable_name(n.__fn_or_cls__))
  if any(isinstance(k, int) for k in n.__arguments__):
    return None
  fdl.update_callable(n, other)
  return c


def rb_type(r, cfg):
  c = copy.deepcopy(cfg)
  ps = [p for p in positions(c) if type(p[2]) is fdl.Config]
  if not ps:
    return fdl.cast(fdl.Partial, c) if type(c) is fdl.Config else None
  p = r.choice(ps)
  p[3]()(fdl.cast(fdl.Partial, p[2]))
  return c


def rb_unshare(r, cfg):
  """Break one alias: a position that refers to a shared object gets an equal copy."""
  c = copy.deepcopy(cfg)
  ps = positions(c)
  counts = {}
  for p in ps:
    counts[id(p[2])] = counts.get(id(p[2]), 0) + 1
  shared = [p for p in ps if counts[id(p[2])] > 1 and not graphs.is_internable(p[2])
            and not isinstance(p[2], (Tok,))]
  if not shared:
    return None
  p = r.choice(shared)
  p[3]()(copy.copy(p[2]) if not isinstance(p[2], fdl.Buildable) else copy.copy(p[2]))
  return c


def rb_share(r, cfg):
  """Create one alias: two distinct but equal objects become the same object."""
  c = copy.deepcopy(cfg)
  ps = [p for p in positions(c) if not graphs.is_internable(p[2]) and not isinstance(p[2], Tok)]
  for p in ps:
    for q in ps:
      if p[2] is not q[2] and type(p[2]) is type(q[2]):
        try:
          same = p[2] == q[2]
        except Exception:
          same = False
        if same and not reaches(q[2], p[0]):
          p[3]()(q[2])
          return c
  return None


def reaches(a, b):
  return any(v is b for v, _ in daglish.iterate(a))


def rb_unshare_shallow(r, cfg):
  """A SHALLOW copy (children physically shared with the original) in which one top-level
  argument that aliases an object inside another argument is replaced by an equal copy."""
  c = copy.copy(cfg)
  keys = [k for k in c.__arguments__ if isinstance(k, str)]
  r.shuffle(keys)
  for k in keys:
    v = c.__arguments__[k]
    if graphs.is_internable(v) or isinstance(v, Tok):
      continue
    for k2 in keys:
      if k2 != k and any(x is v for x, _ in daglish.iterate(c.__arguments__[k2])):
        try:
          setattr(c, k, copy.deepcopy(v))
        except AttributeError:
          continue
        return c
  return None


def rw_shallow(r, cfg):
  return copy.copy(cfg)


PRESERVING.append(rw_shallow)
BREAKING = [rb_leaf, rb_callable, rb_type, rb_unshare, rb_share, rb_unshare_shallow]
REWRITES = [f.__name__ for f in PRESERVING + BREAKING]
BY_NAME = {f.__name__: f for f in PRESERVING + BREAKING}


def safe_eq(a, b):
  try:
    return bool(a == b), bool(a != b)
  except Exception as e:
    return f'raised {type(e).__name__}', None


def build_canon(c):
  del targets.LOG[:]
  try:
    return graphs.canon(fdl.build(c), order_dicts=True)
  except Exception as e:
    return {'raised': type(e).__name__}


class _Ambiguous:
  """Array-like leaf: == returns an object whose truth value is ambiguous."""

  def __eq__(self, other):
    return self

  def __ne__(self, other):
    return self

  def __bool__(self):
    raise ValueError('The truth value of an array with more than one element is ambiguous')

  __hash__ = None


def raising_eq_prelude():
  f = graphs.node_fn(1, 0)
  for a, b in ((fdl.Config(f, p=_Ambiguous()), fdl.Config(f, p=_Ambiguous())),
               (fdl.Config(f, p=[fdl.Config(f, q=_Ambiguous())]), fdl.Config(f, p=[fdl.Config(f, q=_Ambiguous())]))):
    for x, y in ((a, b), (b, a)):
      try:
        x == y
      except Exception:
        pass


def execute(case):
  if case.get('after_raising_eq'):
    raising_eq_prelude()
  if case.get('scenario') == 'transitive_mixed':
    # == is transitive also across values Python calls equal although their types differ (a named
    # tuple and a plain tuple of the same literals, a defaultdict and a dict, 1 and True)
    import collections
    f = graphs.node_fn(1, 0)
    p = graphs.NT(1, 2)
    dd = collections.defaultdict(list, k=[1])
    triples = [
        (fdl.Config(f, p=p, q=p), fdl.Config(f, p=(1, 2), q=(1, 2)), fdl.Config(f, p=graphs.NT(1, 2), q=graphs.NT(1, 2))),
        (fdl.Config(f, p=[p, p]), fdl.Config(f, p=[(1, 2), (1, 2)]), fdl.Config(f, p=[graphs.NT(1, 2), graphs.NT(1, 2)])),
        (fdl.Config(f, p=1), fdl.Config(f, p=True), fdl.Config(f, p=1.0)),
        (fdl.Config(f, p=dd, q=dd), fdl.Config(f, p={'k': [1]}, q={'k': [1]}),
         fdl.Config(f, p=collections.defaultdict(list, k=[1]), q=collections.defaultdict(list, k=[1]))),
    ]
    obs = {'refl': (True, False), 'pairs': [], 'reqs': [], 'trans': True}
    for a, b, c in triples:
      ab, bc, ac = safe_eq(a, b)[0], safe_eq(b, c)[0], safe_eq(a, c)[0]
      if any(isinstance(x, str) for x in (ab, bc, ac)):
        obs['trans'] = f'== raised: {ab}, {bc}, {ac}'
      elif ab and bc and not ac:
        obs['trans'] = False
        obs['trans_witness'] = [repr(a)[:120], repr(b)[:120], repr(c)[:120]]
    return obs, None
  if case.get('scenario'):
    obs = {'refl': (True, False), 'pairs': [], 'reqs': []}
    for a, b, expect in scenario_pairs(case['scenario']):
      eq, ne = safe_eq(a, b)
      eq_rev, _ = safe_eq(b, a)
      obs['pairs'].append({'rewrite': case['scenario'], 'eq': eq, 'ne': ne, 'eq_rev': eq_rev,
                           'preserving': expect, 'builds_equal': build_canon(a) == build_canon(b)})
      if case['scenario'] == 'shared_defaults':
        obs['reqs'].append({'p': 'eq', 'a': graphs.encode(a)[0], 'b': graphs.encode(b)[0]})
    return obs, None
  r = random.Random(case['seed'])
  a = base_config(r, case)
  variants = []
  for name in case['rewrites']:
    v = BY_NAME[name](r, a)
    if v is not None:
      variants.append((name, v))
  obs = {'refl': safe_eq(a, a), 'pairs': []}
  ha, _ = graphs.encode(a)
  reqs = []
  for name, v in variants:
    eq, ne = safe_eq(a, v)
    eq_rev, _ = safe_eq(v, a)
    rec = {'rewrite': name, 'eq': eq, 'ne': ne, 'eq_rev': eq_rev,
           'preserving': BY_NAME[name] in PRESERVING,
           'builds_equal': build_canon(a) == build_canon(v),
           # the harness's own sharing-aware canonical form (independent of daglish and build)
           'same_structure': graphs.canon(a, order_dicts=True) == graphs.canon(v, order_dicts=True)}
    obs['pairs'].append(rec)
    hv, _ = graphs.encode(v)
    reqs.append({'p': 'eq', 'a': ha, 'b': hv})
  # transitivity on the equal variants
  eqs = [v for (n, v) in variants if BY_NAME[n] in PRESERVING]
  if len(eqs) == 2:
    obs['trans'] = safe_eq(eqs[0], eqs[1])[0]
  obs['reqs'] = reqs
  return obs, ({'multi': reqs} if reqs else None)


_drv = {}


def compare(real, model):
  # the generic loop sends one request; pairs are asked here
  if not real['reqs']:
    return []
  if 'drv' not in _drv:
    _drv['drv'] = common.Driver()
  diffs = []
  if len(real['reqs']) != len(real['pairs']):
    return []
  for rec, req in zip(real['pairs'], real['reqs']):
    m = _drv['drv'].ask(req)
    if rec['eq'] != m['eq'] or rec['eq_rev'] != m['eq_rev']:
      diffs.append((rec['rewrite'], '==', [rec['eq'], rec['eq_rev']], [m['eq'], m['eq_rev']]))
  return diffs


def oracle(case, real):
  deferred = None
  if real['refl'] != (True, False):
    return {'what': '== is not reflexive (or raises)', 'observed': real['refl']}
  for rec in real['pairs']:
    if isinstance(rec['eq'], str) or isinstance(rec['eq_rev'], str):
      return {'what': '== raised', 'rec': rec}
    if rec['eq'] != rec['eq_rev']:
      return {'what': '== is not symmetric', 'rec': rec}
    if rec['ne'] == rec['eq']:
      return {'what': '!= is not the negation of ==', 'rec': rec}
    if rec['preserving'] is None:
      continue
    if rec['preserving'] and not rec['eq']:
      f = {'what': 'an equality-preserving rewrite changed ==', 'rec': rec}
      if rec['rewrite'] == 'default_alias' and rec['builds_equal']:
        # recorded finding: an argument that IS the default object of another, unset parameter is
        # cloned by deepcopy while the unset parameter keeps the callable's own default
        f['class'] = 'deepcopy-default-alias'
        deferred = deferred or f
        continue
      return f
    alias_rw = rec['rewrite'] in ('rb_unshare', 'rb_share')
    if not rec['preserving'] and rec['eq'] and not (alias_rw and rec.get('same_structure', rec['builds_equal'])):
      # (an alias rewrite on an immutable object may leave the object graph as it was)
      return {'what': 'an equality-breaking rewrite was not distinguished', 'rec': rec}
    if rec['eq'] and not rec['builds_equal']:
      return {'what': 'equal configurations build different object graphs', 'rec': rec}
  if real.get('trans') is False or isinstance(real.get('trans'), str):
    return {'what': '== is not transitive', 'observed': real.get('trans'), 'witness': real.get('trans_witness')}
  return deferred


def nontrivial(case, real):
  if not real['pairs']:
    return None
  return (case['seed'], tuple(p['rewrite'] for p in real['pairs']))


def run(tier):
  code = family.run_check(
      'C06', tier, lean_module='C06', cases=cases, execute=lambda c: strip(execute(c)),
      compare=compare, oracle=oracle, classify=lambda case, fail: fail.get('class'), nontrivial=nontrivial, widen=None,
      time_budget=150 if tier == 'quick' else 1500,
      extra_coverage={'rule': 'random configuration DAGs (NaN-free leaves on which == coincides with '
                      'identity of printed value, dict arguments with keys of mixed types holding shared '
                      'values) x two rewrites drawn from: deepcopy, default made explicit, dict / **kwargs '
                      'reordered, different edit history, identity rebuild (equality-preserving); one leaf '
                      'changed, callable swapped, Buildable type changed, one alias broken, one alias '
                      'created (equality-breaking). Non-trivial = at least one rewrite applied; distinct '
                      'by (seed, rewrites). ==, != in both directions, reflexivity, transitivity over the '
                      'preserving variants, and canonical forms of the builds.'},
      level_note=['leaves such as 1 / True / 1.0 (equal in Python, different types) are not generated'])
  if 'drv' in _drv:
    _drv['drv'].close()
  return code


def strip(t):
  real, req = t
  return real, None     # model requests are sent by compare()


def replay(path):
  data = json.load(open(path if os.path.isabs(path) else os.path.join(common.ROOT, path)))
  real, _ = execute(data['case'])
  fail = oracle(data['case'], real)
  real.pop('reqs', None)
  print(json.dumps({'oracle': fail, 'observed': real}, indent=1, default=str)[:3000])
  return 1 if fail else 0
