"""C09 — JSON serialization is lossless or loud, and policy-gated."""
from __future__ import annotations

import decimal
import fractions

import collections
import copy
import enum
import importlib
import json
import math
import os
import random

import fiddle as fdl
from fiddle import daglish
from fiddle._src.experimental import serialization

from harness import common, family, graphs, targets
from harness.props import C15


class Shade(enum.Enum):
  DARK = 'dark'
  LIGHT = 2


class Level(enum.IntEnum):
  LOW = 1
  HIGH = 2


class Mode(str, enum.Enum):
  FAST = 'fast'
  SLOW = 'slow'


class Celsius(float):
  pass


class Name(str):
  pass


class DictObj:
  """A dict-based object registered for serialization."""

  def __init__(self, a=None, b=None):
    self.a, self.b = a, b

  def __eq__(self, other):
    return isinstance(other, DictObj) and self.__dict__ == other.__dict__

  __hash__ = None


class LoggedObj:
  """A dict-based object whose class customises attribute assignment (an edit log, a coercing
  setter): restoring it must restore its __dict__, not replay assignments."""

  def __init__(self, a=None, b=None):
    self.__dict__['log'] = []
    self.a, self.b = a, b

  def __setattr__(self, name, value):
    self.__dict__.setdefault('log', []).append(name)
    self.__dict__[name] = int(value) if name == 'b' and isinstance(value, float) else value

  def __eq__(self, other):
    return isinstance(other, LoggedObj) and self.__dict__ == other.__dict__

  __hash__ = None


CONST = ('a registered constant',)
HALF = fractions.Fraction(1, 2)          # registered BY VALUE
UNIT = decimal.Decimal(1)                # registered BY VALUE
try:
  serialization.register_dict_based_object(DictObj)
  serialization.register_dict_based_object(LoggedObj)
  serialization.register_constant('harness.props.C09', 'HALF', compare_by_identity=False)
  serialization.register_constant('harness.props.C09', 'UNIT', compare_by_identity=False)
  serialization.register_constant('harness.props.C09', 'CONST', compare_by_identity=True)
  serialization.register_enum(Shade)
  serialization.register_enum(Level)
  serialization.register_enum(Mode)
except Exception:
  pass


def lit(p=None, q=1, r='d', *, k=None):
  return targets.Rec('lit', [('p', p), ('q', q), ('r', r), ('k', k)], (), {})


class Maker:
  """Alternative constructors: a classmethod defined on the base, reached through a subclass."""

  def __init__(self, p=None):
    self.rec = targets.Rec(type(self).__name__, [('p', p)], (), {})

  @classmethod
  def create(cls, p=None, q=0):
    return cls(p=(p, q))

  @staticmethod
  def helper(p=None):
    return targets.Rec('Maker.helper', [('p', p)], (), {})


class SubMaker(Maker):
  pass


def pos(a, b=2, /, c=3, *args, **kw):
  return targets.Rec('pos', [('a', a), ('b', b), ('c', c)], tuple(args), dict(kw))


def leaf(r):
  x = r.random()
  if x < 0.12:
    return r.choice([0, -1, 2 ** 70, -(10 ** 30), 10 ** 5000, True, False])
  if x < 0.22:
    return r.choice([1.5, -0.0, 1e300, float('inf'), float('-inf'), float('nan')])
  if x < 0.36:
    return r.choice(['', 'plain', 'nul\x00byte', 'uni é中\U0001F600', 'lone \ud800 surrogate',
                     'quote " \' \\', '\\u0041', 'line\nbreak', 'low then high \ude00\ud83d',
                     'two surrogates \ud83d\ude00 in a row'])
  if x < 0.5:
    n = r.randint(0, 6)
    base = bytes(r.randrange(256) for _ in range(n))
    return r.choice([base, b'\\u0041', b'\\U0001F600x', b'\\x41\\N{DASH}', b'', base + b'\\u00e9', bytes(range(256))])
  if x < 0.56:
    return r.choice([Shade.DARK, Shade.LIGHT, Level.HIGH, Mode.SLOW, Level.LOW, Celsius(21.5), Name('n')])
  if x < 0.62:
    return None
  if x < 0.68:
    return slice(r.choice([None, 1]), r.choice([None, 5]), r.choice([None, 2]))
  if x < 0.72:
    return fdl.NO_VALUE
  if x < 0.74:
    return CONST
  if x < 0.76:
    # by-value constants, and values that merely EQUAL one (0.5 == HALF, 1 == 1.0 == True == UNIT)
    # (not a second Fraction(1, 2) instance: registering by value DECLARES equal instances
    # interchangeable, they come back as the one registered object)
    return r.choice([HALF, UNIT, 0.5, 1, 1.0, True, decimal.Decimal('0.5'), fractions.Fraction(1, 1)])
  if x < 0.82:
    return r.choice([(1, 's'), (), ((1, 2), (1, 2))])
  if x < 0.86:
    return r.choice([lit, pos, Shade, DictObj, dict, list])       # callables / types as values
  return r.randint(-5, 5)


class Gen:
  def __init__(self, r):
    self.r = r
    self.pool = []

  def value(self, depth):
    r = self.r
    if self.pool and r.random() < 0.2:
      return r.choice(self.pool)           # sharing
    if depth <= 0 or r.random() < 0.35:
      return leaf(r)
    x = r.random()
    if x < 0.2:
      v = [self.value(depth - 1) for _ in range(r.randint(0, 3))]
    elif x < 0.32:
      v = tuple(self.value(depth - 1) for _ in range(r.randint(0, 3)))
    elif x < 0.48:
      keys = [r.choice(['a', 'b', 1, 2.5, (1, 's'), None, True, Shade.DARK, Level.HIGH, Mode.FAST, b'k', 'key with space'])
              for _ in range(r.randint(0, 3))]
      v = {k: self.value(depth - 1) for k in keys}
    elif x < 0.54:
      v = r.choice([set, frozenset])(r.choice([[1, 2, 3], ['x', 'y'], [], [(1, 2), 3]]))
    elif x < 0.6:
      v = graphs.NT(self.value(depth - 1), self.value(depth - 1))
    elif x < 0.63:
      v = DictObj(self.value(depth - 1), self.value(depth - 1))
    elif x < 0.65:
      v = LoggedObj(self.value(depth - 1), r.choice([2.5, 3, 'b']))
    elif x < 0.7:
      v = collections.defaultdict(list, {'d': self.value(depth - 1)})
    else:
      v = self.buildable(depth - 1)
    if not graphs.is_atom(v):
      self.pool.append(v)
    return v

  def buildable(self, depth):
    r = self.r
    btype = r.choice([fdl.Config, fdl.Config, fdl.Partial, fdl.ArgFactory])
    x = r.random()
    if x < 0.12:
      # classmethods (on the defining class and inherited through a subclass), staticmethods
      fn = r.choice([Maker.create, SubMaker.create, SubMaker.create, Maker.helper, SubMaker])
      c = btype(fn, p=self.value(depth))
    elif x < 0.6:
      kw = {n: self.value(depth) for n in ('p', 'q', 'r', 'k') if r.random() < 0.5}
      c = btype(lit, **kw)
    else:
      args = [self.value(depth) for _ in range(r.randint(1, 5))]
      kw = {n: self.value(depth) for n in ('x', 'y') if r.random() < 0.3}
      c = btype(pos, *args, **kw)
    for k in list(c.__arguments__)[:2]:
      if r.random() < 0.3:
        try:
          fdl.add_tag(c, k, r.choice(targets.TAGS))
        except Exception:
          pass
    if r.random() < 0.15:
      if c.__fn_or_cls__ in (lit, pos):
        fdl.add_tag(c, 'q' if c.__fn_or_cls__ is lit else 'c', targets.T1)     # tag on an unset argument
    return c


class RecordingPolicy(serialization.DefaultPyrefPolicy):
  def __init__(self, deny=()):
    self.deny = set(deny)
    self.import_calls = []
    self.value_calls = []
    self.approved = set()

  def allows_import(self, module, symbol):
    self.import_calls.append((module, symbol))
    ok = (module, symbol) not in self.deny and module.split('.')[0] not in ('os', 'subprocess', 'shutil', 'sys')
    if ok:
      self.approved.add((module, symbol))
    return ok and super().allows_import(module, symbol)

  def allows_value(self, value):
    self.value_calls.append(value)
    return super().allows_value(value)


class ValueDenyPolicy(RecordingPolicy):
  """Approves every import and no value (decides in allows_value, like DefaultPyrefPolicy does)."""

  def allows_value(self, value):
    self.value_calls.append(value)
    return False


class SizedPolicy(RecordingPolicy):
  """A policy object with a length (its deny list): an empty one is falsy."""

  def __len__(self):
    return len(self.deny)


class ModuleDenyPolicy(RecordingPolicy):
  """Approves symbols by the MODULE they are imported from (denies whole modules)."""

  def __init__(self, deny_modules=()):
    super().__init__()
    self.deny_modules = set(deny_modules)

  def allows_import(self, module, symbol):
    self.import_calls.append((module, symbol))
    return module not in self.deny_modules


def run_migrated(case):
  """Documents written when Partial / ArgFactory lived in another module name the OLD module; the
  loader imports them from where they live now. Whatever module a symbol is imported from, the
  supplied policy has approved that module."""
  r = random.Random(case['seed'])
  btype = r.choice([fdl.Partial, fdl.ArgFactory])
  inner = btype(lit, p=r.randint(0, 9))
  cfg = fdl.Partial(lit, p=inner) if btype is fdl.ArgFactory else fdl.Config(lit, p=[inner, inner])
  doc = serialization.dump_json(cfg)
  real_mod = btype.__module__
  legacy = json.loads(doc)

  def rewrite(x):
    if isinstance(x, dict):
      if x.get('type') == 'pyref' and x.get('module') == real_mod and x.get('name') == btype.__name__:
        x['module'] = 'fiddle._src.config'
      for y in x.values():
        rewrite(y)
    elif isinstance(x, list):
      for y in x:
        rewrite(y)
  rewrite(legacy)
  obs = {'migrated': True, 'type': btype.__name__, 'problems': []}
  permissive = RecordingPolicy()
  try:
    back = serialization.load_json(json.dumps(legacy), pyref_policy=permissive)
    if scanon(back) != scanon(cfg):
      obs['problems'].append('a document naming the legacy module does not load to the same configuration')
  except Exception as e:
    obs['legacy_load'] = f'raised {type(e).__name__}'       # loud: allowed
  strict = ModuleDenyPolicy(deny_modules=[real_mod])
  for name, d in (('current', json.loads(doc)), ('legacy', legacy)):
    strict.import_calls.clear()
    try:
      out = serialization.load_json(json.dumps(d), pyref_policy=strict)
      asked = {m for m, _ in strict.import_calls}
      obs['problems'].append(f'{name} document: a symbol was imported from {real_mod}, which the policy denies '
                             f'(modules put to the policy: {sorted(asked)})')
    except serialization.PyrefPolicyError:
      pass
    except Exception as e:
      obs['problems'].append(f'{name} document: raised {type(e).__name__} instead of PyrefPolicyError')
  return obs, None


def cases(tier, r):
  for _ in range(12 if tier == 'quick' else 100):
    yield 'migrated', {'migrated': True, 'seed': r.getrandbits(48)}
  for _ in range(1200 if tier == 'quick' else 20000):
    yield 'value', {'seed': r.getrandbits(48), 'depth': r.choice([1, 2, 3])}
  for _ in range(400 if tier == 'quick' else 6000):
    yield 'document', {'seed': r.getrandbits(48), 'depth': 2, 'tamper': True}
  for i in range(12 if tier == 'quick' else 120):
    yield 'shared_key', {'seed': r.getrandbits(48), 'shared_key': i % 4}


def strict_json(s):
  def bad(c):
    raise ValueError(f'non-standard JSON constant {c}')
  json.loads(s, parse_constant=bad)


def scanon(v):
  """Canonical form for comparing a value with its reconstruction: sets unordered, floats by
  repr, NaN equal to NaN."""
  return graphs.canon(v)


def contains_special_float(v):
  seen = set()

  def walk(x):
    if isinstance(x, float):
      return math.isnan(x) or math.isinf(x)
    if graphs.is_atom(x) or id(x) in seen:
      return False
    seen.add(id(x))
    if isinstance(x, fdl.Buildable):
      return any(walk(y) for y in x.__arguments__.values())
    if isinstance(x, dict):
      return any(walk(k) or walk(y) for k, y in x.items())
    if isinstance(x, (list, tuple, set, frozenset)):
      return any(walk(y) for y in x)
    if isinstance(x, (DictObj, LoggedObj)):
      return any(walk(y) for y in x.__dict__.values())
    if isinstance(x, slice):
      return any(walk(y) for y in (x.start, x.stop, x.step))
    return False
  return walk(v)


def run_shared_key(case):
  """One memoizable object used as a dict KEY and, elsewhere, as a value: the reconstruction has
  ONE object in all those places."""
  r = random.Random(case['seed'])
  k = [frozenset({1, 2}), graphs.NT(1, 's'), (1, ('a', 2)), frozenset({(1, 2), 3})][case['shared_key']]
  order = r.random() < 0.5
  inner = {k: 'as-key', 'other': k} if order else {'other': k, k: 'as-key'}
  v = fdl.Config(lit, p=k, q={k: r.randint(0, 9)}, r=[inner, {k: k}]) if r.random() < 0.6 else \
      fdl.Config(lit, q={k: 1}, k=[k])
  obs = {'shared_key': True}
  try:
    back = serialization.load_json(serialization.dump_json(v))
  except Exception as e:
    obs['result'] = f'raised {type(e).__name__}: {e}'[:200]
    return obs, None

  def places(c):
    out = []
    a = c.__arguments__
    if 'p' in a:
      out.append(a['p'])
    out.append(next(iter(a['q'])))
    if 'r' in a:
      out += [x for x in a['r'][0] if not isinstance(x, str)] + [a['r'][0]['other']]
      out += [next(iter(a['r'][1])), next(iter(a['r'][1].values()))]
    if 'k' in a:
      out.append(a['k'][0])
    return out
  ps = places(back)
  obs['result'] = all(x is ps[0] for x in ps) and ps[0] == k and type(ps[0]) is type(k)
  if obs['result'] is not True:
    obs['result'] = f'{len({id(x) for x in ps})} distinct objects in {len(ps)} places of one shared object'
  return obs, None


def execute(case):
  if case.get('migrated'):
    return run_migrated(case)
  if case.get('shared_key') is not None:
    return run_shared_key(case)
  r = random.Random(case['seed'])
  g = Gen(r)
  v = g.buildable(case['depth']) if r.random() < 0.7 else g.value(case['depth'])
  obs = {}
  before = scanon(v)
  del targets.LOG[:]
  try:
    doc = serialization.dump_json(v)
  except Exception as e:
    obs['dump'] = f'raised {type(e).__name__}'
    obs['input_unchanged'] = scanon(v) == before
    return obs, None
  obs['dump'] = 'ok'
  try:
    json.loads(doc)
    obs['valid_json'] = True
  except Exception:
    obs['valid_json'] = False
  try:
    strict_json(doc)
    obs['strict_json'] = True
  except Exception:
    obs['strict_json'] = False
  obs['special_float'] = contains_special_float(v)
  if case.get('tamper'):
    # arbitrary documents: rewrite some symbol references to ones the policy denies
    d = json.loads(doc)
    forbidden = [('os', 'system'), ('subprocess', 'Popen'), ('shutil', 'rmtree'),
                 ('harness.props.C09', 'lit')]
    n_tampered = 0

    def walk(x):
      nonlocal n_tampered
      if isinstance(x, dict):
        if x.get('type') == 'pyref' and r.random() < 0.5:
          x['module'], x['name'] = r.choice(forbidden)
          n_tampered += 1
        for y in x.values():
          walk(y)
      elif isinstance(x, list):
        for y in x:
          walk(y)
    walk(d)
    policy = RecordingPolicy(deny=[('harness.props.C09', 'lit')])
    imported = []
    real_import = importlib.import_module

    def spy(name, *a, **k):
      imported.append(name)
      return real_import(name, *a, **k)
    serialization.importlib.import_module = spy
    try:
      try:
        res = serialization.load_json(json.dumps(d), pyref_policy=policy)
        obs['tampered_load'] = 'returned'
        used = set()
        for x, _ in daglish.iterate(res, memoized=False):
          if isinstance(x, fdl.Buildable):
            used.add(x.__fn_or_cls__)
          elif callable(x) and not isinstance(x, (targets.Tok,)):
            used.add(x)
        import os as _os, subprocess as _sp, shutil as _sh
        obs['forbidden_in_result'] = any(u in (_os.system, _sp.Popen, _sh.rmtree, lit) for u in used)
      except Exception as e:
        obs['tampered_load'] = f'raised {type(e).__name__}'
        obs['forbidden_in_result'] = False
    finally:
      serialization.importlib.import_module = real_import
    obs['n_tampered'] = n_tampered
    def skel(x):
      # only the structure and the symbol references matter to the model
      if isinstance(x, dict):
        if x.get('type') == 'pyref':
          return {'type': 'pyref', 'module': x['module'], 'name': x['name']}
        return {str(k): skel(y) for k, y in x.items()}
      if isinstance(x, list):
        return [skel(y) for y in x]
      return 0
    obs['policy_doc'] = skel(d)
    table = []
    seen_syms = set()

    def syms(x):
      if isinstance(x, dict):
        if x.get('type') == 'pyref':
          seen_syms.add((x['module'], x['name']))
        for y in x.values():
          syms(y)
      elif isinstance(x, list):
        for y in x:
          syms(y)
    syms(d)
    for (m_, n_) in sorted(seen_syms):
      probe = RecordingPolicy(deny=[('harness.props.C09', 'lit')])
      ai = probe.allows_import(m_, n_)
      av = False
      if ai:
        try:
          val = importlib.import_module(m_)
          for part in n_.split('.'):
            val = getattr(val, part)
          av = bool(probe.allows_value(val))
        except Exception:
          av = False
      table.append([m_, n_, bool(ai), av])
    obs['policy_table'] = table
    obs['imports_not_approved'] = sorted({m for m in imported
                                          if not any(a[0] == m or a[0].startswith(m) or m.startswith(a[0])
                                                     for a in policy.approved)
                                          and not m.startswith('fiddle')})
    obs['invocations'] = len(targets.LOG)
    return obs, None
  policy = (SizedPolicy if case['seed'] % 3 == 0 else RecordingPolicy)()
  try:
    back = serialization.load_json(doc, pyref_policy=policy)
  except Exception as e:
    obs['load'] = f'raised {type(e).__name__}: {e}'[:200]
    return obs, None
  obs['load'] = 'ok'
  # the bytes codec as the real traverser applies it
  tr = serialization.find_node_traverser(bytes)
  obs['codec'] = []
  for x, _ in daglish.iterate(v, memoized=False):
    if isinstance(x, bytes) and len(obs['codec']) < 4:
      (text,), _m = tr.flatten(x)
      obs['codec'].append((x, [ord(ch) for ch in text]))
  obs['roundtrip'] = scanon(back) == before
  # unset stays unset: the NO_VALUE sentinel is compared by identity everywhere in Fiddle
  try:
    from fiddle._src import config as config_lib
    obs['no_value_singleton'] = all(x is fdl.NO_VALUE for x, _ in daglish.iterate(back, memoized=False)
                                    if isinstance(x, config_lib.NoValue))
  except Exception as e:
    obs['no_value_singleton'] = f'raised {type(e).__name__}'
  if not obs['roundtrip']:
    obs['before'] = before
    obs['after'] = scanon(back)
  obs['invocations'] = len(targets.LOG)
  obs['input_unchanged'] = scanon(v) == before
  try:
    doc2 = serialization.dump_json(back)
    obs['stable'] = normal_doc(json.loads(doc2)) == normal_doc(json.loads(doc))
  except Exception as e:
    obs['stable'] = f'raised {type(e).__name__}'
  # every symbol in the document was put to the policy
  syms = set()

  def collect(x):
    if isinstance(x, dict):
      if x.get('type') == 'pyref':
        syms.add((x['module'], x['name']))
      for y in x.values():
        collect(y)
    elif isinstance(x, list):
      for y in x:
        collect(y)
  collect(json.loads(doc))
  obs['policy_consulted'] = syms <= set(policy.import_calls)
  # a second, STRICT policy in the same process (it approves every import but no value): nothing an
  # earlier load resolved may be handed out again without THIS policy's approval
  if syms:
    strict = ValueDenyPolicy()
    try:
      serialization.load_json(doc, pyref_policy=strict)
      obs['strict_policy'] = f'loaded although the policy approves no value (values asked about: {len(strict.value_calls)})'
    except serialization.PyrefPolicyError:
      obs['strict_policy'] = True if strict.value_calls else 'raised without asking about a value'
    except Exception as e:
      obs['strict_policy'] = f'raised {type(e).__name__}: {e}'[:160]
  # the same value through the flag-value serializer (zlib + base64 around the same document):
  # the supplied policy must be the one consulted there too, also when it denies
  try:
    from fiddle._src.absl_flags import utils as flag_utils
    zs = flag_utils.ZlibJSONSerializer()
    text = zs.serialize(v)
    p2 = (SizedPolicy if case['seed'] % 3 == 1 else RecordingPolicy)()
    back2 = zs.deserialize(text, pyref_policy=p2)
    ok = syms <= set(p2.import_calls) and scanon(back2) == before
    if syms:
      deny = sorted(syms)[0]
      p3 = RecordingPolicy(deny=[deny])
      try:
        zs.deserialize(text, pyref_policy=p3)
        ok = False                      # a denied symbol was resolved
      except serialization.PyrefPolicyError:
        pass
    obs['flag_serializer_policy'] = ok
  except Exception as e:
    obs['flag_serializer_policy'] = f'raised {type(e).__name__}: {e}'[:160]
  # model correspondence: the document's `objects` table, read by an independent reader, against
  # Model/Rebuild.lean's table for the same configuration (and against loading that table again)
  from harness import codeparse, docread
  from harness.props import C07
  req = None
  try:
    heap_doc, root_doc = docread.Reader(doc).read()
    enc_req, _enc = graphs.encode(v, with_defaults=False, atom_pred=codeparse.leaf_atom_pred)
    obs['m_doc'] = codeparse.canon_heap(heap_doc, root_doc)
    obs['m_input'] = codeparse.canon_heap([C07.project_obj(o) for o in enc_req['objs']], enc_req['root'])
    req = {'p': 'graph', 'objs': enc_req['objs'], 'root': enc_req['root'], 'q': ['rebuild']}
  except docread.Unreadable as e:
    obs['m_unsupported'] = str(e)[:100]
  except Exception as e:
    obs['m_unsupported'] = f'reader: {type(e).__name__}: {e}'[:100]
  return obs, req


def normal_doc(d):
  """JSON document with set element lists sorted (the property allows any order of set
  elements) and NaN made comparable."""
  def go(x):
    if isinstance(x, dict):
      out = {k: go(v) for k, v in x.items()}
      t = out.get('type')
      if isinstance(t, dict) and t.get('name') in ('set', 'frozenset') and isinstance(out.get('items'), list):
        out['items'] = sorted(out['items'], key=lambda i: json.dumps(i, sort_keys=True))
      return out
    if isinstance(x, list):
      return [go(v) for v in x]
    if isinstance(x, float) and math.isnan(x):
      return 'NaN'
    return x
  return go(d)


_drv = {}


def compare(real, model):
  """Correspondence for the two modelled parts: the bytes codec and the policy gate."""
  if real.get('shared_key') or real.get('migrated'):
    return []
  if 'drv' not in _drv:
    _drv['drv'] = common.Driver()
  drv = _drv['drv']
  diffs = []
  for b, text in real.get('codec', []):
    m = drv.ask({'p': 'serialize', 'bytes': list(b)})
    if m['text'] != text or m['back'] != list(b):
      diffs.append(('codec', 'bytes', [text, list(b)], [m['text'], m['back']]))
  if model is not None and 'm_doc' in real:
    from harness import codeparse
    rb = model.get('rebuild')
    if not isinstance(rb, dict):
      diffs.append(('rebuild', 'model', 'ok', rb))
    else:
      got = codeparse.canon_heap(rb['heap'], rb['root'])
      if got != real['m_doc']:
        diffs.append(('objects table of the real document vs Model/Rebuild', 'table', real['m_doc'], got))
      if real['m_doc'] != real['m_input']:
        diffs.append(('objects table of the real document vs the dumped configuration', 'table', real['m_doc'], real['m_input']))
      rl = rb.get('reload')
      if not isinstance(rl, dict) or codeparse.canon_heap(rl['heap'], rl['root']) != got:
        diffs.append(('loading the table again (straightLine.run)', 'reload', got, rl if not isinstance(rl, dict) else codeparse.canon_heap(rl['heap'], rl['root'])))
  if 'policy_doc' in real:
    m = drv.ask({'p': 'serialize', 'doc': real['policy_doc'], 'table': real['policy_table']})
    loaded = real['tampered_load'] == 'returned'
    denied = real['tampered_load'].startswith('raised PyrefPolicyError')
    if loaded != m['ok'] and (loaded or denied):
      diffs.append(('policy', 'outcome', real['tampered_load'], m))
  return diffs


def oracle(case, real):
  if real.get('migrated'):
    if real['problems']:
      return {'what': 'symbols that moved to another module: ' + real['problems'][0], 'problems': real['problems']}
    return None
  if real.get('shared_key'):
    if real['result'] is not True:
      return {'what': 'an object shared between a dict key and other places is not one object after load_json',
              'observed': real['result']}
    return None
  if real['dump'] != 'ok':
    if real.get('input_unchanged') is False:
      return {'what': 'a failing dump_json modified its input'}
    return None           # loud
  if not real['valid_json']:
    return {'what': 'dump_json produced text that is not JSON'}
  deferred = None
  if not real['strict_json']:
    f = {'what': 'dump_json produced non-standard JSON (NaN / Infinity tokens)'}
    if not real['special_float']:
      return f
    f['class'] = 'json-special-floats'     # recorded finding; keep checking everything else
    deferred = f
  if case.get('tamper'):
    if real['forbidden_in_result']:
      return {'what': 'deserialization resolved a symbol the policy denies'}
    if real['imports_not_approved']:
      return {'what': 'deserialization imported modules the policy did not approve',
              'modules': real['imports_not_approved']}
    if real['invocations']:
      return {'what': 'deserialization invoked a configured callable'}
    return deferred
  if real['load'] != 'ok':
    return {'what': 'load_json failed on the output of dump_json', 'observed': real['load']}
  if not real['roundtrip']:
    f = {'what': 'the reconstructed value differs (types, leaves, callables, tags or sharing)',
         'before': real.get('before'), 'after': real.get('after')}
    if merge_surrogate_pairs(real.get('before')) == real.get('after'):
      # recorded finding: the only difference is a high+low surrogate pair that came back as the one
      # character it encodes in UTF-16
      f['class'] = 'str-surrogate-pair-merged'
    return f
  if real['stable'] is not True:
    return {'what': 'serializing the reconstruction gives a different document', 'observed': real['stable']}
  if real['invocations']:
    return {'what': 'deserialization invoked a configured callable'}
  if not real['policy_consulted']:
    return {'what': 'a symbol was resolved without consulting the policy'}
  if real.get('strict_policy', True) is not True:
    return {'what': 'a symbol resolved earlier under another policy was resolved again without the approval of '
                    'the policy supplied now', 'observed': real['strict_policy']}
  if real.get('no_value_singleton', True) is not True:
    return {'what': 'a NO_VALUE in the input came back as another object: the parameter is no longer unset',
            'observed': real['no_value_singleton']}
  if real.get('flag_serializer_policy', True) is not True:
    return {'what': 'the flag-value serializer did not put every symbol to the supplied policy (or changed the value)',
            'observed': real['flag_serializer_policy']}
  if not real['input_unchanged']:
    return {'what': 'dump_json / load_json modified the input'}
  return deferred


def merge_surrogate_pairs(x):
  """The canonical form `x` with every str token rewritten the way a UTF-16 round trip rewrites
  it (an adjacent high+low surrogate pair becomes one character; lone surrogates stay)."""
  import ast
  if isinstance(x, str):
    i = x.find("str:")
    if i == 0:
      try:
        t = ast.literal_eval(x[4:])
        return 'str:' + repr(t.encode('utf-16', 'surrogatepass').decode('utf-16', 'surrogatepass'))
      except Exception:
        return x
    return x
  if isinstance(x, (list, tuple)):
    return [merge_surrogate_pairs(y) for y in x]
  if isinstance(x, dict):
    return {k: merge_surrogate_pairs(v) for k, v in x.items()}
  return x


def classify(case, fail):
  return fail.get('class')


def nontrivial(case, real):
  if real.get('migrated'):
    return ('migrated', case['seed'])
  if real.get('shared_key'):
    return ('shared_key', case['seed'])
  if real['dump'] != 'ok':
    return None
  if case.get('tamper'):
    return ('doc', case['seed']) if real.get('n_tampered') else None
  return ('val', case['seed'])


def run(tier):
  return family.run_check(
      'C09', tier, lean_module='C09', cases=cases, execute=execute, compare=compare,
      oracle=oracle, classify=classify, nontrivial=nontrivial, widen=None, floor_nontrivial=0.2,
      time_budget=200 if tier == 'quick' else 1500,
      extra_coverage={'rule': 'random values and configurations (Config / Partial / ArgFactory, positional and '
                      '**kwargs arguments, tags also on unset arguments) over leaves: ints up to 10**5000, '
                      'special floats, str with NUL / lone surrogates / escape-like text, arbitrary bytes incl. '
                      'escape-like sequences and all 256 byte values, enums, None, slices, NO_VALUE, a registered '
                      'constant, tuples, callables and types as values; containers: list, tuple, dict with keys of '
                      'many types, set, frozenset, named tuple, defaultdict, a registered dict-based object; '
                      'shared values. Second stream: documents with symbol references rewritten to ones the '
                      'recording policy denies (os.system, subprocess.Popen, ...). Non-trivial = dump succeeded '
                      '(and, for documents, at least one reference tampered).'},
      level_note=['json.dumps / json.loads themselves are trusted (Doc = identity)'])


def replay(path):
  data = json.load(open(path if os.path.isabs(path) else os.path.join(common.ROOT, path)))
  real, _ = execute(data['case'])
  fail = oracle(data['case'], real)
  print(json.dumps({'oracle': fail}, indent=1, default=str)[:3000])
  return 1 if fail else 0
