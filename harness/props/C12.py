"""C12 — generated Python code reproduces the configuration."""
from __future__ import annotations

import cmath
import copy
import enum
import json
import math
import os
import random
import sys
import types

import fiddle as fdl
from fiddle import daglish
from fiddle._src.codegen import new_codegen, py_val_to_cst_converter
from fiddle._src.codegen.auto_config import experimental_top_level_api

from harness import common, family, graphs, targets
from harness.props import C15
from harness.c12lib import auto_config as lib_auto_config, arg_factory as lib_arg_factory, fdl as lib_fdl, \
    functools as lib_functools

NAME_CLASH = [(m, getattr(m, 'block_' + m.__name__.rsplit('.', 1)[1]), getattr(m, 'Tag_' + m.__name__.rsplit('.', 1)[1]))
              for m in (lib_auto_config, lib_arg_factory, lib_fdl, lib_functools)]


class Hue(enum.Enum):
  WARM = 1
  COLD = 'c'


class Prio(enum.IntEnum):
  LOW = 1
  HIGH = 2


class Sig(enum.IntEnum):
  ONE = 1          # equal in value to Prio.LOW, different class


class Names(tuple):
  """A tuple subclass: a generator must reject it or reproduce its type."""


class Model:
  def __init__(self, enc=None, dec=None, width=1, name='m', opts=None):
    self.rec = targets.Rec('Model', [('enc', enc), ('dec', dec), ('width', width), ('name', name), ('opts', opts)], (), {})


class Layer:
  class Precision(enum.Enum):          # an enum nested in a class
    HIGH = 'matmul-highest'
    LOW = 'matmul-low'

  def __init__(self, item=None, units=4, act=None):
    self.rec = targets.Rec('Layer', [('item', item), ('units', units), ('act', act)], (), {})


def relu(x=0, item=None):
  return targets.Rec('relu', [('x', x), ('item', item)], (), {})


def make_layer(item=None, units=4) -> Layer:
  """A function (not a class) whose return annotation is a class."""
  return Layer(item=item, units=units)


make_layer.__annotations__['return'] = Layer     # a real class object (this module postpones annotations)


def posfn(a=1.0, b=2.0, /, c=3, *rest):
  """Positional-only parameters with defaults (a position can be skipped with cfg[i] = v)."""
  return targets.Rec('posfn', [('a', a), ('b', b), ('c', c)], tuple(rest), {})


def leaf(r, exotic=True):
  x = r.random()
  if not exotic or x < 0.45:
    return r.choice([0, 1, -7, 2.5, -0.0, 'text', "q'uote", '', None, True, False, 10 ** 25])
  if x < 0.55:
    return r.choice([Hue.WARM, Hue.COLD, Prio.LOW, Prio.HIGH, Sig.ONE, Layer.Precision.HIGH, Layer.Precision.LOW])
  if x < 0.63:
    return r.choice([Layer, Model, relu, Hue, dict, list])       # types / functions as leaves
  if x < 0.7:
    return r.choice([b'bytes', b'\x00\xff', b''])
  if x < 0.77:
    return r.choice([complex(1, 2), complex(0, 1.5), complex(1, -2)])
  if x < 0.84:
    return r.choice([float('inf'), float('-inf'), float('nan'), complex(float('inf'), 0)])
  if x < 0.9:
    return r.choice([(1, 's'), (), ((1, 2), 3)])
  if x < 0.92:
    # slices: every combination of given / omitted fields
    return r.choice([slice(1, None), slice(None, 5), slice(1, 5), slice(None, None, 2), slice(0, None, 2),
                     slice(None), slice(2, 9, 3), slice(-1, None, -1)])
  if x < 0.95:
    return r.choice([graphs.NT(2, 1), Names((1, 2))])
  return {r.choice([(1, 2), 'k', 3, frozenset([1]), Hue.WARM, Prio.HIGH]): 1}


class Gen:
  def __init__(self, r, exotic=True, tags=True):
    self.r = r
    self.exotic = exotic
    self.tags = tags
    self.pool = []

  def value(self, depth, in_partial=False):
    r = self.r
    if self.pool and r.random() < 0.2:
      return r.choice(self.pool)
    if self.exotic and r.random() < 0.06:
      # a mutable leaf that no traversal enters: shared by identity like any other object
      v = r.choice([{1, 2}, {'a'}, set()])
      self.pool.append(v)
      return v
    if depth <= 0 or r.random() < 0.3:
      return leaf(r, self.exotic)
    x = r.random()
    if x < 0.55:
      v = self.cfg(depth - 1, in_partial)
    elif x < 0.75:
      v = [self.value(depth - 1, in_partial) for _ in range(r.randint(0, 3))]
    elif x < 0.87:
      v = {k: self.value(depth - 1, in_partial) for k in r.sample(['a', 'b', 1, (1, 2)], r.randint(0, 2))}
    else:
      v = tuple(self.value(depth - 1, in_partial) for _ in range(r.randint(1, 2)))
    if not graphs.is_atom(v) and not graphs.is_internable(v):
      self.pool.append(v)
    return v

  def cfg(self, depth, in_partial=False):
    r = self.r
    btypes = [fdl.Config, fdl.Config, fdl.Partial] + ([fdl.ArgFactory] if in_partial else [])
    btype = r.choice(btypes)
    if self.exotic and r.random() < 0.1:
      # positional-only arguments: given contiguously, or with one position skipped (which no
      # call expression can express: a generator must reject that configuration)
      c = btype(posfn, *[self.value(depth - 1, in_partial) for _ in range(r.randint(0, 4))])
      if r.random() < 0.35:
        c = btype(posfn)
        c[1] = leaf(r, False)
        if r.random() < 0.5:
          c.c = self.value(depth - 1, in_partial)
      self.pool.append(c)
      return c
    clash = r.choice(NAME_CLASH) if self.exotic and r.random() < 0.08 else None
    fn = clash[1] if clash else r.choice([Model, Layer, relu, Model, Layer, relu, make_layer])
    names = {Model: ['enc', 'dec', 'width', 'name', 'opts'], Layer: ['item', 'units', 'act'], relu: ['x', 'item'],
             make_layer: ['item', 'units']}.get(fn, ['item', 'units'])
    kw = {n: self.value(depth, in_partial or btype is fdl.Partial) for n in names if r.random() < 0.55}
    c = btype(fn, **kw)
    if clash and self.tags and kw and r.random() < 0.7:
      # a callable (and a tag) from a user module whose name a generator also uses for its own imports
      fdl.add_tag(c, list(kw)[0], r.choice(targets.TAGS))
    if self.tags:
      for n in list(kw)[:2]:
        if r.random() < 0.25:
          fdl.add_tag(c, n, r.choice(targets.TAGS))      # tagged arguments all have values
          if r.random() < 0.3:
            fdl.add_tag(c, n, r.choice(targets.TAGS))    # several tags on one argument
    self.pool.append(c)
    return c


def scenario(i, r):
  """Hand-shaped configurations for interactions the random generator rarely reaches."""
  if i == 0:
    # a sub-fixture with a parameter (node shared with its caller) and an inner shared node that
    # is reached through an attribute of the same name
    x = fdl.Config(relu, x=r.randint(1, 9))
    y = fdl.Config(relu, x=r.randint(10, 19))
    sub = fdl.Config(Layer, item=x, units=fdl.Config(Layer, item=y), act=fdl.Config(Layer, item=y, units=2))
    root = fdl.Config(Model, enc=sub, dec=x, width=[x])
    return root, {'sub_fixture': sub}
  if i == 1:
    # enum members of different classes that compare equal
    return fdl.Config(Model, width=Prio.LOW, name=Sig.ONE, opts=[Sig.ONE, Prio.LOW, Prio.HIGH],
                      enc=fdl.Partial(Layer, units=Sig.ONE, act=Prio.LOW)), None
  if i == 3:
    # a sub-fixture holding two further sub-fixtures that share TWO distinct nodes, neither of which
    # is used outside the enclosing sub-fixture
    n1, n2 = fdl.Config(relu, x=r.randint(1, 9)), fdl.Config(relu, x=r.randint(10, 19))
    inner_a = fdl.Config(Layer, item=n1, units=n2)
    inner_b = fdl.Config(Layer, item=n1, act=n2)
    outer = fdl.Config(Model, enc=inner_a, dec=inner_b)
    return fdl.Config(Model, enc=outer, width=3), {'outer_fix': outer, 'a_fix': inner_a, 'b_fix': inner_b}
  if i == 4:
    # a node extracted into a variable named after its argument (`enc`: shared, or pulled out by the
    # complexity threshold) while LEAF symbols of a module of the same name (an enum member, a plain
    # function) occur elsewhere: the variable must not shadow the module
    from harness.c12lib import enc as enc_mod
    shared = fdl.Config(relu, x=r.randint(1, 9))
    return fdl.Config(Model, enc=shared, dec=fdl.Config(Layer, item=shared, units=enc_mod.Kind.ADAM, act=enc_mod.rate),
                      width=enc_mod.Kind.SGD), None
  # list / tuple subclasses and other values a generator must reject or reproduce exactly
  return fdl.Config(Model, name=Names((1, 2)), opts=[Names(('a',)), (1, 2)], width=r.randint(0, 3)), None


# values every run converts (beside the random ones): each shape of slice, nested in containers too
FIXED_VALUES = [slice(1, None), slice(None, 5), slice(1, 5), slice(None, None, 2), slice(0, None, 2), slice(None),
                slice(2, 9, 3), slice(-1, None, -1), [slice(3, None)], {'k': (slice(1, None), slice(None, 1))},
                slice('a', None), slice(None, None, None), slice(1, None, 1)]


def cases(tier, r):
  for i in range(len(FIXED_VALUES)):
    yield 'value', {'value': True, 'seed': r.getrandbits(48), 'fixed': i}
  for _ in range(260 if tier == 'quick' else 5000):
    yield 'config', {'seed': r.getrandbits(48), 'depth': r.choice([1, 2, 3]),
                     'generator': r.choice(['new', 'auto']),
                     'complexity': r.choice([None, None, 0, 1, 3]),
                     'history': r.random() < 0.3,
                     'sub': r.choice([0, 0, 1, 2]),
                     'exotic': r.random() < 0.5, 'tags': r.random() < 0.6}
  for _ in range(150 if tier == 'quick' else 3000):
    yield 'value', {'value': True, 'seed': r.getrandbits(48)}
  for i in range(24 if tier == 'quick' else 200):
    yield 'scenario', {'scenario': i % 4, 'seed': r.getrandbits(48), 'generator': r.choice(['new', 'auto']),
                       'complexity': r.choice([None, 0, 2]), 'history': False, 'sub': 0, 'depth': 1,
                       'exotic': False, 'tags': False}
  for gen in ('new', 'auto'):
    for cx in (None, 0, 1):
      yield 'scenario', {'scenario': 4, 'seed': 4, 'generator': gen, 'complexity': cx, 'history': False, 'sub': 0,
                         'depth': 1, 'exotic': False, 'tags': False}


def module_globals():
  g = {'__name__': 'generated_fixture'}
  return g


_counter = [0]
_last_namespace = [None]


def run_module(code, generator):
  """Imports the emitted text as a real module (auto_config needs inspect.getsource)."""
  import importlib.util
  import shutil
  import tempfile
  _counter[0] += 1
  d = tempfile.mkdtemp(prefix='c12_')
  try:
    name = f'generated_fixture_{os.getpid()}_{_counter[0]}'
    path = os.path.join(d, name + '.py')
    with open(path, 'w') as f:
      f.write(code)
    spec = importlib.util.spec_from_file_location(name, path)
    mod = importlib.util.module_from_spec(spec)
    sys.modules[name] = mod
    try:
      spec.loader.exec_module(mod)
      fx = mod.config_fixture
      _last_namespace[0] = dict(mod.__dict__)
      return fx.as_buildable() if generator == 'auto' else fx()
    finally:
      sys.modules.pop(name, None)
  finally:
    shutil.rmtree(d, ignore_errors=True)


def contains(v, pred):
  seen = set()

  def walk(x):
    if pred(x):
      return True
    if graphs.is_atom(x) or id(x) in seen:
      return False
    seen.add(id(x))
    if isinstance(x, fdl.Buildable):
      return any(walk(y) for y in x.__arguments__.values())
    if isinstance(x, dict):
      return any(walk(k) or walk(y) for k, y in x.items())
    if isinstance(x, (list, tuple, set, frozenset)):
      return any(walk(y) for y in x)
    return False
  return walk(v)


def special_float(x):
  return (isinstance(x, float) and (math.isnan(x) or math.isinf(x))) or (
      isinstance(x, complex) and (cmath.isnan(x) or cmath.isinf(x)))


def execute(case):
  r = random.Random(case['seed'])
  if case.get('value'):
    v = leaf(r, True) if r.random() < 0.6 else Gen(r, True, False).value(2)
    if 'fixed' in case:
      v = FIXED_VALUES[case['fixed']]
    obs = {'value': True}
    try:
      node = py_val_to_cst_converter.convert_py_val_to_cst(v)
      import libcst as cst
      text = cst.Module(body=[]).code_for_node(node)
    except Exception as e:
      obs['convert'] = f'raised {type(e).__name__}'
      obs['special'] = contains(v, special_float)
      return obs, None
    obs['convert'] = 'ok'
    obs['text'] = text[:300]
    obs['special'] = contains(v, special_float)
    obs['has_namedtuple'] = contains(v, graphs.is_namedtuple) or contains(v, lambda x: isinstance(x, Names))
    if contains(v, lambda x: isinstance(x, fdl.Buildable) or callable(x) or isinstance(x, enum.Enum)):
      obs['skip_eval'] = True       # needs imports; covered by the module-level cases
      return obs, None
    try:
      import harness as _harness_pkg      # dotted references to harness classes (named tuples) resolve
      back = eval(text, {'__builtins__': __builtins__, 'harness': _harness_pkg})
      # "an equal value of the same type": values and types, not the sharing inside the value (one
      # expression cannot express that two elements are the same object)
      from harness.props import C20 as _c20v
      obs['same'] = _c20v.expand(graphs.canon(back)) == _c20v.expand(graphs.canon(v))
    except Exception as e:
      obs['same'] = f'eval raised {type(e).__name__}: {e}'[:120]
    return obs, None
  g = Gen(r, case['exotic'], case['tags'])
  cfg = g.cfg(case['depth'])
  obs = {'generator': case['generator']}
  subs = None
  if 'scenario' in case:
    cfg, subs = scenario(case['scenario'], r)
  elif case['sub']:
    nodes = [n for n in C15.reachable_buildables(cfg)[1:] if type(n) is fdl.Config]
    r.shuffle(nodes)
    subs = {f'sub_{i}': n for i, n in enumerate(nodes[:case['sub']])} or None
  want = graphs.canon(cfg, order_dicts=True, ituples=True)
  obs['special'] = contains(cfg, special_float)
  obs['has_namedtuple'] = contains(cfg, graphs.is_namedtuple)
  obs['has_tags'] = any(ts for n in C15.reachable_buildables(cfg) for ts in n.__argument_tags__.values())
  obs['n_sub'] = len(subs or {})
  _refs = {}
  for _n in C15.reachable_buildables(cfg):
    for _v in _n.__arguments__.values():
      if isinstance(_v, fdl.ArgFactory):
        _refs[id(_v)] = _refs.get(id(_v), 0) + 1
  obs['shared_argfactory'] = any(c > 1 for c in _refs.values())
  obs['enum_dict_key'] = contains(cfg, lambda x: isinstance(x, dict) and any(isinstance(k, enum.Enum) for k in x))
  try:
    if case['generator'] == 'new':
      code = new_codegen.new_codegen(cfg, sub_fixtures=subs, max_expression_complexity=case['complexity'],
                                     include_history=case['history'])
    else:
      code = experimental_top_level_api.auto_config_codegen(
          cfg, sub_fixtures=subs, max_expression_complexity=case['complexity'], include_history=case['history'])
  except Exception as e:
    obs['codegen'] = f'raised {type(e).__name__}: {e}'[:200]
    obs['input_unchanged'] = graphs.canon(cfg, order_dicts=True, ituples=True) == want
    return obs, None
  obs['codegen'] = 'ok'
  obs['code'] = code
  obs['input_unchanged'] = graphs.canon(cfg, order_dicts=True, ituples=True) == want
  try:
    compile(code, '<generated>', 'exec')
    obs['compiles'] = True
  except SyntaxError as e:
    obs['compiles'] = f'SyntaxError: {e}'
    return obs, None
  try:
    back = run_module(code, case['generator'])
    obs['run'] = 'ok'
  except Exception as e:
    obs['run'] = f'raised {type(e).__name__}: {e}'[:200]
    return obs, None
  got = graphs.canon(back, order_dicts=True, ituples=True)
  obs['same'] = got == want
  if not obs['same']:
    obs['got'], obs['want'] = got, want
  # model correspondence: the emitted text, read as a program of Model/Codegen.lean and executed
  # by the Lean semantics, must build the input configuration
  from harness import codeparse
  from harness.props import C07
  req = None
  try:
    req = codeparse.program_of(code, _last_namespace[0], auto=(case['generator'] == 'auto'))
    enc_req, _enc = graphs.encode(cfg, with_defaults=False, atom_pred=codeparse.leaf_atom_pred)
    obs['m_input'] = codeparse.canon_heap([C07.project_obj(o) for o in enc_req['objs']], enc_req['root'])
  except codeparse.Unsupported as e:
    obs['m_unsupported'] = str(e)[:120]
    req = None
  return obs, req


def ntuple_as_tuple(c):
  """Canonical form in which named tuples print as plain tuples (the recorded finding); a tuple
  that thereby becomes a tuple of literals prints without identity, like every such tuple."""
  lit = lambda v: isinstance(v, str) or (isinstance(v, list) and v and v[0] == 'ituple')
  if isinstance(c, list):
    if len(c) == 4 and c[0] == 'ntuple':
      items = [ntuple_as_tuple(v) for _, v in c[3]]
      return ['ituple', items] if all(map(lit, items)) else ['tuple', c[1], items]
    if len(c) == 3 and c[0] == 'tuple' and isinstance(c[2], list):
      items = [ntuple_as_tuple(v) for v in c[2]]
      return ['ituple', items] if all(map(lit, items)) else ['tuple', c[1], items]
    return [ntuple_as_tuple(x) for x in c]
  return c


def compare(real, model):
  if model is None or 'm_input' not in real or real.get('same') is not True:
    return []          # a real mismatch is the oracle's business (violation or recorded finding)
  from harness import codeparse
  if model.get('run') != 'ok':
    return [('executing the emitted program in the model', 'ran', model.get('run'))]
  got = codeparse.canon_heap(model['heap'], model['root'])
  if got != real['m_input']:
    return [('configuration built by the emitted program (model execution) vs input', real['m_input'], got)]
  return []


def oracle(case, real):
  if real.get('value'):
    if real['convert'] != 'ok' or real.get('skip_eval'):
      return None        # rejected with an error: fine
    if real['same'] is not True:
      f = {'what': 'the expression emitted for a value does not evaluate to an equal value of the same type',
           'text': real['text'], 'observed': real['same']}
      if real['special']:
        f['class'] = 'codegen-special-floats'
      elif real['has_namedtuple']:
        f['class'] = 'codegen-namedtuple'
      return f
    return None
  if real['codegen'] != 'ok':
    if not real['input_unchanged']:
      return {'what': 'a failing generator modified its input'}
    return None           # rejected with an error
  f = None
  if real['compiles'] is not True:
    f = {'what': 'the emitted module does not compile', 'observed': real['compiles'], 'code': real['code']}
  elif real['run'] != 'ok':
    f = {'what': 'executing the emitted module raised', 'raised': real['run'], 'code': real['code']}
    if real['generator'] == 'new' and real['has_tags'] and "name 'auto_config' is not defined" in real['run']:
      f['class'] = 'newcg-tags-import'
  elif not real['same']:
    f = {'what': 'the emitted module yields a configuration that differs from the input',
         'code': real['code'], 'got': real.get('got'), 'want': real.get('want')}
  if f is not None:
    if 'class' not in f:
      from harness.props import C20
      if real['n_sub'] and real['compiles'] is not True and 'duplicate argument' in str(real['compiles']):
        f['class'] = 'subfixture-duplicate-param'
      elif (real['n_sub'] and real.get('same') is False
            and C20.expand(real['got']) == C20.expand(real['want'])):
        f['class'] = 'subfixture-sharing'           # same values, sharing lost across sub-fixtures
      elif (real['generator'] == 'auto' and real.get('run', '').startswith('raised ValueError')
            and 'arg_factory argument' in real['run'] and real['has_tags']):
        f['class'] = 'autocg-tagged-argfactory'
    if 'class' not in f and real.get('run', '').startswith('raised NameError'):
      if real['generator'] == 'new' and "name 'Any' is not defined" in real['run']:
        f['class'] = 'newcg-any-not-imported'
      elif real.get('enum_dict_key') and "is not defined" in real['run']:
        f['class'] = 'codegen-enum-dict-key'
    if 'class' not in f and real['generator'] == 'auto' and real.get('same') is False \
        and real.get('shared_argfactory'):
      from harness.props import C20 as _c20b
      if _c20b.expand(real['got']) == _c20b.expand(real['want']):
        f['class'] = 'autocg-shared-argfactory'   # same values; one ArgFactory used for several arguments
    if 'class' not in f:
      from harness.props import C20 as _c20
      if (real.get('same') is False and real['has_namedtuple']
          and ntuple_as_tuple(_c20.expand(real['want'])) == ntuple_as_tuple(_c20.expand(real['got']))):
        f['class'] = 'codegen-namedtuple'         # the only difference: NamedTuple -> plain tuple
    return f
  if not real['input_unchanged']:
    return {'what': 'code generation modified its input'}
  return None


def nontrivial(case, real):
  if real.get('value'):
    return ('v', case['seed']) if real['convert'] == 'ok' else None
  return ('c', case['seed']) if real['codegen'] == 'ok' else None


def run(tier):
  return family.run_check(
      'C12', tier, lean_module='C12', cases=cases, execute=execute, compare=compare,
      oracle=oracle, classify=lambda c, f: f.get('class'), nontrivial=nontrivial, widen=None,
      floor_nontrivial=0.3, time_budget=240 if tier == 'quick' else 1500,
      extra_coverage={'rule': 'random configurations (Config / Partial, ArgFactory inside Partial, tags on '
                      'arguments that have values, shared nodes and shared containers) over leaves: ints up to '
                      '10**25, floats incl. -0.0 and special values, str, bytes, complex, enums (Enum, IntEnum, two '
                      'IntEnum classes with equal values), types and functions, tuples, named tuples, a tuple '
                      'subclass, dicts with tuple / frozenset keys; both generators (new_codegen, '
                      'auto_config_codegen) x sub-fixture subsets of 0-2 nodes x max_expression_complexity in '
                      '{None, 0, 1, 3} x include_history. The module text is compiled, executed and its fixture '
                      'compared with the input by canonical form. Second stream: value -> expression for leaves '
                      'and nested containers, evaluated and compared incl. type.'},
      level_note=['the pass pipeline is not modelled; each emitted program is validated against its own input'])


def replay(path):
  data = json.load(open(path if os.path.isabs(path) else os.path.join(common.ROOT, path)))
  real, _ = execute(data['case'])
  fail = oracle(data['case'], real)
  print(json.dumps({'oracle': fail}, indent=1, default=str)[:3000])
  return 1 if fail else 0
