"""C14 — tags select exactly the tagged arguments and survive every transformation."""
from __future__ import annotations

import copy
import json
import os
import random

import fiddle as fdl
from fiddle import daglish, selectors
from fiddle._src import diffing, tag_type
from fiddle._src.experimental import serialization

from harness import argstore, common, family, graphs, targets
from harness.props import C15
from harness.targets import Tok

FIELDS = ['res', 'tags', 'view', 'oa']


class AlwaysEqual:
  def __eq__(self, other):
    return True

  def __ne__(self, other):
    return False

  __hash__ = object.__hash__


class Elementwise:
  """Array-like: == gives an object without a truth value."""

  class _NoTruth:
    def __bool__(self):
      raise ValueError('truth value of an elementwise comparison is ambiguous')

  def __eq__(self, other):
    return Elementwise._NoTruth()

  def __ne__(self, other):
    return Elementwise._NoTruth()

  __hash__ = object.__hash__


def cases(tier, r):
  for _ in range(900 if tier == 'quick' else 15000):
    sig = argstore.random_sig(r)
    fresh = argstore.Fresh()
    args, kwargs = argstore.gen_init(r, sig, fresh, malformed=0.0, allow_tv=True)
    ops = [o for o in argstore.gen_tag_ops(r, sig, fresh, r.randint(1, 10))
           if o[0] not in ('update_callable', 'copy_with', 'suspend', 'resume', 'enter_suspend', 'exit_suspend')]
    # parameters tagged through an Annotated[...] annotation (half of the cases)
    ann = argstore.gen_ann(r, sig) if r.random() < 0.5 else []
    yield 'tagops', {'p': 'argstore', 'sig': sig, 'args': args, 'kwargs': kwargs, 'ops': ops, 'ann': ann}
  for _ in range(600 if tier == 'quick' else 10000):
    yield 'dag', {'graph': True, 'seed': r.getrandbits(48), 'size': r.choice([4, 7, 11]),
                  'tag': r.randrange(len(targets.TAGS) + 1),      # the last one = fdl.Tag itself (every tag)
                  'op': r.choice(['set_tagged', 'replace', 'replace_held', 'list', 'survive', 'tagged_value', 'tagged_value', 'late_annotation'])}


def make_root(case):
  r = random.Random(case['seed'])
  extra = {}
  if case['op'] == 'survive':
    extra = dict(leaf_values=[1, 2, 's', None, (1, 's'), 2.5], custom=False)     # serializable leaves
  g = graphs.GraphGen(r, size=case['size'], positional=True, tags=True,
                      buildable_types=(fdl.Config, fdl.Config, fdl.Partial), **extra)
  root = g.generate()
  if not isinstance(root, fdl.Buildable):
    root = fdl.Config(graphs.node_fn(1, 0), p=root)
  # more tags: positional, keyword, **kwargs arguments, tagged arguments without values
  nodes = C15.reachable_buildables(root)
  for n in nodes:
    sig = graphs.sig_of(n)
    for k in list(n.__arguments__):
      if r.random() < 0.35:
        try:
          fdl.add_tag(n, k, r.choice(targets.TAGS))
        except Exception:
          pass
    for i, p in enumerate(sig):
      if p[1] in ('pk', 'ko') and p[0] not in n.__arguments__ and r.random() < 0.2:
        fdl.add_tag(n, p[0], r.choice(targets.TAGS))     # tagged argument without a value
      elif p[1] == 'po' and i not in n.__arguments__ and r.random() < 0.3:
        try:
          fdl.add_tag(n, i, r.choice(targets.TAGS))      # ... keyed by index (positional-only)
        except Exception:
          pass
      elif p[1] == 'vk' and r.random() < 0.25:
        try:
          fdl.add_tag(n, 'later_kw', r.choice(targets.TAGS))   # ... a **kwargs name not passed yet
        except Exception:
          pass
  return root


def snapshot(root):
  out = {}
  for n in C15.reachable_buildables(root):
    out[id(n)] = {
        'node': n,
        'fn': n.__fn_or_cls__,
        'args': {k: v for k, v in n.__arguments__.items()},
        'tags': {k: frozenset(ts) for k, ts in n.__argument_tags__.items() if ts},
    }
  return out


def tagged_keys(n, tag):
  return [k for k, ts in n.__argument_tags__.items() if any(issubclass(t, tag) for t in ts)]


def check_exact(root, before, tag, value, deep):
  """Every argument (of a still reachable Buildable) tagged with `tag` or a subclass holds the
  value; no other argument, tag or callable changed."""
  for n in C15.reachable_buildables(root):
    b = before.get(id(n))
    if b is None:
      continue       # part of the new value
    now_tags = {k: frozenset(ts) for k, ts in n.__argument_tags__.items() if ts}
    if now_tags != b['tags']:
      return f'tags of a node changed: {b["tags"]} -> {now_tags}'
    if n.__fn_or_cls__ is not b['fn']:
      return 'callable changed'
    hit = set(tagged_keys(n, tag))
    for k in set(b['args']) | set(n.__arguments__) | hit:
      cur = n.__arguments__.get(k, '<unset>')
      if k in hit:
        if isinstance(cur, str) and cur == '<unset>':
          return f'tagged argument {k!r} was not set'
        if deep:
          if cur != value or cur is value:
            return f'tagged argument {k!r} does not hold a copy of the value'
        elif cur is not value:
          return f'tagged argument {k!r} does not hold the value'
      else:
        old = b['args'].get(k, '<unset>')
        if cur is not old and not (isinstance(old, str) and isinstance(cur, str) and cur == old):
          return f'untagged argument {k!r} changed'
  return None


def execute(case):
  if not case.get('graph'):
    real, cfg = argstore.run_real(case, with_build=False)
    return real, {k: case[k] for k in ('p', 'sig', 'args', 'kwargs', 'ops', 'ann')}
  root = make_root(case)
  op = case['op']
  root_tag = case['tag'] >= len(targets.TAGS) and op in ('set_tagged', 'replace', 'replace_held', 'list')
  tag = fdl.Tag if root_tag else targets.TAGS[case['tag'] % len(targets.TAGS)]
  tno = lambda t: len(targets.TAGS) if t is fdl.Tag else targets.tag_no(t)
  obs = {'op': case['op']}
  req = None
  try:
    if op in ('set_tagged', 'replace', 'list', 'replace_held'):
      req, enc = graphs.encode(root)
      name_of = graphs.unique_fn_names(enc, req)
      nodes0 = C15.reachable_buildables(root)
      req.update({'p': 'graph', 'q': [], 'tag': tno(tag), 'value': {'a': 'NEW1'},
                  'tag_sub': [[targets.tag_no(a), targets.tag_no(b)] for a in targets.TAGS
                              for b in targets.TAGS if issubclass(a, b)] +
                             [[i, len(targets.TAGS)] for i in range(len(targets.TAGS) + 1)]})
    if op == 'set_tagged':
      before = snapshot(root)
      v = Tok(7777)
      fdl.set_tagged(root, tag=tag, value=v)
      req['q'].append('set_tagged')
      still = [n for n in C15.reachable_buildables(root) if id(n) in enc.ids]   # the property speaks of these
      obs['m_set_tagged'] = graphs.cfg_shapes(still, enc, name_of, [(lambda x: x is v, 'NEW1')])
      obs['exact'] = check_exact(root, before, tag, v, deep=False)
      obs['n_hit'] = sum(len(tagged_keys(b['node'], tag)) for b in before.values())
    elif op == 'replace':
      before = snapshot(root)
      v = [Tok(7778)]
      selectors.select(root, tag=tag, check_nonempty=False).replace(v)
      req['q'].append('set_tagged')
      still = [n for n in C15.reachable_buildables(root) if id(n) in enc.ids]
      obs['m_set_tagged'] = graphs.cfg_shapes(
          still, enc, name_of,
          [(lambda x: isinstance(x, list) and id(x) not in enc.ids and x == v, 'NEW1')])
      obs['exact'] = check_exact(root, before, tag, v, deep=True)
      obs['n_hit'] = sum(len(tagged_keys(b['node'], tag)) for b in before.values())
    elif op == 'replace_held':
      # the Selection object is kept while tags are edited: it selects what is tagged WHEN it is used
      try:
        sel = selectors.select(root, tag=tag)           # (with the emptiness check, as by default)
      except Exception:
        sel = selectors.select(root, tag=tag, check_nonempty=False)
      list(sel)                                          # ... and it has been iterated once already
      rr = random.Random(case['seed'] ^ 0x77)
      nodes_ = C15.reachable_buildables(root)
      for n in nodes_:
        for k in list(n.__arguments__):
          if isinstance(k, str) and rr.random() < 0.3:
            try:
              if tagged_keys(n, tag) and k in tagged_keys(n, tag):
                for t in [t for t in n.__argument_tags__[k] if issubclass(t, tag)]:
                  fdl.remove_tag(n, k, t)
              else:
                fdl.add_tag(n, k, rr.choice([t for t in targets.TAGS if issubclass(t, tag)]))
            except Exception:
              pass
      before = snapshot(root)
      v = [Tok(7780)]
      sel.replace(v)
      obs['exact'] = check_exact(root, before, tag, v, deep=True)
      obs['n_hit'] = sum(len(tagged_keys(b['node'], tag)) for b in before.values())
      req = None
    elif op == 'late_annotation':
      # the annotation of a parameter names a tag that only becomes resolvable (or is only added)
      # AFTER a first Config of the callable was made: later Configs carry the tag
      ns = {}
      exec("import typing\ndef late_fn(x: 'typing.Annotated[int, LateTag]' = 0, y=1):\n  return (x, y)\n"
           "def later_fn(x=0, y=1):\n  return (x, y)\n", ns)
      f1, f2 = ns['late_fn'], ns['later_fn']
      first = [fdl.Config(f1), fdl.Config(f2)]
      ns['LateTag'] = tag
      import typing as _t
      f2.__annotations__ = {'y': _t.Annotated[int, tag]}
      c1, c2 = fdl.Config(f1, x=1), fdl.Config(f2)
      holder = fdl.Config(graphs.node_fn(1, 0), p=[c1, c2])
      fdl.set_tagged(holder, tag=tag, value=5)
      obs['late'] = [tag in c1.__argument_tags__.get('x', ()), tag in c2.__argument_tags__.get('y', ()),
                     c1.__arguments__.get('x') == 5, c2.__arguments__.get('y') == 5,
                     not first[0].__argument_tags__.get('x')]
      obs['n_hit'] = 1
      req = None
    elif op == 'list':
      want = set()
      for n in C15.reachable_buildables(root):
        for ts in n.__argument_tags__.values():
          want |= set(ts)
      from fiddle._src import tagging
      got = tagging.list_tags(root)
      req['q'].append('list_tags')
      obs['m_list_tags'] = sorted(targets.tag_no(t) for t in got)
      obs['list_exact'] = set(got) == want
      sup = tagging.list_tags(root, add_superclasses=True)
      obs['list_super_ok'] = set(got) <= set(sup) and all(
          any(issubclass(t, s) for t in got) for s in sup)
      obs['n_hit'] = len(want)
    elif op == 'survive':
      base = graphs.canon(root)
      res = {}
      res['copy'] = graphs.canon(copy.copy(root)) == base
      res['deepcopy'] = graphs.canon(copy.deepcopy(root)) == base
      c2 = fdl.cast(type(root), root)
      res['cast'] = graphs.canon(c2) == base
      try:
        rt = serialization.load_json(serialization.dump_json(root))
        res['serialize'] = graphs.canon(rt) == base
      except Exception as e:
        res['serialize'] = f'raised {type(e).__name__}'
      try:
        old = copy.deepcopy(root)
        for n in C15.reachable_buildables(old):
          for k in list(n.__argument_tags__):
            try:
              fdl.clear_tags(n, k)
            except Exception:
              pass
        # ... and some nodes of `old` have ANOTHER callable, with a tag on a parameter that only
        # the old callable has: the diff removes that tag, switches the callable and adds tags
        rr = random.Random(case['seed'] ^ 0x51)
        for n in C15.reachable_buildables(old):
          sig = graphs.sig_of(n)
          if (rr.random() < 0.5 and type(n.__fn_or_cls__).__name__ == 'function'
              and all(p[0] != 'r' and p[1] in ('pk', 'ko') for p in sig)):
            try:
              fdl.update_callable(n, graphs.node_fn(1, rr.randrange(3)), drop_invalid_args=True)
              fdl.add_tag(n, 'r', rr.choice(targets.TAGS))
              if rr.random() < 0.5:
                n.r = 5
            except Exception:
              pass
        if any(isinstance(k, int) for n in C15.reachable_buildables(root)
               for k in list(n.__arguments__) + list(n.__argument_tags__)):
          # (also a value-less tag keyed by a positional index)
          res['diff'] = 'skipped-positional'     # build_diff does not support positional arguments (C10 finding)
        else:
          d = diffing.build_diff(old, root)
          diffing.apply_diff(d, old)
          res['diff'] = graphs.canon(old) == base
      except Exception as e:
        res['diff'] = f'raised {type(e).__name__}'
      obs['survive'] = res
      obs['n_hit'] = base.__repr__().count('], [[') + 1
    elif op == 'tagged_value':
      r = random.Random(case['seed'])
      # the held value may compare oddly: equal to everything, or (like an array) with a
      # comparison result that has no truth value
      v = r.choice([Tok(7779), Tok(7779), AlwaysEqual(), Elementwise()])
      tv = fdl.TaggedValue(tags=[tag], default=v)
      empty = fdl.TaggedValue(tags=[tag])
      holder = fdl.Config(graphs.node_fn(1, 0), p=[tv, {'k': tv}], q=(tv,))
      built = fdl.build(holder)
      rec = targets.rec_of(built)
      slots = dict(rec.slots)
      obs['tv_builds_to_value'] = slots['p'][0] is v and slots['p'][1]['k'] is v and slots['q'][0] is v
      try:
        fdl.build(fdl.Config(graphs.node_fn(1, 0), p=[empty]))
        obs['tv_unfilled_raises'] = False
      except Exception:
        obs['tv_unfilled_raises'] = True      # the property fixes "the build fails", not the class
      # a TaggedValue assigned to an argument expands into value + tags
      c = fdl.Config(graphs.node_fn(1, 0))
      c.p = tv
      obs['tv_expands'] = c.__arguments__.get('p') is v and tag in c.__argument_tags__['p']
      obs['n_hit'] = 1
  except Exception as e:
    obs['raised'] = f'{type(e).__name__}: {e}'[:300]
  return obs, (req if req and req['q'] else None)


def compare(real, model):
  if model is None:
    return []
  if 'op' in real:        # graph case
    diffs = []
    ns = graphs.norm_shapes
    if 'm_set_tagged' in real:
      keep = {e[0] for e in real['m_set_tagged']}     # Buildables still reachable afterwards
      mm = [e for e in (model.get('set_tagged') or []) if e[0] in keep]
      if ns(real['m_set_tagged']) != ns(mm):
        diffs.append(('set_tagged', ns(real['m_set_tagged']), ns(mm)))
    if 'm_list_tags' in real and real['m_list_tags'] != model.get('list_tags'):
      diffs.append(('list_tags', real['m_list_tags'], model.get('list_tags')))
    return diffs
  return argstore.diff_fields(real, model, FIELDS)


def tagops_oracle(case, real):
  """Reference semantics of add/remove/set/clear tags: a set per argument."""
  if real['init'] == 'err':
    return None
  sig = case['sig']
  pos = [p for p in sig if p[1] in ('po', 'pk')]

  def norm(k):
    if isinstance(k, int) and 0 <= k < len(pos) and pos[k][1] == 'pk':
      return pos[k][0]
    return k
  # the constructor: the tag set of an argument is the union of the tags of the TaggedValue
  # passed for it and of the tags its parameter carries through an Annotated[...] annotation
  exp0 = {}
  for i, a in enumerate(case['args']):
    if 'tv' in a:
      exp0.setdefault(repr(norm(i)), set()).update(a['tv'])
  for k, a in case['kwargs']:
    if 'tv' in a:
      exp0.setdefault(repr(k), set()).update(a['tv'])
  for n, ts in case.get('ann') or []:
    exp0.setdefault(repr(n), set()).update(ts)
  tags = {repr(k): set(ts) for k, ts in real['init']['tags']}
  if tags != exp0:
    return {'where': 'constructor', 'what': 'tag sets after construction are not the union of the tags given '
            'with TaggedValues and the Annotated tags of the parameters',
            'observed': {k: sorted(v) for k, v in tags.items()}, 'expected': {k: sorted(v) for k, v in exp0.items()}}
  for i, (op, st) in enumerate(zip(case['ops'], real['steps'])):
    now = {repr(k): set(ts) for k, ts in st['state']['tags']}
    exp = {k: set(v) for k, v in tags.items()}
    if st['res'] == 'err' and op[0] in ('setattr2', 'assign'):
      exp = None        # several edits in one op: the ones before the rejected one persist
    elif st['res'] != 'err':
      name = op[0]
      if name == 'addtag':
        exp.setdefault(repr(norm(op[1])), set()).add(op[2])
      elif name == 'removetag':
        exp.get(repr(norm(op[1])), set()).discard(op[2])
      elif name == 'cleartags':
        exp[repr(norm(op[1]))] = set()
      elif name == 'settags':
        exp[repr(norm(op[1]))] = set(op[2])
      elif name in ('setattr', 'setitem') and isinstance(op[2], dict) and 'tv' in op[2]:
        key = op[1] if name == 'setattr' else None
        if key is not None:
          exp.setdefault(repr(key), set()).update(op[2]['tv'])
        else:
          exp = None       # positional TaggedValue: key depends on the current length; skip
      elif name == 'setattr2':
        for key in (op[1], op[2]):
          exp.setdefault(repr(key), set()).update(op[3]['tv'])
      elif name in ('setslice', 'assign', 'materialize', 'setvar'):
        if 'tv' in json.dumps(op):
          exp = None
    if exp is not None:
      exp = {k: v for k, v in exp.items() if v}
      if now != exp:
        return {'where': f'step{i}', 'op': op, 'what': 'tag sets after the operation are not the expected ones '
                '(some other argument or tag changed, or the operation had no effect)',
                'observed': {k: sorted(v) for k, v in now.items()}, 'expected': {k: sorted(v) for k, v in exp.items()}}
    tags = now
  return None


def oracle(case, real):
  if not case.get('graph'):
    return tagops_oracle(case, real)
  if 'raised' in real:
    return {'what': f"{real['op']} raised", 'raised': real['raised']}
  if real['op'] in ('set_tagged', 'replace', 'replace_held') and real['exact'] is not None:
    return {'what': f"{real['op']}: {real['exact']}"}
  if real['op'] == 'list' and not (real['list_exact'] and real['list_super_ok']):
    return {'what': 'list_tags is not the union of the tag sets of reachable Buildables'}
  if real['op'] == 'survive':
    bad = {k: v for k, v in real['survive'].items()
           if v is not True and v not in ('skipped-positional', 'raised UnserializableValueError')}
    if bad:
      return {'what': 'tags (or arguments) did not survive a transformation', 'failed': bad}
  if real['op'] == 'late_annotation':
    if not all(real['late'][:4]):
      return {'what': 'a tag given by an annotation that became resolvable / was added after a first Config of '
              'the callable is not attached to later Configs', 'observed': real['late']}
  if real['op'] == 'tagged_value':
    if not (real['tv_builds_to_value'] and real['tv_unfilled_raises'] and real['tv_expands']):
      return {'what': 'TaggedValue does not build to its value / fail when unfilled', 'observed': real}
  return None


def nontrivial(case, real):
  if not case.get('graph'):
    if real['init'] == 'err':
      return None
    n_tag_ops = sum(1 for op in case['ops'] if op[0] in ('addtag', 'removetag', 'settags', 'cleartags'))
    return ('ops', tuple(op[0] for op in case['ops'])) if n_tag_ops else None
  if not real.get('n_hit'):
    return None
  return (case['seed'], real['op'])


def run(tier):
  return family.run_check(
      'C14', tier, lean_module='C14', cases=cases, execute=execute, compare=compare,
      oracle=oracle, nontrivial=nontrivial, widen=None, normalise_model=lambda m: argstore.norm_model(m) if 'init' in m else m,
      floor_nontrivial=0.15, time_budget=150 if tier == 'quick' else 1500,
      extra_coverage={'rule': 'stage A: random signatures x histories of add_tag / remove_tag / set_tags / '
                      'clear_tags (by name and index), TaggedValue assignments and C03 edits, tag sets '
                      'compared with the ArgStore model after every op. Stage B: random DAGs with a tag '
                      'hierarchy (T1 <- T3 <- T4) on keyword, positional and **kwargs arguments, shared '
                      'tagged nodes, tagged arguments without values; set_tagged, select(tag=).replace, '
                      'list_tags, survival through copy / deepcopy / cast / dump_json+load_json / '
                      'build_diff+apply_diff, TaggedValue build. Non-trivial = at least one tag op / one '
                      'tagged argument hit; distinct by case.'},
      level_note=['diff survival is skipped for configurations with positional arguments (open C10 finding)'])


def replay(path):
  data = json.load(open(path if os.path.isabs(path) else os.path.join(common.ROOT, path)))
  real, _ = execute(data['case'])
  fail = oracle(data['case'], real)
  print(json.dumps({'oracle': fail}, indent=1, default=str)[:3000])
  return 1 if fail else 0
