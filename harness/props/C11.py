"""C11 — auto_config: building as_buildable() equals calling the function."""
from __future__ import annotations

import importlib.util
import json
import os
import random
import shutil
import sys
import tempfile

import fiddle as fdl
from fiddle.experimental import auto_config

from harness import common, family, graphs, targets
from harness.c11lib import base
from harness.props import C20

HEADER = '''import functools
import fiddle as fdl
from fiddle import arg_factory
from fiddle.experimental import auto_config
from harness import targets
from harness.c11lib import base
from harness.c11lib.base import Enc, Dec, relu, scale, plain_helper, inner_inline, inner_opaque, fresh_enc, dims, gather, front, QuotaError
import logging
_LOG = logging.getLogger('c11_generated')

'''


class ProgGen:
  """Generates the source of a function in auto_config's supported subset."""

  def __init__(self, r, control_flow, closure=False):
    self.r = r
    self.cf = control_flow
    self.closure = closure
    self.vars = []          # local variable names holding objects
    self.lines = []
    self.n = 0

  def atom(self):
    r = self.r
    if self.closure and r.random() < 0.45:
      # captured (lower-case) variables of the enclosing function, attribute reads in argument
      # position, a captured callable passed on as a value
      return r.choice(['scale', 'settings.width', 'settings.width + a', 'base.Kind.FAST', 'hook', 'settings.depth'])
    return r.choice(['a', 'b', '1', '2', "'s'", 'None', '2.5', 'a + 1'])

  def expr(self, depth):
    r = self.r
    x = r.random()
    if self.vars and x < 0.25:
      return r.choice(self.vars)
    if depth <= 0 or x < 0.4:
      return self.atom()
    if x < 0.8:
      return self.call(depth - 1)
    if x < 0.87:
      return '[' + ', '.join(self.expr(depth - 1) for _ in range(r.randint(0, 3))) + ']'
    if x < 0.92:
      return '(' + ''.join(self.expr(depth - 1) + ', ' for _ in range(r.randint(1, 2))) + ')'
    if x < 0.97:
      return '{' + ', '.join(f"'k{i}': " + self.expr(depth - 1) for i in range(r.randint(0, 2))) + '}'
    if self.cf:
      return '[' + self.call(depth - 1, loopvar='i') + ' for i in range(2)]'
    return self.atom()

  def call(self, depth, loopvar=None):
    r = self.r
    e = lambda: (loopvar if loopvar and r.random() < 0.4 else self.expr(depth))
    x = r.random()
    if x < 0.22:
      args = []
      if r.random() < 0.5:
        args.append(e())
      kws = [f'{k}={e()}' for k in ('units', 'act', 'sub', 'name') if r.random() < 0.3 and not (k == 'units' and args)]
      if r.random() < 0.15:
        kws.append("**{'extra_kw': " + e() + '}')
      if r.random() < 0.15 and len(args) == 1:
        args += [e(), e(), '*[' + e() + ']']
      return 'Enc(' + ', '.join(args + kws) + ')'
    if x < 0.4:
      kws = [f'{k}={e()}' for k in ('enc', 'width', 'opts') if r.random() < 0.5]
      return 'Dec(' + ', '.join(kws) + ')'
    if x < 0.5:
      return f'relu({e()}, gain={e()})' if r.random() < 0.5 else f'relu(x={e()})'
    if x < 0.6:
      return f'scale({e()}, {e()}, c={e()}, k={e()})' if r.random() < 0.5 else f'scale({e()}, *({e()}, {e()}, {e()}))'
    if x < 0.63:
      # a partial that binds nothing is still a (new) partial object
      return r.choice(['functools.partial(Dec)', 'functools.partial(relu)', '[functools.partial(Dec), functools.partial(Dec)]'])
    if x < 0.67:
      return f'functools.partial(relu, gain={e()})' if r.random() < 0.5 else f'functools.partial(Dec, {e()}, opts={e()})'
    if x < 0.72:
      return f'functools.partial(functools.partial(Dec, enc={e()}), width={e()})'
    if x < 0.77:
      return f'arg_factory.partial(Dec, enc=functools.partial(Enc, units={e()}))' if False else \
          f'functools.partial(Dec, opts={e()})'
    if x < 0.82:
      return r.choice(['inner_inline(a)', 'inner_opaque(b)', 'inner_inline(2)'])
    if x < 0.86:
      return f'auto_config.exempt(plain_helper)(a)' if False else 'plain_helper(a)'
    if x < 0.9:
      return f'auto_config.with_tags({self.call(depth)}, targets.T1)'
    if x < 0.94:
      return r.choice([f'Dec.make({e()})', f'Dec.helper({e()})', f'base.Dec.make(enc={e()})'])
    y = r.random()
    if y < 0.18:
      # chains of partials of BOTH flavours (plain values / argument factories) where one link binds
      # positionally (*args, a positional-only parameter) and another binds keywords
      return r.choice(['arg_factory.partial(functools.partial(gather, 1, 2), sink=list)',
                       'functools.partial(arg_factory.partial(front, list), v=3)',
                       f'functools.partial(functools.partial(gather, {e()}, 2), sink={e()})',
                       'arg_factory.partial(arg_factory.partial(gather, list), sink=dict, note=list)',
                       f'functools.partial(arg_factory.partial(gather, list, fresh_enc), note={e()})',
                       f'arg_factory.partial(functools.partial(front, {e()}, w=1), v=list)',
                       'functools.partial(arg_factory.partial(functools.partial(gather, 1), note=list), sink=7)'])
    if y < 0.3:
      # an argument factory whose bound arguments are all positional (*args of the factory)
      return r.choice(['arg_factory.partial(Dec, enc=functools.partial(dims, 3, 4))',
                       f'arg_factory.partial(Dec, opts=functools.partial(dims, {e()}))',
                       'arg_factory.partial(Dec, enc=functools.partial(dims, 1, scale_by=2), width=5)'])
    if y < 0.35:
      # a user-defined exception class constructed as a value
      return r.choice([f'QuotaError({e()})', "Dec(enc=QuotaError('q', limit=3))", 'QuotaError()'])
    if y < 0.6:
      # an auto_config function used as an argument factory of a partial: evaluated anew per call
      return r.choice(['arg_factory.partial(Dec, enc=fresh_enc)', 'arg_factory.partial(Dec, enc=fresh_enc, width=3)',
                       'arg_factory.partial(Dec, opts=list, enc=fresh_enc)'])
    return f'Enc(act=relu)'

  def program(self):
    r = self.r
    n_stmts = r.randint(0, 4)
    if r.random() < 0.3:
      # logging through a logger object is exempt from configuration; what follows is not
      self.lines.append("_LOG.info('building with %s', a)")
    for i in range(n_stmts):
      name = f'v{i}'
      x = r.random()
      if self.cf and x < 0.15:
        self.lines.append(f'{name} = []')
        self.lines.append(f'for i in range({r.randint(1, 3)}):')
        if r.random() < 0.5:
          self.lines.append(f'  {name}.append({self.call(1, loopvar="i")})')
        else:
          self.lines.append(f'  {name} += [{self.call(1, loopvar="i")}]')
      elif self.cf and x < 0.25:
        self.lines.append(f'if a > 1:')
        self.lines.append(f'  {name} = {self.call(2)}')
        self.lines.append(f'else:')
        self.lines.append(f'  {name} = {self.expr(2)}')
      elif x < 0.32:
        self.lines.append(f'{name} = {self.expr(1)}')
        self.lines.append(f'{name} = [{name}, {self.call(1)}]')
      else:
        self.lines.append(f'{name} = {self.expr(3)}')
      self.vars.append(name)
    self.lines.append(f'return {self.call(3)}')
    deco = '@auto_config.auto_config'
    if self.cf:
      deco += '(experimental_allow_control_flow=True)'
    body = '\n'.join('  ' + l for l in self.lines)
    if self.closure:
      ind = lambda t: '\n'.join('  ' + l for l in t.splitlines())
      return (HEADER + 'import types\n\n\ndef _make(scale, settings, hook):\n'
              + ind(f'def prog_plain(a, b=3):\n{body}') + '\n'
              + ind(f'{deco}\ndef prog(a, b=3):\n{body}') + '\n  return prog_plain, prog\n\n\n'
              + 'prog_plain, prog = _make(2.5, types.SimpleNamespace(width=4, depth=(1, 2)), relu)\n')
    plain = f'def prog_plain(a, b=3):\n{body}\n'
    deco_src = f'{deco}\ndef prog(a, b=3):\n{body}\n'
    return HEADER + plain + '\n' + deco_src


def cases(tier, r):
  for _ in range(320 if tier == 'quick' else 6000):
    yield 'program', {'seed': r.getrandbits(48), 'control_flow': r.random() < 0.4, 'arg': r.choice([0, 1, 2, 5])}
  for _ in range(60 if tier == 'quick' else 1000):
    yield 'closure', {'seed': r.getrandbits(48), 'control_flow': r.random() < 0.3, 'arg': r.choice([0, 1, 2, 5]),
                      'closure': True}
  for i, body in enumerate(FIXED_BODIES):
    yield 'fixed', {'seed': i, 'control_flow': False, 'arg': 2, 'body': body}
  for i in range(8 if tier == 'quick' else 40):
    yield 'method', {'method': True, 'seed': i, 'arg': i % 3}
  for i in range(6 if tier == 'quick' else 40):
    yield 'lambdas', {'lambdas': True, 'seed': r.getrandbits(32), 'same_line': i % 3 != 2}


# A partial bound to a variable and then EXTENDED by a second partial: the first one keeps its own
# bindings (functools.partial(p, ...) makes a new object), whichever of them is used afterwards.
FIXED_BODIES = [
    ['v0 = functools.partial(relu, gain=2)', 'v1 = functools.partial(v0, x=a)', 'return Dec(enc=v0, opts=v1)'],
    ['v0 = functools.partial(gather, 1, 2)', 'v1 = functools.partial(v0, sink=a)', 'v2 = functools.partial(v0, note=3)',
     'return Dec(enc=[v0, v1], opts=v2)'],
    ['v0 = functools.partial(Dec, width=a)', 'v1 = functools.partial(v0, opts=[1])', 'v2 = functools.partial(v1, enc=v0)',
     'return Dec(enc=v2, opts=(v0, v1))'],
    ['v0 = functools.partial(relu, gain=2)', 'v1 = [functools.partial(v0, x=i) for i in range(2)]', 'return Dec(enc=v1, opts=v0)'],
]


_counter = [0]


def load(src):
  _counter[0] += 1
  d = tempfile.mkdtemp(prefix='c11_')
  name = f'c11_prog_{os.getpid()}_{_counter[0]}'
  path = os.path.join(d, name + '.py')
  with open(path, 'w') as f:
    f.write(src)
  spec = importlib.util.spec_from_file_location(name, path)
  mod = importlib.util.module_from_spec(spec)
  sys.modules[name] = mod
  try:
    spec.loader.exec_module(mod)
  except BaseException:
    sys.modules.pop(name, None)
    shutil.rmtree(d, ignore_errors=True)
    raise
  return mod, d, name


def canon(v):
  return C20.bind_canon(v)


def called_twice(v):
  """Results of calling (twice, without arguments) every partial object found in `v`: values AND
  the sharing between the two calls' results (a factory argument must be evaluated anew)."""
  import functools as _ft
  found, seen = [], set()

  def walk(x):
    if graphs.is_atom(x) or id(x) in seen:
      return
    seen.add(id(x))
    if isinstance(x, _ft.partial):
      found.append(x)
      for y in list(x.args) + list(x.keywords.values()):
        walk(y)
    elif isinstance(x, targets.Rec):
      for _, y in x.slots:
        walk(y)
      walk(x.var)
      walk(x.kw)
    elif hasattr(x, 'rec') and isinstance(x.rec, targets.Rec):
      walk(x.rec)
    elif isinstance(x, (list, tuple)):
      for y in x:
        walk(y)
    elif isinstance(x, dict):
      for y in x.values():
        walk(y)
  walk(v)
  out = []
  for p in found[:4]:
    try:
      out.append(canon([p(), p()]))
    except Exception as e:
      out.append({'raised': type(e).__name__})
  return out


def attempt(thunk):
  del targets.LOG[:]
  try:
    v = thunk()
    return {'value': canon(v), 'calls': called_twice(v)}
  except Exception as e:
    return {'raised': type(e).__name__}


def run_lambdas(case):
  """Lambdas as auto_config functions, several of them on one source line: each is either
  rejected when it is decorated, or faithful to ITS OWN body."""
  r = random.Random(case['seed'])
  us = r.sample(range(1, 30), 3)
  sep = ', ' if case['same_line'] else ',\n            '
  params = r.choice(['', 'n=2'])
  body = lambda u: f'Enc(units={u}, act=relu(x={"n" if params else u}))'
  src = HEADER + 'VARIANTS = {' + sep.join(f"'v{i}': lambda {params}: {body(u)}" for i, u in enumerate(us)) + '}\n'
  obs = {'src': src, 'lambdas': True, 'problems': []}
  try:
    mod, d, name = load(src)
  except Exception as e:
    obs['load'] = f'{type(e).__name__}: {e}'[:200]
    return obs, None
  try:
    for k, fn in mod.VARIANTS.items():
      try:
        ac = auto_config.auto_config(fn)
      except Exception:
        continue                      # rejected loudly when decorating: fine
      plain = attempt(fn)
      del targets.LOG[:]
      try:
        cfg = ac.as_buildable()
        n_inv = len(targets.LOG)
        built = attempt(lambda: fdl.build(cfg))
      except Exception as e:
        obs['problems'].append([k, f'as_buildable/build raised {type(e).__name__}'])
        continue
      if n_inv:
        obs['problems'].append([k, 'as_buildable invoked configurable callables'])
      if built != plain:
        obs['problems'].append([k, 'build(as_buildable()) differs from calling the lambda', built, plain])
  finally:
    sys.modules.pop(name, None)
    shutil.rmtree(d, ignore_errors=True)
  return obs, None


def execute(case):
  obs = {}
  if case.get('lambdas'):
    return run_lambdas(case)
  if case.get('method'):
    # auto_config'd methods, also on a falsy (empty) instance
    st = base.Stack(case['arg'] + 1)
    if case['seed'] % 2:
      st.items.append(1)
    obs['plain'] = attempt(lambda: st.layer_plain(case['arg']))
    obs['direct'] = attempt(lambda: st.layer(case['arg']))
    del targets.LOG[:]
    try:
      cfg = st.layer.as_buildable(case['arg'])
      obs['as_buildable_invocations'] = len(targets.LOG)
      obs['built'] = attempt(lambda: fdl.build(cfg))
      obs['built_twice_shares'] = False
    except Exception as e:
      obs['built'] = {'raised': f'as_buildable: {type(e).__name__}'}
      obs['as_buildable_invocations'] = 0
    obs['src'] = 'Stack.layer'
    return obs, None
  r = random.Random(case['seed'])
  if case.get('body'):
    # a fixed program body (targeted shapes the random generator does not draw)
    body = '\n'.join('  ' + l for l in case['body'])
    src = HEADER + f'def prog_plain(a, b=3):\n{body}\n' + f'\n@auto_config.auto_config\ndef prog(a, b=3):\n{body}\n'
  else:
    src = ProgGen(r, case['control_flow'], closure=case.get('closure', False)).program()
  obs['src'] = src
  try:
    mod, d, name = load(src)
  except Exception as e:
    obs['load'] = f'{type(e).__name__}: {e}'[:200]
    return obs, None
  try:
    a = case['arg']
    obs['plain'] = attempt(lambda: mod.prog_plain(a))
    obs['direct'] = attempt(lambda: mod.prog(a))
    del targets.LOG[:]
    req = None
    try:
      cfg = mod.prog.as_buildable(a)
      obs['as_buildable_invocations'] = len(targets.LOG)
      # model correspondence: the source text read as a program of Model/Codegen.lean (every
      # configurable call = one new node) must produce the DAG as_buildable produced
      from harness import codeparse
      from harness.props import C07
      try:
        req = codeparse.program_of(src, dict(mod.__dict__), auto=True, entry='prog', args={'a': a, 'b': 3},
                                   opaque_calls=())
        enc_req, _enc = graphs.encode(cfg, with_defaults=False, atom_pred=codeparse.leaf_atom_pred)
        obs['m_input'] = codeparse.canon_heap([C07.project_obj(o) for o in enc_req['objs']], enc_req['root'])
      except codeparse.Unsupported as e:
        obs['m_unsupported'] = str(e)[:100]
        req = None
      except Exception as e:
        obs['m_unsupported'] = f'encode: {type(e).__name__}'
        req = None
      b1 = fdl.build(cfg)
      obs['built'] = {'value': canon(b1), 'calls': called_twice(b1)}
      # two builds never share configurable objects (live objects embedded in the config would)
      b2 = fdl.build(cfg)
      ids1 = {id(x) for x in _recs(b1)}
      obs['built_twice_shares'] = any(id(x) in ids1 for x in _recs(b2))
    except Exception as e:
      obs['built'] = {'raised': f'{type(e).__name__}: {e}'[:160]}
      obs.setdefault('as_buildable_invocations', len(targets.LOG))
      obs['built_twice_shares'] = False
  finally:
    sys.modules.pop(name, None)
    shutil.rmtree(d, ignore_errors=True)
  return obs, req


def _recs(v):
  out, seen = [], set()

  def walk(x):
    if graphs.is_atom(x) or id(x) in seen:
      return
    seen.add(id(x))
    if isinstance(x, targets.Rec):
      out.append(x)
      for _, y in x.slots:
        walk(y)
      walk(x.var)
      walk(x.kw)
    elif hasattr(x, 'rec') and isinstance(x.rec, targets.Rec):
      out.append(x)
      walk(x.rec)
    elif isinstance(x, (list, tuple)):
      for y in x:
        walk(y)
    elif isinstance(x, dict):
      for y in x.values():
        walk(y)
  walk(v)
  return out


def compare(real, model):
  if model is None or 'm_input' not in real:
    return []
  from harness import codeparse
  if model.get('run') != 'ok':
    return [('executing the program in the model', 'ran', model.get('run'))]
  got = codeparse.canon_heap(model['heap'], model['root'])
  if got != real['m_input']:
    return [('DAG produced by as_buildable vs the model reading of the source', real['m_input'], got)]
  return []


def oracle(case, real):
  if 'load' in real:
    return None          # program outside the supported subset (rejected when decorating)
  if real.get('lambdas'):
    if real['problems']:
      return {'what': 'an auto_config lambda is not faithful to its own body', 'problems': real['problems'][:3],
              'src': real['src']}
    return None
  if real['direct'] != real['plain']:
    return {'what': 'calling the decorated function differs from calling the undecorated function',
            'plain': real['plain'], 'decorated': real['direct'], 'src': real['src']}
  if isinstance(real['plain'], dict) and 'raised' in real['plain']:
    return None          # the program itself raises
  if isinstance(real['built'], dict) and 'raised' in real['built']:
    return {'what': 'fdl.build(fn.as_buildable(...)) raised for a program that runs', 'raised': real['built'],
            'src': real['src']}
  if real['as_buildable_invocations']:
    return {'what': 'as_buildable invoked configurable callables', 'n': real['as_buildable_invocations'],
            'src': real['src']}
  if real['built'] != real['plain']:
    return {'what': 'fdl.build(fn.as_buildable(...)) differs from fn(...) in values, types or sharing',
            'built': real['built'], 'direct': real['plain'], 'src': real['src']}
  if real['built_twice_shares']:
    return {'what': 'two builds of as_buildable() share objects (a live object is embedded in the config)',
            'src': real['src']}
  return None


def nontrivial(case, real):
  if 'load' in real or (isinstance(real.get('plain'), dict) and 'raised' in real['plain']):
    return None
  return hash(real['src'])


def run(tier):
  return family.run_check(
      'C11', tier, lean_module='C11', cases=cases, execute=execute, compare=compare,
      oracle=oracle, nontrivial=nontrivial, widen=None, floor_nontrivial=0.3,
      time_budget=240 if tier == 'quick' else 1500,
      extra_coverage={'rule': 'generated Python source (written to a temporary module so that inspect.getsource '
                      'works) over: constructor / function calls with positional, keyword, *splat and **splat '
                      'arguments, positional-only parameters, local variables (sharing and re-binding), list / '
                      'tuple / dict literals, functools.partial (also chained), calls to other auto_config '
                      'functions (inlined and not), a non-configurable helper, with_tags, static / class methods, '
                      'callables as values, defaults; with the control-flow option: for loops with append and '
                      'augmented assignment, if/else, comprehensions; plus auto_config methods on truthy and falsy '
                      'instances. Compared by canonical form (callable values by full binding): fn(*args), the '
                      'undecorated function, fdl.build(fn.as_buildable(*args)); invocation log during as_buildable; '
                      'two builds share nothing.'},
      level_note=['the AST -> bytecode surgery is CPython; only the behaviour of the rewritten function is checked'])


def replay(path):
  data = json.load(open(path if os.path.isabs(path) else os.path.join(common.ROOT, path)))
  real, _ = execute(data['case'])
  fail = oracle(data['case'], real)
  print(json.dumps({'oracle': fail}, indent=1, default=str)[:3000])
  return 1 if fail else 0
