"""C07 — copies are faithful and independent (copy, deepcopy, pickle, cast)."""
from __future__ import annotations

import copy
import json
import os
import pickle
import random

import fiddle as fdl
from fiddle import daglish

from harness import argstore, common, family, graphs, targets

FIELDS = ['res', 'view', 'oa', 'oa_all', 'tags', 'build', 'hist']
DEEP = ('deepcopy', 'pickle', 'deepcopy_with')
SHALLOW = ('copy', 'copy_with', 'cast_config', 'cast_partial')
KINDS = DEEP + SHALLOW


import typing


def annotated_fn(lr: typing.Annotated[float, targets.T1] = 0.1,
                 wd: typing.Annotated[float, targets.T2, targets.T3] = 0.0,
                 name: str = 'n', sub: typing.Any = None):
  return targets.Rec('annotated_fn', [('lr', lr), ('wd', wd), ('name', name), ('sub', sub)], (), {})


_HOOKS = ['default-hook']
_OPTS = {'dropout': 0.1}


def mutable_defaults_fn(hooks=_HOOKS, opts=_OPTS, name='n', sub=None):
  return targets.Rec('mutable_defaults_fn', [('hooks', hooks), ('opts', opts), ('name', name), ('sub', sub)], (), {})


def materialized_root(r):
  """A configuration whose arguments ARE the callable's (mutable) default objects, as after
  materialize_defaults or `cfg.x = cfg.x`."""
  from fiddle._src import materialize
  inner = fdl.Config(mutable_defaults_fn, name='inner')
  root = fdl.Config(mutable_defaults_fn, name='outer', sub=[inner, {'k': inner}])
  if r.random() < 0.5:
    materialize.materialize_defaults(root)
  else:
    root.hooks = root.hooks
    inner.opts = inner.opts
  if r.random() < 0.5:
    materialize.materialize_defaults(inner)
  return root


def annotated_root(r):
  """A configuration over a callable whose parameters carry tags through Annotated[...], after
  the user removed / replaced / added some of those tags."""
  inner = fdl.Config(annotated_fn, lr=1.0)
  root = fdl.Config(annotated_fn, wd=2.0, sub=[inner, {'k': inner}])
  for n in (root, inner):
    for arg in ('lr', 'wd', 'name'):
      x = r.random()
      try:
        if x < 0.25:
          fdl.clear_tags(n, arg)
        elif x < 0.45:
          ts = list(fdl.get_tags(n, arg))
          if ts:
            fdl.remove_tag(n, arg, r.choice(ts))
        elif x < 0.6:
          fdl.set_tags(n, arg, [r.choice(targets.TAGS)])
        elif x < 0.75:
          fdl.add_tag(n, arg, r.choice(targets.TAGS))
      except Exception:
        pass
  return root


def make_copy(kind, cfg):
  if kind == 'deepcopy':
    return copy.deepcopy(cfg)
  if kind == 'pickle':
    return pickle.loads(pickle.dumps(cfg))
  if kind == 'deepcopy_with':
    return fdl.deepcopy_with(cfg)
  if kind == 'copy':
    return copy.copy(cfg)
  if kind == 'copy_with':
    return fdl.copy_with(cfg)
  if kind == 'cast_config':
    return fdl.cast(fdl.Config, cfg)
  if kind == 'cast_partial':
    return fdl.cast(fdl.Partial, cfg)
  raise ValueError(kind)


def cases(tier, r):
  # stage A: one Buildable, copy, then an edit history on the copy (model: ArgStore)
  for _ in range(1200 if tier == 'quick' else 20000):
    sig = argstore.random_sig(r)
    fresh = argstore.Fresh()
    args, kwargs = argstore.gen_init(r, sig, fresh, malformed=0.0, allow_tv=True)
    ops = argstore.gen_tag_ops(r, sig, fresh, r.randint(1, 8))
    ops = [o for o in ops if o[0] not in ('update_callable', 'copy_with', 'suspend', 'resume', 'enter_suspend', 'exit_suspend')]
    kind = r.choice(KINDS)
    yield 'flat', {'p': 'argstore', 'sig': sig, 'args': args, 'kwargs': kwargs, 'ops': ops,
                   'kind': kind,
                   # callables that are OBJECTS (a callable instance, a bound classmethod, a partial
                   # object): a copy configures the very same callable
                   # (the harness's object callables are made on the fly and cannot be pickled by reference)
                   'species': 'function' if kind == 'pickle' else
                   r.choice(['function', 'function', 'function', 'callable_instance', 'classmethod', 'partial'])}
  # stage B: whole DAGs
  for _ in range(500 if tier == 'quick' else 8000):
    yield 'dag', {'graph': True, 'seed': r.getrandbits(48), 'size': r.choice([3, 6, 10]),
                  'kind': r.choice(KINDS)}
  for _ in range(60 if tier == 'quick' else 600):
    yield 'experimental_types', {'experimental_types': True, 'seed': r.getrandbits(48),
                                 'type': r.choice(['DictConfig', 'NamespaceConfig']), 'kind': r.choice(KINDS)}
  for _ in range(80 if tier == 'quick' else 1200):
    yield 'overrides', {'overrides_stage': True, 'seed': r.getrandbits(48),
                        'kind': r.choice(['copy_with', 'deepcopy_with'])}
  for _ in range(120 if tier == 'quick' else 2000):
    yield 'annotated', {'graph': True, 'annotated': True, 'seed': r.getrandbits(48), 'kind': r.choice(KINDS)}
  for _ in range(60 if tier == 'quick' else 1000):
    yield 'materialized', {'graph': True, 'materialized': True, 'seed': r.getrandbits(48), 'kind': r.choice(KINDS)}


def mutable_ids(root, deep=True):
  """ids of every mutable object a configuration owns: Buildables, their argument dicts, tag
  dicts and tag sets, history dicts and lists, and list / dict containers."""
  out = {}
  nodes = [v for v, _ in daglish.iterate(root)] if deep else [root]
  for v in nodes:
    if isinstance(v, fdl.Buildable):
      out[id(v)] = 'buildable'
      out[id(v.__arguments__)] = 'arguments dict'
      out[id(v.__argument_tags__)] = 'tags dict'
      for k, ts in v.__argument_tags__.items():
        out[id(ts)] = 'tag set'
      out[id(v.__argument_history__)] = 'history dict'
      for k, es in v.__argument_history__.items():
        out[id(es)] = 'history list'
    elif deep and isinstance(v, (list, dict)):
      out[id(v)] = 'container'
  return out


def run_experimental_types(case):
  """The Buildable types of fiddle.experimental (DictConfig, NamespaceConfig): every kind of copy
  carries arguments AND tags over, like it does for Config."""
  from fiddle._src.experimental import dict_config, namespace_config
  r = random.Random(case['seed'])
  cls = {'DictConfig': dict_config.DictConfig, 'NamespaceConfig': namespace_config.NamespaceConfig}[case['type']]
  cfg = cls(lr=0.1, steps=r.randint(1, 9), name='n')
  for arg in r.sample(['lr', 'steps', 'name'], r.randint(1, 3)):
    fdl.add_tag(cfg, arg, r.choice(targets.TAGS))
  if r.random() < 0.5:
    cfg.steps = 99
  kind = case['kind']
  obs = {'experimental_types': True, 'kind': kind, 'type': case['type'], 'problems': []}
  tags_of = lambda c: {k: sorted(t.__name__ for t in ts) for k, ts in c.__argument_tags__.items() if ts}
  try:
    cp = make_copy(kind, cfg) if not kind.startswith('cast') else fdl.cast(cls, cfg)
  except Exception as e:
    obs['problems'].append(f'raised {type(e).__name__}: {e}'[:160])
    return obs
  if type(cp) is not cls:
    obs['problems'].append(f'the copy is a {type(cp).__name__}')
  if dict(cp.__arguments__) != dict(cfg.__arguments__):
    obs['problems'].append(f'arguments differ: {dict(cp.__arguments__)} vs {dict(cfg.__arguments__)}')
  if tags_of(cp) != tags_of(cfg):
    obs['problems'].append(f'tags differ: copy {tags_of(cp)}, original {tags_of(cfg)}')
  try:
    if repr(fdl.build(cp)) != repr(fdl.build(cfg)):
      obs['problems'].append('the copy builds something else')
  except Exception as e:
    obs['problems'].append(f'build raised {type(e).__name__}')
  return obs


def run_overrides(case):
  """copy_with / deepcopy_with WITH overrides: the copy holds exactly the objects it was given
  (also when they equal what the original holds), and editing them never reaches the original."""
  r = random.Random(case['seed'])
  f, g = graphs.node_fn(1, 0), graphs.node_fn(1, 1)
  sub = fdl.Config(g, p=5, q=[0])
  root = fdl.Config(f, p=[1, 2], q=sub, r=1)
  if r.random() < 0.4:
    root.p = [sub, 2]
  before = graphs.canon(root)
  before_build = build_canon(root)
  kind = case['kind']
  fn = {'copy_with': fdl.copy_with, 'deepcopy_with': fdl.deepcopy_with}[kind]
  given, equal = {}, {}
  for arg in r.sample(['p', 'q', 'r'], r.randint(1, 3)):
    same = r.random() < 0.6
    equal[arg] = same
    if arg == 'p':
      given[arg] = list(root.p) if same else [9]
    elif arg == 'q':
      given[arg] = copy.deepcopy(root.q) if same else fdl.Config(g, p=6)
    else:
      given[arg] = True if same else 2          # True == 1
  obs = {'overrides_stage': True, 'kind': kind, 'equal_to_current': equal, 'problems': []}
  try:
    new = fn(root, **given)
  except Exception as e:
    obs['problems'].append(f'raised {type(e).__name__}: {e}'[:160])
    return obs
  for arg, v in given.items():
    got = new.__arguments__.get(arg)
    if got is not v:
      obs['problems'].append(f'{arg}: the copy does not hold the object it was given'
                             f' (holds {"the original\'s object" if got is root.__arguments__.get(arg) else repr(got)[:60]})')
  # edit what the copy now holds, in place
  if 'p' in given:
    new.p.append(3)
  if 'q' in given:
    new.q.p = 512
    if isinstance(new.q.__arguments__.get('q'), list):
      new.q.q.append(1)
  if 'r' in given:
    new.r = 77
  if graphs.canon(root) != before:
    obs['problems'].append('editing the values given to the copy changed what the original reports')
  elif build_canon(root) != before_build:
    obs['problems'].append('editing the values given to the copy changed what the original builds')
  return obs


def execute(case):
  if case.get('overrides_stage'):
    return run_overrides(case), None
  if case.get('experimental_types'):
    return run_experimental_types(case), None
  kind = case['kind']
  if case.get('graph'):
    r = random.Random(case['seed'])
    if case.get('annotated'):
      root = annotated_root(r)
    elif case.get('materialized'):
      root = materialized_root(r)
    else:
      root = graphs.gen_graph(r, size=case['size'], positional=True, tags=True)
    if not isinstance(root, fdl.Buildable):
      root = fdl.Config(graphs.node_fn(1, 0), p=root)
    before = graphs.canon(root)
    before_build = build_canon(root)
    req, enc = graphs.encode(root, **ENC)
    n_orig = len(enc.objs)
    try:
      cp = make_copy(kind, root)
    except Exception as e:
      return {'copy_raised': type(e).__name__, 'kind': kind}, None
    obs = {'kind': kind}
    # model correspondence: encode the copy on top of the original's encoding (objects shared
    # with the original keep their index, new objects are numbered from n_orig on)
    enc2 = graphs.Encoder(**ENC)
    enc2.objs, enc2.ids, enc2.keep = list(enc.objs), dict(enc.ids), list(enc.keep)
    try:
      enc2.val(cp)
      obs['m_heap'] = [project_obj(o) for o in enc2.objs]
    except Exception as e:
      obs['m_heap'] = f'encoding the copy raised {type(e).__name__}'
    req.update({'p': 'graph', 'q': ['deepcopy' if kind in DEEP else 'shallow_copy']})
    if kind == 'cast_partial':
      req['bk'] = 'Partial'
    elif kind == 'cast_config':
      req['bk'] = 'Config'
    c_orig, c_copy = graphs.canon(root), graphs.canon(cp)
    if kind == 'cast_partial':
      c_copy = json.loads(json.dumps(c_copy))
      if c_copy[2] == 'Partial':
        c_copy[2] = type(root).__name__
    obs['faithful'] = c_orig == c_copy
    keep_orig = mutable_ids(root, deep=True)
    ids_copy = mutable_ids(cp, deep=(kind in DEEP))
    obs['shared_mutable'] = sorted({keep_orig[i] for i in ids_copy if i in keep_orig})
    if kind in SHALLOW:
      obs['children_shared'] = all(
          a is b for a, b in zip(graphs.configured_args(root).values(), graphs.configured_args(cp).values()))
    # edits on the copy: tags, values, nested nodes (deep kinds)
    targets_ = [cp] + ([v for v, _ in daglish.iterate(cp) if isinstance(v, fdl.Buildable)][:4]
                       if kind in DEEP else [])
    for n in targets_:
      for k in list(n.__arguments__)[:2]:
        try:
          if isinstance(k, str):
            setattr(n, k, targets.Tok(4242))
          else:
            n[k] = targets.Tok(4242)
          fdl.add_tag(n, k, targets.T2)
        except Exception:
          pass
      for k in list(n.__argument_tags__)[:1]:
        try:
          fdl.clear_tags(n, k)
        except Exception:
          pass
    if kind in DEEP:
      for v, _ in daglish.iterate(cp):
        if type(v) is list:
          v.append(targets.Tok(4343))
        elif type(v) is dict:
          v['__new__'] = 1
    obs['orig_unchanged'] = graphs.canon(root) == before
    obs['orig_build_unchanged'] = build_canon(root) == before_build
    try:
      obs['m_orig_after'] = [project_obj(o) for o in graphs.encode(root, **ENC)[0]['objs']]
    except Exception as e:
      obs['m_orig_after'] = f'encoding raised {type(e).__name__}'
    obs['n_orig'] = n_orig
    return obs, req
  # flat stage
  fn = targets.make_fn(case['sig'], case.get('species', 'function'))
  try:
    cfg = fdl.Config(fn, *[argstore.to_py(v) for v in case['args']],
                     **{k: argstore.to_py(v) for k, v in case['kwargs']})
  except Exception:
    return {'init': 'err', 'steps': [], 'kind': kind}, None
  init = argstore.observe(cfg)
  try:
    cp = make_copy(kind, cfg)
  except Exception as e:
    return {'copy_raised': type(e).__name__, 'kind': kind}, None
  out = {'init': argstore.observe(cp, with_build=(kind != 'cast_partial')), 'steps': [], 'kind': kind}
  try:
    out['callable_kept'] = (cp.__fn_or_cls__ is cfg.__fn_or_cls__) if kind != 'pickle' else \
        bool(cp.__fn_or_cls__ == cfg.__fn_or_cls__)
  except Exception as e:
    out['callable_kept'] = f'raised {type(e).__name__}'
  for op in case['ops']:
    res = argstore.real_step(cp, op)
    out['steps'].append({'res': res, 'state': argstore.observe(cp, with_build=(kind != 'cast_partial'))})
  out['orig_after'] = argstore.observe(cfg)
  out['orig_init'] = init
  # a copy taken AFTER the edit history (positional gaps, unset slots, tag-only arguments ...)
  try:
    cp2 = make_copy(kind, cp)
    wb = kind != 'cast_partial'
    a, b = argstore.observe(cp, with_build=wb), argstore.observe(cp2, with_build=wb)
    for o in (a, b):      # the storage order of named arguments is not part of what a copy must keep
      o['args_real'] = sorted(o['args_real'], key=repr)
    out['recopy'] = [f for f in ('view', 'args_real', 'tags', 'build') if a[f] != b[f]]
    out['recopy_detail'] = {f: [a[f], b[f]] for f in out['recopy'][:2]}
  except Exception as e:
    out['recopy'] = [f'raised {type(e).__name__}']
  req = {k: case[k] for k in ('p', 'sig', 'args', 'kwargs', 'ops')}
  return out, req


def _copied_by_reference(x):
  """Values copy.deepcopy / pickle hand back as they are (or as an indistinguishable immutable):
  tuples of immutables, functions, classes."""
  import types
  return graphs.is_internable(x) or isinstance(x, (type, types.FunctionType, types.BuiltinFunctionType))


# default objects belong to the callable, not to the configuration: they are not part of a copy
ENC = dict(with_defaults=False, atom_pred=_copied_by_reference)


def project_obj(o):
  """The fields Driver.Graph.heapJson reports."""
  return {'k': graphs.KIND_NAME.get(o['k'], o['k']), 'fn': o.get('fn', o.get('t', '')), 'bk': o.get('bk', ''),
          'ch': o['ch'], 'tags': o.get('tags', [])}


def build_canon(c):
  del targets.LOG[:]
  try:
    return graphs.canon(fdl.build(c))
  except Exception as e:
    return {'raised': type(e).__name__}


def compare(real, model):
  if model is None or 'copy_raised' in real or real.get('overrides_stage') or real.get('experimental_types'):
    return []
  if 'm_heap' in real:
    mh = model.get('deepcopy', model.get('shallow_copy'))
    diffs = []
    if real['m_heap'] != mh:
      diffs.append(('copy: heap after the copy (original + new objects)', real['m_heap'], mh))
    # the model's original region is unchanged by anything done to the copy
    if real['m_orig_after'] != (mh or [])[:real['n_orig']]:
      diffs.append(('original after editing the copy', real['m_orig_after'], (mh or [])[:real['n_orig']]))
    return diffs
  fields = [f for f in FIELDS if not (real['kind'] == 'cast_partial' and f == 'build')]
  return argstore.diff_fields(real, model, fields)


def oracle(case, real):
  if real.get('experimental_types'):
    if real['problems']:
      return {'what': f"{real['kind']} of a {real['type']}: " + real['problems'][0], 'problems': real['problems']}
    return None
  if real.get('overrides_stage'):
    if real['problems']:
      return {'what': f"{real['kind']} with overrides: " + real['problems'][0], 'problems': real['problems'],
              'override equals the current value': real['equal_to_current']}
    return None
  if 'copy_raised' in real:
    return {'what': 'copying raised', 'kind': real['kind'], 'raised': real['copy_raised']}
  kind = real['kind']
  if case.get('graph'):
    if not real['faithful']:
      return {'what': f'{kind}: the copy differs from the original (callables, arguments, tags or sharing)'}
    if real['shared_mutable']:
      return {'what': f'{kind}: the copy shares mutable objects with the original',
              'shared': real['shared_mutable']}
    if kind in SHALLOW and not real.get('children_shared'):
      return {'what': f'{kind}: argument values are not shared by the shallow copy'}
    if not real['orig_unchanged']:
      return {'what': f'{kind}: editing the copy changed what the original reports'}
    if not real['orig_build_unchanged']:
      return {'what': f'{kind}: editing the copy changed what the original builds'}
    return None
  if real['init'] == 'err':
    return None
  if real.get('callable_kept', True) is not True:
    return {'what': f'{kind}: the copy does not configure the callable the original configures (a callable that '
                    'is an object was cloned)', 'species': case.get('species'), 'observed': real['callable_kept']}
  # the copy reports what the original reported when it was copied
  ci, oi = real['init'], real['orig_init']
  for f in ('view', 'oa', 'oa_all', 'tags') + (() if kind == 'cast_partial' else ('build',)):
    if ci[f] != oi[f]:
      return {'what': f'{kind}: the copy does not report the same {f} as the original',
              'copy': ci[f], 'original': oi[f]}
  if real.get('recopy'):
    return {'what': f'{kind}: a copy taken after the edit history differs from the edited configuration',
            'fields': real['recopy'], 'detail': real.get('recopy_detail')}
  a, b = dict(real['orig_after']), dict(real['orig_init'])
  for d in (a, b):
    d.pop('seqs', None)
    d.pop('locs', None)
  if a != b:
    diff = [k for k in a if a[k] != b.get(k)]
    return {'what': f'{kind}: editing the copy changed the original', 'fields': diff}
  return None


def nontrivial(case, real):
  if real.get('experimental_types'):
    return ('experimental_types', real['type'], real['kind'], case['seed'] % 4)
  if real.get('overrides_stage'):
    return ('overrides', real['kind'], tuple(sorted(real['equal_to_current'].items())))
  if 'copy_raised' in real:
    return None
  if case.get('graph'):
    return ('dag', case['seed'], real['kind'])
  if real['init'] == 'err' or not real['steps']:
    return None
  return ('flat', real['kind'], tuple((p[1], p[2]) for p in case['sig']),
          tuple(op[0] for op in case['ops']))


def run(tier):
  return family.run_check(
      'C07', tier, lean_module='C07', cases=cases, execute=execute, compare=compare,
      oracle=oracle, nontrivial=nontrivial, widen=None, normalise_model=lambda m: argstore.norm_model(m) if 'init' in m else m,
      time_budget=150 if tier == 'quick' else 1500,
      extra_coverage={'rule': 'stage A: one Buildable (random signature / constructor arguments incl. '
                      'TaggedValues) x copy kind in {deepcopy, pickle, deepcopy_with, copy, copy_with, '
                      'cast->Config, cast->Partial} x an edit history (C03 edits, tag edits, '
                      'materialize_defaults, assign) applied to the COPY; the copy must behave exactly like '
                      'the ArgStore model run from the original constructor arguments, the original must '
                      'report what it reported before. Stage B: random DAGs with tags; canonical forms of '
                      'original and copy, identity intersection of Buildables / argument dicts / tag sets / '
                      'history lists / containers, edits of values, tags and containers on the copy (also on '
                      'nested nodes for deep kinds). Non-trivial = copy succeeded; distinct by case.'},
      level_note=['history entries themselves are immutable and may be shared; history lists may not'])


def replay(path):
  data = json.load(open(path if os.path.isabs(path) else os.path.join(common.ROOT, path)))
  real, _ = execute(data['case'])
  fail = oracle(data['case'], real)
  print(json.dumps({'oracle': fail}, indent=1, default=str)[:3000])
  return 1 if fail else 0
