"""C15 — select() hits exactly the matching nodes; replace keeps the rest intact."""
from __future__ import annotations

import copy
import json
import os
import random

import fiddle as fdl
from fiddle import daglish, selectors

from harness import common, family, graphs, targets
from harness.targets import Tok

BTYPES = {'Buildable': fdl.Buildable, 'Config': fdl.Config, 'Partial': fdl.Partial}


def cases(tier, r):
  for _ in range(700 if tier == 'quick' else 12000):
    yield 'dag', {'seed': r.getrandbits(48), 'size': r.choice([4, 7, 11]),
                  'match_subclasses': r.random() < 0.7, 'btype': r.choice(list(BTYPES)),
                  'target': r.randrange(8),
                  'op': r.choice(['iter', 'set', 'set_multi', 'replace', 'replace_nocopy', 'replace_equal', 'tagiter'])}
  for _ in range(60 if tier == 'quick' else 1000):
    yield 'methods', {'methods_stage': True, 'seed': r.getrandbits(48)}
  for _ in range(16 if tier == 'quick' else 200):
    yield 'factory_field', {'factory_field': True, 'seed': r.getrandbits(48)}


class _Tok2:
  """Callables that are METHODS: every attribute access makes a new, equal method object."""

  def __init__(self, name='t'):
    self.name = name

  @classmethod
  def from_vocab(cls, vocab=None, lower=False):
    return ('from_vocab', cls.__name__, vocab, lower)

  @classmethod
  def from_file(cls, path=None, lower=False):
    return ('from_file', cls.__name__, path, lower)

  def encode(self, text=None, lower=False):
    return ('encode', self.name, text, lower)

  def __eq__(self, other):
    return isinstance(other, _Tok2) and self.name == other.name

  def __hash__(self):
    return hash(self.name)


class _SubTok2(_Tok2):
  pass


import dataclasses as _dc
import typing as _typing


@_dc.dataclass
class _Mlp:
  sizes: _typing.Annotated[_typing.List[int], targets.T1] = _dc.field(default_factory=list)
  width: _typing.Annotated[int, targets.T1] = 4
  name: str = 'mlp'


def run_factory_field(case):
  """A tagged dataclass field with a default_factory (no default VALUE), unset or set: iterating
  the tag selection yields one entry per tagged argument and does not raise; replace sets them."""
  r = random.Random(case['seed'])
  kw = {}
  if r.random() < 0.4:
    kw['sizes'] = [r.randint(1, 9)]
  if r.random() < 0.4:
    kw['width'] = r.randint(5, 9)
  cfg = fdl.Config(_Mlp, **kw)
  root = cfg if r.random() < 0.5 else fdl.Config(graphs.node_fn(1, 0), p=[cfg])
  obs = {'factory_field': True, 'set': sorted(kw), 'problems': []}
  try:
    got = list(selectors.select(root, tag=targets.T1))
    want_width = kw.get('width', 4)
    if len(got) != 2 or want_width not in got:
      obs['problems'].append(f'iteration yields {got!r:.80}; two arguments are tagged (width = {want_width})')
    if 'sizes' in kw and kw['sizes'] not in got:
      obs['problems'].append(f'iteration yields {got!r:.80}, not the value of sizes')
  except Exception as e:
    obs['problems'].append(f'select / iteration raised {type(e).__name__}: {e}'[:160])
  try:
    selectors.select(root, tag=targets.T1).replace(7)
    if (cfg.__arguments__.get('sizes'), cfg.__arguments__.get('width')) != (7, 7):
      obs['problems'].append(f'after replace(7) the tagged arguments hold {dict(cfg.__arguments__)}')
  except Exception as e:
    obs['problems'].append(f'replace raised {type(e).__name__}: {e}'[:160])
  return obs


def run_methods(case):
  r = random.Random(case['seed'])
  inst = _Tok2('shared')
  getters = {'from_vocab': lambda: _Tok2.from_vocab, 'from_file': lambda: _Tok2.from_file,
             'sub_from_vocab': lambda: _SubTok2.from_vocab, 'encode': lambda: inst.encode,
             'encode_equal_instance': lambda: _Tok2('shared').encode}
  names = [r.choice(sorted(getters)) for _ in range(r.randint(2, 5))]
  nodes = [r.choice([fdl.Config, fdl.Partial])(getters[n](), lower=bool(i % 2)) for i, n in enumerate(names)]
  f = graphs.node_fn(1, 0)
  root = fdl.Config(f, p=[nodes[0], nodes[-1]], q={'k': nodes[len(nodes) // 2]}, r=nodes[1:])
  pick = r.choice(names)
  target = getters[pick]()              # named again: equal to the stored callable, another object
  want = [n for n in reachable_buildables(root) if n is not root and n.__fn_or_cls__ == target]
  obs = {'methods_stage': True, 'target': pick, 'callables': names, 'problems': []}
  try:
    got = list(selectors.select(root, target, check_nonempty=False))
    if sorted(map(id, got)) != sorted(map(id, want)):
      obs['problems'].append(f'select yields {len(got)} nodes, {len(want)} reachable Buildables have that callable')
    selectors.select(root, target, check_nonempty=False).set(lower='SET')
    for n in reachable_buildables(root):
      if n is root:
        continue
      is_set = n.__arguments__.get('lower') == 'SET'
      if is_set != any(n is w for w in want):
        obs['problems'].append('.set assigned on a non-matching node' if is_set else '.set skipped a matching node')
        break
    marker = fdl.Config(f, p='replacement')
    selectors.select(root, target, check_nonempty=False).replace(marker, deepcopy=False)
    left = [n for n in reachable_buildables(root) if n is not root and n is not marker and n.__fn_or_cls__ == target]
    if left:
      obs['problems'].append(f'.replace left {len(left)} matching node(s) in place')
  except Exception as e:
    obs['problems'].append(f'raised {type(e).__name__}: {e}'[:160])
  obs['n_match'] = len(want)
  return obs


def make_root(case):
  r = random.Random(case['seed'])
  root = graphs.gen_graph(r, size=case['size'], positional=True, tags=True, classes=0.5,
                          buildable_types=(fdl.Config, fdl.Config, fdl.Partial))
  if not isinstance(root, fdl.Buildable):
    root = fdl.Config(graphs.node_fn(1, 0), p=root)
  # tags by index on positional parameters, also on unset ones (with and without default)
  for n in reachable_buildables(root):
    sig = graphs.sig_of(n)
    for i, p in enumerate(sig):
      if p[1] in ('po', 'pk') and r.random() < (0.7 if p[1] == 'po' and i not in n.__arguments__ else 0.3):
        try:
          fdl.add_tag(n, i, r.choice(targets.TAGS))
        except Exception:
          pass
  return root


def reachable_buildables(root):
  """Independent walk (does not use daglish): every reachable Buildable, once."""
  seen, out = set(), []

  def walk(x):
    if graphs.is_atom(x) or id(x) in seen:
      return
    seen.add(id(x))
    kind = graphs.kind_of(x)
    if kind == 'cfg':
      out.append(x)
      for v in graphs.configured_args(x).values():
        walk(v)
    elif kind in ('list', 'tuple', 'ntuple'):
      for v in x:
        walk(v)
    elif kind in ('dict', 'ddict'):
      for v in x.values():
        walk(v)
    elif kind == 'custom':
      walk(x.left)
      walk(x.right)
  walk(root)
  return out


def matches(node, target, match_subclasses, btype):
  if not isinstance(node, btype):
    return False
  fn = node.__fn_or_cls__
  if fn == target:
    return True
  return bool(match_subclasses and isinstance(target, type) and isinstance(fn, type)
              and issubclass(fn, target))


def pick_target(root, case):
  nodes = reachable_buildables(root)
  cands = list(targets.CLASSES) + [n.__fn_or_cls__ for n in nodes]
  return cands[case['target'] % len(cands)]


def edges(root):
  """(parent buildable id, key) -> child, for every reachable Buildable."""
  out = {}
  for n in reachable_buildables(root):
    for k, v in graphs.configured_args(n).items():
      out[(id(n), k)] = v
  return out


def execute(case):
  if case.get('methods_stage'):
    return run_methods(case), None
  if case.get('factory_field'):
    return run_factory_field(case), None
  root = make_root(case)
  target = pick_target(root, case)
  btype = BTYPES[case['btype']]
  ms = case['match_subclasses']
  nodes = reachable_buildables(root)
  want = [n for n in nodes if matches(n, target, ms, btype)]
  obs = {'op': case['op'], 'n_nodes': len(nodes), 'n_match': len(want)}
  req, enc = graphs.encode(root)
  name_of = graphs.unique_fn_names(enc, req)
  req.update({'p': 'graph', 'q': ['select'],
              'matcher': graphs.matcher_request(enc, target, ms, btype, name_of)})
  sel = selectors.select(root, target, match_subclasses=ms, buildable_type=btype, check_nonempty=False)
  try:
    got = list(sel)
    obs['m_select'] = sorted(enc.ids.get(id(n), -1) for n in got)
    obs['iter_exact'] = sorted(map(id, got)) == sorted(map(id, want))
    obs['iter_once'] = len(got) == len(set(map(id, got)))
  except Exception as e:
    obs['iter_raised'] = type(e).__name__
  if case['op'] == 'set':
    before = {id(n): ({k: id(x) for k, x in graphs.configured_args(n).items()}, n.__fn_or_cls__,
                      graphs.canon(n)[5]) for n in nodes}
    v = Tok(5555)
    ok_nodes = [n for n in want]
    try:
      sel.set(p=v)
      obs['set_raised'] = None
    except Exception as e:
      obs['set_raised'] = type(e).__name__
    if obs['set_raised'] is None:
      req['q'].append('select_set')
      req['kvs'] = [[['a', 'p'], {'a': 'NEW1'}]]
      obs['m_set'] = graphs.cfg_shapes(nodes, enc, name_of, [(lambda x: x is v, 'NEW1')])
      good = True
      for n in nodes:
        now = {k: id(x) for k, x in graphs.configured_args(n).items()}
        old = dict(before[id(n)][0])
        if any(n is w for w in want):
          good = good and n.__arguments__.get('p') is v
          now.pop('p', None)
          old.pop('p', None)
        good = good and now == old and n.__fn_or_cls__ is before[id(n)][1] \
            and graphs.canon(n)[5] == before[id(n)][2]
      obs['set_exact'] = good
  if case['op'] == 'set_multi':
    # several keywords, the first assigning a Buildable of the selected kind: the selection is
    # the set of nodes matching BEFORE the call
    fresh = copy.copy(want[0]) if want else fdl.Config(graphs.node_fn(1, 0))
    v2 = Tok(5556)
    before_ids = {id(n): {k: id(x) for k, x in graphs.configured_args(n).items()} for n in nodes}
    fresh_before = {k: id(x) for k, x in graphs.configured_args(fresh).items()}
    common = None
    for w in want:
      names = {p[0] for p in graphs.sig_of(w) if p[1] in ('pk', 'ko')}
      common = names if common is None else common & names
    common = sorted(common or [])
    if len(common) < 2:
      obs['op'] = 'iter'
      return obs, req
    k1, k2 = common[-1], common[0]
    try:
      sel.set(**{k1: fresh, k2: v2})
      obs['set_raised'] = None
    except Exception as e:
      obs['set_raised'] = type(e).__name__
    if obs['set_raised'] is None:
      req['q'].append('select_set')
      req['kvs'] = [[['a', k1], {'a': 'NEW1'}], [['a', k2], {'a': 'NEW2'}]]
      obs['m_set'] = graphs.cfg_shapes(nodes, enc, name_of,
                                       [(lambda x: x is fresh, 'NEW1'), (lambda x: x is v2, 'NEW2')])
      good = True
      for n in nodes:
        now = {k: id(x) for k, x in graphs.configured_args(n).items()}
        old = dict(before_ids[id(n)])
        if any(n is w for w in want):
          good = good and n.__arguments__.get(k2) is v2 and n.__arguments__.get(k1) is fresh
          for k in (k1, k2):
            now.pop(k, None)
            old.pop(k, None)
        good = good and now == old
      # the value passed as a keyword was not itself selected
      good = good and {k: id(x) for k, x in graphs.configured_args(fresh).items()} == fresh_before
      obs['set_exact'] = good
  if case['op'] in ('replace', 'replace_nocopy', 'replace_equal'):
    deep = case['op'] == 'replace'
    e_before = edges(root)
    canon_before = {id(n): graphs.canon(n) for n in nodes}
    v = [Tok(6666), 'replacement']
    if case['op'] == 'replace_equal' and want:
      v = copy.deepcopy(want[0])      # a replacement that compares == to (some of) the matches
    root_matches = matches(root, target, ms, btype)
    try:
      sel.replace(v, deepcopy=deep)
      obs['replace_raised'] = None
    except ValueError:
      obs['replace_raised'] = 'ValueError'
    except Exception as e:
      obs['replace_raised'] = type(e).__name__
    obs['root_matches'] = root_matches
    if obs['replace_raised'] is None:
      after_nodes = reachable_buildables(root)
      req['q'].append('select_replace')
      req['value'] = {'a': 'NEW1'}

      def is_new(x, v=v):
        if graphs.is_atom(x) or id(x) in enc.ids or type(x) is not type(v):
          return False
        try:
          return x is v or bool(x == v)
        except Exception:
          return False
      obs['m_replace'] = {
          'shapes': graphs.cfg_shapes([n for n in after_nodes if id(n) in enc.ids], enc, name_of,
                                      [(is_new, 'NEW1')]),
          'root': graphs.shape_val(root, enc, [(is_new, 'NEW1')])}
      good = True
      why = None
      want_ids = set(map(id, want))
      # no matching node is reachable any more
      if any(id(n) in want_ids for n in after_nodes):
        good, why = False, 'a matching node is still reachable'
      # every non-matching Buildable that was reachable without passing through a matching node
      # keeps its identity, its other arguments and its place
      def survives(n):
        return id(n) not in want_ids
      e_after = edges(root)
      for (pid, k), child in e_before.items():
        if pid in want_ids:
          continue
        if not any(id(n) == pid for n in after_nodes):
          continue        # parent only reachable through a replaced node
        now = e_after.get((pid, k), '<missing>')
        if isinstance(child, fdl.Buildable):
          if id(child) in want_ids:
            ok = (now == v) and ((now is not v) if deep else (now is v))
            if not ok:
              good, why = False, f'reference to a matching node at {k!r} does not hold the replacement'
          elif now is not child:
            good, why = False, f'non-matching Buildable at {k!r} lost its identity / place'
        elif graphs.is_atom(child) or isinstance(child, Tok):
          if not (now is child or now == child):
            good, why = False, f'leaf argument {k!r} changed'
      obs['replace_exact'] = good
      obs['replace_why'] = why
  if case['op'] == 'tagiter':
    tag = targets.TAGS[case['target'] % len(targets.TAGS)]
    exp = []
    for n in nodes:
      for key, ts in n.__argument_tags__.items():
        if any(issubclass(t, tag) for t in ts):
          sig = graphs.sig_of(n)
          if key in n.__arguments__:
            exp.append(n.__arguments__[key])
          else:
            p = None
            if isinstance(key, str):
              p = next((q for q in sig if q[0] == key), None)
            elif 0 <= key < len(sig) and sig[key][1] in ('po', 'pk'):
              p = sig[key]
            exp.append(targets.Dflt(p[0]) if p is not None and p[2] else fdl.NO_VALUE)
    req['q'].append('tag_values')
    req['tag'] = targets.tag_no(tag)
    req['tag_sub'] = [[targets.tag_no(a), targets.tag_no(b)] for a in targets.TAGS for b in targets.TAGS
                      if issubclass(a, b)]
    try:
      got = list(selectors.select(root, tag=tag, check_nonempty=False))
      obs['m_tagvalues'] = sorted(json.dumps(None if x is fdl.NO_VALUE else graphs.shape_val(x, enc),
                                             sort_keys=True) for x in got)
      obs['tagiter_exact'] = sorted(map(repr, got)) == sorted(map(repr, exp))
      obs['tagiter_n'] = len(exp)
    except Exception as e:
      obs['tagiter_raised'] = type(e).__name__
  return obs, req


def compare(real, model):
  if model is None:
    return []
  diffs = []
  if 'm_select' in real and real['m_select'] != model.get('select'):
    diffs.append(('select', real['m_select'], model.get('select')))
  ns = graphs.norm_shapes
  if 'm_set' in real and ns(real['m_set']) != ns(model.get('select_set')):
    diffs.append(('select_set', real['m_set'], model.get('select_set')))
  if 'm_replace' in real and (
      ns(real['m_replace']['shapes']) != ns((model.get('select_replace') or {}).get('shapes'))
      or real['m_replace']['root'] != (model.get('select_replace') or {}).get('root')):
    diffs.append(('select_replace', real['m_replace'], model.get('select_replace')))
  if 'm_tagvalues' in real:
    mv = sorted(json.dumps(kv[1], sort_keys=True) for entry in model.get('tag_values', []) for kv in entry[1])
    if mv != real['m_tagvalues']:
      diffs.append(('tag_values', real['m_tagvalues'], mv))
  return diffs


def oracle(case, real):
  if real.get('factory_field'):
    if real['problems']:
      return {'what': 'tag selection over a dataclass field with a default_factory: ' + real['problems'][0],
              'problems': real['problems'], 'explicitly set': real['set']}
    return None
  if real.get('methods_stage'):
    if real['problems']:
      return {'what': 'selection by a callable that is a method (named again at the call site): ' + real['problems'][0],
              'problems': real['problems'], 'callables': real['callables'], 'target': real['target']}
    return None
  if 'iter_raised' in real:
    return {'what': 'iterating the selection raised', 'raised': real['iter_raised']}
  if not real['iter_exact']:
    return {'what': 'select() does not yield exactly the matching reachable Buildables'}
  if not real['iter_once']:
    return {'what': 'select() yields a node more than once'}
  if real['op'] in ('set', 'set_multi'):
    if real['set_raised'] is not None:
      return {'what': '.set raised', 'raised': real['set_raised']}
    if not real['set_exact']:
      return {'what': '.set(**kw) did not assign on exactly the matching nodes'}
  if real['op'] in ('replace', 'replace_nocopy', 'replace_equal'):
    if real['root_matches']:
      if real['replace_raised'] != 'ValueError':
        return {'what': 'replace on a selection matching the root must raise', 'observed': real['replace_raised']}
    elif real['replace_raised'] is not None:
      return {'what': '.replace raised', 'raised': real['replace_raised']}
    elif not real['replace_exact']:
      return {'what': '.replace did not keep the rest intact', 'why': real['replace_why']}
  if real['op'] == 'tagiter':
    if 'tagiter_raised' in real:
      return {'what': 'iterating a tag selection raised', 'raised': real['tagiter_raised']}
    if not real['tagiter_exact']:
      return {'what': 'tag selection does not yield value / default / NO_VALUE of each selected argument'}
  return None


def nontrivial(case, real):
  if real.get('factory_field'):
    return ('factory_field', tuple(real['set']), case['seed'] % 2)
  if real.get('methods_stage'):
    return ('methods', case['seed']) if real.get('n_match') else None
  if real.get('n_match', 0) == 0 and real['op'] != 'tagiter':
    return None
  if real['op'] == 'tagiter' and not real.get('tagiter_n'):
    return None
  return (case['seed'], real['op'])


def run(tier):
  return family.run_check(
      'C15', tier, lean_module='C15', cases=cases, execute=execute, compare=compare,
      oracle=oracle, nontrivial=nontrivial, widen=None, floor_nontrivial=0.15,
      time_budget=150 if tier == 'quick' else 1500,
      extra_coverage={'rule': 'random DAGs mixing functions and a four-class hierarchy (KA <- KB <- KC, '
                      'KA <- KD) as callables, Config and Partial nodes, tags; target = a class of the '
                      'hierarchy or a callable occurring in the DAG; match_subclasses on/off; buildable_type '
                      'in {Buildable, Config, Partial}; operation in {iterate, set, replace (deepcopy), '
                      'replace (no copy), tag-selection iteration}. Oracle: an independent graph walk. '
                      'Non-trivial = at least one matching node / selected argument; distinct by (seed, op).'},
      level_note=['property decided on the real code by the oracle; the Lean theorems are about the memoized '
                  'walk model'])


def replay(path):
  data = json.load(open(path if os.path.isabs(path) else os.path.join(common.ROOT, path)))
  real, _ = execute(data['case'])
  fail = oracle(data['case'], real)
  print(json.dumps({'oracle': fail, 'observed': real}, indent=1, default=str)[:3000])
  return 1 if fail else 0
