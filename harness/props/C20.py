"""C20 — meaning-preserving transformations preserve what is built."""
from __future__ import annotations

import copy
import dataclasses
import functools
import inspect
import json
import os
import random
import typing

import fiddle as fdl
from fiddle import daglish
from fiddle._src import materialize, tagging
from fiddle._src.experimental import auto_config
from fiddle._src.experimental import dataclasses as fdl_dataclasses
from fiddle._src.experimental import serialization, transform, visualize

from harness import common, family, graphs, targets
from harness.props import C15
from harness.targets import Rec, Tok

# callables with defaults that are shared / mutable, positional-only defaults ------------------

_SHARED_LIST = [0]


def mutable_defaults(hooks=_SHARED_LIST, names=_SHARED_LIST, scale=2):
  return Rec('mutable_defaults', [('hooks', hooks), ('names', names), ('scale', scale)], (), {})


def posonly_defaults(x, factor=2, /, bias=0, *rest, mode='s'):
  return Rec('posonly_defaults', [('x', x), ('factor', factor), ('bias', bias), ('mode', mode)], tuple(rest), {})


def collect(*args, **kw):
  return Rec('collect', [], tuple(args), dict(kw))


@dataclasses.dataclass
class DCState:
  """An `init=False` field declared BEFORE ordinary fields."""
  lr: float = 0.5
  steps_done: list = dataclasses.field(default_factory=list, init=False)
  momentum: float = 0.9
  nesterov: bool = False
  child: typing.Any = None


@dataclasses.dataclass
class DC:
  a: int = 1
  items: list = dataclasses.field(default_factory=list)
  child: typing.Any = None


@auto_config.auto_config(experimental_always_inline=False)
def helper(n):
  return mutable_defaults(scale=n, hooks=[n])


@auto_config.auto_config
def outer(n):
  h = helper(n)
  return posonly_defaults(h, 3, bias=h, mode=[h, helper(n + 1)])


@auto_config.auto_config(experimental_always_inline=False)
def helper_partial(n):
  """An auto_config function whose result is a partial, not an instance."""
  return functools.partial(mutable_defaults, scale=n)


@auto_config.auto_config
def outer_partial(n):
  return posonly_defaults(helper_partial(n), 3, bias=helper(n), mode=[helper_partial(n + 1)])


@auto_config.auto_config(experimental_always_inline=False)
def helper_pos(n, scale=2, /, mode='m', *more):
  """An auto_config function with positional-only parameters and *args."""
  return mutable_defaults(scale=[n, scale, mode, list(more)], hooks=[n])


@auto_config.auto_config
def outer_pos(n):
  return posonly_defaults(helper_pos(n), 3, bias=helper_pos(n, 5), mode=[helper_pos(n + 1, 6, 'x', 7, 8)])


def _unbound_callable(v):
  if isinstance(v, (Rec, Tok)):
    return False
  if isinstance(v, functools.partial):
    return not v.args and not v.keywords and _unbound_callable(v.func)
  return inspect.isfunction(v) or inspect.isclass(v)


@auto_config.auto_config(experimental_always_inline=False)
def helper_chain(n):
  """One partial derived from another; BOTH are used afterwards."""
  base = functools.partial(mutable_defaults, scale=n)
  wide = functools.partial(base, hooks=[n])
  return posonly_defaults(base, 3, bias=wide, mode=[base, wide])


@auto_config.auto_config
def outer_chain(n):
  return posonly_defaults(helper_chain(n), 2, mode=[helper_chain(n + 1)])


from fiddle._src import arg_factory as _af


def bind_canon(x, unbound_identity=True):
  """Canonical form in which callables appearing as values (functions, classes and
  functools.partial objects) print as (underlying callable, full binding after bind_partial +
  apply_defaults): partial(f) == f, partial(f, 1) == partial(f, a=1)."""
  seen = {}
  keep = []        # keep every visited object alive: temporaries would otherwise recycle ids

  def go(v):
    if graphs.is_atom(v):
      return graphs.atom_token(v)
    if graphs.is_internable(v):
      # tuples of literals may be interned by Python: never counted as shared
      return ['ituple', [go(x) for x in v]]
    if not unbound_identity and _unbound_callable(v):
      # a bare function / class, or a partial that binds nothing: interchangeable with the
      # callable itself (replace_unconfigured_partials does exactly that), so whether two
      # positions hold "the same" one is not an observable
      func = v
      while isinstance(func, functools.partial):
        func = func.func
      return ['callable0', graphs.callable_name(func)]
    if id(v) in seen:
      return ['^', seen[id(v)]]
    n = len(seen)
    seen[id(v)] = n
    keep.append(v)
    if isinstance(v, functools.partial) or (callable(v) and not isinstance(v, (Rec, Tok)) and
                                            (inspect.isfunction(v) or inspect.isclass(v))):
      func, args, kw = (v.func, v.args, v.keywords) if isinstance(v, functools.partial) else (v, (), {})
      # chains are flattened the way calling them composes: partial(partial(f, a), b) = f(a, b);
      # arg_factory's wrapper only evaluates the ArgFactory-marked arguments and passes on
      while True:
        if isinstance(func, functools.partial):
          args, kw, func = func.args + args, {**func.keywords, **kw}, func.func
        elif isinstance(func, _af._InvokeArgFactoryWrapper):
          func = func.func
        else:
          break
      try:
        ba = inspect.signature(func).bind_partial(*args, **kw)
        ba.apply_defaults()
        binding = [[k, go(x)] for k, x in ba.arguments.items()]
      except Exception:
        binding = [[str(i), go(a)] for i, a in enumerate(args)] + [[k, go(x)] for k, x in kw.items()]
      return ['callable', n, graphs.callable_name(func), binding]
    if isinstance(v, _af.ArgFactory):
      return ['argfactory', n, go(v.factory)]
    if isinstance(v, Rec):
      return ['rec', n, v.fn_name, [[k, go(x)] for k, x in v.slots], [go(x) for x in v.var],
              [[k, go(x)] for k, x in sorted(v.kw.items())]]
    if hasattr(v, 'rec') and isinstance(getattr(v, 'rec'), Rec):
      return ['inst', n, go(v.rec)]
    if dataclasses.is_dataclass(v):
      return ['dc', n, type(v).__name__, [[f.name, go(getattr(v, f.name))] for f in dataclasses.fields(v)]]
    if type(v) is list:
      return ['list', n, [go(x) for x in v]]
    if type(v) is tuple:
      return ['tuple', n, [go(x) for x in v]]
    if isinstance(v, dict):
      return ['dict', n, [[graphs.atom_token(k) if graphs.is_atom(k) else repr(k), go(x)] for k, x in v.items()]]
    if graphs.is_namedtuple(v):
      return ['ntuple', n, type(v).__name__, [[k, go(x)] for k, x in v._asdict().items()]]
    return ['opaque', n, graphs.opaque_token(v)]
  return go(x)


def expand(c):
  """Canonical form with back-references expanded and visit numbers erased (values only)."""
  table = {}

  def index(node):
    if isinstance(node, list):
      if len(node) > 1 and isinstance(node[0], str) and node[0] != '^' and isinstance(node[1], int):
        table[node[1]] = node
      for v in node:
        index(v)
  index(c)

  def go(node):
    if isinstance(node, list):
      if len(node) == 2 and node[0] == '^':
        return go(table[node[1]])
      return [go(v) if not (i == 1 and isinstance(v, int) and isinstance(node[0], str)) else 0
              for i, v in enumerate(node)]
    return node
  return go(c)


def trimmed_mutable_defaults(root, t):
  """For every argument explicitly set to a value that == a memoizable default object of its
  parameter (but is not that object): (value shared elsewhere in root?, trimmed in t?)."""
  counts = {}
  for v, p in daglish.iterate(root, memoized=False):
    if not graphs.is_atom(v):
      counts[id(v)] = counts.get(id(v), 0) + 1
  out = []
  for n, path in daglish.iterate(root):
    if not isinstance(n, fdl.Buildable):
      continue
    for i, p in enumerate(n.__signature_info__.parameters.values()):
      if p.default is p.empty:
        continue
      key = i if p.kind == p.POSITIONAL_ONLY else p.name
      if key not in n.__arguments__:
        continue
      v = n.__arguments__[key]
      try:
        cand = v is not p.default and not graphs.is_internable(p.default) and v == p.default
      except Exception:
        cand = False
      if cand:
        try:
          tn = daglish.follow_path(t, path)
          trimmed = isinstance(tn, fdl.Buildable) and key not in tn.__arguments__
        except Exception:
          trimmed = False
        out.append((counts.get(id(v), 0) > 1, trimmed))
  return out


def has_explicit_equal_mutable_default(root):
  """Some argument is explicitly set to a value that == a memoizable default object of its
  parameter but is not that object (trimming it makes the argument alias the default)."""
  for n in C15.reachable_buildables(root):
    for i, p in enumerate(n.__signature_info__.parameters.values()):
      if p.default is p.empty:
        continue
      key = i if p.kind == p.POSITIONAL_ONLY else p.name
      if key in n.__arguments__:
        v = n.__arguments__[key]
        try:
          if v is not p.default and not graphs.is_internable(p.default) and v == p.default:
            return True
        except Exception:
          pass
  return False


def build_canon(c, unbound_identity=True):
  del targets.LOG[:]
  try:
    return bind_canon(fdl.build(c), unbound_identity)
  except Exception as e:
    return {'raised': type(e).__name__}


TRANSFORMS = ['materialize_defaults', 'with_defaults_trimmed', 'with_defaults_trimmed_deep',
              'unintern_tuples', 'replace_unconfigured_partials', 'clear_argument_history',
              'materialize_tags', 'inline', 'dataclasses']


def apply(name, cfg):
  """Returns the transformed configuration (in-place transforms work on a deep copy)."""
  if name == 'materialize_defaults':
    c = copy.deepcopy(cfg)
    materialize.materialize_defaults(c)
    return c
  if name == 'with_defaults_trimmed':
    return visualize.with_defaults_trimmed(cfg)
  if name == 'with_defaults_trimmed_deep':
    return visualize.with_defaults_trimmed(cfg, remove_deep_defaults=True)
  if name == 'unintern_tuples':
    return transform.unintern_tuples_of_literals(cfg)
  if name == 'replace_unconfigured_partials':
    return transform.replace_unconfigured_partials_with_callables(cfg)
  if name == 'clear_argument_history':
    return serialization.clear_argument_history(cfg)
  if name == 'materialize_tags':
    return tagging.materialize_tags(cfg)
  raise ValueError(name)


def cases(tier, r):
  # stage A: materialize_defaults on one Buildable against the Lean ArgStore model (the function
  # the C20 theorems are about): random edit history, then materialize twice
  from harness import argstore
  for _ in range(500 if tier == 'quick' else 8000):
    sig = argstore.random_sig(r)
    fresh = argstore.Fresh()
    args, kwargs = argstore.gen_init(r, sig, fresh, malformed=0.0)
    ops = [o for o in argstore.gen_ops(r, sig, fresh, r.randint(0, 5))
           if o[0] not in ('update_callable', 'copy_with', 'suspend', 'resume')]
    ops += [['materialize'], ['materialize']]
    yield 'flat', {'p': 'argstore', 'sig': sig, 'args': args, 'kwargs': kwargs, 'ops': ops,
                   'transform': 'materialize_flat'}
  for _ in range(800 if tier == 'quick' else 12000):
    yield 'dag', {'seed': r.getrandbits(48), 'size': r.choice([3, 5, 8]), 'transform': r.choice(TRANSFORMS[:7]),
                  'flavour': r.choice(['plain', 'special', 'special', 'serializable'])}
  for n in range(4 if tier == 'quick' else 30):
    yield 'inline', {'seed': n, 'transform': 'inline'}
    yield 'inline', {'seed': n, 'transform': 'inline', 'partial': True}
    yield 'inline', {'seed': n, 'transform': 'inline', 'chain': True}
    yield 'inline', {'seed': n, 'transform': 'inline', 'positional': True}
    yield 'tagged_odd', {'seed': n, 'transform': 'tagged_odd'}
    yield 'dataclasses', {'seed': n, 'transform': 'dataclasses'}
  for _ in range(40 if tier == 'quick' else 600):
    yield 'leaf_identity', {'seed': r.getrandbits(48), 'transform': 'leaf_identity',
                            'apply': r.choice(['with_defaults_trimmed', 'unintern_tuples', 'replace_unconfigured_partials',
                                               'clear_argument_history', 'materialize_tags'])}
  for _ in range(40 if tier == 'quick' else 600):
    yield 'buildable_defaults', {'seed': r.getrandbits(48), 'transform': 'buildable_defaults'}


class SharedLeaf:
  """A plain mutable object (a vocabulary, a tokenizer): copied as a whole, never traversed."""

  def __init__(self):
    self.words = ['a', 'b']

  def __eq__(self, other):
    return isinstance(other, SharedLeaf) and self.words == other.words

  __hash__ = object.__hash__

  def __repr__(self):
    return 'SharedLeaf()'


class ArrayLike:
  class _NoTruth:
    def __bool__(self):
      raise ValueError('truth value of an elementwise comparison is ambiguous')

  def __eq__(self, other):
    return self is other or ArrayLike._NoTruth()

  def __ne__(self, other):
    if isinstance(other, tuple) and other == ():
      return True             # (numpy: shapes do not broadcast, the comparison is plainly True)
    return False if self is other else ArrayLike._NoTruth()

  __hash__ = object.__hash__

  def __repr__(self):
    return 'ARRAY_LIKE'

  def __deepcopy__(self, memo):
    return self


class AlwaysEqual:
  def __eq__(self, other):
    return True

  def __ne__(self, other):
    return False

  __hash__ = object.__hash__

  def __repr__(self):
    return 'ALWAYS_EQUAL'

  def __deepcopy__(self, memo):
    return self


ARRAY_LIKE, ALWAYS_EQUAL = ArrayLike(), AlwaysEqual()


def make_root(case):
  r = random.Random(case['seed'])
  fl = case['flavour']
  kw = {}
  if fl == 'serializable':
    kw = dict(leaf_values=[1, 2, 's', None, (1, 's'), 2.5], custom=False)
  root = graphs.gen_graph(r, size=case['size'], positional=True, tags=True,
                          buildable_types=(fdl.Config, fdl.Config, fdl.Partial), **kw)
  if not isinstance(root, fdl.Buildable):
    root = fdl.Config(graphs.node_fn(1, 0), p=root)
  if fl == 'special':
    shared = [0]
    shared_cfg = fdl.Config(graphs.node_fn(1, 0), p=Tok(3))
    shared_leaf = SharedLeaf()
    extra = [
        fdl.Config(mutable_defaults, hooks=shared),
        fdl.Config(mutable_defaults, hooks=shared, names=[0]),
        fdl.Config(posonly_defaults, Tok(1), r.choice([2, 10])),
        fdl.Config(posonly_defaults, Tok(1)),
        fdl.Config(posonly_defaults, Tok(1), 2, 0, 7, 8, mode='s'),
        fdl.Partial(collect, 1, 2),
        fdl.Partial(collect, tag='x'),
        fdl.Partial(posonly_defaults, 3, 3),
        fdl.Partial(posonly_defaults),
        fdl.Partial(graphs.node_fn(1, 0)),
        [fdl.Partial(mutable_defaults), (fdl.Partial(collect),)],
        {'tv': fdl.TaggedValue(tags=[targets.T1], default=Tok(5)), 'lit': ((1, 2), 's')},
        # a stand-alone TaggedValue whose value is a sub-configuration / container that is ALSO
        # referenced elsewhere
        [fdl.TaggedValue(tags=[targets.T0], default=shared_cfg), shared_cfg, {'again': shared_cfg}],
        (fdl.TaggedValue(tags=[targets.T1], default=shared), shared),
        # one plain mutable object (nothing traverses into it) passed directly to two Buildables
        [fdl.Config(graphs.node_fn(1, 1), p=shared_leaf), fdl.Config(graphs.node_fn(1, 2), q=shared_leaf)],
        fdl.Config(DC, a=2),
    ]
    r.shuffle(extra)
    root = fdl.Config(graphs.node_fn(1, 0), p=root, q=extra[:5], r={'s': shared, 'e': extra[5:9]})
  return root


def lit_defaults(x=None, n=1, name='d', pair=(1, 's'), *, flag=True):
  return Rec('lit_defaults', [('x', x), ('n', n), ('name', name), ('pair', pair), ('flag', flag)], (), {})


def serializable_config(r):
  """A configuration whose every leaf and default is serializable."""
  inner = fdl.Config(lit_defaults, n=r.randint(0, 3))
  tv = fdl.TaggedValue(tags=[targets.T1], default=3)
  return fdl.Config(
      lit_defaults,
      x=[inner, fdl.Partial(lit_defaults), (fdl.Partial(lit_defaults, name='z'),), {'k': inner, 't': tv}],
      pair=((1, 2), (1, 2)), name=fdl.Config(DC, a=2), n=fdl.Partial(DC))


def all_defaults_set(c):
  for n in C15.reachable_buildables(c):
    for i, p in enumerate(n.__signature_info__.parameters.values()):
      if p.default is p.empty or p.kind in (p.VAR_POSITIONAL, p.VAR_KEYWORD):
        continue
      key = i if p.kind == p.POSITIONAL_ONLY else p.name
      if key not in n.__arguments__:
        # a positional-only default behind an unset required positional-only parameter cannot
        # be passed at all, so it cannot be materialized without breaking the build
        params = list(n.__signature_info__.parameters.values())
        blocked = p.kind == p.POSITIONAL_ONLY and any(
            q.kind == q.POSITIONAL_ONLY and q.default is q.empty and j not in n.__arguments__
            for j, q in enumerate(params[:i]))
        factory = dataclasses.is_dataclass(n.__fn_or_cls__) and any(
            f.name == p.name and f.default_factory is not dataclasses.MISSING
            for f in dataclasses.fields(n.__fn_or_cls__))      # no default VALUE to materialize
        if not blocked and not factory:
          return False
  return True


def serializable(c):
  try:
    serialization.dump_json(c)
    return True
  except Exception:
    return False


def _sched(rate=0.1, warm=0, *, kind='cos'):
  return Rec('_sched', [('rate', rate), ('warm', warm), ('kind', kind)], (), {})


def _opt(lr=1.0, schedule=fdl.Config(_sched, 0.5)):
  return Rec('_opt', [('lr', lr), ('schedule', schedule)], (), {})


def _trainer(steps=1, schedule=fdl.Config(_sched, 0.1), extra=(fdl.Partial(_sched, 0.01),), opt=fdl.Config(_opt),
             hooks=None):
  return Rec('_trainer', [('steps', steps), ('schedule', schedule), ('extra', extra), ('opt', opt), ('hooks', hooks)],
             (), {})


_AUTO = object()            # a sentinel compared by identity


class _Vocab:
  pass


class _Tokenizer:            # an opaque leaf (not traversed) that refers to a shared object
  def __init__(self, vocab):
    self.vocab = vocab


def _pipeline(rate=None, tok_a=None, tok_b=None, vocab=None, items=None):
  return ('pipeline', 'auto' if rate is _AUTO else ('other-object' if type(rate) is object else rate),
          tok_a is not None and tok_b is not None and tok_a.vocab is tok_b.vocab,
          tok_a is not None and tok_a.vocab is vocab, repr(items))


def run_leaf_identity(case):
  """Transformations that return a (partly) new configuration hand the callables the SAME leaf
  objects: a sentinel is still that sentinel, leaves that refer to one object still do."""
  r = random.Random(case['seed'])
  v = _Vocab()
  node = fdl.Config(_pipeline, rate=_AUTO if r.random() < 0.7 else 0.5, tok_a=_Tokenizer(v), tok_b=_Tokenizer(v),
                    vocab=v if r.random() < 0.7 else None, items=[1, (2, 3)])
  root = node if r.random() < 0.5 else fdl.Config(graphs.node_fn(1, 0), p=[node], q={'k': node})
  name = case['apply']
  obs = {'transform': 'leaf_identity', 'applied': name}
  try:
    before = bind_canon(fdl.build(root))
    t = apply(name, root)
    after = bind_canon(fdl.build(t))
    obs['same_build'] = after == before
    if not obs['same_build']:
      obs['before'], obs['after'] = repr(before)[:300], repr(after)[:300]
  except Exception as e:
    obs['raised'] = f'{type(e).__name__}: {e}'[:200]
  return obs


def run_buildable_defaults(case):
  """materialize_defaults where a default value is itself a Buildable (or a container of them, or
  a Buildable whose own default is one): ONE call sets every parameter that has a default, at
  every depth, and a second call changes nothing."""
  r = random.Random(case['seed'])
  kw = {}
  if r.random() < 0.5:
    kw['steps'] = r.randint(2, 9)
  if r.random() < 0.25:
    kw['schedule'] = fdl.Config(_sched, warm=3)
  if r.random() < 0.25:
    kw['opt'] = fdl.Config(_opt, lr=0.5)
  node = r.choice([fdl.Config, fdl.Partial])(_trainer, **kw)
  root = node if r.random() < 0.5 else fdl.Config(graphs.node_fn(1, 0), p=[node, node], q={'k': node})
  keep = graphs.canon(root)
  before = bind_canon(fdl.build(copy.deepcopy(root)))
  t = copy.deepcopy(root)
  obs = {'transform': 'buildable_defaults', 'cfg': repr(root)[:300]}
  try:
    materialize.materialize_defaults(t)
    once = graphs.canon(t)
    obs['all_defaults_set'] = all_defaults_set(t)
    materialize.materialize_defaults(t)
    obs['idempotent'] = graphs.canon(t) == once
    obs['build_same'] = bind_canon(fdl.build(t)) == before
  except Exception as e:
    obs['raised'] = f'{type(e).__name__}: {e}'[:200]
  obs['input_unchanged'] = graphs.canon(root) == keep
  return obs


def execute(case):
  name = case['transform']
  obs = {'transform': name}
  if name == 'buildable_defaults':
    return run_buildable_defaults(case), None
  if name == 'leaf_identity':
    return run_leaf_identity(case), None
  if name == 'materialize_flat':
    from harness import argstore
    real, _cfg = argstore.run_real(case)
    real['transform'] = name
    return real, {k: case[k] for k in ('p', 'sig', 'args', 'kwargs', 'ops')}
  if name == 'tagged_odd':
    # materialize_tags over stand-alone TaggedValues whose value compares oddly (array-like: ==
    # has no truth value; or equal to everything): "is it filled?" is a question of identity
    from fiddle._src import tagging
    problems = []
    for v in (ARRAY_LIKE, ALWAYS_EQUAL):
      for kw in ({}, {'tags': {targets.T0}}, {'clear_field_tags': True}, {'tags': {targets.T2}}):
        cfg = fdl.Config(graphs.node_fn(1, 0), p=[targets.T0.new(v)],
                         q={'k': fdl.TaggedValue(tags=[targets.T0, targets.T1], default=v)})
        try:
          t = tagging.materialize_tags(cfg, **kw)
          rec = targets.rec_of(fdl.build(t))
          slots = dict(rec.slots)
          if not (slots['p'][0] is v and slots['q']['k'] is v):
            problems.append([repr(v), sorted(map(str, kw)), 'built value differs'])
          want_plain = kw.get('tags') != {targets.T2}
          if want_plain and (isinstance(t.p[0], fdl.Buildable) or isinstance(t.q['k'], fdl.Buildable)):
            problems.append([repr(v), sorted(map(str, kw)), 'a filled TaggedValue with a selected tag was not materialized'])
        except Exception as e:
          problems.append([repr(v), sorted(map(str, kw)), f'raised {type(e).__name__}: {e}'[:120]])
    # an UNSET stand-alone TaggedValue stays where it is (and still fails the build)
    for kw in ({}, {'tags': {targets.T0}}, {'clear_field_tags': True}):
      cfg = fdl.Config(graphs.node_fn(1, 0), p=[targets.T0.new(), targets.T0.new(Tok(3))], q={'k': targets.T1.new()})
      try:
        t = tagging.materialize_tags(cfg, **kw)
        if not (isinstance(t.p[0], fdl.Buildable) and isinstance(t.q['k'], fdl.Buildable) and
                isinstance(t.p[1], Tok)):
          problems.append(['unset', sorted(map(str, kw)), 'unset TaggedValue replaced / filled one not materialized'])
        try:
          fdl.build(t)
          problems.append(['unset', sorted(map(str, kw)), 'a configuration with an unfilled TaggedValue built'])
        except Exception:
          pass
      except Exception as e:
        problems.append(['unset', sorted(map(str, kw)), f'raised {type(e).__name__}: {e}'[:120]])
    obs['problems'] = problems
    return obs, None
  if name == 'inline':
    top = outer_partial if case.get('partial') else (outer_chain if case.get('chain') else
                                                     (outer_pos if case.get('positional') else outer))
    cfg = top.as_buildable(case['seed'])
    base = build_canon(cfg)
    direct = bind_canon(top(case['seed']))
    c = copy.deepcopy(cfg)
    refused = 0
    for n in C15.reachable_buildables(c):
      if isinstance(n.__fn_or_cls__, auto_config.AutoConfig):
        try:
          auto_config.inline(n)
        except TypeError as e:
          if not case.get('partial'):
            obs['raised'] = f'auto_config.inline: {type(e).__name__}: {e}'[:200]
            return obs, None
          refused += 1         # a function that does not return a Config cannot be inlined into one
    obs['refused'] = refused
    if case.get('partial'):
      # refused nodes stay as they were: what is built must still be the same
      obs.update(before=base, after=build_canon(c), direct_equal=(base == direct), still_autoconfig=False)
      return obs, None
    obs.update(before=base, after=build_canon(c), direct_equal=(base == direct),
               still_autoconfig=any(isinstance(n.__fn_or_cls__, auto_config.AutoConfig)
                                    for n in C15.reachable_buildables(c)))
    return obs, None
  if name == 'dataclasses':
    r = random.Random(case['seed'])
    shared = DC(a=5, items=[1])
    x = DC(a=r.randint(0, 3), items=[shared, {'k': shared}], child=DC(child=(shared, 's')))
    if case['seed'] % 2:
      x = DCState(lr=r.choice([0.1, 0.2]), momentum=r.choice([0.5, 0.8]), nesterov=True,
                  child=DC(a=7, child=DCState(momentum=0.1)))
    c = fdl_dataclasses.convert_dataclasses_to_configs(x)
    built = fdl.build(c)
    obs.update(before=bind_canon(x), after=bind_canon(built), equal=(built == x))
    return obs, None
  root = make_root(case)
  # replace_unconfigured_partials turns every Partial that binds nothing into the callable itself:
  # which positions hold "the same" unbound callable is not compared for it
  ui = name != 'replace_unconfigured_partials'
  base = build_canon(root, ui)
  was_serializable = serializable(root)
  keep = graphs.canon(root)
  try:
    t = apply(name, root)
  except Exception as e:
    obs['raised'] = f'{type(e).__name__}: {e}'[:200]
    return obs, None
  obs['before'] = base
  obs['after'] = build_canon(t, ui)
  if name.startswith('with_defaults_trimmed') and obs['before'] != obs['after']:
    obs['only_sharing_differs'] = (not isinstance(obs['after'], dict)
                                   and expand(obs['before']) == expand(obs['after']))
    tm = trimmed_mutable_defaults(root, t)
    # the recorded finding: an UNSHARED explicit value equal to a mutable default was trimmed
    # (and now aliases the default object); a trimmed value that was shared is something else
    obs['explicit_equal_mutable_default'] = (any(tr and not sh for sh, tr in tm)
                                             and not any(tr and sh for sh, tr in tm))
  obs['input_unchanged'] = graphs.canon(root) == keep
  if name in ('materialize_defaults', 'with_defaults_trimmed', 'with_defaults_trimmed_deep'):
    try:
      obs['eq'] = bool(t == root) and bool(root == t)
    except Exception as e:
      obs['eq'] = f'raised {type(e).__name__}'
  if name == 'materialize_defaults':
    t2 = copy.deepcopy(t)
    materialize.materialize_defaults(t2)
    obs['idempotent'] = graphs.canon(t2) == graphs.canon(t)
    obs['all_defaults_set'] = all_defaults_set(t)
  obs['serializable_kept'] = True
  obs['was_serializable'] = was_serializable
  if name != 'clear_argument_history' or True:
    sc = serializable_config(random.Random(case['seed']))
    if serializable(sc):
      try:
        obs['serializable_kept'] = serializable(apply(name, sc))
      except Exception as e:
        obs['serializable_kept'] = f'transform raised {type(e).__name__}'
      obs['was_serializable'] = True
  return obs, None


FLAT_FIELDS = ['res', 'view', 'oa', 'oa_all', 'tags', 'build']


def compare(real, model):
  if model is None or real.get('transform') != 'materialize_flat':
    return []
  from harness import argstore
  return argstore.diff_fields(real, argstore.norm_model(model), FLAT_FIELDS)


def flat_oracle(case, real):
  """materialize_defaults on one Buildable: what is built is unchanged, the second run changes
  nothing, every named default is set."""
  if real['init'] == 'err' or len(real['steps']) < 2:
    return None
  first, second = real['steps'][-2], real['steps'][-1]
  prev = real['steps'][-3]['state'] if len(real['steps']) >= 3 else real['init']
  if first['res'] == 'err':
    return None
  if first['state']['build'] != prev['build']:
    return {'what': 'materialize_defaults changed what is built', 'before': prev['build'],
            'after': first['state']['build']}
  if second['res'] == 'err' or second['state']['oa_all'] != first['state']['oa_all'] \
      or second['state']['tags'] != first['state']['tags']:
    return {'what': 'materialize_defaults is not idempotent'}
  return None


def oracle(case, real):
  name = real['transform']
  if name == 'materialize_flat':
    return flat_oracle(case, real)
  if 'raised' in real:
    return {'what': f'{name} raised', 'raised': real['raised']}
  if name == 'leaf_identity':
    if real.get('same_build') is not True:
      return {'what': f"{real['applied']} changed what is built: a leaf object reaches the callable as another object "
                      '(a sentinel compared by identity, leaves referring to one shared object)',
              'before': real.get('before'), 'after': real.get('after')}
    return None
  if name == 'buildable_defaults':
    for key, what in (('all_defaults_set', 'after materialize_defaults a parameter with a default is still unset '
                                            '(inside a default value that is a Buildable)'),
                      ('idempotent', 'materialize_defaults is not idempotent (a default value that is a Buildable)'),
                      ('input_unchanged', 'materialize_defaults of a copy changed the original'),
                      ('build_same', 'materialize_defaults changed what is built')):
      if real.get(key) is not True:
        f = {'what': what, 'configuration': real['cfg'], 'observed': {k: v for k, v in real.items() if k != 'cfg'}}
        if key == 'build_same' and real.get(key) is False:
          # recorded finding: a default value that is a Buildable is handed to the callable UNBUILT
          # while it is a default, and is built once materialize_defaults made it an argument
          f['class'] = 'materialize-buildable-default'
        return f
    return None
  if name == 'tagged_odd':
    if real['problems']:
      return {'what': 'materialize_tags on a TaggedValue whose value compares oddly', 'class': 'materialize-tags-eq',
              'problems': real['problems'][:4]}
    return None
  if name == 'inline':
    if real['before'] != real['after'] or not real['direct_equal'] or real['still_autoconfig']:
      return {'what': 'auto_config.inline changed what is built (or did not inline)', 'observed': real}
    return None
  if name == 'dataclasses':
    if not real['equal'] or real['before'] != real['after']:
      return {'what': 'build(convert_dataclasses_to_configs(x)) is not equal to x'}
    return None
  if real['before'] != real['after']:
    f = {'what': f'{name} changed what is built', 'before': real['before'], 'after': real['after']}
    if real.get('only_sharing_differs') and real.get('explicit_equal_mutable_default'):
      f['class'] = 'trim-mutable-default'
    return f
  if 'eq' in real and real['eq'] is not True:
    return {'what': f'{name}: result is not == to the original', 'eq': real['eq']}
  if real.get('idempotent') is False:
    return {'what': 'materialize_defaults is not idempotent'}
  if real.get('all_defaults_set') is False:
    return {'what': 'after materialize_defaults a parameter with a default is still unset'}
  if real['serializable_kept'] is not True:
    return {'what': f'{name} made a serializable configuration unserializable'}
  if not real['input_unchanged']:
    return {'what': f'{name} modified its input'}
  return None


def classify(case, fail):
  return fail.get('class')


def nontrivial(case, real):
  if real.get('transform') == 'materialize_flat':
    if real['init'] == 'err' or real['steps'][-2]['res'] == 'err':
      return None
    return (json.dumps(case['sig']), json.dumps(case['args']), json.dumps(case['kwargs']), len(case['ops']))
  if 'raised' in real or isinstance(real.get('before'), dict):
    return None
  return (case['seed'], real['transform'])


def run(tier):
  return family.run_check(
      'C20', tier, lean_module='C20', cases=cases, execute=execute, compare=compare,
      oracle=oracle, classify=classify, nontrivial=nontrivial, widen=None, floor_nontrivial=0.3,
      time_budget=200 if tier == 'quick' else 1500,
      extra_coverage={'rule': 'random DAGs (Config / Partial, positional arguments, tags) extended with special '
                      'nodes: shared and mutable default objects, positional-only parameters with defaults '
                      '(set / unset / non-default), *args, Partials configured only positionally or by '
                      '**kwargs, unconfigured Partials in containers, TaggedValues and tuple literals in '
                      'containers, a dataclass with default_factory; seven transformations + auto_config.inline '
                      'on a two-level auto_config program + convert_dataclasses_to_configs on nested '
                      'dataclass instances with sharing. Compared: canonical form of build(original) vs '
                      'build(transformed) (callable values by full binding), == for the first two, '
                      'idempotence and totality of materialize_defaults, serializability, input unchanged.'},
      level_note=['in-place transformations are applied to a deep copy'])


def replay(path):
  data = json.load(open(path if os.path.isabs(path) else os.path.join(common.ROOT, path)))
  real, _ = execute(data['case'])
  fail = oracle(data['case'], real)
  print(json.dumps({'oracle': fail}, indent=1, default=str)[:3000])
  return 1 if fail else 0
