"""C18 — printed paths are valid override paths; flag directives apply in order."""
from __future__ import annotations

import copy
import json
import os
import random
import sys

import fiddle as fdl
from absl import flags as absl_flags
from fiddle import daglish
from fiddle._src import printing
from fiddle._src.absl_flags import flags as fdl_flags
from fiddle._src.absl_flags import utils as flag_utils

from harness import common, family, graphs, targets

APPLIED = []        # log of directives applied by the real flag (base fns, fiddlers, set_value)


def lit2(p=None, q=1, r='d', *, k=None, **kw):
  return targets.Rec('lit2', [('p', p), ('q', q), ('r', r), ('k', k)], (), dict(kw))


def pos2(a=1, b=3, /, c=4, *rest, k=None):
  return ('pos2', a, b, c, rest, k)


def base_a(n=0):
  APPLIED.append(['config', 'base_a'])
  return fdl.Config(lit2, p={'x': n, 'y': [1, 2]}, q=fdl.Config(lit2, p=1))


def base_b():
  APPLIED.append(['config', 'base_b'])
  return fdl.Config(lit2, p=[fdl.Config(lit2, q=2), {'k 1': 5}], k='s')


def fid_q(cfg, v=7):
  APPLIED.append(['fiddler', 'fid_q'])
  cfg.r = v          # (does not disturb the paths used by set: directives)


def fid_replace(cfg):
  APPLIED.append(['fiddler', 'fid_replace'])
  return fdl.Config(lit2, p=cfg, r='wrapped')


def fid_copy(cfg, v=1):
  """A fiddler in the 'immutable' style: returns a NEW configuration."""
  APPLIED.append(['fiddler', 'fid_copy'])
  c = copy.deepcopy(cfg)
  c.extra = v
  return c


def fid_push(cfg, xs):
  """Stores a (mutable) literal argument in the configuration."""
  APPLIED.append(['fiddler', 'fid_push'])
  blocks = list(cfg.__arguments__.get('blocks', []))
  blocks.append(xs)
  cfg.blocks = blocks


MODULE = sys.modules[__name__]


# ----------------------------------------------------------------------------------------
# configurations for the printers


class Gen:
  """Trees (no shared mutable nodes) whose dict keys are quote-free, '='-free strings or
  non-negative ints, whose leaves are Python literals and whose override targets do not sit
  inside tuples."""

  def __init__(self, r):
    self.r = r

  def leaf(self):
    r = self.r
    if r.random() < 0.3:
      # strings (also inside containers) that resemble other literals, keywords or syntax
      words = ['true', 'false', 'True', 'None', 'TRUE', 'false alarms per hour', 'it is true', 'nan', '1e3',
               '[1, 2]', '{}', '"double"', 'x # y', 'line\nbreak', 'tab\there', 'a\\b', '--flag', ' lead',
               'trail ', 'config:x', '0', '-1', 'lambda: 1', "'"]
      w = r.choice(words)
      return r.choice([w, w, [w, 1], {'k': w}, (w, True), [[w]], 10 ** 20, -2.5e-7, b'by\x00tes', 1e100])
    return r.choice([0, 1, -3, 2.5, 'text', '', 'with space', None, True, False, 'é', [1, 2], (1, 's'),
                     {'a': 1}, [], 'a=b', "it's"])

  def key(self):
    return self.r.choice(['a', 'b', 'k 1', '', 'dotted.key', 'brack[et]', 0, 1, 7, 'é', 'back\\slash'])

  def value(self, depth):
    r = self.r
    if depth <= 0 or r.random() < 0.35:
      return self.leaf()
    x = r.random()
    if x < 0.5:
      return self.cfg(depth - 1)
    if x < 0.75:
      return [self.value(depth - 1) for _ in range(r.randint(1, 3))]
    keys = []
    for _ in range(r.randint(1, 3)):
      k = self.key()
      if k not in keys and not any(k == k2 and type(k) is not type(k2) for k2 in keys):
        keys.append(k)
    return {k: self.value(depth - 1) for k in keys}

  def cfg(self, depth):
    r = self.r
    if r.random() < 0.2:
      # positional-only parameters (given positionally, some left unset) and *args
      args = [self.value(depth) for _ in range(r.randint(0, 4))]
      kw = {n: self.value(depth) for n in ('c', 'k') if r.random() < 0.4 and not (n == 'c' and len(args) > 2)}
      return r.choice([fdl.Config, fdl.Partial])(pos2, *args, **kw)
    kw = {n: self.value(depth) for n in ('p', 'q', 'r', 'k') if r.random() < 0.6}
    if r.random() < 0.3:
      kw['extra'] = self.value(depth)
    return r.choice([fdl.Config, fdl.Config, fdl.Partial])(lit2, **kw)


def cases(tier, r):
  for _ in range(700 if tier == 'quick' else 12000):
    yield 'paths', {'seed': r.getrandbits(48), 'depth': r.choice([1, 2, 3])}
  for _ in range(500 if tier == 'quick' else 9000):
    yield 'flags', {'flags': True, 'seed': r.getrandbits(48)}
  for _ in range(100 if tier == 'quick' else 1500):
    yield 'callexpr', {'callexpr': True, 'seed': r.getrandbits(48)}
  for _ in range(600 if tier == 'quick' else 10000):
    yield 'grammar', {'grammar': True, 'seed': r.getrandbits(48)}


def has_nested_buildable(v):
  if isinstance(v, fdl.Buildable):
    return True
  if isinstance(v, (list, tuple)):
    return any(has_nested_buildable(x) for x in v)
  if isinstance(v, dict):
    return any(has_nested_buildable(x) for x in v.values())
  return False


def independent_leaves(cfg):
  """(path string, value) of every leaf position (a value with no Buildable inside) in
  signature order, written from the property, not from printing.py."""
  out = []

  def walk(v, path):
    if not has_nested_buildable(v):
      out.append((path, v))
      return
    if isinstance(v, fdl.Buildable):
      params = [p for p in graphs.sig_of(v)]
      names = [p[0] for p in params if p[1] not in ('vp', 'vk') and p[0] in v.__arguments__]
      names += [k for k in v.__arguments__ if k not in names]
      for n in names:
        walk(v.__arguments__[n], f'{path}[{n}]' if isinstance(n, int) else ((path + '.' + n) if path else n))
    elif isinstance(v, (list, tuple)):
      for i, x in enumerate(v):
        walk(x, f'{path}[{i}]')
    elif isinstance(v, dict):
      for k, x in v.items():
        walk(x, f'{path}[{k!r}]')
  walk(cfg, '')
  return out


def follow(cfg, path_str_):
  path = flag_utils.parse_path(path_str_)
  v = cfg
  for pe in path:
    v = pe.follow(v)
  return v


def run_paths(case):
  r = random.Random(case['seed'])
  cfg = Gen(r).cfg(case['depth'])
  obs = {}
  flat = printing.as_dict_flattened(cfg)
  want = independent_leaves(cfg)
  obs['listed_once'] = sorted(flat) == sorted(p for p, _ in want) and len(flat) == len(want)
  obs['n_leaves'] = len(flat)
  bad = []
  for p, v in flat.items():
    try:
      got = follow(cfg, p)
      if got is not v and not (got == v and type(got) is type(v)):
        bad.append([p, 'resolves elsewhere'])
    except Exception as e:
      bad.append([p, f'{type(e).__name__}'])
  obs['unresolvable'] = bad
  # as_str_flattened lists the same leaves (plus unset parameters)
  lines = printing.as_str_flattened(cfg, include_types=False).splitlines()
  str_paths = [l.split(' = ', 1)[0] for l in lines if ' = ' in l and not l.split(' = ', 1)[1].startswith('<[unset')]
  obs['str_paths_match'] = sorted(str_paths) == sorted(flat)
  # a parameter listed as unset is unset (a positional-only parameter given by position is not)
  unset_listed = [l.split(' = ', 1)[0] for l in lines if ' = ' in l and l.split(' = ', 1)[1].startswith('<[unset')]
  params = list(cfg.__signature_info__.parameters.values())
  wrongly = []
  for name in unset_listed:
    for i, prm in enumerate(params):
      if prm.name == name or name == f'[{i}]':
        key = i if prm.kind == prm.POSITIONAL_ONLY else prm.name
        if key in cfg.__arguments__:
          wrongly.append(name)
  obs['unset_listed_wrongly'] = wrongly
  # write back: every leaf path is a valid override path and sets exactly that leaf
  wb = []
  items = list(flat.items())
  r.shuffle(items)
  for p, v in items[:6]:
    try:
      if '(' in p or isinstance(follow_parent(cfg, p), tuple):
        continue
    except Exception as e:
      wb.append([p, f'parent does not resolve: {type(e).__name__}'])
      continue
    x = r.random()
    if x < 0.35:
      new = v                       # the printed value itself: writing it back changes nothing
    elif x < 0.6:
      new = Gen(r).leaf()
    else:
      new = r.choice([41, 'new text', [9, 8], None, 2.25, {'z': 1}, False])
    c2 = copy.deepcopy(cfg)
    try:
      flag_utils.set_value(c2, f'{p}={new!r}')
    except Exception as e:
      wb.append([p, f'raised {type(e).__name__}'])
      continue
    f2 = printing.as_dict_flattened(c2)
    exp = dict(flat)
    exp[p] = new
    # a container leaf replaced by a scalar (or vice versa) is still one leaf
    if f2 != exp or list(f2) != list(exp):
      wb.append([p, 'other leaves changed or the leaf was not set'])
  obs['write_back_failures'] = wb
  obs['n_written'] = min(6, len(items))
  return obs


def follow_parent(cfg, p):
  path = flag_utils.parse_path(p)
  v = cfg
  for pe in path[:-1]:
    v = pe.follow(v)
  return v


def gen_script(r):
  """A valid command line split over several parse() calls interleaved with value reads."""
  directives = [['config', r.choice(['base_a', 'base_a(3)', 'base_b'])]]
  base_b_used = directives[0][1] == 'base_b'
  for _ in range(r.randint(0, 6)):
    x = r.random()
    if x < 0.55:
      if base_b_used:
        directives.append(['set', r.choice(['k=1', "r='z'", 'p[0].q=5', "p[1]['k 1']=6", 'q=2.5', 'k=[1, 2]'])])
      else:
        directives.append(['set', r.choice(['k=1', "r='z'", "p['x']=5", "p['y'][0]=6", 'q.p=2', 'q.q=None'])])
    elif x < 0.9:
      directives.append(['fiddler', r.choice(['fid_q', 'fid_q(3)', 'fid_q(v=4)', 'fid_copy', 'fid_copy(2)',
                                                'fid_push([64, 64])', 'fid_push([64, 64])',
                                                "fid_push({'n': [1]})"])])
      blocks = [d[1] for d in directives if d[1].startswith('fid_push')]
      if blocks and r.random() < 0.5:
        i = r.randrange(len(blocks))
        suffix = r.choice(['[0]=128', '[1]=0']) if '[64' in blocks[i] else "['n']=7"
        directives.append(['set', f'blocks[{i}]{suffix}'])
    else:
      break
  script = []
  i = 0
  while i < len(directives):
    n = r.randint(1, 3)
    script.append(['parse', directives[i:i + n]])
    i += n
    if r.random() < 0.5:
      script.append(['value'])
  script.append(['value'])
  if r.random() < 0.3:
    script.append(['value'])
  return script, directives


def norm_dir(d):
  """Directive with call arguments stripped (the log records function names)."""
  return [d[0], d[1].split('(')[0] if d[0] != 'set' else d[1]]


def my_call_parse(text):
  """Independent parser for `name(literal, ..., k=literal)`: fresh objects on every call."""
  import ast
  if '(' not in text:
    return text, [], {}
  call = ast.parse(text).body[0].value
  return (ast.unparse(call.func), [ast.literal_eval(a) for a in call.args],
          {k.arg: ast.literal_eval(k.value) for k in call.keywords})


def new_flag():
  return fdl_flags.FiddleFlag(name='cfg', default_module=MODULE, default=None,
                              parser=absl_flags.ArgumentParser(), serializer=None, help_string='t')


def run_flags(case):
  r = random.Random(case['seed'])
  script, directives = gen_script(r)
  del APPLIED[:]
  real_set = flag_utils.set_value

  def spy(cfg, assignment):
    APPLIED.append(['set', assignment])
    return real_set(cfg, assignment)
  fdl_flags.utils.set_value = spy
  flag = new_flag()
  # a second flag of the same process whose directives are pending while the first one is
  # parsed and read (each flag applies ITS OWN command line)
  other = None
  if r.random() < 0.5:
    other = fdl_flags.FiddleFlag(name='other_cfg', default_module=MODULE, default=None,
                                 parser=absl_flags.ArgumentParser(), serializer=None, help_string='t')
    other.parse(['config:base_b'])
  outs = []
  n_other_sets = 0
  try:
    for step in script:
      if step[0] == 'parse':
        flag.parse([f'{c}:{e}' for c, e in step[1]])
        if other is not None and r.random() < 0.5:
          other.parse(['set:q=77'])
          n_other_sets += 1
        outs.append('ok')
      elif step[0] == 'value':
        try:
          v = flag.value
          outs.append(graphs.canon(v) if v is not None else None)
        except Exception as e:
          outs.append(f'raised {type(e).__name__}')
  finally:
    fdl_flags.utils.set_value = real_set
  obs = {'outs_real': outs, 'applied': [list(x) for x in APPLIED], 'directives': directives}
  if other is not None:
    try:
      want = base_b()
      if n_other_sets:
        want.q = 77
      obs['other_flag'] = graphs.canon(other.value) == graphs.canon(want)
    except Exception as e:
      obs['other_flag'] = f'raised {type(e).__name__}'
  # the same flag object after unparse() (absl's FlagValues.unparse_flags): it applies the NEXT
  # command line from scratch, like a new flag does
  try:
    flag.unparse()
    flag.parse(['config:base_b', 'set:q=5'])
    again = flag.value
    fresh = new_flag()
    fresh.parse(['config:base_b', 'set:q=5'])
    obs['after_unparse'] = graphs.canon(again) == graphs.canon(fresh.value)
  except Exception as e:
    obs['after_unparse'] = f'raised {type(e).__name__}: {e}'[:200]
  # independent expectation: the fold over the command line
  del APPLIED[:]
  cur = None
  try:
    for c, e in directives:
      if c == 'config':
        fname, a, k = my_call_parse(e)
        cur = getattr(MODULE, fname)(*a, **k)
      elif c == 'set':
        real_set(cur, e)
      else:
        fname, a, k = my_call_parse(e)
        res = getattr(MODULE, fname)(cur, *a, **k)
        cur = res if res is not None else cur
    obs['expected_final'] = graphs.canon(cur)
  except Exception as e:
    obs['expected_final'] = f'raised {type(e).__name__}'
  obs['final'] = [o for o in outs if o != 'ok'][-1]
  # serialized flag value round trip
  try:
    ser = fdl_flags.FiddleFlagSerializer().serialize(cur)
    f2 = new_flag()
    f2.parse([ser])
    obs['config_str_roundtrip'] = graphs.canon(f2.value) == graphs.canon(cur)
    # ONE serializer used again after the configuration was edited in place (a later set:, a
    # mutating fiddler, a direct edit): the new value parses back to the edited configuration
    if obs['config_str_roundtrip'] is True and isinstance(cur, fdl.Buildable):
      one = fdl_flags.FiddleFlagSerializer()
      one.serialize(cur)
      cur.extra_edit = r.randint(100, 999)
      f3 = new_flag()
      f3.parse([one.serialize(cur)])
      obs['config_str_roundtrip'] = graphs.canon(f3.value) == graphs.canon(cur) or 'stale after an in-place edit'
  except Exception as e:
    obs['config_str_roundtrip'] = f'raised {type(e).__name__}'
  # error clauses
  f3 = new_flag()
  f3.parse(['set:k=1'])
  try:
    f3.value
    obs['first_must_be_config'] = False
  except ValueError:
    obs['first_must_be_config'] = True
  f4 = new_flag()
  f4.parse(['config:base_a', 'config:base_b'])
  try:
    f4.value
    obs['second_base_rejected'] = False
  except ValueError:
    obs['second_base_rejected'] = True
  obs['script'] = script
  return obs


def run_callexpr(case):
  r = random.Random(case['seed'])
  lits = [1, -2, 2.5, 'a', "q'uote", None, True, [1, 2], (1,), {'k': [1]}, {'a', 'b'}, b'x']
  args = [r.choice(lits) for _ in range(r.randint(0, 3))]
  kwargs = {n: r.choice(lits) for n in ('x', 'y_1') if r.random() < 0.5}
  name = r.choice(['fn', 'mod.sub.fn', 'f_1'])
  text = name + '(' + ', '.join([repr(a) for a in args] + [f'{k}={v!r}' for k, v in kwargs.items()]) + ')'
  if not args and not kwargs and r.random() < 0.5:
    text = name
  obs = {'text': text}
  try:
    ce = flag_utils.CallExpression.parse(text)
    obs['ok'] = (ce.func_name == name and list(ce.args) == args and ce.kwargs == kwargs
                 and all(type(a) is type(b) for a, b in zip(ce.args, args)))
    # the parsed literals belong to the caller: editing them must not leak into a later parse
    for a in list(ce.args) + list(ce.kwargs.values()):
      if isinstance(a, list):
        a.append('mutated')
      elif isinstance(a, dict):
        a['mutated'] = 1
      elif isinstance(a, set):
        a.add('mutated')
    ce2 = flag_utils.CallExpression.parse(text)
    obs['ok'] = obs['ok'] and list(ce2.args) == args and ce2.kwargs == kwargs
  except Exception as e:
    obs['ok'] = f'raised {type(e).__name__}'
  return obs


# ----------------------------------------------------------------------------------------
# the path grammar: real printer / parsers vs Model/Paths.lean

G_NAMES = ['p', 'q_1', 'x', 'Abc9', '_', 'extra', 'a0_b', 'é', 'kw']
G_KEYS = ['a', 'k 1', '', 'dotted.key', 'brack[et]', 'back\\slash', 'tab\there', 'line\nbreak', 'é', 'a=b',
          'true', '0', ' ', ']', '[', '.', 'x#y', "it's", '"q"', '\\', '\\n', 'cr\rx', '\x7f', '~', 'zero\x00']
G_ALPHABET = ".[]'\"\\0a_=9n7 Ax\n\tr-"
G_TEXTS = ['[007]', '[00]', '[0]', 'a..b', 'a[', "['a\\']", "['\\x41']", '["it\'s"]', "['it's']", '', '.', '[]',
           "['a']]", 'a.b=c=d', '[1]=x', "['k=v']=3", 'a[1 ]', "a['x' ]", '[१]', 'a.é', '.a[\'\\\\\']', "['\\q']",
           "[-1]", "a[1][2].b['c'][\"d\"]", "['a\\\nb']"]


def gen_grammar(r):
  path = []
  for _ in range(r.randint(1, 5)):
    x = r.random()
    if x < 0.4:
      path.append(['a', r.choice(G_NAMES)])
    elif x < 0.6:
      path.append(['i', r.choice([0, 1, 7, 10, 99, 100, 12345678901234567890])])
    elif x < 0.7:
      path.append(['k', {'n': r.choice([0, 3, 42, 1000])}])
    else:
      path.append(['k', {'s': r.choice(G_KEYS)}])
  return path


def real_elems(path):
  out = []
  for e in path:
    if e[0] == 'a':
      out.append(daglish.Attr(e[1]))
    elif e[0] == 'i':
      out.append(daglish.Index(e[1]))
    else:
      out.append(daglish.Key(e[1]['n'] if 'n' in e[1] else e[1]['s']))
  return tuple(out)


def parsed_proto(fn, text):
  import warnings
  try:
    with warnings.catch_warnings():
      warnings.simplefilter('ignore')        # literal_eval warns about unknown escapes
      res = fn(text)
  except Exception:
    return 'err'
  out = []
  for e in res:
    if isinstance(e, daglish.Attr):
      out.append(['a', e.name])
    elif isinstance(e, daglish.Key) and isinstance(e.key, bool):
      return 'other'
    elif isinstance(e, daglish.Key) and isinstance(e.key, int):
      out.append(['k', {'n': e.key}])
    elif isinstance(e, daglish.Key) and isinstance(e.key, str):
      out.append(['k', {'s': e.key}])
    else:
      return 'other'
  return {'ok': out}


def mutate(r, text):
  cs = list(text)
  for _ in range(r.randint(1, 2)):
    x = r.random()
    if x < 0.35 and cs:
      del cs[r.randrange(len(cs))]
    elif x < 0.8:
      cs.insert(r.randint(0, len(cs)), r.choice(G_ALPHABET))
    elif len(cs) > 1:
      i = r.randrange(len(cs) - 1)
      cs[i], cs[i + 1] = cs[i + 1], cs[i]
  return ''.join(cs)


def run_grammar(case):
  from fiddle._src import daglish_extensions
  r = random.Random(case['seed'])
  path = gen_grammar(r)
  printed = printing._path_str(real_elems(path))
  texts = [printed, printed + '=' + r.choice(['1', "'a=b'", '', '=']), mutate(r, printed), mutate(r, printed),
           r.choice(G_TEXTS), ''.join(r.choice(G_ALPHABET) for _ in range(r.randint(1, 8)))]
  obs = {'grammar': True, 'path': path, 'printed': printed, 'texts': texts, 'out': []}
  for t in texts:
    parts = t.split('=', 1)
    obs['out'].append({'raw': parsed_proto(daglish_extensions.parse_path, t),
                       'flag': parsed_proto(flag_utils.parse_path, t),
                       'split': parts if len(parts) == 2 else None})
  # the property, evaluated directly: within scope the printed text parses back to the path
  in_scope = all((e[0] == 'a' and e[1].isidentifier()) or e[0] == 'i' or 'n' in e[1]
                 or ("'" not in e[1]['s'] and '"' not in e[1]['s']) for e in path)
  want = [['k', {'n': e[1]}] if e[0] == 'i' else e for e in path]
  obs['in_scope'] = in_scope
  obs['parses_back'] = (obs['out'][0]['flag'] == {'ok': want}) if in_scope else None
  return obs


def execute(case):
  if case.get('grammar'):
    obs = run_grammar(case)
    return obs, {'p': 'paths', 'path': obs['path'], 'texts': obs['texts']}
  if case.get('flags'):
    obs = run_flags(case)
    script = [[s[0], s[1]] if s[0] == 'parse' else [s[0]] for s in obs['script']]
    return obs, {'p': 'flags', 'script': script}
  if case.get('callexpr'):
    return run_callexpr(case), None
  return run_paths(case), None


def compare(real, model):
  if model is None:
    return []
  if real.get('grammar'):
    diffs = []
    mp = model['printed']
    if mp != 'unsupported' and mp != {'ok': real['printed']}:
      diffs.append(('printed path', real['printed'], mp))
    for t, ro, mo in zip(real['texts'], real['out'], model['texts']):
      for f in ('raw', 'flag'):
        if mo[f] != 'unsupported' and ro[f] != mo[f]:
          diffs.append((f'parse_path ({f}) of {t!r}', ro[f], mo[f]))
      if ro['split'] != mo['split']:
        diffs.append((f'split of {t!r}', ro['split'], mo['split']))
    real['m_supported'] = sum(1 for mo in model['texts'] if mo['flag'] != 'unsupported') + (mp != 'unsupported')
    return diffs
  # the model's abstract configuration is the list of applied directives
  want = [[c, e] for c, e in real['directives']]
  diffs = []
  if [norm_dir(d) for d in model['applied']] != real['applied']:
    diffs.append(('flags', 'applied', real['applied'], model['applied']))
  real_kinds = ['ok' if o == 'ok' else ('err' if isinstance(o, str) else 'value') for o in real['outs_real']]
  model_kinds = ['ok' if o == 'ok' else ('err' if o == 'err' else 'value') for o in model['outs']]
  if real_kinds != model_kinds:
    diffs.append(('flags', 'outcomes', real_kinds, model_kinds))
  return diffs


def oracle(case, real):
  if case.get('grammar'):
    if real['parses_back'] is False:
      return {'what': 'a printed path does not parse back to the path it prints', 'path': real['path'],
              'printed': real['printed'], 'parsed': real['out'][0]['flag']}
    return None
  if case.get('flags'):
    if real['applied'] != [norm_dir(d) for d in real['directives']]:
      return {'what': 'directives were not applied strictly in command-line order, each exactly once',
              'applied': real['applied'], 'command_line': real['directives']}
    if real['final'] != real['expected_final']:
      return {'what': 'flag value differs from applying the command line in order'}
    if real.get('other_flag', True) is not True:
      return {'what': 'a second flag with pending directives did not keep its own command line',
              'observed': real['other_flag']}
    if real.get('after_unparse', True) is not True:
      return {'what': 'after unparse() the flag does not apply the next command line like a new flag',
              'observed': real['after_unparse']}
    if real['config_str_roundtrip'] is not True:
      return {'what': 'a configuration serialized into a flag value does not parse back to an equal one',
              'observed': real['config_str_roundtrip']}
    if not real['first_must_be_config'] or not real['second_base_rejected']:
      return {'what': 'malformed command line accepted', 'observed': real}
    return None
  if case.get('callexpr'):
    if real['ok'] is not True:
      return {'what': 'CallExpression.parse disagrees with Python on a call with literal arguments',
              'text': real['text'], 'observed': real['ok']}
    return None
  if not real['listed_once']:
    return {'what': 'flattened printer does not list every leaf exactly once'}
  if real['unresolvable']:
    return {'what': 'a printed path does not resolve to its leaf', 'paths': real['unresolvable'][:3]}
  if not real['str_paths_match']:
    return {'what': 'as_str_flattened and as_dict_flattened list different leaves'}
  if real.get('unset_listed_wrongly'):
    return {'what': 'as_str_flattened lists a parameter as unset although it has a value (it is listed twice)',
            'parameters': real['unset_listed_wrongly']}
  if real['write_back_failures']:
    return {'what': 'writing path=repr(value) back does not set exactly that leaf',
            'failures': real['write_back_failures'][:3]}
  return None


def nontrivial(case, real):
  if case.get('grammar'):
    return ('grammar', real['printed'])
  if case.get('flags'):
    return ('flags', json.dumps(real['directives']), json.dumps([s[0] for s in real['script']]))
  if case.get('callexpr'):
    return ('call', real['text'])
  return ('paths', case['seed']) if real['n_leaves'] > 1 else None


def run(tier):
  return family.run_check(
      'C18', tier, lean_module='C18', cases=cases, execute=execute, compare=compare,
      oracle=oracle, nontrivial=nontrivial, widen=None, floor_nontrivial=0.3,
      time_budget=200 if tier == 'quick' else 1500,
      extra_coverage={'rule': 'trees of Config / Partial / list / dict over literal leaves with dict keys that are '
                      "quote-free, '='-free strings (spaces, dots, brackets, backslashes, non-ASCII, empty) or "
                      'non-negative ints; for every leaf of as_dict_flattened: resolve the printed path, compare '
                      'with an independent leaf enumeration and with as_str_flattened, write path=repr(value) '
                      'back through set_value on up to 6 leaves. Flags: valid command lines (config:, set:, '
                      'fiddler: with call expressions) split over several parse() calls interleaved with value '
                      'reads on a real FiddleFlag, application log vs the queue model, final value vs the fold, '
                      'config_str: round trip, malformed command lines. CallExpression.parse vs Python literals.'},
      level_note=['ast.literal_eval / repr are trusted to be inverse on the generated literals'])


def replay(path):
  data = json.load(open(path if os.path.isabs(path) else os.path.join(common.ROOT, path)))
  real, _ = execute(data['case'])
  fail = oracle(data['case'], real)
  print(json.dumps({'oracle': fail}, indent=1, default=str)[:3000])
  return 1 if fail else 0
