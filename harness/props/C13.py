"""C13 — the generated fiddler does what apply_diff does."""
from __future__ import annotations

import copy
import json
import os

import fiddle as fdl
from fiddle import daglish
from fiddle._src import diffing
from fiddle._src.codegen import codegen_diff

from harness import common, family, graphs, pairs, targets
from harness.props import C10

MODES = [('explicit', True), ('explicit', False), ('short', True), ('short', False)]


def cases(tier, r):
  # flat stage: single-node pairs against the Lean model (Model/Diff.lean)
  from harness import flatdiff
  for _ in range(700 if tier == 'quick' else 12000):
    old, new = flatdiff.gen_pair(r)
    yield 'flat', {'flat': True, 'old': old, 'new': new, 'mode': r.randrange(4)}
  for _ in range(700 if tier == 'quick' else 12000):
    yield 'pair', {'seed': r.getrandbits(48), 'depth': r.choice([1, 2, 3]), 'n_edits': r.randint(1, 5),
                   'flavour': r.choice(['edits', 'edits', 'edits', 'unrelated', 'shared']),
                   'mode': r.randrange(4)}
  # hand-assembled pairs: every one in every mode (naming x with/without old)
  for rep in range(1 if tier == 'quick' else 3):
    for i in range(N_HAND):
      for mode in range(4):
        yield 'hand', {'hand': i, 'seed': r.getrandbits(32), 'mode': mode}
  # hand-assembled DIFFS (not produced by build_diff): every one in every mode
  for rep in range(2 if tier == 'quick' else 12):
    for i in range(N_HAND_DIFF):
      for mode in range(4):
        yield 'hand_diff', {'hand_diff': i, 'seed': r.getrandbits(32), 'mode': mode}


N_HAND = 8
N_HAND_DIFF = 5


def hand_diff(i, r):
  """(old, Diff) assembled by hand: new values in states build_diff never emits, references
  through another path than the first one, references among new shared values."""
  from fiddle import daglish as dg
  fa, fb, fc = pairs.fa, pairs.fb, pairs.fc
  A, I, K = dg.Attr, dg.Index, dg.Key
  Ref = diffing.Reference
  if i == 0:
    # a new value on which a tag was added and withdrawn again (an EMPTY tag set is left behind),
    # next to an argument with two tags
    old = fdl.Config(fa, p=fdl.Config(fc, x=1), q=2)
    nv = fdl.Config(fc, x=r.randint(3, 9), y=6)
    fdl.add_tag(nv, 'x', targets.T1)
    if r.random() < 0.7:
      fdl.remove_tag(nv, 'x', targets.T1)
    else:
      fdl.clear_tags(nv, 'x')
    fdl.add_tag(nv, 'y', targets.T0)
    fdl.add_tag(nv, 'y', targets.T2)
    return old, diffing.Diff(changes=(diffing.SetValue((A('r'),), nv), diffing.ModifyValue((A('q'),), 3)))
  if i == 1:
    # one object of old reachable by two paths: a child is replaced through one path and the
    # ORIGINAL child is referenced through the other
    shared = fdl.Config(fc, x=fdl.Config(fc, y=r.randint(1, 5)), y=0)
    # (the referencing parent comes after the replacing one, or before it)
    if r.random() < 0.7:
      old = fdl.Config(fa, p=shared, q=shared, r=fdl.Config(fc, y=3))
      return old, diffing.Diff(changes=(
          diffing.ModifyValue((A('p'), A('x')), fdl.Config(fc, y=99)),
          diffing.SetValue((A('r'), A('x')), Ref('old', (A('q'), A('x'))))))
    old = fdl.Config(fa, p=shared, q=shared, r=0)
    return old, diffing.Diff(changes=(
        diffing.ModifyValue((A('p'), A('x')), fdl.Config(fc, y=99)),
        diffing.ModifyValue((A('r'),), Ref('old', (A('q'), A('x'))))))
  if i == 2:
    # the same through containers, the reference sits inside a new value
    shared = [fdl.Config(fc, x=r.randint(1, 5)), 7]
    old = fdl.Config(fa, p={'a': shared, 'b': shared}, q=1, r=fdl.Config(fc, y=3))
    return old, diffing.Diff(changes=(
        diffing.ModifyValue((A('p'), K('a'), I(0)), 'replaced'),
        diffing.SetValue((A('r'), A('x')), fdl.Config(fb, p=Ref('old', (A('p'), K('b'), I(0))), s=2))))
  if i == 3:
    # references among new shared values, used from several places
    old = fdl.Config(fa, q=1)
    nsv = (fdl.Config(fc, x=r.randint(1, 5)),
           fdl.Config(fb, p=Ref('new_shared_values', (I(0),)), q=[Ref('new_shared_values', (I(0),))]))
    return old, diffing.Diff(changes=(
        diffing.SetValue((A('r'),), [Ref('new_shared_values', (I(1),)), Ref('new_shared_values', (I(1),))]),
        diffing.SetValue((A('k'),), Ref('new_shared_values', (I(0),))),
        diffing.DeleteValue((A('q'),))), new_shared_values=nsv)
  # a value moved out of a part of old that is replaced as a whole, and a tag change on the target
  inner = fdl.Config(fc, x=r.randint(1, 5))
  old = fdl.Config(fa, p=fdl.Config(fb, p=inner, q=[inner]), q=0)
  return old, diffing.Diff(changes=(
      diffing.ModifyValue((A('p'),), 'gone'),
      diffing.SetValue((A('r'),), {'kept': Ref('old', (A('p'), A('q'), I(0)))}),
      diffing.AddTag((A('q'),), targets.T1)))


def hand_pair(i, r):
  """Hand-assembled pairs: references among new shared values, into moved / replaced parts of
  old, values moved by deleting their slot, nested sequences, tags gained with a callable switch."""
  fa, fb, fc = pairs.fa, pairs.fb, pairs.fc
  if i == 0:
    old = fdl.Config(fa)
    g = fdl.Config(fc, x=1)
    f = fdl.Config(fb, p=g, q=g)
    return old, fdl.Config(fa, p=[f, f], q=g)
  if i == 1:
    enc = fdl.Config(fc, x=[1, 2])
    old = fdl.Config(fa, p=enc, q=5)
    new = copy.deepcopy(old)
    new.r = new.p          # moved: delete the slot, attach elsewhere
    del new.p
    return old, new
  if i == 2:
    old = fdl.Config(fa, p={'a': fdl.Config(fc, x=1), 'b': 2})
    new = copy.deepcopy(old)
    new.p['c'] = new.p.pop('a')          # re-keyed dict entry
    return old, new
  if i == 3:
    old = fdl.Config(fa, p=[[fdl.Config(fc, x=1), fdl.Config(fc, x=2)], [fdl.Config(fc, y=1), fdl.Config(fc, y=2)]])
    new = copy.deepcopy(old)
    new.q = [new.p[0][1], new.p[1][1]]   # aliases whose paths share their last element
    new.p[0][1] = 0
    new.p[1][1] = 0
    return old, new
  if i == 4:
    old = fdl.Config(fa, p=fdl.Config(fa, q=3))
    new = copy.deepcopy(old)
    fdl.update_callable(new.p, fb)
    new.p.s = 4
    fdl.add_tag(new.p, 's', targets.T1)  # tag on a parameter only the new callable has
    return old, new
  if i == 6:
    # several new shared values of ONE callable (their variables need distinct names)
    old = fdl.Config(fa)
    bs = [fdl.Config(fc, x=j) for j in range(r.randint(3, 5))]
    return old, fdl.Config(fa, p=[bs[0], bs[0]], q=[bs[1], bs[1]], r=[b for b in bs[2:] for _ in range(2)])
  if i == 7:
    # aliases at several depths whose paths end alike, old values moved under new shared nodes
    old = fdl.Config(fa, p={'a': [fdl.Config(fc, x=1)], 'b': [fdl.Config(fc, x=2)]},
                     q=fdl.Config(fb, p=[fdl.Config(fc, x=3)]))
    new = copy.deepcopy(old)
    new.r = [new.p['a'][0], new.p['b'][0], new.q.p[0]]
    new.p['a'][0] = new.q.p[0]
    new.q.p[0] = r.choice([0, 'z'])
    return old, new
  old = fdl.Config(fa, p=fdl.Config(fc, x=fdl.Config(fc, y=1)), q=fdl.Config(fb, p=1))
  new = copy.deepcopy(old)
  shared = fdl.Config(fb, p=new.p.x)     # a new shared value referring into a moved part of old
  new.r = [shared, shared]
  new.p = 7
  return old, new


def run_fiddler(code, cfg):
  ns = {}
  exec(compile(code, '<fiddler>', 'exec'), ns)
  res = ns['fiddler'](cfg)
  return res


def execute(case):
  if case.get('flat'):
    from harness import flatdiff
    return flatdiff.execute(case, True)
  import random
  d = None
  if 'hand_diff' in case:
    old, d = hand_diff(case['hand_diff'], random.Random(case['seed']))
    kinds = ['hand_diff%d' % case['hand_diff']]
  elif 'hand' in case:
    old, new = hand_pair(case['hand'], random.Random(case['seed']))
    kinds = ['hand%d' % case['hand']]
  else:
    old, new, kinds = pairs.make_pair(case['seed'], case['depth'], case['n_edits'], case['flavour'], False)
  naming, with_old = MODES[case['mode']]
  obs = {'kinds': kinds, 'mode': [naming, with_old]}
  try:
    if d is None:
      graphs.encode(new)
      d = diffing.build_diff(old, new)
    want_cfg = copy.deepcopy(old)
    diffing.apply_diff(d, want_cfg)
    want = graphs.canon(want_cfg, order_dicts=True)
  except Exception as e:
    obs['skip'] = f'{type(e).__name__}: {e}'[:150]
    return obs, None
  obs['n_changes'] = len(d.changes)
  try:
    module = codegen_diff.fiddler_from_diff(d, old=old if with_old else None, variable_naming=naming)
    code = module.code
  except Exception as e:
    obs['codegen'] = f'raised {type(e).__name__}: {e}'[:300]
    return obs, None
  obs['codegen'] = 'ok'
  obs['code'] = code
  try:
    compile(code, '<fiddler>', 'exec')
    obs['compiles'] = True
  except SyntaxError as e:
    obs['compiles'] = False
    return obs, None
  got_cfg = copy.deepcopy(old)
  try:
    run_fiddler(code, got_cfg)
    obs['run'] = 'ok'
  except Exception as e:
    obs['run'] = f'raised {type(e).__name__}: {e}'[:300]
    return obs, None
  obs['same_as_apply'] = graphs.canon(got_cfg, order_dicts=True) == want
  if not obs['same_as_apply']:
    obs['got'] = graphs.canon(got_cfg, order_dicts=True)
    obs['want'] = want
  return obs, None


def strip_unset_tags(c):
  """Canonical form with tags on arguments that have no value removed."""
  if isinstance(c, list):
    if len(c) == 6 and c[0] == 'cfg':
      keys = {repr(k) for k, _ in c[4]}
      return c[:4] + [[[k, strip_unset_tags(v)] for k, v in c[4]]] + [[t for t in c[5] if repr(t[0]) in keys]]
    return [strip_unset_tags(x) for x in c]
  return c


ANNOTATION_TAGS = {'fd': {"'x'": {1}, "'q'": {0, 2}}}      # pairs.fd: Annotated[...] tags


def strip_annotation_tags(c):
  """Canonical form without the tags a callable's own annotations give its parameters."""
  if isinstance(c, list):
    if len(c) == 6 and c[0] == 'cfg':
      ann = ANNOTATION_TAGS.get(c[3], {})
      tags = []
      for k, ts in c[5]:
        rest = [t for t in ts if t not in ann.get(repr(k), set())]
        if rest:
          tags.append([k, rest])
      return c[:4] + [[[k, strip_annotation_tags(v)] for k, v in c[4]]] + [tags]
    return [strip_annotation_tags(x) for x in c]
  return c


def compare(real, model):
  if real.get('flat'):
    from harness import flatdiff
    return flatdiff.compare(real, model, True)
  return []


def oracle(case, real):
  if real.get('flat'):
    from harness import flatdiff
    return flatdiff.oracle(case, real, True)
  if 'skip' in real:
    return None
  if real['codegen'] != 'ok':
    return {'what': 'fiddler_from_diff raised', 'raised': real['codegen'], 'mode': real['mode']}
  if not real['compiles']:
    return {'what': 'the emitted fiddler does not compile', 'code': real['code'], 'mode': real['mode']}
  if real['run'] != 'ok':
    return {'what': 'the emitted fiddler raised', 'raised': real['run'], 'code': real['code'], 'mode': real['mode']}
  if not real['same_as_apply']:
    f = {'what': 'the emitted fiddler does not produce what apply_diff produces', 'code': real['code'],
         'got': real.get('got'), 'want': real.get('want'), 'mode': real['mode']}
    if strip_unset_tags(real['got']) == strip_unset_tags(real['want']):
      f['class'] = 'fiddler-unset-tagged-arg'      # the only difference: tags on value-less arguments of NEW values
    elif (strip_annotation_tags(strip_unset_tags(real['got'])) == strip_annotation_tags(strip_unset_tags(real['want']))
          and 'fdl.' in real['code'] and 'pairs.fd' in real['code']):
      # the only difference: annotation tags of a NEW value whose constructor call re-adds them
      f['class'] = 'fiddler-annotation-tag-readded'
    return f
  return None


def nontrivial(case, real):
  if real.get('flat'):
    if real.get('build_diff') != 'ok' or not real.get('changes'):
      return None
    import json as _json
    return ('flat', _json.dumps(case['old'], sort_keys=True), _json.dumps(case['new'], sort_keys=True))
  if 'skip' in real or real.get('codegen') != 'ok' or not real.get('n_changes'):
    return None
  return (case.get('seed'), case.get('hand'), case.get('hand_diff'), case['mode'])


def run(tier):
  return family.run_check(
      'C13', tier, lean_module='C13', cases=cases, execute=execute, compare=compare,
      oracle=oracle, classify=lambda c, f: f.get('class'), nontrivial=nontrivial, widen=None, floor_nontrivial=0.3,
      time_budget=200 if tier == 'quick' else 1500,
      extra_coverage={'rule': 'diffs produced by build_diff over the pairs of C10 (random edits, unrelated, '
                      'identity-sharing) plus six hand-assembled shapes (references among new shared values, a '
                      'value moved by deleting its slot, a re-keyed dict entry, aliases whose paths share their '
                      'last element inside nested lists, a callable switch gaining a tag on a new parameter, a '
                      'new shared value referring into a replaced part of old); each in one of the four modes '
                      '(explicit / short naming) x (old supplied / not). The emitted module is compiled and '
                      'executed on a deep copy of old and compared with apply_diff by canonical form.'},
      level_note=['naming and formatting of the emitted code are not compared, only its effect'])


def replay(path):
  data = json.load(open(path if os.path.isabs(path) else os.path.join(common.ROOT, path)))
  real, _ = execute(data['case'])
  fail = oracle(data['case'], real)
  print(json.dumps({'oracle': fail}, indent=1, default=str)[:3000])
  return 1 if fail else 0
