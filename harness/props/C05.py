"""C05 — a failing callable surfaces faithfully and leaves no residue."""
from __future__ import annotations

import json
import os
import functools
import random
import re

import fiddle as fdl
from fiddle import daglish
from fiddle._src import building

from harness import common, family, graphs, targets

# ----------------------------------------------------------------------------------------
# exception class shapes


class Plain(Exception):
  pass


class CustomInit(Exception):
  def __init__(self, code, detail, *, extra=None):
    super().__init__(f'code={code} detail={detail}')
    self.code, self.detail, self.extra = code, detail, extra


class TwoArg(Exception):
  """`__init__` does not accept its own `.args` (one formatted message from two fields)."""

  def __init__(self, field, problem):
    super().__init__(f'{field}: {problem}')
    self.field, self.problem = field, problem


class StrOverride(ValueError):
  def __str__(self):
    return 'overridden message é中'


class Slotted(Exception):
  __slots__ = ('a',)

  def __init__(self, a):
    super().__init__(a)
    self.a = a


class Base(BaseException):
  pass


class Unsubclassable(Exception):
  def __init_subclass__(cls, **kw):
    raise TypeError('cannot subclass')


class KeyLike(KeyError):
  pass


class OwnNew(Exception):
  """A class whose `__new__` has a signature of its own: a proxy subclass can be CREATED for it
  but not instantiated the way the library instantiates proxies."""

  def __new__(cls, code):
    self = super().__new__(cls, code)
    self.code = code
    return self

  def __init__(self, code):
    super().__init__(f'quota {code}')


class Immutable(Exception):
  """Attributes cannot be set after construction."""

  def __init__(self, msg):
    super().__init__(msg)
    object.__setattr__(self, '_frozen', True)

  def __setattr__(self, k, v):
    if getattr(self, '_frozen', False) and not k.startswith('__'):
      raise AttributeError('immutable exception')
    object.__setattr__(self, k, v)


class BadRepr:
  def __repr__(self):
    raise RuntimeError('repr failed')

  def __hash__(self):
    return 7

  def __eq__(self, o):
    return self is o


def _factory_class(n):
  class FactoryError(Exception):   # distinct classes sharing module + qualname
    code = n
  return FactoryError


FACT = [_factory_class(i) for i in range(3)]

SHAPES = {
    'plain': (lambda: Plain('plain failure'), dict(is_exception=True, subclassable=True)),
    'custom_init': (lambda: CustomInit(3, 'bad', extra=1), dict(is_exception=True, subclassable=True)),
    'str_override': (lambda: StrOverride('x'), dict(is_exception=True, subclassable=True)),
    'slots': (lambda: Slotted('slotted'), dict(is_exception=True, subclassable=True)),
    'base_exception': (lambda: Base('base'), dict(is_exception=False, subclassable=True)),
    'unsubclassable': (lambda: Unsubclassable('nosub'), dict(is_exception=True, subclassable=False)),
    'keyerror': (lambda: KeyLike('k'), dict(is_exception=True, subclassable=True)),
    'factory0': (lambda: FACT[0]('f0'), dict(is_exception=True, subclassable=True)),
    'factory1': (lambda: FACT[1]('f1'), dict(is_exception=True, subclassable=True)),
    'factory2': (lambda: FACT[2]('f2'), dict(is_exception=True, subclassable=True)),
    # exception classes the interpreter itself treats specially inside generators / iteration
    'stop_iteration': (lambda: StopIteration('exhausted'), dict(is_exception=True, subclassable=True)),
    'stop_async': (lambda: StopAsyncIteration('async exhausted'), dict(is_exception=True, subclassable=True)),
    'json_error': (lambda: __import__('json').JSONDecodeError('bad doc', 'x y', 1), dict(is_exception=True, subclassable=True)),
    'two_arg_init': (lambda: TwoArg('field', 'problem'), dict(is_exception=True, subclassable=True)),
    # a proxy class can be created but not instantiated: the ORIGINAL exception must escape
    'own_new': (lambda: OwnNew(7), dict(is_exception=True, subclassable=False)),
    'immutable': (lambda: Immutable('frozen failure'), dict(is_exception=True, subclassable=False)),
    # an exception that already carries the Fiddle context of an EARLIER failed build of another
    # configuration (kept by the program and raised again): the path named for THIS failure must
    # be the one in THIS configuration
    'stale_proxy': (lambda: stale_proxy(), dict(is_exception=True, subclassable=True)),
}


def _stale_fail(x=None):
  raise Plain('stale failure')


_STALE = {}


def stale_proxy():
  return _STALE['e']


def prepare_stale_proxy():
  # outside any build (a nested build would be rejected)
  try:
    fdl.build(fdl.Config(graphs.node_fn(1, 0), p=[fdl.Config(_stale_fail, x=1)]))
  except Plain as e:
    _STALE['e'] = e
QUICK_SHAPES = ['plain', 'custom_init', 'str_override', 'base_exception', 'unsubclassable', 'factory0',
                'factory1', 'stop_iteration', 'json_error', 'two_arg_init', 'stale_proxy', 'own_new', 'immutable']


# ----------------------------------------------------------------------------------------
# callables of every species that FILL IN the container they are handed before one of them fails

_FAILS = {'tag': None}


def _work(tag, box=None):
  if isinstance(box, list):
    box.append(('seen', tag))
  elif isinstance(box, dict):
    box['seen'] = tag
  if _FAILS['tag'] == tag:
    raise Plain(f'boom {tag}')
  return (tag, repr(box))


def _work3(extra, tag, box=None):
  return _work(tag, box)


class _Worker:
  def __call__(self, tag, box=None):
    return _work(tag, box)

  def run(self, tag, box=None):
    return _work(tag, box)


class _WorkCls:
  def __init__(self, tag, box=None):
    self.got = _work(tag, box)

  def __repr__(self):
    return f'WorkCls({self.got!r})'

  @classmethod
  def make(cls, tag, box=None):
    return _work(tag, box)


def _app(parts=None, more=None, last=None):
  return ('app', repr(parts), repr(more), repr(last))


_WORKER = _Worker()
_SPECIES = {
    'function': lambda: _work,
    'partial_object': lambda: functools.partial(_work3, 0),
    'partial_object_kw': lambda: functools.partial(_work, box=None),
    'callable_instance': lambda: _WORKER,
    'bound_method': lambda: _WORKER.run,
    'class': lambda: _WorkCls,
    'classmethod': lambda: _WorkCls.make,
}


def run_species(case):
  import collections
  import copy
  r = random.Random(case['seed'])
  boxes = [lambda: [], lambda: {}, lambda: [1], lambda: {'z': 0}, lambda: collections.defaultdict(list),
           lambda: None, lambda: [[]], lambda: ()]
  nodes, species = [], []
  for tag in range(3):
    sp = r.choice(sorted(_SPECIES))
    species.append(sp)
    kw = {} if sp == 'partial_object_kw' and r.random() < 0.5 else {'box': r.choice(boxes)()}
    nodes.append(fdl.Config(_SPECIES[sp](), tag, **kw) if r.random() < 0.5 else
                 fdl.Config(_SPECIES[sp](), tag=tag, **kw))
  root = fdl.Config(_app, parts=[nodes[0], nodes[1]], more={'train': nodes[2]}, last=r.choice(boxes)())
  paths = ['.parts[0]', '.parts[1]', ".more['train']"]
  k = case['fail']
  snapshot = copy.deepcopy(root)
  before = graphs.canon(root)
  obs = {'species_stage': True, 'species': species, 'fail': k, 'cfg': repr(root)[:300]}
  _FAILS['tag'] = k
  try:
    fdl.build(root)
    obs['outcome'] = 'returned'
  except BaseException as e:
    obs['outcome'] = 'raised'
    obs['is_instance'] = isinstance(e, Plain)
    obs['message'] = str(e)[:400]
    obs['prefix'] = str(e).startswith(f'boom {k}')
    obs['path_named'] = f' at <root>{paths[k]} ' in str(e)
  finally:
    _FAILS['tag'] = None
  obs['guard_after'] = bool(building._state.in_build)
  obs['config_unchanged'] = graphs.canon(root) == before
  try:
    obs['retry_same_as_fresh'] = fdl.build(root) == fdl.build(snapshot)
  except Exception as e:
    obs['retry_same_as_fresh'] = f'raised {type(e).__name__}: {e}'[:200]
  return obs


def cases(tier, r):
  for _ in range(150 if tier == 'quick' else 2500):
    yield 'species', {'species_stage': True, 'seed': r.getrandbits(48), 'fail': r.randrange(3)}
  shapes = QUICK_SHAPES if tier == 'quick' else list(SHAPES)
  n = 120 if tier == 'quick' else 1500
  for _ in range(n):
    yield 'dag', {'seed': r.getrandbits(48), 'size': r.choice([3, 5, 8]),
                  'shapes': [r.choice(shapes) for _ in range(3)], 'bad_key': r.random() < 0.15}
  for _ in range(12 if tier == 'quick' else 150):
    yield 'kworder', {'seed': r.getrandbits(48), 'size': 3, 'kworder': True,
                      'shapes': [r.choice(shapes) for _ in range(3)], 'bad_key': False}
  for _ in range(60 if tier == 'quick' else 800):
    runs = [{'nested': r.choice([0, 0, 1, 2, 3]), 'fails': r.random() < 0.4, 'unconfig': r.random() < 0.35}
            for _ in range(r.randint(1, 5))]
    yield 'guard', {'guard': True, 'runs': runs, 'seed': r.getrandbits(32)}


def make_root(case):
  r = random.Random(case['seed'])
  if case.get('kworder'):
    # two Buildables of one **kwargs callable whose keyword entries were given in different
    # orders, each entry a Buildable of its own
    f, g = graphs.node_fn(5, 0), graphs.node_fn(1, 1)
    names = ['enc', 'dec', 'head'][:r.randint(2, 3)]
    first = fdl.Config(f, **{n: fdl.Config(g, p=i) for i, n in enumerate(names)})
    rev = list(reversed(names))
    r.shuffle(rev) if r.random() < 0.3 else None
    second = fdl.Config(f, **{n: fdl.Config(g, q=i) for i, n in enumerate(rev)})
    return fdl.Config(graphs.node_fn(1, 0), p=[first, second], q={'again': second})
  root = graphs.gen_graph(r, size=case['size'], positional=True)
  if case.get('bad_key'):
    # a dict key on the path whose repr() raises: formatting the diagnostic itself fails
    root = {BadRepr(): root, 'ok': 1}
  return root


def _unconfig_leaf(x):
  # the sanctioned pattern: returns a configuration, which auto_unconfig builds when called
  return fdl.Config(graphs.node_fn(1, 0), p=x)


def unconfig_leaf():
  from fiddle.experimental import auto_config
  if 'fn' not in _UNCONFIG:
    _UNCONFIG['fn'] = auto_config.auto_unconfig(_unconfig_leaf)
  return _UNCONFIG['fn']


_UNCONFIG = {}


def run_guard(case):
  """Sequences of builds whose callables attempt nested builds (swallowing the rejection)."""
  obs = []
  inner = fdl.Config(graphs.node_fn(1, 0), p=1)
  for run in case['runs']:
    seen = []

    def hook(fn_name, run=run, seen=seen):
      if fn_name == 'outer_marker':
        for _ in range(run['nested']):
          try:
            fdl.build(inner)
            seen.append('built')          # nested build was NOT rejected
          except ValueError:
            seen.append('rejected')
          except Exception as e:
            seen.append(type(e).__name__)
        if run['fails']:
          raise Plain('outer fails')
    targets.HOOK['fn'] = hook
    try:
      outer = fdl.Config(targets.make_fn([['p', 'pk', True]], fn_name='outer_marker'), p=2)
      if run.get('unconfig'):
        # an auto_unconfig callable (which legitimately builds inside the build) runs first; the
        # nested attempts of `outer_marker` afterwards must still be rejected
        outer = fdl.Config(graphs.node_fn(1, 0), p=fdl.Config(unconfig_leaf(), 1), q=outer)
      try:
        fdl.build(outer)
        seen.append('built')
      except Plain:
        seen.append('failed')
      except Exception as e:
        seen.append('other:' + type(e).__name__)
    finally:
      targets.HOOK['fn'] = None
    obs.append(seen)
  return {'obs': obs, 'guard': bool(building._state.in_build)}


def execute(case):
  if case.get('species_stage'):
    return run_species(case), None
  if case.get('guard'):
    return run_guard(case), {'p': 'guard', 'runs': case['runs']}
  root = make_root(case)
  if case.get('bad_key'):
    heap, enc = None, None
  else:
    heap, enc = graphs.encode(root)
  before = graphs.canon(root)
  del targets.LOG[:]
  targets.FAIL['at'] = None
  try:
    fdl.build(root)
  except Exception as e:
    return {'skip': f'baseline build raised {type(e).__name__}'}, None
  n = len(targets.LOG)
  order = [r_.fn_name for r_ in targets.LOG]
  prepare_stale_proxy()
  runs = []
  r = random.Random(case['seed'] ^ 0xABC)
  points = list(range(n)) if n <= 8 else sorted(r.sample(range(n), 8))
  for k in points:
    shape = case['shapes'][k % len(case['shapes'])]
    make, hz = SHAPES[shape]
    del targets.LOG[:]
    targets.FAIL.update(at=k, make=make, seen=None, raised=None)
    rec = {'k': k, 'shape': shape}
    try:
      fdl.build(root)
      rec['outcome'] = 'returned'
    except BaseException as esc:
      orig = targets.FAIL['raised']
      rec['outcome'] = 'raised'
      rec['is_instance'] = isinstance(esc, type(orig))
      rec['is_original'] = esc is orig
      try:
        rec['prefix'] = str(esc).startswith(str(orig))
      except Exception:
        rec['prefix'] = False
      # the context of THIS failure is the last one in the message
      ms = list(re.finditer(r' at <root>(.*?) with positional arguments: ', str(esc), flags=re.S)) \
          if esc is not orig else []
      if shape == 'stale_proxy' and len(ms) < 2:
        ms = []                  # only the stale context: this failure was not annotated
      m = ms[-1] if ms else None
      rec['decorated'] = m is not None
      if m is not None:
        try:
          path = daglish.follow_path  # noqa
          from fiddle._src import daglish_extensions
          target = daglish.follow_path(root, daglish_extensions.parse_path(m.group(1)))
          rec['path_ok'] = isinstance(target, fdl.Buildable) and \
              graphs.callable_name(target.__fn_or_cls__) == targets.FAIL['seen'][0]
          rec['path_node'] = enc.ids.get(id(target), -1) if enc else None
          rec['path'] = m.group(1)
        except Exception as e:
          rec['path_ok'] = False
          rec['path_err'] = type(e).__name__
    finally:
      targets.FAIL['at'] = None
    rec['invocations_after_failure'] = len(targets.LOG) - k
    rec['log'] = [r_.fn_name for r_ in targets.LOG]
    rec['guard_after'] = bool(building._state.in_build)
    rec['config_unchanged'] = graphs.canon(root) == before
    # the next build in this thread works normally
    del targets.LOG[:]
    try:
      res = fdl.build(root)
      rec['next_build'] = [r_.fn_name for r_ in targets.LOG] == order
    except Exception as e:
      rec['next_build'] = f'raised {type(e).__name__}'
    rec['hazards'] = dict(hz, message_ok=not case.get('bad_key'))
    runs.append(rec)
  obs = {'order': order, 'runs': runs}
  if heap is None:
    return obs, None
  obs['fn_of'] = {i: o.get('fn') for i, o in enumerate(heap['objs']) if o['k'] == 'cfg'}
  # model: first the failure-free order, then one request per crash point (sent by compare)
  obs['heap'] = heap
  return obs, {'p': 'graph', 'objs': heap['objs'], 'root': heap['root'], 'q': ['build']}


_drv = {}


def compare(real, model):
  if model is None or 'skip' in real:
    return []
  if 'obs' in real and 'guard' in real:      # guard script
    diffs = []
    if real['obs'] != model['obs']:
      diffs.append(('guard', 'obs', real['obs'], model['obs']))
    if real['guard'] != model['guard']:
      diffs.append(('guard', 'flag', real['guard'], model['guard']))
    return diffs
  diffs = []
  mb = model['build']
  if 'err' in mb:
    return [('build', 'baseline', 'ok', mb)]
  mlog = mb['log']
  if [real['fn_of'].get(i) for i in mlog] != real['order']:
    return [('build', 'order', real['order'], [real['fn_of'].get(i) for i in mlog])]
  if 'drv' not in _drv:
    _drv['drv'] = common.Driver()
  heap = real['heap']
  for rec in real['runs']:
    k = rec['k']
    resp = _drv['drv'].ask({'p': 'graph', 'objs': heap['objs'], 'root': heap['root'], 'q': ['build'],
                            'fails': [mlog[k]]})['build']
    if resp.get('err') != 'call':
      diffs.append((f'crash{k}', 'outcome', rec['outcome'], resp))
      continue
    if rec['outcome'] != 'raised':
      diffs.append((f'crash{k}', 'outcome', rec['outcome'], 'raised'))
      continue
    if [real['fn_of'].get(i) for i in resp['log']] != rec['log']:
      diffs.append((f'crash{k}', 'log', rec['log'], resp['log']))
    dec = _drv['drv'].ask(dict(rec['hazards'], p='decorate'))['decorated']
    if dec != rec['decorated']:
      diffs.append((f'crash{k}', 'decorated', rec['decorated'], dec))
    if rec['decorated'] and rec.get('path_node') is not None and rec['path_node'] != resp['node']:
      diffs.append((f'crash{k}', 'path', [rec.get('path'), rec['path_node']], resp['node']))
  return diffs


def oracle(case, real):
  if 'skip' in real:
    return None
  if real.get('species_stage'):
    checks = [('outcome', 'raised', 'the failure did not escape fdl.build'),
              ('is_instance', True, "escaping exception is not an instance of the original exception's class"),
              ('prefix', True, 'escaping message does not begin with the original message'),
              ('path_named', True, 'the message does not name the path of the failing Buildable'),
              ('guard_after', False, 'build guard left set after a failing build'),
              ('config_unchanged', True, 'the configuration was modified by the failing build'),
              ('retry_same_as_fresh', True, 'the next build differs from a build of a copy taken before the failure')]
    for key, want, what in checks:
      if real.get(key) != want:
        return {'what': what, 'observed': {k: v for k, v in real.items() if k != 'species_stage'}}
    return None
  if 'obs' in real and 'guard' in real:
    for run, seen in zip(case['runs'], real['obs']):
      if seen[:-1] != ['rejected'] * run['nested']:
        return {'what': 'a nested fdl.build was not rejected', 'observed': seen}
      if seen[-1] != ('failed' if run['fails'] else 'built'):
        return {'what': 'outer build outcome wrong after nested attempts', 'observed': seen}
    if real['guard']:
      return {'what': 'build guard left set after the builds'}
    return None
  for rec in real['runs']:
    k = rec['k']
    if rec['outcome'] != 'raised':
      return {'what': 'the failure did not escape fdl.build', 'crash_point': k}
    if not rec['is_instance']:
      return {'what': "escaping exception is not an instance of the original exception's class", 'rec': rec}
    if not rec['prefix']:
      return {'what': 'escaping message does not begin with the original message', 'rec': rec}
    if rec['decorated'] and not rec.get('path_ok'):
      return {'what': 'the named path does not lead to the failing Buildable', 'rec': rec}
    hz = rec['hazards']
    if hz['is_exception'] and hz['subclassable'] and hz['message_ok'] and not rec['decorated']:
      return {'what': 'no Fiddle context / path in the message of a decoratable exception', 'rec': rec}
    if rec['invocations_after_failure'] != 0:
      return {'what': 'a callable was invoked after the failing one', 'rec': rec}
    if rec['guard_after']:
      return {'what': 'build guard left set after a failing build', 'rec': rec}
    if not rec['config_unchanged']:
      return {'what': 'the configuration was modified by the failing build', 'rec': rec}
    if rec['next_build'] is not True:
      return {'what': 'the next fdl.build in the thread does not work normally', 'rec': rec}
  return None


def nontrivial(case, real):
  if 'skip' in real:
    return None
  if real.get('species_stage'):
    return ('species', tuple(real['species']), real['fail'])
  if 'guard' in real and 'obs' in real:
    return ('guard', json.dumps(case['runs']))
  return ('dag', case['seed'], len(real['runs']))


def run(tier):
  code = family.run_check(
      'C05', tier, lean_module='C05', cases=cases, execute=execute, compare=compare,
      oracle=oracle, nontrivial=nontrivial, widen=None,
      time_budget=150 if tier == 'quick' else 1500,
      extra_coverage={'rule': 'random DAGs; every invocation index (up to 8 per DAG) as the crash '
                      'point, exception shapes: plain, custom __init__, __str__ override, __slots__, '
                      'BaseException subclass, unsubclassable class, KeyError subclass, three distinct '
                      'classes sharing module and qualname; a dict key on the path whose repr raises '
                      '(diagnostic formatting fails); sequences of builds whose callables attempt '
                      '0-3 nested builds and swallow the rejection. Non-trivial = every DAG case with a '
                      'successful baseline build and every guard script; distinct by seed / script.'},
      level_note=["Python's class machinery is abstracted in the model (Errors.decorate)"])
  if 'drv' in _drv:
    _drv['drv'].close()
  return code


def replay(path):
  data = json.load(open(path if os.path.isabs(path) else os.path.join(common.ROOT, path)))
  real, req = execute(data['case'])
  fail = oracle(data['case'], real)
  print(json.dumps({'oracle': fail}, indent=1, default=str)[:3000])
  return 1 if fail else 0
