"""C17 — read-only and copy-returning APIs never modify their input."""
from __future__ import annotations

import copy
import io
import json
import os
import random

import fiddle as fdl
from fiddle import daglish, selectors
from fiddle._src import diffing, graphviz, printing, tagging
from fiddle._src import materialize  # noqa: F401
from fiddle._src.codegen import legacy_codegen, new_codegen
from fiddle._src.codegen.auto_config import experimental_top_level_api
from fiddle._src.debug import grep as grep_lib
from fiddle._src.experimental import serialization, transform, visualize
from fiddle._src.validation import baseline_style, check_types, no_custom_objects

from harness import common, family, graphs, targets
from harness.props import C15


class Mutating:
  """A callable whose instances edit the containers they receive in place (a read-only API must
  hand callables their own containers, not the configuration's)."""

  def __init__(self, tokens=(), options=None):
    if isinstance(tokens, list):
      tokens.append('<eos>')
      tokens.sort(key=repr)
    if isinstance(options, dict):
      options['seen'] = True
    self.tokens, self.options = tokens, options


def immutable_init(scale=1.0, axes=(), name='u'):
  return ('init', scale, axes, name)


try:
  from fiddle._src import daglish_extensions as _dx
  _dx.register_function_with_immutable_return_value(immutable_init)
except Exception:
  pass


def _other(root):
  c = copy.deepcopy(root)
  for n in C15.reachable_buildables(c)[:2]:
    for k in list(n.__arguments__)[:1]:
      if isinstance(k, str):
        try:
          setattr(n, k, 'changed')
        except Exception:
          pass
  return c


def apis():
  """name -> function(config). Each is documented as read-only or as returning a new / copied
  configuration."""
  T = targets.T1
  return {
      'build': lambda c: fdl.build(c),
      'repr': lambda c: repr(c),
      'str': lambda c: str(c),
      'as_str_flattened': lambda c: printing.as_str_flattened(c),
      'as_str_flattened_types': lambda c: printing.as_str_flattened(c, include_types=False),
      'as_dict_flattened': lambda c: printing.as_dict_flattened(c),
      'history_per_leaf_parameter': lambda c: printing.history_per_leaf_parameter(c),
      'graphviz_render': lambda c: graphviz.render(c),
      'graphviz_render_diff': lambda c: graphviz.render_diff(old=c, new=_other(c)),
      'graphviz_render_max_str': lambda c: graphviz.render(c, max_str_length=5),
      'graphviz_render_diff_trim': lambda c: graphviz.render_diff(old=c, new=_other(c), trim=True),
      'graphviz_render_diff_trim_equal': lambda c: graphviz.render_diff(old=c, new=copy.deepcopy(c), trim=True),
      'graphviz_render_diff_trim_self': lambda c: graphviz.render_diff(old=c, new=c, trim=True),
      'dump_json': lambda c: serialization.dump_json(c),
      'dump_json_pyref': lambda c: serialization.dump_json(c, pyref_policy=None),
      'build_diff_old': lambda c: diffing.build_diff(c, _other(c)),
      'build_diff_new': lambda c: diffing.build_diff(_other(c), c),
      'build_diff_self': lambda c: diffing.build_diff(c, c),
      'align_heuristically': lambda c: diffing.align_heuristically(c, _other(c)),
      'apply_diff_keeps_new': lambda c: diffing.apply_diff(diffing.build_diff(_other(c), c), _other(c)),
      'skeleton_from_diff': lambda c: diffing.skeleton_from_diff(diffing.build_diff(c, _other(c))),
      'check_types': lambda c: check_types.get_type_errors(c),
      'no_custom_objects': lambda c: no_custom_objects.get_config_errors(c),
      'baseline_style': lambda c: baseline_style.check_baseline_style(c),
      'new_codegen': lambda c: new_codegen.new_codegen(c),
      'new_codegen_history': lambda c: new_codegen.new_codegen(c, include_history=True, max_expression_complexity=2),
      'auto_config_codegen': lambda c: experimental_top_level_api.auto_config_codegen(c),
      'legacy_codegen': lambda c: legacy_codegen.codegen_dot_syntax(c).lines(),
      'select_iter': lambda c: list(selectors.select(c, graphs.node_fn(1, 0), check_nonempty=False)),
      'select_get': lambda c: list(selectors.select(c, graphs.node_fn(1, 0), check_nonempty=False).get('p')),
      'select_tag_iter': lambda c: list(selectors.select(c, tag=T, check_nonempty=False)),
      'grep': lambda c: grep_lib.grep(c, 'p|q', output_fn=lambda *_: None),
      'cast': lambda c: fdl.cast(fdl.Partial, c),
      'cast_same': lambda c: edit(fdl.cast(type(c), c)),
      'copy_with': lambda c: edit(fdl.copy_with(c)),
      'copy_with_tagged': lambda c: fdl.copy_with(c, **first_kw(c, T.new(5))),
      'deepcopy_with': lambda c: edit(fdl.deepcopy_with(c), deep=True),
      'copy': lambda c: edit(copy.copy(c)),
      'materialize_tags': lambda c: tagging.materialize_tags(c),
      'materialize_tags_some': lambda c: tagging.materialize_tags(c, tags={targets.T0, targets.T1, targets.T3}),
      'materialize_tags_clear': lambda c: tagging.materialize_tags(c, clear_field_tags=True),
      'list_tags': lambda c: tagging.list_tags(c, add_superclasses=True),
      'clear_argument_history': lambda c: serialization.clear_argument_history(c),
      'clear_argument_history_edited': lambda c: edit(serialization.clear_argument_history(c), deep=True),
      'trim_long_fields': lambda c: visualize.trim_long_fields(c, threshold=5),
      'trim_fields_to': lambda c: visualize.trim_fields_to(c, [k for k in c.__arguments__ if isinstance(k, str)][:1]),
      'trim_fields_to_by_id': lambda c: visualize.trim_fields_to(
          c, fields_by_config_id={id(n): [k for k in n.__arguments__ if isinstance(k, str)][:1]
                                  for n in C15.reachable_buildables(c)[:3]}),
      'trimmed': lambda c: visualize.trimmed(c, C15.reachable_buildables(c)[1:2]),
      'with_defaults_trimmed': lambda c: visualize.with_defaults_trimmed(c),
      'with_defaults_trimmed_deep': lambda c: visualize.with_defaults_trimmed(c, remove_deep_defaults=True),
      'depth_over': lambda c: visualize.depth_over(c, 1),
      'structure': lambda c: visualize.structure(c),
      'unintern_tuples_of_literals': lambda c: transform.unintern_tuples_of_literals(c),
      'replace_unconfigured_partials': lambda c: transform.replace_unconfigured_partials_with_callables(c),
      'iterate': lambda c: list(daglish.iterate(c)),
      'collect_paths_by_id': lambda c: daglish.collect_paths_by_id(c, memoizable_only=True),
      'identity_traversal': lambda c: daglish.MemoizedTraversal.run(lambda v, s: s.map_children(v), c),
      'eq': lambda c: c == copy.deepcopy(c),
  }


def first_kw(c, v):
  names = [p[0] for p in graphs.sig_of(c) if p[1] in ('pk', 'ko')]
  tagged = [n for n in names if c.__argument_tags__.get(n)]      # prefer an argument that is tagged already
  for n in tagged + names:
    return {n: v}
  return {}


def edit(c, deep=False):
  """Edits a returned copy: arguments and tags of the top-level node (and of nested nodes for a
  deep copy)."""
  nodes = [c] + (C15.reachable_buildables(c)[1:4] if deep else [])
  for n in nodes:
    if not isinstance(n, fdl.Buildable):
      continue
    for k in list(n.__arguments__)[:2]:
      try:
        fdl.add_tag(n, k, targets.T2)
        fdl.clear_tags(n, k)
        if isinstance(k, str):
          setattr(n, k, 'edited')
      except Exception:
        pass
    for k in list(n.__argument_tags__)[:2]:
      try:
        fdl.add_tag(n, k, targets.T2)
      except Exception:
        pass
  return c


API_NAMES = sorted(apis())


def cases(tier, r):
  n = 14 if tier == 'quick' else 150
  for i in range(n):
    for name in API_NAMES:
      flavours = ['plain', 'plain', 'positional', 'long', 'mutating', 'empty_tagged', 'tagged_standalone',
                  'immutable_return']
      if name.startswith(('trim', 'graphviz', 'with_defaults', 'depth', 'structure')):
        flavours = ['plain', 'positional', 'positional', 'long', 'mutating', 'mutating', 'empty_tagged',
                    'tagged_standalone']
      yield 'api', {'seed': r.getrandbits(48), 'size': r.choice([3, 5, 8]), 'api': name,
                    'flavour': r.choice(flavours)}
  for i, name in enumerate(n_ for n_ in API_NAMES if n_.startswith(('trim', 'graphviz', 'with_defaults', 'printing', 'codegen'))):
    yield 'api', {'seed': 1000 + i, 'size': 3, 'api': name, 'flavour': 'edge_strings'}


def make_root(case):
  r = random.Random(case['seed'])
  fl = case['flavour']
  leaf_values = [1, 2, 's', None, (1, 's'), 2.5, 'x' * 40, 'a fairly long string value ' * 3]
  root = graphs.gen_graph(r, size=case['size'], positional=(fl == 'positional'), tags=True, custom=False,
                          leaf_values=leaf_values, buildable_types=(fdl.Config, fdl.Config, fdl.Partial))
  if not isinstance(root, fdl.Buildable):
    root = fdl.Config(graphs.node_fn(1, 0), p=root)
  if fl == 'mutating':
    root = fdl.Config(graphs.node_fn(1, 0), p=root,
                      q=fdl.Config(Mutating, tokens=['b', 'a'], options={'lowercase': True}),
                      r=[[], {}, ['z']])
  if fl == 'empty_tagged':
    # an argument-less sub-config that still carries tags
    sub = fdl.Config(graphs.node_fn(1, 1))
    fdl.add_tag(sub, 'q', targets.T1)
    fdl.add_tag(sub, 'p', targets.T0)
    root = fdl.Config(graphs.node_fn(1, 0), p=root, q=sub, r=[sub, [], {}])
    fdl.add_tag(root, 'q', targets.T3)
  if fl == 'tagged_standalone':
    # stand-alone TaggedValues (filled and unfilled) kept inside containers: real nodes of the
    # configuration, with arguments of their own
    tvs = [targets.T1.new(0.1), targets.T0.new(), fdl.TaggedValue(tags=[targets.T2, targets.T3], default=[1])]
    root = fdl.Config(graphs.node_fn(1, 0), p=root, q=[tvs[0], tvs[1], {'k': tvs[2]}], r=(tvs[0],))
  if fl == 'immutable_return':
    # a callable registered as returning an immutable value (as the JAX extension does for
    # initializers): its sub-configurations are still mutable Buildables
    inner = fdl.Config(immutable_init, scale=0.5, axes=(0,))
    fdl.add_tag(inner, 'scale', targets.T1)
    root = fdl.Config(graphs.node_fn(1, 0), p=root, q=inner, r=[inner, fdl.Partial(immutable_init, scale=2)])
  if fl == 'edge_strings':
    # leaves whose repr is longer than their str (quotes, escapes, paths) by just enough to straddle
    # the trimming threshold (5): a helper that decides "nothing to trim" on one of the two lengths and
    # trims by the other writes into its input
    import pathlib
    inner = fdl.Config(graphs.node_fn(1, 1), p='abcd', q='abcde', r='a\tb')
    root = fdl.Config(graphs.node_fn(1, 0), p=root, q=inner, r=[inner, fdl.Config(graphs.node_fn(1, 2), p='abc', q=pathlib.PurePosixPath('a/b'))])
    root = fdl.Config(graphs.node_fn(1, 0), p=root, q='wxyz', r="it's")
  # the top-level node carries tags of its own in every flavour: a shallow copy that shares the
  # per-argument tag sets, or a copy-returning API that tags through to its input, must show
  for k in list(root.__arguments__)[:3]:
    if isinstance(k, str) and r.random() < 0.6:
      fdl.add_tag(root, k, r.choice(targets.TAGS))
  return root


def snapshot(root):
  """Canonical form incl. tags plus the identities of all mutable parts."""
  ids = []
  tag_state = []
  for v, p in daglish.iterate(root, memoized=False):
    if isinstance(v, fdl.Buildable):
      ids.append((daglish.path_str(p), id(v), id(v.__arguments__), id(v.__argument_tags__),
                  tuple(sorted((repr(k), id(ts)) for k, ts in v.__argument_tags__.items() if ts)),
                  tuple((repr(k), id(x)) for k, x in v.__arguments__.items())))
      tag_state.append((daglish.path_str(p), sorted((repr(k), sorted(map(str, ts)))
                                                   for k, ts in v.__argument_tags__.items() if ts)))
    elif isinstance(v, (list, dict)):
      ids.append((daglish.path_str(p), id(v), len(v)))
  return {'canon': graphs.canon(root), 'ids': ids, 'tags': tag_state}


def _encode(root):
  from harness.props import C07
  req, enc = graphs.encode(root, with_defaults=False)
  return req, enc, [C07.project_obj(o) for o in req['objs']]


def execute(case):
  root = make_root(case)
  before = snapshot(root)
  obs = {'api': case['api']}
  try:
    req, enc, _ = _encode(root)
    req.update({'p': 'graph', 'q': ['heap']})
    ids_before = [id(x) for x in enc.keep]
  except Exception:
    req = None
  try:
    apis()[case['api']](root)
    obs['outcome'] = 'returned'
  except Exception as e:
    obs['outcome'] = f'raised {type(e).__name__}'
  after = snapshot(root)
  obs['unchanged'] = before == after
  if not obs['unchanged']:
    obs['changed'] = [k for k in before if before[k] != after[k]]
  if req is not None:
    try:
      _, enc_after, proj = _encode(root)
      obs['m_after'] = proj
      obs['m_same_objects'] = [id(x) for x in enc_after.keep] == ids_before
    except Exception as e:
      obs['m_after'] = f'encoding raised {type(e).__name__}'
  return obs, req


def compare(real, model):
  if model is None or 'm_after' not in real:
    return []
  diffs = []
  if real['m_after'] != model.get('heap'):
    diffs.append((f"{real['api']}: heap of the input after the call vs applyEffect (unchanged)",
                  real['m_after'], model.get('heap')))
  elif not real.get('m_same_objects'):
    diffs.append((f"{real['api']}: objects of the input were replaced by equal new ones", 'identities differ', 'same'))
  return diffs


def oracle(case, real):
  if not real['unchanged']:
    return {'what': f"{real['api']} modified the configuration passed to it", 'changed': real['changed'],
            'outcome': real['outcome']}
  return None


def nontrivial(case, real):
  return (case['api'], case['seed']) if real['outcome'] == 'returned' else None


def run(tier):
  return family.run_check(
      'C17', tier, lean_module='C17', cases=cases, execute=execute, compare=compare,
      oracle=oracle, nontrivial=nontrivial, widen=None, floor_nontrivial=0.3,
      time_budget=200 if tier == 'quick' else 1500,
      extra_coverage={'rule': f'{len(API_NAMES)} entry points ({", ".join(API_NAMES)}) x random '
                      'configurations in six flavours (plain, positional arguments, long values, a callable '
                      'that edits its container arguments in place, argument-less tagged sub-configs, empty '
                      'containers), with shared nodes and tags; copies returned by copy-returning APIs are '
                      'edited (arguments and tags, nested nodes for deep copies). Before/after: canonical '
                      'form incl. tags, identities of every Buildable, argument dict, tag dict, tag set, '
                      'list and dict. Non-trivial = the API returned; distinct by (api, seed).'},
      level_note=['APIs that raise on a configuration (e.g. positional arguments unsupported) must still '
                  'leave it unchanged'])


def replay(path):
  data = json.load(open(path if os.path.isabs(path) else os.path.join(common.ROOT, path)))
  real, _ = execute(data['case'])
  fail = oracle(data['case'], real)
  print(json.dumps({'oracle': fail, 'observed': real}, indent=1, default=str)[:3000])
  return 1 if fail else 0
