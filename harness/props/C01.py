"""C01 — build(Config(f, ...)) calls f with exactly the configured arguments."""
from __future__ import annotations

import json
import os

import fiddle as fdl

from harness import argstore, common, family, targets

FIELDS = ['view', 'oa', 'build']
SPECIES = ['function', 'class', 'classmethod', 'callable_instance', 'partial', 'unhashable_instance']


def corpus():
  p = os.path.join(common.ROOT, 'corpus', 'C01.jsonl')
  if os.path.exists(p):
    for line in open(p):
      if line.strip():
        yield json.loads(line)


def subsets_cases(sig, r, fresh):
  """Every subset of parameters set, through the constructor where Python allows it and by
  edits otherwise; plus a *args tail of length 0..2."""
  named = [p for p in sig if p[1] in ('po', 'pk', 'ko')]
  pos = [p for p in sig if p[1] in ('po', 'pk')]
  has_vp = any(p[1] == 'vp' for p in sig)
  has_vk = any(p[1] == 'vk' for p in sig)
  for mask in range(2 ** len(named)):
    chosen = [p for i, p in enumerate(named) if mask >> i & 1]
    ops = []
    for p in chosen:
      v = fresh.val(r, sig)
      if p[1] == 'po':
        ops.append(['setitem', pos.index(p), v])
      elif r.random() < 0.5 and p[1] == 'pk':
        ops.append(['setitem', pos.index(p), v])
      else:
        ops.append(['setattr', p[0], v])
    r.shuffle(ops)
    for nvar in ((0, 1, 2) if has_vp else (0,)):
      o = list(ops)
      if nvar:
        o.append(['setslice', ['V', None, None], [fresh.val(r, sig) for _ in range(nvar)]])
      if has_vk and r.random() < 0.5:
        o.append(['setattr', 'x', fresh.val(r, sig)])
      yield {'p': 'argstore', 'sig': sig, 'args': [], 'kwargs': [], 'ops': o,
             'species': r.choice(SPECIES)}


# ----------------------------------------------------------------------------------------
# callables whose defaults have identity (sentinels, mutable registries): whatever was done to the
# Config before the build - deep copies included - an unset parameter receives the callable's OWN
# default object

_S_HOOK, _S_A, _S_B, _S_C, _S_K = object(), object(), object(), object(), object()
_REG = {}
_OWN = {'hook': _S_HOOK, 'a': _S_A, 'b': _S_B, 'c': _S_C, 'k': _S_K, 'reg': _REG}


def _report(**named):
  return {n: ('own-default' if v is _OWN.get(n) else ('foreign-object' if type(v) in (object, dict) else v))
          for n, v in named.items()}


def idf_stage(name, hook=_S_HOOK, *inputs):
  return dict(_report(name=name, hook=hook), var=list(inputs))


def idf_register(name, reg=_REG, /, *aliases):
  return dict(_report(name=name, reg=reg), var=list(aliases))


def idf_mixed(a=_S_A, b=_S_B, /, c=_S_C, *rest, k=_S_K):
  return dict(_report(a=a, b=b, c=c, k=k), var=list(rest))


IDF = {'stage': (idf_stage, ['name', 'hook'], ['hook']),
       'register': (idf_register, ['name', 'reg'], ['reg']),
       'mixed': (idf_mixed, ['a', 'b', 'c'], ['a', 'b', 'c', 'k'])}


def run_identity_defaults(case):
  import copy
  import pickle
  r = __import__('random').Random(case['seed'])
  fn, positional, defaulted = IDF[case['fn']]
  n_pos = r.randint(0, len(positional))
  args = [r.randint(1, 9) for _ in range(n_pos)]
  cfg = fdl.Config(fn, *args)
  if r.random() < 0.8:
    cfg[fdl.VARARGS:] = [r.randint(10, 19) for _ in range(r.randint(1, 3))]
  for n in defaulted:
    if r.random() < 0.5:
      try:
        delattr(cfg, n)
      except Exception:
        pass
  if case['fn'] == 'mixed' and r.random() < 0.3:
    cfg.k = 5
  how = case['how']
  made = {'none': lambda c: c, 'deepcopy': copy.deepcopy, 'deepcopy_with': fdl.deepcopy_with,
          'copy': copy.copy, 'copy_with': fdl.copy_with,
          'pickle': lambda c: pickle.loads(pickle.dumps(c)),
          'deepcopy_twice': lambda c: copy.deepcopy(copy.deepcopy(c))}[how](cfg)
  obs = {'identity_defaults': True, 'how': how, 'cfg': repr(cfg)}
  # the direct call with what the Config reports (trailing unset positional slots left out)
  view = list(made[:])
  while view and view[-1] is fdl.NO_VALUE:
    view.pop()
  kw = {k: v for k, v in made.__arguments__.items() if isinstance(k, str) and k == 'k'}
  try:
    if any(v is fdl.NO_VALUE for v in view):
      raise TypeError('gap')
    obs['direct'] = fn(*view, **kw)
  except TypeError:
    obs['direct'] = 'err'
  try:
    obs['built'] = fdl.build(made)
  except Exception:
    obs['built'] = 'err'
  return obs, None


class _Scaler:
  def __init__(self, k):
    self.k = k

  def apply(self, x, y=4, *rest, z=0):
    return ('apply', self.k, x, y, list(rest), z)

  @classmethod
  def make(cls, x, y=4):
    return ('make', cls.__name__, x, y)

  @staticmethod
  def stat(x, y=4):
    return ('stat', x, y)


def run_method_forms(case):
  """One function configured through several of its forms in one process, in a given order: the plain
  function (instance passed explicitly), bound methods of two instances, the classmethod and its
  underlying function, a static method. Each build equals its own direct call."""
  s1, s2 = _Scaler(2), _Scaler(3)
  forms = {
      'unbound': (lambda: fdl.Config(_Scaler.apply, s1, 3), lambda: _Scaler.apply(s1, 3)),
      'bound': (lambda: fdl.Config(s1.apply, 3), lambda: s1.apply(3)),
      'bound_kw': (lambda: fdl.Config(s2.apply, 5, y=6, z=7), lambda: s2.apply(5, y=6, z=7)),
      'bound_var': (lambda: fdl.Config(s2.apply, 5, 6, 7, 8), lambda: s2.apply(5, 6, 7, 8)),
      'unbound_kw': (lambda: fdl.Config(_Scaler.apply, s2, x=1, z=9), lambda: _Scaler.apply(s2, x=1, z=9)),
      'classmethod': (lambda: fdl.Config(_Scaler.make, 1), lambda: _Scaler.make(1)),
      'class_func': (lambda: fdl.Config(_Scaler.make.__func__, _Scaler, 1, y=2), lambda: _Scaler.make.__func__(_Scaler, 1, y=2)),
      'static': (lambda: fdl.Config(_Scaler.stat, 1), lambda: _Scaler.stat(1)),
      'static_cls': (lambda: fdl.Config(s1.stat, y=1, x=2), lambda: s1.stat(y=1, x=2)),
  }
  built, direct, views = [], [], []
  for name in case['order']:
    mk, call = forms[name]
    direct.append(repr(call()))
    try:
      cfg = mk()
      views.append(repr(cfg))
      built.append(repr(fdl.build(cfg)))
    except Exception as e:
      built.append(f'raised {type(e).__name__}: {e}'[:160])
  return {'identity_defaults': True, 'how': 'forms of one function in the order ' + ' '.join(case['order']),
          'cfg': views, 'direct': direct, 'built': built}, None


METHOD_FORM_ORDERS = [
    ['unbound', 'bound', 'bound_kw', 'bound_var'], ['bound', 'unbound', 'unbound_kw', 'bound_var'],
    ['class_func', 'classmethod', 'static', 'static_cls'], ['classmethod', 'class_func', 'bound_kw', 'unbound'],
    ['bound_var', 'unbound_kw', 'static_cls', 'static', 'bound'],
]


def identity_default_cases(tier, r):
  for _ in range(150 if tier == 'quick' else 3000):
    yield 'identity_defaults', {'identity_defaults': True, 'seed': r.getrandbits(48),
                                'fn': r.choice(sorted(IDF)),
                                'how': r.choice(['none', 'deepcopy', 'deepcopy_with', 'copy', 'copy_with',
                                                 'pickle', 'deepcopy_twice'])}


def _delegated_cases(tier, r):
  """Cases of C02's check that exercise clauses this property shares with it."""
  import importlib
  mod = importlib.import_module('harness.props.C02')
  n = 0
  for tag, case in mod.cases(tier, r):
    if 'deep' not in case and not case.get('delegate'):
      n += 1
      yield 'via_C02', {'delegate': 'C02', 'case': case}
      if n >= (250 if tier == 'quick' else 4000):
        return


def cases(tier, r):
  yield from _cases(tier, r)
  yield from identity_default_cases(tier, r)
  yield from _delegated_cases(tier, r)
  for order in METHOD_FORM_ORDERS:
    yield 'method_forms', {'method_forms': True, 'order': order}


def _cases(tier, r):
  for c in corpus():
    yield 'corpus', c
  fresh = argstore.Fresh()
  for sig in argstore.all_shapes(3 if tier == 'quick' else 4):
    for c in subsets_cases(sig, r, fresh):
      yield 'subsets', c
  for _ in range(2000 if tier == 'quick' else 30000):
    sig = argstore.random_sig(r)
    fresh = argstore.Fresh()
    args, kwargs = argstore.gen_init(r, sig, fresh)
    ops = argstore.gen_ops(r, sig, fresh, r.randint(0, 6))
    if r.random() < 0.2:
      # the callable is switched for one with another signature - often over the SAME names under
      # other kinds - and the stored arguments are kept: build must still call it with exactly
      # what the Config reports, or raise
      new_sig = argstore.rekind_sig(r, sig) if r.random() < 0.7 else argstore.random_sig(r, max_named=5)
      ops = ops + [['update_callable', new_sig, r.random() < 0.4]] + \
          argstore.gen_ops(r, new_sig, fresh, r.randint(0, 3))
    case = {'p': 'argstore', 'sig': sig, 'args': args, 'kwargs': kwargs, 'ops': ops,
            'species': r.choice(SPECIES)}
    if r.random() < 0.03:
      # earlier in the same thread a build was aborted by an exception that is not an
      # `Exception` (Ctrl-C, sys.exit() inside a callable) and the program carried on
      case['prelude'] = r.choice(['KeyboardInterrupt', 'SystemExit', 'GeneratorExit'])
    yield 'random', case
  yield from nested_cases(tier, r)


def nested_cases(tier, r):
  for _ in range(400 if tier == 'quick' else 6000):
    yield 'nested', {'graph': True, 'seed': r.getrandbits(48), 'size': r.choice([3, 6, 10]),
                     'positional': True, 'nt_bias': r.choice([0.0, 0.3, 0.6])}


def widen(tier, r):
  for _ in range(20000):
    sig = argstore.random_sig(r)
    fresh = argstore.Fresh()
    args, kwargs = argstore.gen_init(r, sig, fresh)
    ops = argstore.gen_ops(r, sig, fresh, r.randint(0, 8))
    yield 'widen', {'p': 'argstore', 'sig': sig, 'args': args, 'kwargs': kwargs, 'ops': ops,
                    'species': 'function'}


def execute(case):
  if case.get('delegate'):
    import importlib
    mod = importlib.import_module('harness.props.' + case['delegate'])
    real, req = mod.execute(case['case'])
    real = dict(real)
    real['__delegate'] = case['delegate']
    return real, req
  if case.get('identity_defaults'):
    return run_identity_defaults(case)
  if case.get('method_forms'):
    return run_method_forms(case)
  if case.get('graph'):
    # nested Buildables inside lists, tuples, dicts and named tuples: compare fdl.build with
    # the direct evaluation (harness/graphs.py::ref_build); the model side is Graph.build
    from harness.props import C02
    return C02.execute(case)
  if case.get('prelude'):
    exc = {'KeyboardInterrupt': KeyboardInterrupt, 'SystemExit': SystemExit, 'GeneratorExit': GeneratorExit}[case['prelude']]

    def aborted(x=None):
      raise exc('aborted')
    try:
      fdl.build(fdl.Config(aborted, x=[fdl.Config(aborted)]))
    except BaseException:        # the program catches it and carries on
      pass
  real, cfg = argstore.run_real(case, species=case.get('species', 'function'))
  req = {k: case[k] for k in ('p', 'sig', 'args', 'kwargs', 'ops')}
  return real, req


def compare(real, model):
  if isinstance(real, dict) and real.get('__delegate'):
    import importlib
    inner = {k: v for k, v in real.items() if k != '__delegate'}
    return importlib.import_module('harness.props.' + real['__delegate']).compare(inner, model)
  if real.get('identity_defaults'):
    return []
  if 'ref_canon' in real:
    from harness.props import C02
    return C02.compare(real, model)
  return argstore.diff_fields(real, model, FIELDS)


def expected_binding(sig, state):
  """The property's right-hand side, from what the Config REPORTS: every parameter receives
  its own configured value (cfg[:] / ordered_arguments), an unset one its default; a required
  unset one means the call cannot be formed."""
  oa = {k if isinstance(k, str) else int(k): v for k, v in state['oa']}
  view = state['view']
  pos = [p for p in sig if p[1] in ('po', 'pk')]
  P = len(pos)
  slots = []
  if view == 'err' or len(view) < P:
    return {'inconsistent_reports': ['cfg[:] does not cover the non-variadic parameters', view, P]}
  for p in sig:
    if p[1] not in ('po', 'pk', 'ko'):
      continue
    key = pos.index(p) if p[1] == 'po' else p[0]
    if key in oa:
      v = oa[key]
    elif p[2]:
      v = {'d': p[0]}
    else:
      return 'err'
    if p[1] in ('po', 'pk'):
      shown = view[pos.index(p)]
      # cross-check the two reports against each other
      if shown != v:
        return {'inconsistent_reports': [p[0], shown, v]}
    slots.append([p[0], v])
  kwnames = {p[0] for p in sig if p[1] in ('pk', 'ko')}
  # **kwargs entries: in the order in which they were configured (the stored arguments), since a
  # callable may depend on keyword order (PEP 468)
  stored = state.get('args_real') or state['oa']
  kw = [[k, v] for k, v in stored if isinstance(k, str) and k not in kwnames]
  if kw and not any(p[1] == 'vk' for p in sig):
    return 'err'     # a configured name the callable cannot take as a keyword: f(**{name: v}) raises
  return {'slots': slots, 'var': view[P:], 'kw': kw}


def oracle(case, real):
  if case.get('delegate'):
    import importlib
    return importlib.import_module('harness.props.' + case['delegate']).oracle(case['case'], real)
  if real.get('identity_defaults'):
    if real['built'] != real['direct']:
      return {'what': 'build did not call the callable with what the Config reports (a parameter left '
                      'unset must receive the callable\'s own default object)',
              'config': real['cfg'], 'after': real['how'], 'direct call': real['direct'], 'build': real['built']}
    return None
  if 'ref_canon' in real:
    rb, ref = real['build'], real['ref_canon']
    if 'raised' in rb or (isinstance(ref, dict) and 'raised' in ref):
      if ('raised' in rb) != (isinstance(ref, dict) and 'raised' in ref):
        return {'what': 'build raised / did not raise unlike the direct evaluation', 'build': rb, 'ref': ref}
      return None
    if real.get('skeleton_equal') is False:
      return {'what': 'nested Buildables: built value differs from the direct evaluation',
              'built': rb['canon'], 'reference': ref}
    return None
  if real['init'] == 'err':
    return None
  sig = case['sig']
  states = [('init', real['init'], sig)]
  for i, s in enumerate(real['steps']):
    op = case['ops'][i]
    if op[0] == 'update_callable' and s['res'] == 'ok':
      sig = op[1]
    states.append((f'step{i}', s['state'], sig))
  for where, st, sig in states:
    exp = expected_binding(sig, st)
    if isinstance(exp, dict) and 'inconsistent_reports' in exp:
      return {'where': where, 'what': 'cfg[:] and ordered_arguments disagree', 'detail': exp}
    if exp != st['build']:
      return {'where': where, 'what': 'build did not call the callable with the configured arguments',
              'expected': exp, 'observed': st['build']}
  return None


def nontrivial(case, real):
  if case.get('delegate'):
    import importlib, json as _json
    k = importlib.import_module('harness.props.' + case['delegate']).nontrivial(case['case'], real)
    return None if k is None else ('via', _json.dumps(k, default=str))
  if real.get('identity_defaults'):
    return ('identity_defaults', case.get('fn'), case.get('how', real.get('how')), real['built'] == 'err')
  if 'ref_canon' in real:
    return ('nested', case['seed']) if 'raised' not in real['build'] else None
  if real['init'] == 'err':
    return None
  last = real['steps'][-1]['state'] if real['steps'] else real['init']
  shape = tuple((p[1], p[2]) for p in case['sig'])
  set_keys = tuple(sorted(str(k) for k, _ in last['oa']))
  return (shape, set_keys, last['build'] == 'err', case.get('species'))


def run(tier):
  return family.run_check(
      'C01', tier, lean_module='C01', cases=cases, execute=execute, compare=compare,
      oracle=oracle, nontrivial=nontrivial, widen=widen, normalise_model=lambda m: argstore.norm_model(m) if 'init' in m else m,
      time_budget=150 if tier == 'quick' else 1500,
      extra_coverage={'rule': 'every signature shape with <=3 (quick) / <=4 (thorough) named '
                      'parameters x every subset of parameters set (by index / attribute edits, '
                      '*args tails of length 0-2, **kwargs extras), plus seeded random '
                      'constructor calls and edit histories; five callable species (function, '
                      'class, classmethod, callable instance, functools.partial object). '
                      'Non-trivial = construction succeeded; distinct by (shape, set of '
                      'configured keys, build raised?, species). After every step the binding '
                      'received by the recording callable is compared with the binding implied '
                      'by cfg[:] + ordered_arguments.'},
      level_note=['recording callables are free constructors (every real callable is a function '
                  'of its binding)', 'nested Buildables are covered by C02/C08 traversal checks'])


def replay(path):
  data = json.load(open(path if os.path.isabs(path) else os.path.join(common.ROOT, path)))
  case = data['case']
  real, req = execute(case)
  fail = oracle(case, real)
  print(json.dumps({'oracle': fail}, indent=1, default=str))
  return 1 if fail else 0
