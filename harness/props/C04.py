"""C04 — built Partial is functools.partial; ArgFactory arguments are fresh per call."""
from __future__ import annotations

import functools
import json
import os
import random

import fiddle as fdl

from harness import common, family, graphs, targets
from harness.targets import Tok

SIGS = [
    [['p', 'pk', True], ['q', 'pk', True], ['r', 'pk', True]],
    [['p', 'pk', False], ['k', 'ko', True], ['kw', 'vk', False]],
    [['a', 'po', True], ['p', 'pk', True], ['args', 'vp', False], ['k', 'ko', True]],
    [['a', 'po', False], ['b', 'po', True], ['p', 'pk', True]],
    [['p', 'pk', True], ['args', 'vp', False], ['kw', 'vk', False]],
    # parameter names that helper functions inside the library also use for their own parameters
    [['fn', 'pk', True], ['func', 'pk', True], ['kwargs', 'ko', True]],
    [['self', 'pk', True], ['args', 'ko', True], ['cls', 'ko', True], ['kw', 'vk', False]],
]


def fn_for(i, name):
  return targets.make_fn(SIGS[i], fn_name=f'{name}{i}')


class Gen:
  def __init__(self, r):
    self.r = r
    self.n = 0

  def value(self, depth, allow_factory=True):
    r = self.r
    x = r.random()
    self.n += 1
    if depth <= 0 or x < 0.25:
      return r.choice([Tok(2000 + self.n), Tok(2000 + self.n), r.randint(0, 3), 's', None])
    if x < 0.3 and allow_factory and depth >= 1 and r.random() < 0.3:
      # several DISTINCT argument-less factories of one callable inside one container: each is
      # evaluated on its own, on every call
      f = fn_for(r.choice([0, 4, 5]), 'af')
      afs = [fdl.ArgFactory(f) for _ in range(r.randint(2, 3))]
      return r.choice([lambda: list(afs), lambda: {'a': afs[0], 'b': [afs[1]]}, lambda: (afs[0], [afs[-1]])])()
    if x < 0.4 and allow_factory:
      return self.buildable(fdl.ArgFactory, depth - 1)
    if x < 0.5:
      return self.buildable(fdl.Config, depth - 1, allow_factory=False)
    if x < 0.56:
      return self.buildable(fdl.Partial, depth - 1, allow_factory=False)
    kids = [self.value(depth - 1, allow_factory) for _ in range(r.randint(0, 3))]
    y = r.random()
    if y < 0.4:
      return kids
    if y < 0.6:
      return tuple(kids)
    if y < 0.85:
      return {f'k{i}': v for i, v in enumerate(kids)}
    return graphs.NT(self.value(depth - 1, allow_factory), self.value(depth - 1, allow_factory))

  def buildable(self, btype, depth, allow_factory=True, top=False):
    r = self.r
    i = r.randrange(len(SIGS))
    sig = SIGS[i]
    fn = fn_for(i, {'Config': 'c', 'Partial': 'pt', 'ArgFactory': 'af'}[btype.__name__] if not top else 'top')
    pos = [p for p in sig if p[1] in ('po', 'pk')]
    has_vp = any(p[1] == 'vp' for p in sig)
    full = btype is not fdl.Partial      # Config / ArgFactory callables are really called
    req_po = len([p for p in sig if p[1] == 'po' and not p[2]])
    npos = r.randint(0, len(pos) + (2 if has_vp else 0)) if r.random() < 0.5 else 0
    npos = max(npos, req_po if full else 0)
    args = [self.value(depth, allow_factory) for _ in range(npos)]
    kwargs = {}
    for p in sig:
      if p[1] == 'pk' and pos.index(p) >= npos and ((full and not p[2]) or r.random() < 0.6):
        kwargs[p[0]] = self.value(depth, allow_factory)
      elif p[1] == 'ko' and r.random() < 0.5:
        kwargs[p[0]] = self.value(depth, allow_factory)
    if any(p[1] == 'vk' for p in sig) and r.random() < 0.4:
      kwargs[r.choice(['extra', 'extra', 'fn', 'value'])] = self.value(depth, allow_factory)
    return btype(fn, *args, **kwargs)


def cases(tier, r):
  for _ in range(700 if tier == 'quick' else 12000):
    yield 'partial', {'seed': r.getrandbits(48), 'depth': r.choice([1, 2, 3]), 'ncalls': 3 if tier == 'quick' else 5}
  for i in range(len(FIXED)):
    yield 'fixed', {'fixed': i}


def _fixed_nan():
  # leaves that are not equal to themselves (NaN) in literal containers NEXT TO an argument factory:
  # the containers without a factory are still handed over uncopied, on every call
  nan = float('nan')
  af = lambda: fdl.ArgFactory(fn_for(0, 'af'))
  cfg = fdl.Partial(fn_for(0, 'fx'), p=[[0.5, nan], af()], q={'a': {'n': nan, 'm': [nan]}, 'b': af()},
                    r=([nan], (nan, [1]), af()))
  return cfg, [([], {}), ([], {}), ([], {'q': Tok(3001)})]


FIXED = [_fixed_nan]


def make(case):
  if 'fixed' in case:
    return FIXED[case['fixed']]()
  r = random.Random(case['seed'])
  g = Gen(r)
  cfg = g.buildable(fdl.Partial, case['depth'], top=True)
  sig = graphs.sig_of(cfg)
  calls = []
  for _ in range(case['ncalls']):
    kw = {}
    for p in sig:
      if p[1] in ('pk', 'ko') and r.random() < 0.35:
        kw[p[0]] = Tok(3000 + r.randint(0, 999))
    args = []
    if r.random() < 0.25 and any(p[1] == 'vp' for p in sig):
      args = [Tok(3500 + r.randint(0, 99))]
    calls.append((args, kw))
  return cfg, calls


# ----------------------------------------------------------------------------------------
# encoding of the configuration for the model


class Spec:
  def __init__(self):
    self.ids = {}
    self.keep = []

  def ident(self, x):
    if id(x) not in self.ids:
      self.ids[id(x)] = len(self.ids)
      self.keep.append(x)
    return self.ids[id(x)]

  def items(self, cfg):
    return [[k, self.val(v)] for k, v in graphs.configured_args(cfg).items()]

  def val(self, x):
    if graphs.is_atom(x):
      return {'atom': graphs.atom_token(x)}
    if isinstance(x, fdl.ArgFactory):
      return {'fac': graphs.callable_name(x.__fn_or_cls__), 'sig': graphs.sig_of(x), 'items': self.items(x)}
    if isinstance(x, fdl.Partial):
      return {'leaf': self.ident(x), 'tok': 'partial'}
    if isinstance(x, fdl.Buildable):
      return {'leaf': self.ident(x), 'tok': 'built:' + graphs.callable_name(x.__fn_or_cls__)}
    kind = graphs.kind_of(x)
    if kind == 'opaque':
      return {'leaf': self.ident(x), 'tok': graphs.opaque_token(x)}
    enc = graphs.Encoder()
    return {'cont': kind, 'id': self.ident(x), 't': type(x).__name__ if kind == 'ntuple' else '',
            'ch': [[pe, self.val(v)] for pe, v in enc.children(x, kind)]}


# ----------------------------------------------------------------------------------------
# hand-written functools.partial reference


class _Factory:
  def __init__(self, fn, args, kwargs):
    self.fn, self.args, self.kwargs = fn, args, kwargs


def ref_buildtime(x, memo):
  """Build-time evaluation: nested Configs and Partials once, factories become markers."""
  if graphs.is_atom(x):
    return x
  if id(x) in memo:
    return memo[id(x)]
  if isinstance(x, fdl.Buildable):
    ca = graphs.configured_args(x)
    built = {k: ref_buildtime(v, memo) for k, v in ca.items()}
    args, kwargs = pos_kw(graphs.sig_of(x), built)
    if isinstance(x, fdl.ArgFactory):
      res = _Factory(x.__fn_or_cls__, args, kwargs)
    elif isinstance(x, fdl.Partial):
      res = functools.partial(x.__fn_or_cls__, *args, **kwargs)
    else:
      res = x.__fn_or_cls__(*args, **kwargs)
  else:
    kind = graphs.kind_of(x)
    if kind == 'list':
      res = [ref_buildtime(v, memo) for v in x]
    elif kind == 'tuple':
      res = tuple(ref_buildtime(v, memo) for v in x)
    elif kind == 'dict':
      res = {k: ref_buildtime(v, memo) for k, v in x.items()}
    elif kind == 'ntuple':
      res = type(x)(*[ref_buildtime(v, memo) for v in x])
    else:
      res = x
  memo[id(x)] = res
  return res


def pos_kw(sig, built):
  """Python forces: positional-only and *args positionally, and every positional-or-keyword
  parameter before a configured *args positionally too; everything else by keyword."""
  pos = [p for p in sig if p[1] in ('po', 'pk')]
  P = len(pos)
  var = [built[k] for k in sorted(k for k in built if isinstance(k, int) and k >= P)]
  last_po = max([i for i, p in enumerate(pos) if p[1] == 'po'] + [-1])
  # highest positional slot that must be passed positionally
  need = P if var else max([i + 1 for i, p in enumerate(pos) if p[1] == 'po' and i in built] + [0])
  args = []
  for i in range(need):
    p = pos[i]
    key = i if p[1] == 'po' else p[0]
    if key in built:
      args.append(built[key])
    elif p[2]:
      args.append(targets.Dflt(p[0]))
    else:
      raise TypeError('missing positional')
  args += var
  passed = {pos[i][0] for i in range(need) if pos[i][1] == 'pk'}
  kwargs = {k: v for k, v in built.items() if isinstance(k, str) and k not in passed}
  return args, kwargs


def has_factory(v):
  if isinstance(v, _Factory):
    return True
  if isinstance(v, (list, tuple)):
    return any(has_factory(e) for e in v)
  if isinstance(v, dict):
    return any(has_factory(e) for e in v.values())
  return False


def inst(v):
  """Call-time evaluation of one configured argument."""
  if isinstance(v, _Factory):
    return v.fn(*[inst(a) for a in v.args], **{k: inst(a) for k, a in v.kwargs.items()})
  if not has_factory(v):
    return v
  if isinstance(v, list):
    return [inst(e) for e in v]
  if graphs.is_namedtuple(v):
    return type(v)(*[inst(e) for e in v])
  if isinstance(v, tuple):
    return tuple(inst(e) for e in v)
  if isinstance(v, dict):
    return {k: inst(e) for k, e in v.items()}
  return v


# ----------------------------------------------------------------------------------------


def reachable_ids(p):
  """Objects that exist once the partial is built (everything reachable from it)."""
  out = {}

  def walk(x):
    if graphs.is_atom(x) or id(x) in out:
      return
    out[id(x)] = x
    if isinstance(x, functools.partial):
      walk(x.func)
      for a in x.args:
        walk(a)
      for a in x.keywords.values():
        walk(a)
    elif isinstance(x, (list, tuple)):
      for a in x:
        walk(a)
    elif isinstance(x, dict):
      for a in x.values():
        walk(a)
    elif isinstance(x, _Factory):
      for a in x.args:
        walk(a)
      for a in x.kwargs.values():
        walk(a)
    elif hasattr(x, 'factory') and type(x).__name__ in ('_BuiltArgFactory', 'ArgFactory'):
      walk(x.factory)
    elif hasattr(x, 'func') and type(x).__name__ == '_InvokeArgFactoryWrapper':
      walk(x.func)
  walk(p)
  return out


def canon_calls(results, buildtime):
  """Joint canonical form of the results of all calls; objects that existed at build time
  print as opaque tokens (containers: as containers with their build-time identity)."""
  seen = {}

  def go(x):
    if graphs.is_atom(x):
      return graphs.atom_token(x)
    if id(x) in seen:
      return ['^', seen[id(x)]]
    n = len(seen)
    seen[id(x)] = n
    if isinstance(x, targets.Rec):
      if id(x) in buildtime:
        return ['opaque', n, 'built:' + x.fn_name]
      return ['rec', n, x.fn_name, [[k, go(v)] for k, v in x.slots], [go(v) for v in x.var],
              [[k, go(v)] for k, v in x.kw.items()]]
    if isinstance(x, functools.partial):
      return ['opaque', n, 'partial']
    if type(x) is list:
      return ['list', n, [go(v) for v in x]]
    if type(x) is tuple:
      return ['tuple', n, [go(v) for v in x]]
    if type(x) is dict:
      return ['dict', n, [[graphs.atom_token(k), go(v)] for k, v in x.items()]]
    if graphs.is_namedtuple(x):
      return ['ntuple', n, type(x).__name__, [[k, go(v)] for k, v in x._asdict().items()]]
    return ['opaque', n, graphs.opaque_token(x)]
  seen[-1] = 0     # the enclosing list of results is object #0
  out = []
  for r_ in results:
    out.append('raised' if r_ is RAISED else go(r_))
  return out


RAISED = object()


def execute(case):
  cfg, calls = make(case)
  spec = Spec()
  req = {'p': 'partial', 'fn': graphs.callable_name(cfg.__fn_or_cls__), 'sig': graphs.sig_of(cfg),
         'items': spec.items(cfg),
         'calls': [{'args': [spec.val(a) for a in args], 'kw': [[k, spec.val(v)] for k, v in kw.items()]}
                   for args, kw in calls]}
  obs = {}
  before = graphs.canon(cfg)
  del targets.LOG[:]
  try:
    p = fdl.build(cfg)
    n_build = len(targets.LOG)
    obs['n_build'] = n_build
    bt = reachable_ids(p)
    bt.update({id(r_): r_ for r_ in targets.LOG})
    results = []
    for args, kw in calls:
      try:
        results.append(p(*args, **kw))
      except Exception:
        results.append(RAISED)
    obs['results'] = canon_calls(results, bt)
    obs['is_partial'] = isinstance(p, functools.partial)
  except Exception as e:
    obs['results'] = 'build-raised'
  obs['config_unchanged'] = graphs.canon(cfg) == before
  # reference
  try:
    memo = {}
    del targets.LOG[:]
    built = {k: ref_buildtime(v, memo) for k, v in graphs.configured_args(cfg).items()}
    obs['n_ref_build'] = len(targets.LOG)
    del targets.LOG[:]
    rargs, rkw = pos_kw(graphs.sig_of(cfg), built)
    bt2 = {}
    for v in list(memo.values()) + rargs + list(rkw.values()):
      bt2.update(reachable_ids(v))
    for m in memo.values():
      bt2[id(m)] = m
    ref_results = []
    for args, kw in calls:
      try:
        eff = {k: v for k, v in rkw.items() if k not in kw}
        ref_results.append(cfg.__fn_or_cls__(*[inst(a) for a in rargs], *args,
                                              **{k: inst(v) for k, v in eff.items()}, **kw))
      except Exception:
        ref_results.append(RAISED)
    obs['reference'] = canon_calls(ref_results, bt2)
  except Exception as e:
    obs['reference'] = 'build-raised'
  return obs, req


def compare(real, model):
  if real['results'] != model['results']:
    return [('calls', 'results', real['results'], model['results'])]
  return []


def oracle(case, real):
  if real['results'] != real['reference']:
    return {'what': 'calls of the built Partial differ from the functools.partial reference '
                    '(values, freshness of ArgFactory results, or sharing of untouched objects)',
            'observed': real['results'], 'reference': real['reference']}
  if 'n_build' in real and 'n_ref_build' in real and real['n_build'] != real['n_ref_build']:
    return {'what': 'fdl.build invoked a different number of callables than the build-time part of the '
                    'configuration has (argument factories run when the partial is called, not when it is built)',
            'invoked during build': real['n_build'], 'build-time Buildables': real['n_ref_build']}
  if real.get('is_partial') is False:
    return {'what': 'fdl.build(Partial) did not return a functools.partial'}
  if not real['config_unchanged']:
    return {'what': 'building / calling modified the configuration'}
  return None


def nontrivial(case, real):
  s = json.dumps(real['results'])
  if real['results'] == 'build-raised' or '"rec"' not in s:
    return None
  return hash(s)


def run(tier):
  return family.run_check(
      'C04', tier, lean_module='C04', cases=cases, execute=execute, compare=compare,
      oracle=oracle, nontrivial=nontrivial, widen=None,
      time_budget=150 if tier == 'quick' else 1500, floor_nontrivial=0.3,
      extra_coverage={'rule': 'random Partial configurations over five signature shapes '
                      '(positional-only, *args, keyword-only, **kwargs): arguments are opaque values, '
                      'nested Configs, inner Partials, ArgFactories (of ArgFactories, holding Configs), '
                      'and lists / tuples / dicts / named tuples of these to depth 3; 3 (quick) or 5 '
                      '(thorough) calls per built partial with overriding keyword arguments and extra '
                      'positional arguments. Non-trivial = the build succeeded and at least one call '
                      'returned; distinct by the joint canonical form of all call results (values + '
                      'identities across calls).'},
      level_note=['the same ArgFactory instance is never placed at two positions (sharing of one '
                  'factory within a call is not specified by the property)'])


def replay(path):
  data = json.load(open(path if os.path.isabs(path) else os.path.join(common.ROOT, path)))
  real, req = execute(data['case'])
  fail = oracle(data['case'], real)
  print(json.dumps({'oracle': fail}, indent=1, default=str)[:3000])
  return 1 if fail else 0
