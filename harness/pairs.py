"""(old, new) pairs of configurations for C10 / C13: unrelated pairs, pairs sharing objects by
identity, pairs related by k random edits (value change, callable swap, argument add / remove,
tag add / remove, alias created or broken, subtree moved)."""
from __future__ import annotations

import copy
import random

import fiddle as fdl
from fiddle import daglish

from harness import graphs, targets
from harness.targets import Rec


import enum as _enum


class Split(_enum.Enum):
  """Enum members used as dict keys (on the way to changed values)."""
  TRAIN = 'train'
  EVAL = 'eval'


def fa(p=None, q=1, r='d', *, k=None):
  return Rec('fa', [('p', p), ('q', q), ('r', r), ('k', k)], (), {})


def fb(p=None, q=1, s=0, **kw):
  return Rec('fb', [('p', p), ('q', q), ('s', s)], (), dict(kw))


def fc(x=None, y=None):
  return Rec('fc', [('x', x), ('y', y)], (), {})


def fd(x=None, y=None, q=1):
  """Parameters tagged through their annotations (the constructor adds those tags)."""
  return Rec('fd', [('x', x), ('y', y), ('q', q)], (), {})


import typing as _typing
fd.__annotations__ = {'x': _typing.Annotated[int, targets.T1], 'q': _typing.Annotated[int, targets.T0, targets.T2]}

import os as _os
import sys as _sys

_TOP = _os.path.join(_os.path.dirname(_os.path.abspath(__file__)), 'c13lib', 'top')
if _TOP not in _sys.path:
  _sys.path.insert(0, _TOP)
import layers as top_layers                      # a single-file top-level module ...
from harness.c13lib import layers as pkg_layers  # ... and a package module with the same last name

FNS = [fa, fb, fc, fd, pkg_layers.Dense, top_layers.Dense]
PARAMS = {fa: ['p', 'q', 'r', 'k'], fb: ['p', 'q', 's', 'extra1', 'extra2'], fc: ['x', 'y'], fd: ['x', 'y', 'q'],
          pkg_layers.Dense: ['units', 'inner'], top_layers.Dense: ['units', 'inner']}


class Gen:
  def __init__(self, r, tuples=False, custom=False):
    self.r = r
    self.tuples = tuples
    self.custom = custom
    self.pool = []

  def leaf(self):
    return self.r.choice([0, 1, 2, 'a', 'b', None, 2.5, True, (1, 'x')])

  def value(self, depth):
    r = self.r
    if self.pool and r.random() < 0.15:
      return r.choice(self.pool)
    if depth <= 0 or r.random() < 0.3:
      return self.leaf()
    x = r.random()
    if self.custom and r.random() < 0.3:
      # a value of a user-registered node type (not one of list / tuple / dict / Buildable)
      v = graphs.Pair(self.value(depth - 1), self.leaf())
    elif x < 0.5:
      v = self.cfg(depth - 1)
    elif x < 0.72:
      v = [self.value(depth - 1) for _ in range(r.randint(0, 3))]
    elif x < 0.9:
      v = {k: self.value(depth - 1) for k in r.sample(['a', 'b', 'c', 1, Split.TRAIN, Split.EVAL], r.randint(0, 3))}
    else:
      v = tuple(self.value(depth - 1) for _ in range(r.randint(1, 2))) if self.tuples else self.leaf()
    if not graphs.is_atom(v) and not graphs.is_internable(v):
      self.pool.append(v)
    return v

  def cfg(self, depth, btype=None):
    r = self.r
    fn = r.choice(FNS)
    kw = {n: self.value(depth) for n in PARAMS[fn] if r.random() < 0.5}
    c = (btype or r.choice([fdl.Config, fdl.Config, fdl.Partial]))(fn, **kw)
    for n in list(kw)[:2]:
      if r.random() < 0.25:
        fdl.add_tag(c, n, r.choice(targets.TAGS))
    if r.random() < 0.1:
      unset = [n for n in PARAMS[fn] if n not in kw and not n.startswith('extra')]
      if unset:
        fdl.add_tag(c, r.choice(unset), r.choice(targets.TAGS))       # tag on an unset argument
    self.pool.append(c)
    return c


def buildables(root):
  return [v for v, _ in daglish.iterate(root) if isinstance(v, fdl.Buildable)]


def containers(root):
  return [v for v, _ in daglish.iterate(root) if type(v) in (list, dict)]


def edit(r, new, g):
  """One random edit of `new` in place. Returns its kind."""
  nodes = buildables(new)
  n = r.choice(nodes)
  fn = n.__fn_or_cls__
  x = r.random()
  keys = [k for k in n.__arguments__ if isinstance(k, str)]
  if x < 0.09:
    ps = [v for v, _ in daglish.iterate(new) if isinstance(v, graphs.Pair)]
    if ps:
      # a field of a custom node changes in place (the node stays where it is)
      c = r.choice(ps)
      if r.random() < 0.6:
        c.right = g.leaf()
      else:
        c.left = g.value(1)
      return 'custom'
  if x < 0.06:
    # an entry added to / removed from a container (also an EMPTY one) that stays in place
    cs = containers(new)
    if cs:
      c = r.choice(cs)
      if type(c) is dict:
        if c and r.random() < 0.3:
          del c[r.choice(list(c))]
          return 'dict-'
        c[r.choice(['n1', 'n2', 7])] = g.value(1) if r.random() < 0.3 else g.leaf()
        return 'dict+'
      if c and r.random() < 0.3:
        c.pop(r.randrange(len(c)))
        return 'list-'
      c.append(g.leaf())
      return 'list+'
  if x < 0.2 and keys:
    setattr(n, r.choice(keys), g.leaf())
    return 'value'
  if x < 0.32:
    other = r.choice([f for f in FNS if f is not fn])
    try:
      carried = dict(n.__arguments__)
      fdl.update_callable(n, other, drop_invalid_args=True)
      if other is fb:
        # every argument of the old callable is still valid (through **kw): the pair differs in
        # the callable only, whatever update_callable itself chose to keep
        for k, v in carried.items():
          if isinstance(k, str) and k not in n.__arguments__:
            setattr(n, k, v)
      # update_callable keeps tags of parameters the new callable does not have; a well-formed
      # configuration only tags parameters of its callable
      valid = set(PARAMS[other]) if other is not fb else None
      for k in list(n.__argument_tags__):
        if valid is not None and k not in valid:
          del n.__argument_tags__[k]
      return 'callable'
    except Exception:
      return 'noop'
  if x < 0.45:
    free = [p for p in PARAMS[fn] if p not in n.__arguments__]
    if free:
      setattr(n, r.choice(free), g.value(1))
      return 'add'
  if x < 0.55 and keys:
    delattr(n, r.choice(keys))
    return 'remove'
  if x < 0.65:
    names = [p for p in PARAMS[fn] if not p.startswith('extra')] + keys
    fdl.add_tag(n, r.choice(names), r.choice(targets.TAGS))
    return 'tag+'
  if x < 0.72:
    tagged = [k for k, ts in n.__argument_tags__.items() if ts]
    if tagged:
      k = r.choice(tagged)
      fdl.remove_tag(n, k, next(iter(n.__argument_tags__[k])))
      return 'tag-'
  if x < 0.82 and keys:
    # alias created: point an argument at an object that exists elsewhere
    others = [v for v in buildables(new) + containers(new) if v is not n and not reaches(v, n)]
    if others:
      setattr(n, r.choice(keys), r.choice(others))
      return 'alias+'
  if x < 0.9 and keys:
    k = r.choice(keys)
    v = n.__arguments__[k]
    if not graphs.is_atom(v):
      setattr(n, k, copy.deepcopy(v))          # alias broken / subtree replaced by an equal copy
      return 'alias-'
  if keys and len(nodes) > 1:
    # subtree moved: take a value from one node to another
    m = r.choice([b for b in nodes if b is not n])
    k = r.choice(keys)
    v = n.__arguments__[k]
    free = [p for p in PARAMS[m.__fn_or_cls__] if p not in m.__arguments__]
    if free and not (isinstance(v, (fdl.Buildable, list, dict)) and reaches(v, m)):
      delattr(n, k)
      setattr(m, r.choice(free), v)
      return 'move'
  for c in containers(new):
    if type(c) is list:
      c.append(g.leaf())
      return 'list+'
  return 'noop'


def reaches(a, b):
  return any(v is b for v, _ in daglish.iterate(a))


def make_pair(seed, depth=2, n_edits=3, flavour='edits', tuples=False, custom=False):
  r = random.Random(seed)
  g = Gen(r, tuples=tuples, custom=custom)
  btype = r.choice([fdl.Config, fdl.Partial])
  old = g.cfg(depth, btype=btype)
  kinds = []
  if flavour == 'unrelated':
    g2 = Gen(r, tuples=tuples, custom=custom)
    new = g2.cfg(depth, btype=btype)
    kinds = ['unrelated']
  elif flavour == 'shared':
    # new shares objects with old by identity
    g2 = Gen(r, tuples=tuples, custom=custom)
    g2.pool = [v for v in buildables(old)[1:] + containers(old)]
    new = g2.cfg(depth, btype=btype)
    kinds = ['shared']
  elif flavour == 'deepcopy':
    new = copy.deepcopy(old)
    kinds = ['deepcopy']
  else:
    new = copy.deepcopy(old)
    for _ in range(n_edits):
      trial = copy.deepcopy(new)
      try:
        kind = edit(r, trial, g)
        graphs.encode(trial)          # raises on a cycle
      except Exception:
        continue
      new = trial
      kinds.append(kind)
    if custom and 'custom' not in kinds:
      ps = [v for v, _ in daglish.iterate(new) if isinstance(v, graphs.Pair)]
      if ps:
        c = r.choice(ps)
        c.right = ('edited', r.randint(0, 99))
        kinds.append('custom')
  return old, new, kinds
