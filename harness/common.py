"""Shared plumbing for every check: paths, seeding, Lean build + audit, driver process,
known findings, replay files, evidence writer."""
from __future__ import annotations

import fcntl
import hashlib
import json
import os
import random
import re
import subprocess
import sys
import time

ROOT = os.path.dirname(os.path.dirname(os.path.abspath(__file__)))
LEAN = os.path.join(ROOT, 'lean')
DRIVER = os.path.join(LEAN, '.lake', 'build', 'bin', 'driver')
REPO = os.environ.get('VERIF_REPO', '/repo')
EVIDENCE = os.path.join(ROOT, 'evidence')
REPLAYS = os.path.join(ROOT, 'replays')
ALLOWED_AXIOMS = {'propext', 'Classical.choice', 'Quot.sound'}
FORBIDDEN = re.compile(
    r'\b(sorry|admit|native_decide|bv_decide|implemented_by|unsafe)\b|^axiom\s|maxHeartbeats\s+0')


class Infra(Exception):
  """Infrastructure failure: exit 2, never a VIOLATION."""


def seed() -> int:
  try:
    return int(os.environ.get('VERIF_SEED', '0'))
  except ValueError:
    return 0


def rng(*salt) -> random.Random:
  h = hashlib.sha256(repr((seed(),) + salt).encode()).digest()
  return random.Random(int.from_bytes(h[:8], 'big'))


def tier(argv=None) -> str:
  argv = sys.argv if argv is None else argv
  if '--tier' in argv:
    return argv[argv.index('--tier') + 1]
  return os.environ.get('VERIF_TIER', 'quick')


# --------------------------------------------------------------------------------------
# Lean: tables, build, audit


def _strip_comments(src: str) -> str:
  src = re.sub(r'/-.*?-/', '', src, flags=re.S)
  return re.sub(r'--.*', '', src)


def grep_forbidden() -> list:
  hits = []
  for base in ('FiddleModel', 'Driver'):
    for dp, _, fns in os.walk(os.path.join(LEAN, base)):
      for fn in fns:
        if fn.endswith('.lean'):
          p = os.path.join(dp, fn)
          for i, line in enumerate(_strip_comments(open(p).read()).splitlines(), 1):
            if FORBIDDEN.search(line):
              hits.append(f'{os.path.relpath(p, LEAN)}:{i}: {line.strip()}')
  return hits


_build_cache = {}


def lean_build(prop_module: str | None = None, leanchecker: bool = False) -> dict:
  """Regenerate tables from /repo, `lake build`, audit axioms of the property module.

  Returns {'ok': bool, 'obligations': n, 'discharged': n, 'theorems': {...}, 'errors': [...],
  'tables_changed': bool}.  Never raises for a *proof* failure (that is an obligation that no
  longer checks); raises Infra when the toolchain itself is unusable.
  """
  key = (prop_module, leanchecker)
  if key in _build_cache:
    return _build_cache[key]
  os.makedirs(os.path.join(ROOT, '.locks'), exist_ok=True)
  res = {'ok': True, 'errors': [], 'theorems': {}, 'obligations': 0, 'discharged': 0}
  with open(os.path.join(ROOT, '.locks', 'lean.lock'), 'w') as lk:
    fcntl.flock(lk, fcntl.LOCK_EX)
    from harness import tables
    res['tables_changed'] = tables.regenerate()
    t0 = time.time()
    p = subprocess.run(['lake', 'build'], cwd=LEAN, stdout=subprocess.PIPE,
                       stderr=subprocess.STDOUT, text=True)
    res['build_s'] = round(time.time() - t0, 1)
    if p.returncode != 0:
      errs = [l for l in p.stdout.splitlines() if l.startswith('error:')]
      res['errors'] = errs[:20]
      res['ok'] = False
      res['build_log_tail'] = p.stdout[-3000:]
    hits = grep_forbidden()
    if hits:
      res['ok'] = False
      res['errors'] += ['forbidden construct: ' + h for h in hits]
    if prop_module:
      audit = audit_axioms(prop_module)
      res.update(audit)
      if audit['bad']:
        res['ok'] = False
        res['errors'] += [f'theorem {n} uses axioms {a}' for n, a in audit['bad'].items()]
      if audit['obligations'] == 0 or audit['obligations'] != audit['discharged']:
        res['ok'] = False
        if not res['errors']:
          res['errors'].append('property module did not elaborate')
      if leanchecker and res['ok']:
        t0 = time.time()
        q = subprocess.run(['lake', 'env', 'leanchecker', f'FiddleModel.Properties.{prop_module}'],
                           cwd=LEAN, stdout=subprocess.PIPE, stderr=subprocess.STDOUT, text=True)
        res['leanchecker_s'] = round(time.time() - t0, 1)
        res['leanchecker_rc'] = q.returncode
        if q.returncode != 0:
          res['ok'] = False
          res['errors'].append('leanchecker: ' + q.stdout[-500:])
  _build_cache[key] = res
  return res


def property_theorems(prop_module: str) -> list:
  """Names of the theorems declared in Properties/<prop_module>.lean."""
  p = os.path.join(LEAN, 'FiddleModel', 'Properties', prop_module + '.lean')
  src = _strip_comments(open(p).read())
  return re.findall(r'^\s*theorem\s+([A-Za-z0-9_.\'?!]+)', src, flags=re.M)


def audit_axioms(prop_module: str) -> dict:
  names = property_theorems(prop_module)
  ns = 'Fiddle.'
  body = [f'import FiddleModel.Properties.{prop_module}', 'open Fiddle']
  for n in names:
    body.append(f'#print axioms {ns}{n}')
  tmp = os.path.join(LEAN, '.lake', f'audit_{prop_module}.lean')
  with open(tmp, 'w') as f:
    f.write('\n'.join(body) + '\n')
  p = subprocess.run(['lake', 'env', 'lean', tmp], cwd=LEAN, stdout=subprocess.PIPE,
                     stderr=subprocess.STDOUT, text=True)
  out = p.stdout
  theorems, bad = {}, {}
  for m in re.finditer(r"'([^']+)' (does not depend on any axioms|depends on axioms: \[([^\]]*)\])", out):
    name = m.group(1)
    axs = [a.strip() for a in (m.group(3) or '').replace('\n', ' ').split(',') if a.strip()]
    theorems[name] = axs
    if not set(axs) <= ALLOWED_AXIOMS:
      bad[name] = axs
  discharged = len(theorems)
  return {'obligations': len(names), 'discharged': discharged, 'theorems': theorems, 'bad': bad,
          'audit_output_tail': out[-1500:] if discharged != len(names) else ''}


# --------------------------------------------------------------------------------------
# Driver process


class Driver:
  def __init__(self):
    if not os.path.exists(DRIVER):
      raise Infra(f'driver binary missing: {DRIVER} (lake build failed?)')
    self.p = subprocess.Popen([DRIVER], stdin=subprocess.PIPE, stdout=subprocess.PIPE, text=True,
                              bufsize=1)

  def ask(self, req: dict) -> dict:
    self.p.stdin.write(json.dumps(req) + '\n')
    self.p.stdin.flush()
    line = self.p.stdout.readline()
    if not line:
      raise Infra('driver died')
    return json.loads(line)

  def ask_many(self, reqs: list) -> list:
    """Pipelined: write everything, then read (driver flushes per line)."""
    import threading
    out = []

    def reader():
      for _ in reqs:
        line = self.p.stdout.readline()
        if not line:
          break
        out.append(json.loads(line))
    t = threading.Thread(target=reader)
    t.start()
    for r in reqs:
      self.p.stdin.write(json.dumps(r) + '\n')
    self.p.stdin.flush()
    t.join()
    if len(out) != len(reqs):
      raise Infra('driver died')
    return out

  def close(self):
    try:
      self.p.stdin.close()
      self.p.wait(timeout=5)
    except Exception:
      self.p.kill()


# --------------------------------------------------------------------------------------
# Known findings, replays, evidence


def known_findings(prop: str) -> list:
  p = os.path.join(ROOT, 'known_findings.json')
  data = json.load(open(p))
  return [e for e in data['findings'] if e['property'] == prop]


def write_replay(prop: str, payload: dict) -> str:
  os.makedirs(REPLAYS, exist_ok=True)
  h = hashlib.sha256(json.dumps(payload, sort_keys=True, default=str).encode()).hexdigest()[:12]
  path = os.path.join(REPLAYS, f'{prop}_{h}.json')
  with open(path, 'w') as f:
    json.dump(payload, f, indent=1, sort_keys=True, default=str)
  return os.path.relpath(path, ROOT)


class Report:
  """Collects the outcome of one check run and writes evidence + exit code."""

  def __init__(self, prop: str, tier_: str):
    self.prop, self.tier = prop, tier_
    self.t0 = time.time()
    self.violations = []       # (replay_path, no_input_found: bool)
    self.known = []            # strings
    self.coverage = {}
    self.assumptions = []

  def violation(self, payload: dict, no_failing_input: bool = False):
    payload = dict(payload)
    payload['property'] = self.prop
    payload['no_failing_input_found'] = no_failing_input
    path = write_replay(self.prop, payload)
    self.violations.append((path, no_failing_input))

  def known_finding(self, what: str):
    if what not in self.known:
      self.known.append(what)

  def finish(self, lean: dict, level: str = 'proof') -> int:
    cov = dict(self.coverage)
    cov.setdefault('obligations', lean.get('obligations', 0))
    cov.setdefault('discharged', lean.get('discharged', 0))
    cov.setdefault('checker_cmd', 'cd lean && lake build && lake env lean .lake/audit_<prop>.lean'
                   + (' && lake env leanchecker FiddleModel.Properties.<prop>' if self.tier == 'thorough' else ''))
    cov.setdefault('trusted_base', [
        'Lean 4.33 kernel; axioms allowed: propext, Classical.choice, Quot.sound',
        'Lean compiler/runtime for the driver executable (correspondence only)',
        'harness/*.py (generators, canonical forms, oracles), harness/tables.py',
        'CPython / stdlib behaviour modelled in the Py layer (validated differentially)'])
    cov['theorems'] = lean.get('theorems', {})
    cov['lean_errors'] = lean.get('errors', [])
    cov['known_findings_reported'] = list(self.known)
    ev = {'property_id': self.prop, 'tier': self.tier, 'seed': seed(), 'level': level,
          'coverage': cov, 'assumptions': self.assumptions,
          'wall_s': round(time.time() - self.t0, 2), 'violations': len(self.violations)}
    os.makedirs(EVIDENCE, exist_ok=True)
    with open(os.path.join(EVIDENCE, f'{self.prop}.json'), 'w') as f:
      json.dump(ev, f, indent=1, sort_keys=True, default=str)
    for k in self.known:
      print(f'KNOWN-FINDING: property={self.prop} {k}')
    for path, nof in self.violations[:5]:
      print(f'VIOLATION property={self.prop} replay={path}' + (' no-failing-input-found' if nof else ''))
    if self.violations:
      return 1
    print(f'OK property={self.prop} tier={self.tier} seed={seed()} '
          f'obligations={cov["obligations"]}/{cov["discharged"]} '
          f'evaluations={cov.get("evaluations")} wall_s={ev["wall_s"]}')
    return 0


def quiet_logging():
  """Fiddle logs (via absl) when diagnostics cannot be formatted; keep check output clean."""
  import logging
  logging.disable(logging.CRITICAL)
  try:
    from absl import logging as absl_logging
    absl_logging.set_verbosity(absl_logging.FATAL)
    absl_logging.set_stderrthreshold('fatal')
  except Exception:
    pass


quiet_logging()
