"""Translator: regenerates lean/FiddleModel/Generated/Tables.lean from /repo's CURRENT source.

Finite facts the theorems depend on are read from the source with `ast` on every run, so
that the dependent proofs are re-elaborated against what the code says now.
"""
from __future__ import annotations

import ast
import os

from harness import common

OUT = os.path.join(common.LEAN, 'FiddleModel', 'Generated', 'Tables.lean')


def _src(rel):
  return open(os.path.join(common.REPO, rel)).read()


def _parse(rel):
  return ast.parse(_src(rel))


def _find_assign(tree, name):
  for node in ast.walk(tree):
    if isinstance(node, ast.Assign):
      for t in node.targets:
        if isinstance(t, ast.Name) and t.id == name:
          return node.value
    if isinstance(node, ast.AnnAssign) and isinstance(node.target, ast.Name) and node.target.id == name:
      return node.value
  return None


def _lean_str_list(xs):
  return '[' + ', '.join('"' + x.replace('\\', '\\\\').replace('"', '\\"') + '"' for x in xs) + ']'


def immutable_noncontainer_types():
  v = _find_assign(_parse('fiddle/_src/daglish.py'), '_IMMUTABLE_NONCONTAINER_TYPES')
  return [ast.unparse(e) for e in v.elts] if isinstance(v, (ast.Tuple, ast.List)) else ['<unparsed>']


def exclude_locations():
  v = _find_assign(_parse('fiddle/_src/history.py'), '_exclude_locations')
  out = []
  if v is not None:
    for n in ast.walk(v):
      if isinstance(n, ast.Constant) and isinstance(n.value, str):
        out.append(n.value)
  return out


def apply_order():
  tree = _parse('fiddle/_src/diffing.py')
  for fn in ast.walk(tree):
    if isinstance(fn, ast.FunctionDef) and fn.name == '_apply_changes':
      for n in ast.walk(fn):
        if isinstance(n, ast.For) and isinstance(n.target, ast.Name) and n.target.id == 'op_type':
          return [ast.unparse(e) for e in n.iter.elts]
  return ['<unparsed>']


def internals_keys():
  v = _find_assign(_parse('fiddle/_src/mutate_buildable.py'), '_buildable_internals_keys')
  return [e.value for e in v.elts] if isinstance(v, (ast.Tuple, ast.List)) else ['<unparsed>']


def history_call_modules():
  """Modules (relative paths) that call History.add_* / history.new_value & co directly, or write
  __arguments__ / __argument_tags__ in place: the frames that can sit between a user's edit
  and the HistoryEntry constructor."""
  mods = []
  base = os.path.join(common.REPO, 'fiddle', '_src')
  for dp, _, fns in os.walk(base):
    for fn in sorted(fns):
      if not fn.endswith('.py') or fn.endswith('_test.py'):
        continue
      rel = os.path.relpath(os.path.join(dp, fn), common.REPO)
      try:
        tree = ast.parse(open(os.path.join(dp, fn)).read())
      except SyntaxError:
        continue
      hit = False
      for n in ast.walk(tree):
        if isinstance(n, ast.Attribute) and n.attr in (
            'add_new_value', 'add_deleted_value', 'add_updated_tags'):
          hit = True
      if hit:
        mods.append(rel)
  return sorted(mods)


def store_write_sites():
  """module:function of every site that writes a Buildable's `__arguments__` directly:
  subscript assignment / deletion, mutating dict methods, or (re)binding the attribute."""
  sites = set()
  base = os.path.join(common.REPO, 'fiddle', '_src')
  mutators = {'pop', 'popitem', 'clear', 'update', 'setdefault', '__setitem__', '__delitem__'}

  def is_args_attr(n):
    return isinstance(n, ast.Attribute) and n.attr == '__arguments__'

  for dp, _, fns in os.walk(base):
    for fn in sorted(fns):
      if not fn.endswith('.py') or fn.endswith('_test.py'):
        continue
      rel = os.path.relpath(os.path.join(dp, fn), common.REPO)
      try:
        tree = ast.parse(open(os.path.join(dp, fn)).read())
      except SyntaxError:
        continue

      def visit(node, func):
        for child in ast.iter_child_nodes(node):
          f = child.name if isinstance(child, (ast.FunctionDef, ast.AsyncFunctionDef)) else func
          hit = False
          if isinstance(child, (ast.Assign, ast.AugAssign, ast.AnnAssign)):
            targets_ = child.targets if isinstance(child, ast.Assign) else [child.target]
            for t in targets_:
              if isinstance(t, ast.Subscript) and is_args_attr(t.value):
                hit = True
              if is_args_attr(t):
                hit = True
          if isinstance(child, ast.Delete):
            for t in child.targets:
              if isinstance(t, ast.Subscript) and is_args_attr(t.value):
                hit = True
          if isinstance(child, ast.Call):
            fn_ = child.func
            if isinstance(fn_, ast.Attribute) and fn_.attr in mutators and is_args_attr(fn_.value):
              hit = True
            if isinstance(fn_, ast.Attribute) and fn_.attr == '__setattr__':
              for a in child.args:
                if isinstance(a, ast.Constant) and a.value == '__arguments__':
                  hit = True
          if hit:
            sites.add(f'{rel}:{f}')
          visit(child, f)
      visit(tree, '<module>')
  return sorted(sites)


def thread_local_classes():
  """(module, class) pairs deriving from threading.local in the C19 files."""
  out = []
  for rel in ('fiddle/_src/building.py', 'fiddle/_src/history.py', 'fiddle/_src/signatures.py',
              'fiddle/_src/reraised_exception.py', 'fiddle/_src/daglish.py'):
    for n in ast.walk(_parse(rel)):
      if isinstance(n, ast.ClassDef):
        for b in n.bases:
          if ast.unparse(b) in ('threading.local', 'local'):
            out.append(f'{rel}:{n.name}')
  return sorted(out)


def path_part_alternatives():
  """The alternatives joined into `daglish_extensions._PATH_PART` (the path grammar of C18)."""
  v = _find_assign(_parse('fiddle/_src/daglish_extensions.py'), '_PATH_PART')
  out = []
  if v is not None:
    for n in ast.walk(v):
      if isinstance(n, ast.List):
        out = [e.value for e in n.elts if isinstance(e, ast.Constant) and isinstance(e.value, str)]
        break
  return out or ['<unparsed>']


def set_value_split():
  """How `absl_flags.utils.set_value` cuts `path=value`: [method, separator, maxsplit]."""
  tree = _parse('fiddle/_src/absl_flags/utils.py')
  for fn in ast.walk(tree):
    if isinstance(fn, ast.FunctionDef) and fn.name == 'set_value':
      for n in ast.walk(fn):
        if (isinstance(n, ast.Call) and isinstance(n.func, ast.Attribute)
            and isinstance(n.func.value, ast.Name) and n.func.value.id == 'assignment'):
          args = [a.value for a in n.args if isinstance(a, ast.Constant)]
          kws = {k.arg: k.value.value for k in n.keywords if isinstance(k.value, ast.Constant)}
          sep = args[0] if args else kws.get('sep')
          maxsplit = args[1] if len(args) > 1 else kws.get('maxsplit')
          return [n.func.attr, str(sep), str(maxsplit)]
  return ['<unparsed>']


def render() -> str:
  parts = [
      '/-',
      'GENERATED by harness/tables.py from the current /repo sources. Do not edit by hand:',
      'every check run rewrites this file before `lake build`.',
      '-/',
      'namespace Fiddle.Tables',
      '',
      '/-- `daglish._IMMUTABLE_NONCONTAINER_TYPES` -/',
      f'def immutableNonContainerTypes : List String := {_lean_str_list(immutable_noncontainer_types())}',
      '',
      '/-- `history._exclude_locations` -/',
      f'def excludeLocations : List String := {_lean_str_list(exclude_locations())}',
      '',
      '/-- modules that call `History.add_*` (frames between a direct edit and the entry) -/',
      f'def historyCallModules : List String := {_lean_str_list(history_call_modules())}',
      '',
      '/-- every site that writes `__arguments__` directly (module:function) -/',
      f'def storeWriteSites : List String := {_lean_str_list(store_write_sites())}',
      '',
      '/-- the `for op_type in (...)` tuple of `diffing._apply_changes` -/',
      f'def applyOrder : List String := {_lean_str_list(apply_order())}',
      '',
      '/-- `mutate_buildable._buildable_internals_keys` -/',
      f'def internalsKeys : List String := {_lean_str_list(internals_keys())}',
      '',
      '/-- classes deriving `threading.local` in the C19 files -/',
      f'def threadLocalState : List String := {_lean_str_list(thread_local_classes())}',
      '',
      '/-- the alternatives of `daglish_extensions._PATH_PART` -/',
      f'def pathPartAlternatives : List String := {_lean_str_list(path_part_alternatives())}',
      '',
      '/-- `set_value`: method, separator and maxsplit of the call that cuts `path=value` -/',
      f'def setValueSplit : List String := {_lean_str_list(set_value_split())}',
      '',
      'end Fiddle.Tables',
      '',
  ]
  return '\n'.join(parts)


def regenerate() -> bool:
  """Rewrite Tables.lean if its content changed. Returns True if it changed."""
  new = render()
  try:
    old = open(OUT).read()
  except FileNotFoundError:
    old = None
  if old != new:
    os.makedirs(os.path.dirname(OUT), exist_ok=True)
    with open(OUT, 'w') as f:
      f.write(new)
    return True
  return False


if __name__ == '__main__':
  print(render())
