"""Deterministic line-level thread scheduler (C19).

Real `threading.Thread`s run under `sys.settrace`; exactly one thread runs at a time (baton
passing). At every 'line' event inside fiddle/_src the running thread asks `decide` whether to
hand the baton to another thread, so a schedule is a deterministic function of the global step
count. Atomicity below line granularity (C-level `next`, dict operations) is not pre-empted."""
from __future__ import annotations

import os
import sys
import threading

FIDDLE_DIR = os.sep + os.path.join('fiddle', '_src') + os.sep


class Scheduler:

  def __init__(self, programs, decide, max_steps=200000):
    self.programs = programs
    self.decide = decide                # decide(step, current, alive_list) -> thread index to run next
    self.n = len(programs)
    self.batons = [threading.Event() for _ in programs]
    self.alive = [True] * self.n
    self.results = [None] * self.n
    self.errors = [None] * self.n
    self.step = 0
    self.max_steps = max_steps
    self.trace_log = []                 # (step, thread, file:line) of switch points (bounded)
    self.lock = threading.Lock()

  def _pass(self, me, nxt):
    self.batons[nxt].set()
    self.batons[me].wait()
    self.batons[me].clear()

  def _tracer_for(self, me):
    def local(frame, event, arg):
      if event == 'line':
        self.step += 1
        if self.step < self.max_steps:
          alive = [i for i in range(self.n) if self.alive[i]]
          nxt = self.decide(self.step, me, alive)
          if nxt != me and self.alive[nxt]:
            if len(self.trace_log) < 50:
              self.trace_log.append((self.step, me, nxt, f'{os.path.basename(frame.f_code.co_filename)}:{frame.f_lineno}'))
            self._pass(me, nxt)
      return local

    def tracer(frame, event, arg):
      if event == 'call' and FIDDLE_DIR in frame.f_code.co_filename:
        return local
      return None
    return tracer

  def _thread(self, me):
    self.batons[me].wait()
    self.batons[me].clear()
    sys.settrace(self._tracer_for(me))
    try:
      self.results[me] = self.programs[me]()
    except BaseException as e:            # pylint: disable=broad-except
      self.errors[me] = e
    finally:
      sys.settrace(None)
      self.alive[me] = False
      rest = [i for i in range(self.n) if self.alive[i]]
      if rest:
        self.batons[rest[0]].set()
      else:
        self.done.set()

  def run(self, first=0, timeout=60):
    self.done = threading.Event()
    ts = [threading.Thread(target=self._thread, args=(i,), daemon=True) for i in range(self.n)]
    for t in ts:
      t.start()
    self.batons[first].set()
    ok = self.done.wait(timeout)
    for t in ts:
      t.join(timeout=1)
    if not ok:
      raise RuntimeError('scheduler deadlock / timeout')
    return self.results, self.errors


def preempt_at(points):
  """decide-function: run thread order[0] ... switching to the next thread in round-robin at the
  given global step numbers; otherwise keep running the current thread."""
  pts = set(points)

  def decide(step, cur, alive):
    if step in pts and len(alive) > 1:
      others = [i for i in alive if i != cur]
      return others[0] if cur > others[-1] else next(i for i in others + others if i != cur and i > cur or i == others[0])
    return cur
  return decide


def switch_each(points):
  """decide-function switching to the next alive thread (cyclically) at each listed step."""
  pts = set(points)

  def decide(step, cur, alive):
    if step in pts and len(alive) > 1:
      later = [i for i in alive if i > cur]
      return later[0] if later else alive[0]
    return cur
  return decide


def random_switch(rng, p):
  def decide(step, cur, alive):
    if len(alive) > 1 and rng.random() < p:
      return rng.choice([i for i in alive if i != cur])
    return cur
  return decide
