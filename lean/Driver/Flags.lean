import Driver.Util
import FiddleModel.Model.Flags
open Lean Fiddle
namespace Driver.Flags
open Driver

def parseDirective (j : Json) : R Directive := do
  let a ← jlist j
  let e ← jstr (← jidx a 1)
  match ← jstr (← jidx a 0) with
  | "config" => return .config e
  | "set" => return .set e
  | "fiddler" => return .fiddler e
  | _ => throw "bad directive"

def dirJson : Directive → Json
  | .config e => jArr [.str "config", .str e]
  | .set e => jArr [.str "set", .str e]
  | .fiddler e => jArr [.str "fiddler", .str e]

/-- Script: a list of steps ["parse", [directives]] | ["value"] | ["unparse"]. The abstract
    configuration is the list of applied directive expressions. -/
def handle (req : Json) : R Json := do
  let sem : Semantics (List String) := ⟨fun e => ["base:" ++ e], fun c a => c ++ ["set:" ++ a], fun c e => c ++ ["fiddler:" ++ e]⟩
  let mut st : FlagSt (List String) := {}
  let mut outs : Array Json := #[]
  for step in ← jlist (← jget req "script") do
    let a ← jlist step
    match ← jstr (← jidx a 0) with
    | "parse" =>
      let ds ← (← jlist (← jidx a 1)).mapM parseDirective
      st := st.parse ds
      outs := outs.push (.str "ok")
    | "unparse" =>
      -- `unparse` clears the queue and resets the value; the base-config bookkeeping stays
      st := { st with remaining := [], value := none }
      outs := outs.push (.str "ok")
    | "value" =>
      match st.getValue sem with
      | .ok st' =>
        st := st'
        outs := outs.push (match st.value with
          | some v => jArr (v.map Json.str)
          | none => .null)
      | .error _ =>
        -- the failing directive has been popped; the ones before it were applied
        outs := outs.push (.str "err")
        -- replay to find the state at the error: apply one by one
        let mut cur := st
        let mut rest := st.remaining
        let mut go := true
        while go do
          match rest with
          | [] => go := false
          | d :: r =>
            rest := r
            match ({ cur with remaining := r }).apply1 sem d with
            | .ok c' => cur := c'
            | .error _ => cur := { cur with remaining := r, first := (cur.first || (match d with | .config _ => true | _ => false)) }; go := false
        st := cur
    | _ => throw "bad step"
  return mkObj [("outs", .arr outs), ("applied", jArr (st.applied.map dirJson))]

end Driver.Flags
