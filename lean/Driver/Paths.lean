import Driver.Util
import FiddleModel.Model.Paths
open Lean Fiddle.Paths
namespace Driver.Paths
open Driver

def parseElem (j : Json) : R Elem := do
  let a ← jlist j
  match ← jstr (← jidx a 0) with
  | "a" => return .attr (← jstr (← jidx a 1)).toList
  | "i" => return .index (← jnat (← jidx a 1))
  | "k" =>
    let v ← jidx a 1
    match v.getObjVal? "n" with
    | .ok n => return .key (.int (← jnat n))
    | .error _ => return .key (.str (← jstr (← jget v "s")).toList)
  | _ => throw "bad path element"

def peJson : PE → Json
  | .attr n => jArr [.str "a", .str (String.ofList n)]
  | .key (.int n) => jArr [.str "k", mkObj [("n", jNat n)]]
  | .key (.str s) => jArr [.str "k", mkObj [("s", .str (String.ofList s))]]

def resJson {α} (f : α → Json) : Res α → Json
  | .ok a => mkObj [("ok", f a)]
  | .error => .str "err"
  | .unsupported => .str "unsupported"

/-- `{"p":"paths","path":[...],"texts":[...]}`: the printed form of the path, and for every text
    what `daglish_extensions.parse_path`, `absl_flags.utils.parse_path` and the `=` split of
    `set_value` make of it. -/
def handle (req : Json) : R Json := do
  let path ← (← jlist (jgetD req "path" (.arr #[]))).mapM parseElem
  let texts ← (← jlist (jgetD req "texts" (.arr #[]))).mapM jstr
  let pj := resJson (fun s => Json.str (String.ofList s)) (printed path)
  let outs := texts.map fun t =>
    let cs := t.toList
    mkObj [("raw", resJson (fun es => jArr (es.map peJson)) (parseText cs)),
           ("flag", resJson (fun es => jArr (es.map peJson)) (parseText (reDot cs))),
           ("split", match splitAssign cs with
                     | some (a, b) => jArr [.str (String.ofList a), .str (String.ofList b)]
                     | none => .null)]
  return mkObj [("printed", pj), ("texts", jArr outs)]

end Driver.Paths
