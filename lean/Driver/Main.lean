/-
JSON-lines driver: one request per line on stdin, one response per line on stdout.
Unknown or malformed requests answer {"err": "..."} (never a default).
-/
import Driver.Util
import Driver.ArgStore
import Driver.Graph
import Driver.Errors
import Driver.Partial
import Driver.Eq
import Driver.Serialize
import Driver.Flags
import Driver.Threads
import Driver.Diff
import Driver.Codegen
import Driver.Location
import Driver.Paths
open Lean Driver

def dispatch (req : Json) : R Json := do
  let p ← jstr (← jget req "p")
  match p with
  | "argstore" => Driver.ArgStore.handle req
  | "graph" => Driver.Graph.handle req
  | "partial" => Driver.Partial.handle req
  | "eq" => Driver.Eq.handle req
  | "serialize" => Driver.Serialize.handle req
  | "flags" => Driver.Flags.handle req
  | "threads" => Driver.Threads.handle req
  | "diff" => Driver.Diff.handle req
  | "codegen" => Driver.Codegen.handle req
  | "locate" => Driver.Location.handle req
  | "paths" => Driver.Paths.handle req
  | "guard" => Driver.Errors.handleGuard req
  | "decorate" => Driver.Errors.handleDecorate req
  | _ => throw "bad-op"

partial def loop (hin : IO.FS.Stream) (hout : IO.FS.Stream) : IO Unit := do
  let line ← hin.getLine
  if line.isEmpty then return ()
  let out : Json :=
    match Json.parse line with
    | .error e => Json.mkObj [("err", .str s!"parse: {e}")]
    | .ok req =>
      match dispatch req with
      | .ok j => j
      | .error e => Json.mkObj [("err", .str e)]
  hout.putStrLn out.compress
  hout.flush
  loop hin hout

def main : IO Unit := do
  loop (← IO.getStdin) (← IO.getStdout)
