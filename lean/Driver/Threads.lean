import Driver.Util
import FiddleModel.Model.Threads
open Lean Fiddle
namespace Driver.Threads
open Driver

def parseOp (j : Json) : R (Nat × TOp) := do
  let a ← jlist j
  let t ← jnat (← jidx a 0)
  let op ← match ← jstr (← jidx a 1) with
    | "enterBuild" => pure TOp.enterBuild
    | "exitBuild" => pure TOp.exitBuild
    | "suspend" => pure TOp.suspend
    | "resume" => pure TOp.resume
    | "log" => do pure (TOp.log (← jstr (← jidx a 2)))
    | "readTracking" => pure TOp.readTracking
    | "readInBuild" => pure TOp.readInBuild
    | _ => throw "bad thread op"
  return (t, op)

def outJson : TOut → Json
  | .ok => .str "ok"
  | .nestedBuildRejected => .str "nested-rejected"
  | .logged k _ => jArr [.str "logged", .str k]
  | .notLogged => .str "not-logged"
  | .flag b => .bool b

def handle (req : Json) : R Json := do
  let sched ← (← jlist (← jget req "sched")).mapM parseOp
  let n ← jnat (← jget req "threads")
  let (_, os) := ({} : Sys).run sched
  let per := (List.range n).map fun t => jArr ((outputsOf t os).map outJson)
  let seqs := seqsOf (os.map (·.2))
  return mkObj [("out", jArr per), ("unique", .bool (seqs.eraseDups.length == seqs.length)),
    ("per_thread_increasing", .bool ((List.range n).all fun t =>
      let l := seqsOf (outputsOf t os)
      (l.zip (l.drop 1)).all fun (a, b) => a < b))]

end Driver.Threads
