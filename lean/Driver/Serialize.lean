import Driver.Util
import FiddleModel.Model.Serialize
open Lean Fiddle
namespace Driver.Serialize
open Driver

partial def parseDoc (j : Json) : Doc :=
  match j with
  | .obj _ =>
    match j.getObjVal? "type", j.getObjVal? "module", j.getObjVal? "name" with
    | .ok (.str "pyref"), .ok (.str m), .ok (.str n) => .pyref m n
    | _, _, _ =>
      match j with
      | .obj kvs => .node (kvs.toList.map (fun kv => parseDoc kv.2))
      | _ => .leaf ""
  | .arr a => .node (a.toList.map parseDoc)
  | _ => .leaf ""

def handle (req : Json) : R Json := do
  match jgetD req "bytes" .null with
  | .null =>
    -- policy: table of [module, name, allowsImport, allowsValue]
    let table ← (← jlist (← jget req "table")).mapM fun row => do
      let a ← jlist row
      return (← jstr (← jidx a 0), ← jstr (← jidx a 1), ← jbool (← jidx a 2), ← jbool (← jidx a 3))
    let look (f : (String × String × Bool × Bool) → Bool) (m n : String) : Bool :=
      match table.find? (fun r => r.1 == m && r.2.1 == n) with
      | some r => f r
      | none => false
    let p : Policy := { allowsImport := look (fun r => r.2.2.1), allowsValue := look (fun r => r.2.2.2) }
    let d := parseDoc (← jget req "doc")
    match d.resolve p [] with
    | .ok syms => return mkObj [("ok", .bool true), ("n", jNat syms.length)]
    | .error (.policy m n) => return mkObj [("ok", .bool false), ("module", .str m), ("name", .str n)]
  | bj =>
    let bs ← (← jlist bj).mapM jnat
    let bytes : List UInt8 := bs.map UInt8.ofNat
    let text := decodeLatin1 bytes
    let back := encodeLatin1 text
    return mkObj [("text", jArr (text.map (fun c => jNat c.toNat))),
                  ("back", match back with | some l => jArr (l.map (fun b => jNat b.toNat)) | none => .null)]

end Driver.Serialize
