/-
Driver handler for the graph family (C02, C05, C08 and the traversal part of others).
-/
import Driver.Util
import Driver.ArgStore
import FiddleModel.Model.Graph
import FiddleModel.Model.Select
import FiddleModel.Model.Copy
import FiddleModel.Model.Rebuild
import FiddleModel.Model.Codegen
open Lean Fiddle

namespace Driver.Graph
open Driver

def parseGVal (j : Json) : R GVal :=
  match j.getObjVal? "a" with
  | .ok t => do return .atom (← jstr t)
  | .error _ => do return .ref (← jnat (← jget j "r"))

def parsePElem (j : Json) : R PElem := do
  let a ← jlist j
  match ← jstr (← jidx a 0) with
  | "i" => return .index (← jint (← jidx a 1))
  | "k" => return .key (← jstr (← jidx a 1))
  | "a" => return .attr (← jstr (← jidx a 1))
  | _ => throw "bad pelem"

def parseKind (s : String) : R NKind :=
  match s with
  | "list" => .ok .list | "tuple" => .ok .tuple | "dict" => .ok .dict | "ddict" => .ok .ddict
  | "ntuple" => .ok .ntuple | "cfg" => .ok .cfg | "custom" => .ok .custom | "opaque" => .ok .opaque
  | _ => .error "bad kind"

def parseObj (j : Json) : R GObj := do
  let kind ← parseKind (← jstr (← jget j "k"))
  let ch ← (← jlist (← jget j "ch")).mapM fun c => do
    let a ← jlist c
    return (← parsePElem (← jidx a 0), ← parseGVal (← jidx a 1))
  let ty := match jgetD j "fn" .null with
    | .str s => s
    | _ => match jgetD j "t" .null with | .str s => s | _ => ""
  let bk := match jgetD j "bk" .null with | .str s => s | _ => ""
  let sig ← match jgetD j "sig" .null with
    | .null => pure []
    | sj => Driver.ArgStore.parseSig sj
  let tags ← match jgetD j "tags" .null with
    | .null => pure []
    | tj => (← jlist tj).mapM fun t => do
      let a ← jlist t
      return (← Driver.ArgStore.parseKey (← jidx a 0), ← (← jlist (← jidx a 1)).mapM jnat)
  let dfl ← match jgetD j "dfl" .null with
    | .null => pure []
    | dj => (← jlist dj).mapM fun c => do
      let a ← jlist c
      return (← parsePElem (← jidx a 0), ← parseGVal (← jidx a 1))
  return { kind := kind, ty := ty, bk := bk, sig := sig, children := ch, defaults := dfl, tags := tags }

def gvalJson : GVal → Json
  | .atom t => mkObj [("a", .str t)]
  | .ref i => mkObj [("r", jNat i)]

def pelemJson : PElem → Json
  | .index i => jArr [.str "i", jInt i]
  | .key k => jArr [.str "k", .str k]
  | .attr n => jArr [.str "a", .str n]

def pathJson (p : Path) : Json := jArr (p.map pelemJson)

/-! canonical form of a build result, mirroring harness/graphs.py::canon -/

inductive CKey | built (j : Nat) | orig (i : Nat) | dflt (n : String)
deriving DecidableEq

def kindName : NKind → String
  | .list => "list" | .tuple => "tuple" | .dict => "dict" | .ddict => "defaultdict"
  | .ntuple => "ntuple" | .cfg => "cfg" | .custom => "custom" | .opaque => "opaque"

def pelemLabel : PElem → Json
  | .index i => jInt i
  | .key k => .str k
  | .attr n => .str n

mutual
partial def canonVal (h : Heap) (out : List BObj) (v : BVal) (seen : List CKey) : Json × List CKey :=
  match v with
  | .atom t => (.str t, seen)
  | .dflt n => numbered h out (.dflt n) seen (fun k seen => (jArr [.str "opaque", jNat k, .str s!"Dflt:{n}"], seen))
  | .orig i => numbered h out (.orig i) seen (fun k seen =>
      (jArr [.str "opaque", jNat k, .str ((h[i]?.map (·.ty)).getD "?")], seen))
  | .built j => numbered h out (.built j) seen (fun k seen =>
      match out[j]? with
      | none => (.str "?", seen)
      | some (.call fn slots var kw) =>
        let (sj, seen) := canonPairs h out slots seen
        let (vj, seen) := canonList h out var seen
        let (kj, seen) := canonPairs h out kw seen
        (jArr [.str "rec", jNat k, .str fn, sj, vj, kj], seen)
      | some (.container kind ty ch) =>
        match kind with
        | .list | .tuple =>
          let (cj, seen) := canonList h out (ch.map (·.2)) seen
          (jArr [.str (kindName kind), jNat k, cj], seen)
        | .dict | .ddict =>
          let (cj, seen) := canonLabelled h out ch seen
          (jArr [.str (kindName kind), jNat k, cj], seen)
        | .ntuple =>
          let (cj, seen) := canonLabelled h out ch seen
          (jArr [.str "ntuple", jNat k, .str ty, cj], seen)
        | _ =>
          let (cj, seen) := canonList h out (ch.map (·.2)) seen
          (jArr ([.str ty, jNat k] ++ (match cj with | .arr a => a.toList | x => [x])), seen))

partial def numbered (h : Heap) (out : List BObj) (key : CKey) (seen : List CKey)
    (f : Nat → List CKey → Json × List CKey) : Json × List CKey :=
  match seen.reverse.findIdx? (· == key) with
  | some k => (jArr [.str "^", jNat k], seen)
  | none => f seen.length (key :: seen)

partial def canonList (h : Heap) (out : List BObj) (vs : List BVal) (seen : List CKey) : Json × List CKey :=
  let (js, seen) := vs.foldl (fun (acc : List Json × List CKey) v =>
    let (j, seen) := canonVal h out v acc.2
    (acc.1 ++ [j], seen)) ([], seen)
  (jArr js, seen)

partial def canonPairs (h : Heap) (out : List BObj) (vs : List (String × BVal)) (seen : List CKey) : Json × List CKey :=
  let (js, seen) := vs.foldl (fun (acc : List Json × List CKey) nv =>
    let (j, seen) := canonVal h out nv.2 acc.2
    (acc.1 ++ [jArr [.str nv.1, j]], seen)) ([], seen)
  (jArr js, seen)

partial def canonLabelled (h : Heap) (out : List BObj) (vs : List (PElem × BVal)) (seen : List CKey) : Json × List CKey :=
  let (js, seen) := vs.foldl (fun (acc : List Json × List CKey) nv =>
    let (j, seen) := canonVal h out nv.2 acc.2
    (acc.1 ++ [jArr [pelemLabel nv.1, j]], seen)) ([], seen)
  (jArr js, seen)
end

def berrJson : BErr → Json
  | .cycle => mkObj [("err", .str "cycle")]
  | .callFailed i p log => mkObj [("err", .str "call"), ("node", jNat i), ("path", pathJson p),
      ("log", jArr (log.map jNat))]
  | .malformed => mkObj [("err", .str "malformed")]
  | .fuel => mkObj [("err", .str "fuel")]

def childrenJson (ch : List (PElem × GVal)) : Json :=
  jArr (ch.map fun c => jArr [pelemJson c.1, gvalJson c.2])

/-- per-object view used to compare edits: kind, callable, type, tags, children -/
def heapJson (h : Heap) : Json :=
  jArr (h.map fun o => mkObj [("k", .str (kindName o.kind)), ("fn", .str o.ty), ("bk", .str o.bk),
    ("ch", childrenJson o.children),
    ("tags", jArr (o.tags.map fun kt => jArr [Driver.ArgStore.keyJson kt.1, jArr (kt.2.map jNat)]))])

/-- structural view of an argument value: containers are expanded, Buildables and opaque
    objects are named by identity (index) -/
partial def shapeVal (h : Heap) (v : GVal) : Json :=
  match v with
  | .atom t => mkObj [("a", .str t)]
  | .ref i =>
    match h[i]? with
    | none => .null
    | some o =>
      if o.kind == .cfg then mkObj [("r", jNat i)]
      else if o.kind == .opaque then mkObj [("o", .str o.ty)]
      else mkObj [("c", .str (kindName o.kind)),
                  ("ch", jArr (o.children.map fun c => jArr [pelemJson c.1, shapeVal h c.2]))]

/-- for every Buildable of `ids`: callable, tags and the shapes of its arguments -/
def cfgShapes (h : Heap) (ids : List Nat) : Json :=
  jArr (ids.filterMap fun i =>
    match h[i]? with
    | some o => if o.kind == .cfg then
        some (jArr [jNat i, .str o.ty,
          jArr (o.children.map fun c => jArr [pelemJson c.1, shapeVal h c.2]),
          jArr (o.tags.map fun kt => jArr [Driver.ArgStore.keyJson kt.1, jArr (kt.2.map jNat)])])
      else none
    | none => none)

def parseBases (j : Json) : R (List (String × List String)) := do
  (← jlist j).mapM fun e => do
    let a ← jlist e
    return (← jstr (← jidx a 0), ← (← jlist (← jidx a 1)).mapM jstr)

def parseMatcher (j : Json) : R Matcher := do
  let target ← match jgetD j "target" .null with
    | .null => pure none
    | t => do pure (some (← jstr t))
  return { target := target, matchSub := (← jbool (← jget j "match_sub")),
           btype := (← jstr (← jget j "btype")),
           classes := (← parseBases (← jget j "classes")),
           bkBases := (← parseBases (← jget j "bk_bases")) }

def parseKvs (j : Json) : R (List (PElem × GVal)) := do
  (← jlist j).mapM fun c => do
    let a ← jlist c
    return (← parsePElem (← jidx a 0), ← parseGVal (← jidx a 1))

/-- tag subclass relation: `pairs` lists (tag, ancestor) incl. reflexive pairs -/
def subOfPairs (pairs : List (Nat × Nat)) (a b : Nat) : Bool := a == b || pairs.contains (a, b)

def prefixes (p : Path) : List Path := (List.range (p.length + 1)).map (fun n => p.take n)

def handle (req : Json) : R Json := do
  let h ← (← jlist (← jget req "objs")).mapM parseObj
  let root ← parseGVal (← jget req "root")
  if !Heap.wellFormedB h then throw "heap not topologically ordered"
  if !Heap.pathsDistinctB h then throw "heap has an object with duplicate path elements"
  let qs ← (← jlist (← jget req "q")).mapM jstr
  let fails ← (← jlist (jgetD req "fails" (.arr #[]))).mapM jnat
  let mut out : List (String × Json) := []
  for q in qs do
    match q with
    | "iterate_memo" =>
      out := out ++ [(q, jArr ((iterate h .memo root).map fun vp => jArr [gvalJson vp.1, pathJson vp.2]))]
    | "iterate_basic" =>
      out := out ++ [(q, jArr ((iterate h .basic root).map fun vp => jArr [gvalJson vp.1, pathJson vp.2]))]
    | "iterate_noint" =>
      out := out ++ [(q, jArr ((iterate h .memoNoInternables root).map fun vp => jArr [gvalJson vp.1, pathJson vp.2]))]
    | "paths_by_id" =>
      out := out ++ [(q, jArr ((collectPathsById h root).map fun ip => jArr [jNat ip.1, pathJson ip.2]))]
    | "all_paths" =>
      let entries := iterate h .basic root
      let res := entries.map fun vp =>
        let path := vp.2
        -- ancestors innermost first: proper prefixes of the path, longest first
        let anc := ((prefixes path).reverse.drop 1).filterMap fun pre =>
          (followPath h root pre).map (fun v => (v, pre.length))
        jArr [pathJson path, jArr ((getAllPaths h root vp.1 path anc).map pathJson)]
      out := out ++ [(q, jArr res)]
    | "follow_all" =>
      -- soundness cross-check inside the model: every yielded pair resolves to its value
      let ok := (iterate h .basic root).all fun vp => followPath h root vp.2 == some vp.1
      out := out ++ [(q, .bool ok)]
    | "reachable" =>
      out := out ++ [(q, jArr ((reachableIds h root).mergeSort.map jNat))]
    | "select" =>
      let m ← parseMatcher (← jget req "matcher")
      out := out ++ [(q, jArr ((selectIds h root m.matches).mergeSort.map jNat))]
    | "select_set" =>
      let m ← parseMatcher (← jget req "matcher")
      let kvs ← parseKvs (← jget req "kvs")
      let h' := Heap.setOn h (selectIds h root m.matches) kvs
      out := out ++ [(q, cfgShapes h' (reachableIds h root).mergeSort)]
    | "select_replace" =>
      let m ← parseMatcher (← jget req "matcher")
      let v ← parseGVal (← jget req "value")
      let ids := selectIds h root m.matches
      let h' := Heap.replaceRefs h ids v
      let root' := replaceRoot ids v root
      out := out ++ [(q, mkObj [("shapes", cfgShapes h' (reachableIds h' root').mergeSort),
                                ("root", shapeVal h' root')])]
    | "set_tagged" =>
      let pairs ← (← jlist (← jget req "tag_sub")).mapM fun e => do
        let a ← jlist e
        return (← jnat (← jidx a 0), ← jnat (← jidx a 1))
      let T ← jnat (← jget req "tag")
      let v ← parseGVal (← jget req "value")
      let h' := Heap.setTagged h root (subOfPairs pairs) T v
      out := out ++ [(q, cfgShapes h' (reachableIds h root).mergeSort)]
    | "list_tags" =>
      out := out ++ [(q, jArr ((listTags h root).mergeSort.map jNat))]
    | "tag_values" =>
      let pairs ← (← jlist (← jget req "tag_sub")).mapM fun e => do
        let a ← jlist e
        return (← jnat (← jidx a 0), ← jnat (← jidx a 1))
      let T ← jnat (← jget req "tag")
      let res := (reachableIds h root).mergeSort.filterMap fun i =>
        match h[i]? with
        | some o => if o.kind == .cfg then
            some (jArr [jNat i, jArr ((tagValues (subOfPairs pairs) T o).map fun kv =>
              jArr [Driver.ArgStore.keyJson kv.1, match kv.2 with | some v => shapeVal h v | none => .null])])
          else none
        | none => none
      out := out ++ [(q, jArr res)]
    | "heap" =>
      -- the input heap after an API whose effect is readOnly / allocOnly (`applyEffect`),
      -- restricted to the input's objects
      out := out ++ [(q, heapJson h)]
    | "rebuild" =>
      -- identity rebuild / the `objects` table of dump_json, and loading that table again
      match rebuild h root with
      | .error _ => out := out ++ [(q, .str "err")]
      | .ok (r, st) =>
        let reload := match (straightLine st.out r).run with
          | some (r2, h2) => mkObj [("root", gvalJson r2), ("heap", heapJson h2)]
          | none => .str "err"
        out := out ++ [(q, mkObj [("root", gvalJson r), ("heap", heapJson st.out), ("reload", reload)])]
    | "deepcopy" =>
      out := out ++ [(q, heapJson (Heap.deepcopy h))]
    | "shallow_copy" =>
      let bk := match jgetD req "bk" .null with | .str s => some s | _ => none
      match root with
      | .ref i => out := out ++ [(q, heapJson (Heap.shallowCopy h i bk))]
      | .atom _ => throw "shallow_copy of an atom"
    | "build" =>
      match build h fails root with
      | .error e => out := out ++ [(q, berrJson e)]
      | .ok (r, st) =>
        let (cj, _) := canonVal h st.out r []
        out := out ++ [(q, mkObj [("log", jArr (st.log.map jNat)), ("canon", cj)])]
    | _ => throw "bad-op"
  return mkObj out

end Driver.Graph
