import Driver.Util
import FiddleModel.Model.Location
import FiddleModel.Generated.Tables
open Lean Fiddle
namespace Driver.Location
open Driver

/-- `{"p":"locate","frames":[[file,line],...]}` (innermost first): the frame
    `_stacktrace_location_provider` returns for that stack, with the excluded suffixes read
    from the current source (`Generated/Tables.lean`). -/
def handle (req : Json) : R Json := do
  let frames ← (← jlist (← jget req "frames")).mapM fun f => do
    let a ← jlist f
    return ({ file := ← jstr (← jidx a 0), line := ← jnat (← jidx a 1) } : Frame)
  match locate Tables.excludeLocations frames with
  | none => return mkObj [("located", .null)]
  | some f => return mkObj [("located", jArr [.str f.file, jNat f.line])]

end Driver.Location
