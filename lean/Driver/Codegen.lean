import Driver.Util
import Driver.Graph
import FiddleModel.Model.Codegen
open Lean Fiddle
namespace Driver.Codegen
open Driver Driver.Graph

partial def parseExpr (j : Json) : R CExpr :=
  match j.getObjVal? "a" with
  | .ok t => do return .atom (← jstr t)
  | .error _ =>
    match j.getObjVal? "v" with
    | .ok x => do return .var (← jnat x)
    | .error _ => do
      let n ← jget j "n"
      let kind ← parseKind (← jstr (← jget n "k"))
      let ty := match jgetD n "fn" .null with | .str s => s | _ => ""
      let bk := match jgetD n "bk" .null with | .str s => s | _ => ""
      let ch ← (← jlist (← jget n "ch")).mapM fun c => do
        let a ← jlist c
        return (← parsePElem (← jidx a 0), ← parseExpr (← jidx a 1))
      let tags ← match jgetD n "tags" .null with
        | .null => pure []
        | tj => (← jlist tj).mapM fun t => do
          let a ← jlist t
          return (← Driver.ArgStore.parseKey (← jidx a 0), ← (← jlist (← jidx a 1)).mapM jnat)
      return .node kind ty bk [] ch tags

def handle (req : Json) : R Json := do
  let assigns ← (← jlist (← jget req "assigns")).mapM fun a => do
    let l ← jlist a
    return (← jnat (← jidx l 0), ← parseExpr (← jidx l 1))
  let ret ← parseExpr (← jget req "ret")
  match ({ assigns := assigns, ret := ret } : CProg).run with
  | none => return mkObj [("run", .str "NameError")]
  | some (v, h) => return mkObj [("run", .str "ok"), ("root", gvalJson v), ("heap", heapJson h)]

end Driver.Codegen
