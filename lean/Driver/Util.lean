/-
JSON helpers shared by the driver's handlers. The driver only *runs* the model's executable
definitions; nothing here is part of any theorem.
-/
import Lean.Data.Json
open Lean

namespace Driver

abbrev R := Except String

def jget (j : Json) (k : String) : R Json :=
  match j.getObjVal? k with
  | .ok v => .ok v
  | .error _ => .error s!"missing field {k}"

def jgetD (j : Json) (k : String) (d : Json) : Json :=
  match j.getObjVal? k with
  | .ok v => v
  | .error _ => d

def jarr (j : Json) : R (Array Json) :=
  match j with
  | .arr a => .ok a
  | _ => .error "expected array"

def jlist (j : Json) : R (List Json) := do return (← jarr j).toList

def jstr (j : Json) : R String :=
  match j with
  | .str s => .ok s
  | _ => .error "expected string"

def jint (j : Json) : R Int :=
  match j.getInt? with
  | .ok n => .ok n
  | .error _ => .error "expected int"

def jnat (j : Json) : R Nat := do
  let i ← jint j
  if i < 0 then throw "expected nat" else return i.toNat

def jbool (j : Json) : R Bool :=
  match j with
  | .bool b => .ok b
  | _ => .error "expected bool"

def joptInt (j : Json) : R (Option Int) :=
  match j with
  | .null => .ok none
  | _ => do return some (← jint j)

def jidx (a : List Json) (i : Nat) : R Json :=
  match a[i]? with
  | some v => .ok v
  | none => .error s!"missing element {i}"

def mkObj (kvs : List (String × Json)) : Json := Json.mkObj kvs
def jInt (i : Int) : Json := Json.num (JsonNumber.fromInt i)
def jNat (n : Nat) : Json := Json.num (JsonNumber.fromNat n)
def jArr (l : List Json) : Json := Json.arr l.toArray

end Driver
