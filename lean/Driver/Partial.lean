import Driver.Util
import Driver.Graph
import FiddleModel.Model.Partial
open Lean Fiddle
namespace Driver.Partial
open Driver Driver.Graph

mutual
/-- Configured arguments `[[key, SPEC] ...]` -> (*args, **kwargs) by the model's own
    `transform_to_args_kwargs` (build mode), run on placeholders. -/
partial def parseItems (sig : Sig) (j : Json) : R (List AV × List (String × AV)) := do
  let items ← (← jlist j).mapM fun kv => do
    let a ← jlist kv
    return (← Driver.ArgStore.parseKey (← jidx a 0), ← parseAV (← jidx a 1))
  let d : Dict Val := items.zipIdx.map (fun (kv, i) => (kv.1, Val.v i))
  let back (v : Val) : AV := match v with
    | .v i => ((items[i]?).map (·.2)).getD (.atom "?")
    | .d name => .leaf 900000 s!"Dflt:{name}"
    | _ => .atom "?"
  match sig.toArgsKwargs d false false with
  | .error _ => throw "bind"
  | .ok (pos, kw) =>
    match kwList kw with
    | .error _ => throw "bind"
    | .ok kws => return (pos.map back, kws.map (fun (n, v) => (n, back v)))

partial def parseAV (j : Json) : R AV := do
  match j.getObjVal? "atom" with
  | .ok t => return .atom (← jstr t)
  | .error _ =>
    match j.getObjVal? "leaf" with
    | .ok i => return .leaf (← jnat i) (← jstr (← jget j "tok"))
    | .error _ =>
      match j.getObjVal? "fac" with
      | .ok fn =>
        let sig ← Driver.ArgStore.parseSig (← jget j "sig")
        let (args, kw) ← parseItems sig (← jget j "items")
        return .fac (← jstr fn) sig args kw
      | .error _ =>
        let kind ← Driver.Graph.parseKind (← jstr (← jget j "cont"))
        let ty := match jgetD j "t" .null with | .str s => s | _ => ""
        let ch ← (← jlist (← jget j "ch")).mapM fun c => do
          let a ← jlist c
          return (← parsePElem (← jidx a 0), ← parseAV (← jidx a 1))
        return .cont (← jnat (← jget j "id")) kind ty ch
end

mutual
partial def canonRV (v : RV) (seen : List CKey) : Json × List CKey :=
  let numbered (key : CKey) (seen : List CKey) (f : Nat → List CKey → Json × List CKey) :=
    match seen.reverse.findIdx? (· == key) with
    | some k => (jArr [.str "^", jNat k], seen)
    | none => f seen.length (key :: seen)
  match v with
  | .atom t => (.str t, seen)
  | .dflt n => numbered (.dflt n) seen (fun k seen => (jArr [.str "opaque", jNat k, .str s!"Dflt:{n}"], seen))
  | .leaf i t => numbered (.orig i) seen (fun k seen => (jArr [.str "opaque", jNat k, .str t], seen))
  | .obj n fn slots var kw => numbered (.built n) seen (fun k seen =>
      let (sj, seen) := canonNamed slots seen
      let (vj, seen) := canonSeq var seen
      let (kj, seen) := canonNamed kw seen
      (jArr [.str "rec", jNat k, .str fn, sj, vj, kj], seen))
  | .cont ident kind ty ch =>
    let key := match ident with | .build i => CKey.orig i | .fresh n => CKey.built n
    numbered key seen (fun k seen =>
      match kind with
      | .list | .tuple =>
        let (cj, seen) := canonSeq (ch.map (·.2)) seen
        (jArr [.str (kindName kind), jNat k, cj], seen)
      | .ntuple =>
        let (cj, seen) := canonLab ch seen
        (jArr [.str "ntuple", jNat k, .str ty, cj], seen)
      | _ =>
        let (cj, seen) := canonLab ch seen
        (jArr [.str (kindName kind), jNat k, cj], seen))
partial def canonSeq (vs : List RV) (seen : List CKey) : Json × List CKey :=
  let (js, seen) := vs.foldl (fun (acc : List Json × List CKey) v =>
    let (j, seen) := canonRV v acc.2
    (acc.1 ++ [j], seen)) ([], seen)
  (jArr js, seen)
partial def canonNamed (vs : List (String × RV)) (seen : List CKey) : Json × List CKey :=
  let (js, seen) := vs.foldl (fun (acc : List Json × List CKey) nv =>
    let (j, seen) := canonRV nv.2 acc.2
    (acc.1 ++ [jArr [.str nv.1, j]], seen)) ([], seen)
  (jArr js, seen)
partial def canonLab (vs : List (PElem × RV)) (seen : List CKey) : Json × List CKey :=
  let (js, seen) := vs.foldl (fun (acc : List Json × List CKey) nv =>
    let (j, seen) := canonRV nv.2 acc.2
    (acc.1 ++ [jArr [pelemLabel nv.1, j]], seen)) ([], seen)
  (jArr js, seen)
end

def handle (req : Json) : R Json := do
  let sig ← Driver.ArgStore.parseSig (← jget req "sig")
  let (args, kw) ← match parseItems sig (← jget req "items") with
    | .ok x => pure x
    | .error "bind" => return mkObj [("results", .str "build-raised")]
    | .error e => throw e
  let p : BuiltPartial := { fn := ← jstr (← jget req "fn"), sig := sig, args := args, kw := kw }
  let calls ← (← jlist (← jget req "calls")).mapM fun c => do
    let cargs ← (← jlist (← jget c "args")).mapM parseAV
    let ckw ← (← jlist (← jget c "kw")).mapM fun kv => do
      let a ← jlist kv
      return (← jstr (← jidx a 0), ← parseAV (← jidx a 1))
    return ({ args := cargs, kw := ckw } : CallArgs)
  let results := p.calls calls 0
  -- joint canonical form of [result of call 1, result of call 2, ...]; the outer list is #0
  let (js, _) := results.foldl (fun (acc : List Json × List CKey) r =>
    match r with
    | none => (acc.1 ++ [.str "raised"], acc.2)
    | some v =>
      let (j, seen) := canonRV v acc.2
      (acc.1 ++ [j], seen)) ([], [CKey.built 1000000000])
  return mkObj [("results", jArr js)]

end Driver.Partial
