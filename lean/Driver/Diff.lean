import Driver.Util
import FiddleModel.Model.Diff
import FiddleModel.Generated.Tables
open Lean Fiddle Fiddle.Diff
namespace Driver.Diff
open Driver

def parseFlat (j : Json) : R Flat := do
  let fn ← jstr (← jget j "fn")
  let args ← (← jlist (← jget j "args")).mapM fun e => do
    let a ← jlist e
    return (Key.name (← jstr (← jidx a 0)), Val.v (← jnat (← jidx a 1)))
  let tags ← (← jlist (← jget j "tags")).mapM fun e => do
    let a ← jlist e
    return (Key.name (← jstr (← jidx a 0)), ← (← jlist (← jidx a 1)).mapM jnat)
  return { fn := fn, args := args, tags := tags }

def parseChange (j : Json) : R Change := do
  let a ← jlist j
  match ← jstr (← jidx a 0) with
  | "DeleteValue" => return .deleteValue (← jstr (← jidx a 1))
  | "RemoveTag" => return .removeTag (← jstr (← jidx a 1)) (← jnat (← jidx a 2))
  | "ModifyFn" => return .modifyFn (← jstr (← jidx a 1))
  | "ModifyValue" => return .modifyValue (← jstr (← jidx a 1)) (.v (← jnat (← jidx a 2)))
  | "SetValue" => return .setValue (← jstr (← jidx a 1)) (.v (← jnat (← jidx a 2)))
  | "AddTag" => return .addTag (← jstr (← jidx a 1)) (← jnat (← jidx a 2))
  | _ => throw "bad change"

def parseStmt (j : Json) : R Stmt := do
  let a ← jlist j
  match ← jstr (← jidx a 0) with
  | "del" => return .delAttr (← jstr (← jidx a 1))
  | "remove_tag" => return .removeTag (← jstr (← jidx a 1)) (← jnat (← jidx a 2))
  | "update_callable" => return .updateCallable (← jstr (← jidx a 1))
  | "assign" => return .assign (← jstr (← jidx a 1)) (.v (← jnat (← jidx a 2)))
  | "add_tag" => return .addTag (← jstr (← jidx a 1)) (← jnat (← jidx a 2))
  | _ => throw "bad stmt"

def valJson : Val → Json
  | .v n => jNat n
  | _ => .null

def changeJson : Change → Json
  | .deleteValue k => jArr [.str "DeleteValue", .str k]
  | .removeTag k t => jArr [.str "RemoveTag", .str k, jNat t]
  | .modifyFn f => jArr [.str "ModifyFn", .str f]
  | .modifyValue k v => jArr [.str "ModifyValue", .str k, valJson v]
  | .setValue k v => jArr [.str "SetValue", .str k, valJson v]
  | .addTag k t => jArr [.str "AddTag", .str k, jNat t]

def stmtJson : Stmt → Json
  | .delAttr k => jArr [.str "del", .str k]
  | .removeTag k t => jArr [.str "remove_tag", .str k, jNat t]
  | .updateCallable f => jArr [.str "update_callable", .str f]
  | .assign k v => jArr [.str "assign", .str k, valJson v]
  | .addTag k t => jArr [.str "add_tag", .str k, jNat t]

def keyStr : Key → String
  | .name n => n
  | .idx i => toString i

/-- canonical view: arguments as a key-sorted map, tag sets sorted, empty tag sets dropped -/
def flatJson (c : Flat) : Json :=
  let args := (c.args.map fun kv => (keyStr kv.1, valJson kv.2)).mergeSort (fun a b => a.1 ≤ b.1)
  let tags := ((c.tags.filter fun kt => !kt.2.isEmpty).map fun kt => (keyStr kt.1, kt.2.mergeSort)).mergeSort
    (fun a b => a.1 ≤ b.1)
  mkObj [("fn", .str c.fn), ("args", jArr (args.map fun kv => jArr [.str kv.1, kv.2])),
         ("tags", jArr (tags.map fun kt => jArr [.str kt.1, jArr (kt.2.map jNat)]))]

def resJson : Except Err Flat → Json
  | .ok c => flatJson c
  | .error _ => .str "err"

def handle (req : Json) : R Json := do
  let sigs ← (← jlist (← jget req "sigs")).mapM fun e => do
    let a ← jlist e
    return (← jstr (← jidx a 0), ← (← jlist (← jidx a 1)).mapM jstr)
  let sg : Sigs := fun f => match sigs.find? (fun e => e.1 == f) with | some e => e.2 | none => []
  let old ← parseFlat (← jget req "old")
  let new ← parseFlat (← jget req "new")
  let md := flatDiff old new
  let mut out : List (String × Json) := [
    ("model_diff", jArr (md.map changeJson)),
    ("apply_model_diff", resJson (applyPhases sg Tables.applyOrder md old)),
    ("fiddler_model_diff", resJson (execAll sg old (emit md)))]
  match jgetD req "changes" .null with
  | .null => pure ()
  | cj =>
    let chs ← (← jlist cj).mapM parseChange
    out := out ++ [("apply_real_changes", resJson (applyPhases sg Tables.applyOrder chs old)),
                   ("emit_real_changes", jArr ((emit chs).map stmtJson))]
  match jgetD req "stmts" .null with
  | .null => pure ()
  | sj =>
    let sts ← (← jlist sj).mapM parseStmt
    out := out ++ [("exec_real_stmts", resJson (execAll sg old sts))]
  return mkObj out

end Driver.Diff
