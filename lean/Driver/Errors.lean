import Driver.Util
import FiddleModel.Model.Errors
open Lean Fiddle
namespace Driver.Errors
open Driver

def obsJson : GuardObs → Json
  | .rejected => .str "rejected" | .built => .str "built" | .failed => .str "failed"

def handleGuard (req : Json) : R Json := do
  let runs ← (← jlist (← jget req "runs")).mapM fun r => do
    return ({ nested := ← jnat (← jget r "nested"), fails := ← jbool (← jget r "fails") } : BuildRun)
  let (g, obs) := runBuilds false runs
  return mkObj [("guard", .bool g), ("obs", jArr (obs.map fun o => jArr (o.map obsJson)))]

def handleDecorate (req : Json) : R Json := do
  let hz : Hazards := {
    isException := ← jbool (← jget req "is_exception"),
    subclassable := ← jbool (← jget req "subclassable"),
    messageOk := ← jbool (← jget req "message_ok") }
  let e := decorate { cls := 0, msg := "m" } hz "<ctx>"
  return mkObj [("decorated", .bool e.decorated)]

end Driver.Errors
