/-
Driver handler for the ArgStore family (C01, C03, C16 and the tag-edit part of C14):
runs `construct` and then an op list, reporting after every step the property-level
observations (positional view, ordered_arguments under flag combinations, dir, what a build
would pass to the callable, history log, tag sets).
-/
import Driver.Util
import FiddleModel.Model.Threads
import FiddleModel.Model.Call
open Lean Fiddle

namespace Driver.ArgStore
open Driver

def parseKind (s : String) : R Kind :=
  match s with
  | "po" => .ok .po | "pk" => .ok .pk | "vp" => .ok .vp | "ko" => .ok .ko | "vk" => .ok .vk
  | _ => .error "bad kind"

def parseSig (j : Json) : R Sig := do
  (← jlist j).mapM fun pj => do
    let a ← jlist pj
    return { name := ← jstr (← jidx a 0), kind := ← parseKind (← jstr (← jidx a 1)),
             dflt := ← jbool (← jidx a 2) }

def parseVal (j : Json) : R Val :=
  match j with
  | .str "nov" => .ok .nov
  | _ =>
    match j.getObjVal? "v" with
    | .ok n => do return .v (← jnat n)
    | .error _ =>
      match j.getObjVal? "d" with
      | .ok n => do return .d (← jstr n)
      | .error _ =>
        match j.getObjVal? "tv" with
        | .ok ts => do
          let tags ← (← jlist ts).mapM jnat
          let inner ← match jgetD j "in" .null with
            | .null => pure none
            | x => do pure (some (← jnat x))
          return .tv tags inner
        | .error _ => .error "bad value"

def valJson : Val → Json
  | .v n => mkObj [("v", jNat n)]
  | .d n => mkObj [("d", .str n)]
  | .nov => .str "nov"
  | .tv ts inner => mkObj [("tv", jArr (ts.map jNat)), ("in", match inner with | some n => jNat n | none => .null)]

def keyJson : Key → Json
  | .idx i => jInt i
  | .name n => .str n

def parseKey (j : Json) : R Key :=
  match j with
  | .str s => .ok (.name s)
  | _ => do return .idx (← jint j)

def dictJson (d : Dict Val) : Json := jArr (d.map fun (k, v) => jArr [keyJson k, valJson v])

def parseSliceK (j : Json) : R Cfg.SliceK := do
  let a ← jlist j
  let part (x : Json) : R (Option Int × Bool) :=
    match x with
    | .str "V" => .ok (none, true)
    | _ => do return (← joptInt x, false)
  let (st, sv) ← part (← jidx a 0)
  let (sp, pv) ← part (← jidx a 1)
  let step ← joptInt (← jidx a 2)
  return { start := st, startVar := sv, stop := sp, stopVar := pv, step := step }

def errJson : Json := .str "err"

def bindingJson : Except Err Binding → Json
  | .error _ => errJson
  | .ok b => mkObj [
      ("slots", jArr (b.slots.map fun (n, v) => jArr [.str n, valJson v])),
      ("var", jArr (b.var.map valJson)),
      ("kw", jArr (b.kw.map fun (n, v) => jArr [.str n, valJson v]))]

def oaJson (s : Sig) (c : Cfg) (f : Cfg.OAFlags) : Json :=
  match c.orderedArguments s f with
  | .ok d => dictJson d
  | .error _ => errJson

def hvalJson : HVal → Json
  | .val v => mkObj [("val", valJson v)]
  | .deleted => .str "deleted"
  | .tags ts => mkObj [("tags", jArr (ts.map jNat))]

/-- Observation of the whole state after a step. -/
def observe (s : Sig) (c : Cfg) : Json :=
  mkObj [
    ("view", jArr ((c.posView s).map valJson)),
    ("oa", oaJson s c {}),
    ("oa_defaults", oaJson s c { defaults := true }),
    ("oa_unset", oaJson s c { unset := true }),
    ("oa_nopos", oaJson s c { positional := false }),
    ("oa_novk", oaJson s c { varKeyword := false }),
    ("oa_noeq", oaJson s c { equalToDefault := false }),
    ("oa_all", oaJson s c { defaults := true, unset := true }),
    ("dir", jArr ((c.dir s).map Json.str)),
    ("build", bindingJson (buildCall s c)),
    ("direct", bindingJson (match c.orderedArguments s {} with
        | .ok d => direct s d
        | .error e => .error e)),
    ("hist", jArr (c.hist.map fun h => jArr [keyJson h.key, hvalJson h.new])),
    ("seqs", jArr (c.hist.map fun h => jNat h.seq)),
    ("tags", jArr (c.tags.map fun (k, ts) => jArr [keyJson k, jArr (ts.map jNat)])),
    ("args", dictJson c.args)]

/-- One op: returns the new state (unchanged on error) and the op's own result. -/
def step (s : Sig) (c : Cfg) (op : Json) : R (Cfg × Json) := do
  let a ← jlist op
  let name ← jstr (← jidx a 0)
  let wrap (r : Except Err Cfg) : R (Cfg × Json) :=
    match r with
    | .ok c' => .ok (c', .str "ok")
    | .error _ => .ok (c, errJson)
  match name with
  | "getattr" =>
    let fac : Bool := match (a[2]? : Option Json) with | some (Json.bool b) => b | _ => false
    match c.getAttr s (← jstr (← jidx a 1)) fac with
    | .ok v => return (c, valJson v)
    | .error _ => return (c, errJson)
  | "setattr" => wrap (c.setAttr s (← jstr (← jidx a 1)) (← parseVal (← jidx a 2)))
  | "delattr" => wrap (c.delAttr s (← jstr (← jidx a 1)))
  | "getitem" =>
    match c.getItem s (← jint (← jidx a 1)) with
    | .ok v => return (c, valJson v)
    | .error _ => return (c, errJson)
  | "getvar" =>
    match s.vpStart with
    | some n => match c.getItem s n with
      | .ok v => return (c, valJson v)
      | .error _ => return (c, errJson)
    | none => return (c, errJson)
  | "getslice" =>
    match c.getSlice s (← parseSliceK (← jidx a 1)) with
    | .ok vs => return (c, jArr (vs.map valJson))
    | .error _ => return (c, errJson)
  | "setitem" => wrap (c.setItem s (← jint (← jidx a 1)) (← parseVal (← jidx a 2)))
  | "setvar" =>
    match s.vpStart with
    | some n => wrap (c.setItem s n (← parseVal (← jidx a 1)))
    | none => return (c, errJson)
  | "setslice" =>
    let vals ← (← jlist (← jidx a 2)).mapM parseVal
    wrap (c.setSlice s (← parseSliceK (← jidx a 1)) vals)
  | "delitem" => wrap (c.delItem s (← jint (← jidx a 1)))
  | "delvar" =>
    match s.vpStart with
    | some n => wrap (c.delItem s n)
    | none => return (c, errJson)
  | "delslice" => wrap (c.delSlice s (← parseSliceK (← jidx a 1)))
  | "addtag" => wrap (c.addTag s (← parseKey (← jidx a 1)) (← jnat (← jidx a 2)))
  | "removetag" => wrap (c.removeTag s (← parseKey (← jidx a 1)) (← jnat (← jidx a 2)))
  | "cleartags" => wrap (c.clearTags s (← parseKey (← jidx a 1)))
  | "settags" =>
    let ts ← (← jlist (← jidx a 2)).mapM jnat
    wrap (c.setTags s (← parseKey (← jidx a 1)) ts)
  | "materialize" => wrap (c.materializeDefaults s)
  | "suspend" => return ({ c with tracking := false }, .str "ok")
  | "resume" => return ({ c with tracking := true }, .str "ok")
  | _ => throw "bad-op"

/-- Ops that may change the signature or apply several edits with partial effect. -/
def stepSig (s : Sig) (c : Cfg) (op : Json) : R (Sig × Cfg × Json) := do
  let a ← jlist op
  let name ← jstr (← jidx a 0)
  match name with
  | "update_callable" =>
    let ns ← parseSig (← jidx a 1)
    let drop ← jbool (← jidx a 2)
    match Cfg.updateCallable ns c drop with
    | .ok c' => return (ns, c', .str "ok")
    | .error _ => return (s, c, errJson)
  | "setattr2" =>
    let v ← parseVal (← jidx a 3)
    match c.setAttr s (← jstr (← jidx a 1)) v with
    | .error _ => return (s, c, errJson)
    | .ok c1 =>
      match c1.setAttr s (← jstr (← jidx a 2)) v with
      | .error _ => return (s, c1, errJson)
      | .ok c2 => return (s, c2, .str "ok")
  | "assign" | "copy_with" =>
    let kvs ← (← jlist (← jidx a 1)).mapM fun kv => do
      let b ← jlist kv
      return (← jstr (← jidx b 0), ← parseVal (← jidx b 1))
    -- `Cfg.assignAll` (Model/ArgStore.lean, the `assign` of the C16 alphabet): in place, up to the
    -- first rejected name; a failing copy_with discards the copy it was editing
    if c.assignOk s kvs then return (s, c.assignAll s kvs, .str "ok")
    else return (s, if name == "copy_with" then c else c.assignAll s kvs, errJson)
  | _ =>
    let (c', r) ← step s c op
    return (s, c', r)

def handle (req : Json) : R Json := do
  let s ← parseSig (← jget req "sig")
  let args ← (← jlist (← jget req "args")).mapM parseVal
  let kwargs ← (← jlist (← jget req "kwargs")).mapM fun kv => do
    let a ← jlist kv
    return (← jstr (← jidx a 0), ← parseVal (← jidx a 1))
  let ops ← jlist (jgetD req "ops" (.arr #[]))
  let ann ← (← jlist (jgetD req "ann" (.arr #[]))).mapM fun nt => do
    let a ← jlist nt
    return (← jstr (← jidx a 0), ← (← jlist (← jidx a 1)).mapM jnat)
  -- `init_suspended`: the Buildable is constructed inside `with suspend_tracking():` (no entry may
  -- be logged, no sequence number drawn); tracking is on again for the operations that follow
  let susp := match req.getObjVal? "init_suspended" with
    | .ok (.bool b) => b
    | _ => false
  match (construct s args kwargs (tracking := !susp) (ann := ann)).map
      (fun c => if susp then { c with tracking := true } else c) with
  | none => return mkObj [("init", errJson), ("steps", .arr #[])]
  | some c0 =>
    let initObs := observe s c0
    let mut c := c0
    let mut s := s
    let mut saved : List Bool := []      -- flags saved by nested `suspend_tracking()` blocks
    let mut outs : Array Json := #[]
    for op in ops do
      let name ← jstr (← jidx (← jlist op) 0)
      if name == "enter_suspend" || name == "exit_suspend" then
        -- the per-thread switch of Model/Threads.lean (`TOp.suspend` / `TOp.resume`)
        let sys : Fiddle.Sys := { threads := fun _ => { tracking := c.tracking, saved := saved } }
        let (sys', _) := sys.step 0 (if name == "enter_suspend" then .suspend else .resume)
        c := { c with tracking := (sys'.threads 0).tracking }
        saved := (sys'.threads 0).saved
        outs := outs.push (mkObj [("res", .str "ok"), ("state", observe s c)])
      else
        let (s', c', r) ← stepSig s c op
        c := c'
        s := s'
        outs := outs.push (mkObj [("res", r), ("state", observe s c)])
    return mkObj [("init", initObs), ("steps", .arr outs)]

end Driver.ArgStore
