import Driver.Util
import Driver.Graph
import FiddleModel.Model.Eq
open Lean Fiddle
namespace Driver.Eq
open Driver Driver.Graph

def handle (req : Json) : R Json := do
  let a ← jget req "a"
  let b ← jget req "b"
  let h1 ← (← jlist (← jget a "objs")).mapM parseObj
  let r1 ← parseGVal (← jget a "root")
  let h2 ← (← jlist (← jget b "objs")).mapM parseObj
  let r2 ← parseGVal (← jget b "root")
  if !(Heap.eqWFB h1 && Heap.eqWFB h2) then throw "heap not well-formed for == (EqWF)"
  return mkObj [("eq", .bool (buildableEq h1 h2 r1 r2)), ("eq_rev", .bool (buildableEq h2 h1 r2 r1))]

end Driver.Eq
