import FiddleModel.Model.Threads

namespace Fiddle

theorem setThread_same (s : Sys) (t : Nat) (ts : TState) : (s.setThread t ts).threads t = ts := by
  simp [Sys.setThread]

theorem setThread_other (s : Sys) (t u : Nat) (ts : TState) (h : u ≠ t) :
    (s.setThread t ts).threads u = s.threads u := by
  simp [Sys.setThread, h]

theorem setThread_ctr (s : Sys) (t : Nat) (ts : TState) : (s.setThread t ts).ctr = s.ctr := rfl

/-- A step of thread `t` leaves every other thread's local state alone. -/
theorem step_other (s : Sys) (t u : Nat) (op : TOp) (h : u ≠ t) :
    (s.step t op).1.threads u = s.threads u := by
  unfold Sys.step
  cases op <;> simp only []
  all_goals first
    | rfl
    | (split <;> first | rfl | exact setThread_other _ _ _ _ h)
    | exact setThread_other _ _ _ _ h

/-- The local effect and the output of a step depend only on the thread's own state (and, for
    the value of a sequence number, on the counter). -/
theorem step_local (s s' : Sys) (t : Nat) (op : TOp) (h : s.threads t = s'.threads t) :
    (s.step t op).1.threads t = (s'.step t op).1.threads t ∧
      (s.step t op).2.erase = (s'.step t op).2.erase := by
  unfold Sys.step
  rw [h]
  cases op <;> simp only []
  · split <;> simp [setThread_same, TOut.erase, h]
  · simp [setThread_same, TOut.erase]
  · simp [setThread_same, TOut.erase]
  · split <;> simp [setThread_same, TOut.erase, h]
  · split <;> simp [TOut.erase, h]
  · simp [TOut.erase, h]
  · simp [TOut.erase, h]

/-- The counter never decreases. -/
theorem step_ctr_mono (s : Sys) (t : Nat) (op : TOp) : s.ctr ≤ (s.step t op).1.ctr := by
  unfold Sys.step
  cases op <;> simp only []
  all_goals first
    | exact Nat.le_refl _
    | (split <;> first | exact Nat.le_refl _ | (simp [setThread_ctr]) | (simp; done))
    | simp [setThread_ctr]

end Fiddle

namespace Fiddle

theorem run_cons (s : Sys) (t : Nat) (op : TOp) (rest : List (Nat × TOp)) :
    s.run ((t, op) :: rest) =
      (((s.step t op).1.run rest).1, (t, (s.step t op).2) :: ((s.step t op).1.run rest).2) := by
  simp [Sys.run]

/-- Non-interference: what a thread observes (sequence numbers compared by order only) and its
    final local state are those of running its own program alone. -/
theorem run_noninterference (t : Nat) : ∀ (sched : List (Nat × TOp)) (s s' : Sys),
    s.threads t = s'.threads t →
    (outputsOf t (s.run sched).2).map TOut.erase =
        (outputsOf t (s'.run (programOf t sched)).2).map TOut.erase ∧
      (s.run sched).1.threads t = (s'.run (programOf t sched)).1.threads t := by
  intro sched
  induction sched with
  | nil => intro s s' h; simp [Sys.run, programOf, outputsOf, h]
  | cons x rest ih =>
    obtain ⟨u, op⟩ := x
    intro s s' h
    by_cases hu : u = t
    · subst hu
      have hp : programOf u ((u, op) :: rest) = (u, op) :: programOf u rest := by
        simp [programOf]
      rw [hp, run_cons, run_cons]
      obtain ⟨hl, ho⟩ := step_local s s' u op h
      obtain ⟨i1, i2⟩ := ih (s.step u op).1 (s'.step u op).1 hl
      refine ⟨?_, i2⟩
      simp only [outputsOf, List.filter_cons, beq_self_eq_true, if_true, List.map_cons]
      simp only [outputsOf] at i1
      rw [ho, i1]
    · have hp : programOf t ((u, op) :: rest) = programOf t rest := by
        simp [programOf, hu]
      rw [hp, run_cons]
      have hl : (s.step u op).1.threads t = s'.threads t := by
        rw [step_other s u t op (fun e => hu e.symm)]; exact h
      obtain ⟨i1, i2⟩ := ih (s.step u op).1 s' hl
      refine ⟨?_, i2⟩
      have : ((u == t) = false) := by simpa using hu
      simp only [outputsOf, List.filter_cons, this]
      simpa [outputsOf] using i1

/-- What a step does to the counter, by what it returns. -/
theorem step_logged (s : Sys) (t : Nat) (op : TOp) :
    (∀ k n, (s.step t op).2 = .logged k n → n = s.ctr ∧ (s.step t op).1.ctr = s.ctr + 1) ∧
    ((∀ k n, (s.step t op).2 ≠ .logged k n) → (s.step t op).1.ctr = s.ctr) := by
  unfold Sys.step
  cases op <;> simp only []
  all_goals first
    | (split <;> simp [setThread_ctr])
    | simp [setThread_ctr]

def allSeqs (os : List (Nat × TOut)) : List Nat := seqsOf (os.map (·.2))

/-- Sequence numbers drawn during a run are strictly increasing in the order they are drawn
    and lie between the counter's initial and final value. -/
theorem run_seqs (sched : List (Nat × TOp)) : ∀ (s : Sys),
    s.ctr ≤ (s.run sched).1.ctr ∧
    (allSeqs (s.run sched).2).Pairwise (· < ·) ∧
    ∀ n ∈ allSeqs (s.run sched).2, s.ctr ≤ n ∧ n < (s.run sched).1.ctr := by
  induction sched with
  | nil => intro s; simp [Sys.run, allSeqs, seqsOf]
  | cons x rest ih =>
    obtain ⟨u, op⟩ := x
    intro s
    rw [run_cons]
    dsimp only
    obtain ⟨h1, h2, h3⟩ := ih (s.step u op).1
    obtain ⟨l1, l2⟩ := step_logged s u op
    have hm := step_ctr_mono s u op
    cases ho : (s.step u op).2 with
    | logged k n =>
      obtain ⟨hn, hc⟩ := l1 k n ho
      subst hn
      refine ⟨by omega, ?_, ?_⟩
      · simp only [allSeqs, List.map_cons, seqsOf, List.filterMap_cons, ho]
        refine List.pairwise_cons.mpr ⟨?_, h2⟩
        intro m hm'
        have := h3 m hm'
        omega
      · intro m hm'
        simp only [allSeqs, List.map_cons, seqsOf, List.filterMap_cons, ho, List.mem_cons] at hm'
        rcases hm' with rfl | hm'
        · omega
        · have := h3 m hm'; omega
    | ok | nestedBuildRejected | notLogged | flag b =>
      all_goals
        refine ⟨by omega, ?_, ?_⟩
        · simpa [allSeqs, seqsOf, List.filterMap_cons, ho] using h2
        · intro m hm'
          have hm'' : m ∈ allSeqs ((s.step u op).1.run rest).2 := by
            simpa [allSeqs, seqsOf, List.filterMap_cons, ho] using hm'
          have := h3 m hm''
          omega

theorem seqsOf_thread_sublist (t : Nat) (os : List (Nat × TOut)) :
    (seqsOf (outputsOf t os)).Sublist (allSeqs os) := by
  unfold seqsOf outputsOf allSeqs seqsOf
  exact List.Sublist.filterMap _ (List.Sublist.map _ List.filter_sublist)

end Fiddle
