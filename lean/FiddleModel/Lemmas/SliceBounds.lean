/-
`slice.indices(len)` followed by `range`: every selected position lies inside the list.
-/
import FiddleModel.Py.Slice

namespace Py

theorem rangeList_bounds (sl : Slice) (len : Nat) (a b st : Int)
    (h : sliceIndices sl len = some (a, b, st)) :
    ∀ i ∈ rangeList a b st, 0 ≤ i ∧ i < (len : Int) := by
  intro i hi
  unfold rangeList at hi
  simp only [List.mem_map, List.mem_range] at hi
  obtain ⟨k, hk, rfl⟩ := hi
  unfold sliceIndices at h
  by_cases h0 : sl.step.getD 1 = 0
  · simp [h0] at h
  · simp only [h0, if_false, Option.some.injEq, Prod.mk.injEq] at h
    obtain ⟨ha, hb, hst⟩ := h
    subst hst
    generalize hs : sl.step.getD 1 = st at *
    unfold rangeLen at hk
    by_cases hpos : st > 0
    · have hneg : ¬ st < 0 := by omega
      simp only [hpos, if_true] at hk
      simp only [hneg, if_false] at ha hb
      by_cases hab : a < b
      · simp only [hab, if_true] at hk
        -- 0 ≤ a, b ≤ len
        have ha0 : 0 ≤ a := by
          rw [← ha]; cases sl.start with
          | none => simp
          | some x => simp only []; split <;> split <;> omega
        have hbn : b ≤ (len : Int) := by
          rw [← hb]; cases sl.stop with
          | none => simp
          | some x => simp only []; split <;> split <;> omega
        have hq : (k : Int) < (b - a + st - 1) / st := by
          have : (k : Int) < ((b - a + st - 1) / st).toNat := by exact_mod_cast hk
          have hnn : 0 ≤ (b - a + st - 1) / st := Int.ediv_nonneg (by omega) (by omega)
          rw [Int.toNat_of_nonneg hnn] at this; exact this
        have h1 : ((k : Int) + 1) * st ≤ (b - a + st - 1) / st * st :=
          Int.mul_le_mul_of_nonneg_right (by omega) (by omega)
        have h2 : (b - a + st - 1) / st * st ≤ b - a + st - 1 := Int.ediv_mul_le _ (by omega)
        have h3 : ((k : Int) + 1) * st = (k : Int) * st + st := by rw [Int.add_mul, Int.one_mul]
        have hk0 : 0 ≤ (k : Int) * st := Int.mul_nonneg (by omega) (by omega)
        generalize (k : Int) * st = p at *
        omega
      · simp [hab] at hk
    · have hneg : st < 0 := by omega
      simp only [hpos, if_false, hneg, if_true] at hk
      simp only [hneg, if_true] at ha hb
      by_cases hba : b < a
      · simp only [hba, if_true] at hk
        have han : a ≤ (len : Int) - 1 := by
          rw [← ha]; cases sl.start with
          | none => simp
          | some x => simp only []; split <;> split <;> omega
        have hb1 : -1 ≤ b := by
          rw [← hb]; cases sl.stop with
          | none => simp
          | some x => simp only []; split <;> split <;> omega
        have hq : (k : Int) < (a - b + (-st) - 1) / (-st) := by
          have : (k : Int) < ((a - b + (-st) - 1) / (-st)).toNat := by exact_mod_cast hk
          have hnn : 0 ≤ (a - b + (-st) - 1) / (-st) := Int.ediv_nonneg (by omega) (by omega)
          rw [Int.toNat_of_nonneg hnn] at this; exact this
        have h1 : ((k : Int) + 1) * (-st) ≤ (a - b + (-st) - 1) / (-st) * (-st) :=
          Int.mul_le_mul_of_nonneg_right (by omega) (by omega)
        have h2 : (a - b + (-st) - 1) / (-st) * (-st) ≤ a - b + (-st) - 1 := Int.ediv_mul_le _ (by omega)
        have h3 : ((k : Int) + 1) * (-st) = -((k : Int) * st) + (-st) := by
          rw [Int.add_mul, Int.one_mul, Int.mul_neg]
        have hk0 : (k : Int) * st ≤ 0 := Int.mul_nonpos_of_nonneg_of_nonpos (by omega) (by omega)
        generalize (k : Int) * st = p at *
        omega
      · simp [hba] at hk

end Py
