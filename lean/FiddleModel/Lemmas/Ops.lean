/-
Every editing operation of the ArgStore model changes the state only through the two hooks
`Cfg.setValue` and `Cfg.delValue` (the model counterpart of "every write to `__arguments__`
goes through `_arguments_set_value` / `_arguments_del_value`").  Stated as a closure principle:
a predicate preserved by the two hooks is preserved by every operation.
-/
import FiddleModel.Model.ArgStore

namespace Fiddle
namespace Cfg

/-- `P` is preserved by the two write hooks. -/
structure Closed (P : Cfg → Prop) : Prop where
  set : ∀ c k v, P c → P (c.setValue k v)
  del : ∀ c k c', c.delValue k = .ok c' → P c → P c'

variable {P : Cfg → Prop}

theorem setAttr_closed (hP : Closed P) {s : Sig} {c c' : Cfg} {n : String} {v : Val}
    (h : c.setAttr s n v = .ok c') (hc : P c) : P c' := by
  unfold setAttr at h
  split at h
  · cases h; exact hP.set _ _ _ hc
  · cases h

theorem delAttr_closed (hP : Closed P) {s : Sig} {c c' : Cfg} {n : String}
    (h : c.delAttr s n = .ok c') (hc : P c) : P c' := by
  unfold delAttr at h
  split at h
  · rename_i c'' hd; cases h; exact hP.del _ _ _ hd hc
  · cases h

theorem setItem_closed (hP : Closed P) {s : Sig} {c c' : Cfg} {i : Int} {v : Val}
    (h : c.setItem s i v = .ok c') (hc : P c) : P c' := by
  unfold setItem at h
  simp only at h
  repeat' split at h
  all_goals (cases h <;> first | exact hP.set _ _ _ hc | exact hc)

theorem setItems_closed (hP : Closed P) {s : Sig} {l : List (Int × Val)} :
    ∀ {c c' : Cfg}, setItems s c l = .ok c' → P c → P c' := by
  induction l with
  | nil => intro c c' h hc; simp [setItems] at h; cases h; exact hc
  | cons iv r ih =>
    intro c c' h hc
    obtain ⟨i, v⟩ := iv
    simp only [setItems] at h
    split at h
    · rename_i c1 h1; exact ih h (setItem_closed hP h1 hc)
    · cases h

theorem placeValue_closed (hP : Closed P) {old : Dict Val} {c c' : Cfg} {index : Nat}
    {x : Sum Nat Val} {b : Bool} (h : placeValue old c index x b = .ok c') (hc : P c) : P c' := by
  unfold placeValue at h
  split at h
  · split at h
    · cases h; exact hc
    · split at h
      · cases h; exact hP.set _ _ _ hc
      · cases h
  · cases h; exact hP.set _ _ _ hc

theorem compact1_closed (hP : Closed P) {old : Dict Val} {news : List (Sum Nat Val)}
    {l : List Nat} : ∀ {c c' : Cfg}, compact1 old news c l = .ok c' → P c → P c' := by
  induction l with
  | nil => intro c c' h hc; simp [compact1] at h; cases h; exact hc
  | cons index r ih =>
    intro c c' h hc
    simp only [compact1] at h
    split at h
    · split at h
      · rename_i c1 h1; exact ih h (placeValue_closed hP h1 hc)
      · cases h
    · split at h
      · rename_i c1 h1; exact ih h (hP.del _ _ _ h1 hc)
      · cases h

theorem compact2_closed (hP : Closed P) {old : Dict Val} {news : List (Sum Nat Val)}
    {l : List Nat} : ∀ {c c' : Cfg}, compact2 old news c l = .ok c' → P c → P c' := by
  induction l with
  | nil => intro c c' h hc; simp [compact2] at h; cases h; exact hc
  | cons index r ih =>
    intro c c' h hc
    simp only [compact2] at h
    split at h
    · split at h
      · rename_i c1 h1; exact ih h (placeValue_closed hP h1 hc)
      · cases h
    · exact ih h hc

theorem setSlice_closed (hP : Closed P) {s : Sig} {c c' : Cfg} {k : SliceK} {vals : List Val}
    (h : c.setSlice s k vals = .ok c') (hc : P c) : P c' := by
  unfold setSlice at h
  simp only at h
  repeat' split at h
  all_goals first
    | (cases h; done)
    | exact setItems_closed hP h hc
    | exact compact2_closed hP h (compact1_closed hP (by assumption) hc)

theorem delPass_closed (hP : Closed P) {s : Sig} {vs : Nat} {l : List Int} :
    ∀ {c c' : Cfg} {news news' : List Nat},
      delPass s vs c news l = .ok (c', news') → P c → P c' := by
  induction l with
  | nil => intro c c' news news' h hc; simp [delPass] at h; cases h.1; exact hc
  | cons index r ih =>
    intro c c' news news' h hc
    simp only [delPass] at h
    split at h
    · split at h
      · cases h
      · split at h
        · split at h
          · rename_i c1 h1; exact ih h (hP.del _ _ _ h1 hc)
          · cases h
        · exact ih h hc
    · split at h
      · cases h
      · exact ih h hc

theorem delCompact_closed (hP : Closed P) {news : List Nat} {l : List Nat} :
    ∀ {c c' : Cfg}, delCompact news c l = .ok c' → P c → P c' := by
  induction l with
  | nil => intro c c' h hc; simp [delCompact] at h; cases h; exact hc
  | cons index r ih =>
    intro c c' h hc
    simp only [delCompact] at h
    split at h
    · split at h
      · split at h
        · exact ih h (hP.set _ _ _ hc)
        · cases h
      · exact ih h hc
    · split at h
      · rename_i c1 h1; exact ih h (hP.del _ _ _ h1 hc)
      · cases h

theorem delIndices_closed (hP : Closed P) {s : Sig} {c c' : Cfg} {l : List Int}
    (h : c.delIndices s l = .ok c') (hc : P c) : P c' := by
  unfold delIndices at h
  simp only at h
  split at h
  · cases h
  · rename_i c1 news h1
    exact delCompact_closed hP h (delPass_closed hP h1 hc)

theorem delItem_closed (hP : Closed P) {s : Sig} {c c' : Cfg} {i : Int}
    (h : c.delItem s i = .ok c') (hc : P c) : P c' := by
  unfold delItem at h
  simp only at h
  repeat' split at h
  all_goals first
    | (cases h; done)
    | exact delIndices_closed hP h hc

theorem delSlice_closed (hP : Closed P) {s : Sig} {c c' : Cfg} {k : SliceK}
    (h : c.delSlice s k = .ok c') (hc : P c) : P c' := by
  unfold delSlice at h
  simp only at h
  split at h
  · cases h
  · exact delIndices_closed hP h hc

end Cfg

/-- The editing operations of the model (the op set of C03 / C16). -/
inductive Op
  | setAttr (n : String) (v : Val)
  | delAttr (n : String)
  | setItem (i : Int) (v : Val)
  | setSlice (k : Cfg.SliceK) (vals : List Val)
  | delItem (i : Int)
  | delSlice (k : Cfg.SliceK)

/-- One edit; an invalid edit raises and (by construction of `Except`) leaves the state
    as it was. -/
def Cfg.applyOp (s : Sig) (c : Cfg) : Op → Except Err Cfg
  | .setAttr n v => c.setAttr s n v
  | .delAttr n => c.delAttr s n
  | .setItem i v => c.setItem s i v
  | .setSlice k vals => c.setSlice s k vals
  | .delItem i => c.delItem s i
  | .delSlice k => c.delSlice s k

/-- Running a history of edits; rejected edits are skipped (state unchanged). -/
def Cfg.run (s : Sig) : Cfg → List Op → Cfg
  | c, [] => c
  | c, o :: r =>
    match c.applyOp s o with
    | .ok c' => Cfg.run s c' r
    | .error _ => Cfg.run s c r

theorem Cfg.applyOp_closed {P : Cfg → Prop} (hP : Cfg.Closed P) {s : Sig} {c c' : Cfg} {o : Op}
    (h : c.applyOp s o = .ok c') (hc : P c) : P c' := by
  cases o with
  | setAttr n v => exact Cfg.setAttr_closed hP h hc
  | delAttr n => exact Cfg.delAttr_closed (s := s) hP h hc
  | setItem i v => exact Cfg.setItem_closed hP h hc
  | setSlice k vals => exact Cfg.setSlice_closed hP h hc
  | delItem i => exact Cfg.delItem_closed hP h hc
  | delSlice k => exact Cfg.delSlice_closed hP h hc

/-- Induction over histories: an invariant of the two hooks holds after every edit history. -/
theorem Cfg.run_closed {P : Cfg → Prop} (hP : Cfg.Closed P) (s : Sig) (ops : List Op) :
    ∀ c, P c → P (Cfg.run s c ops) := by
  induction ops with
  | nil => intro c hc; exact hc
  | cons o r ih =>
    intro c hc
    simp only [Cfg.run]
    split
    · rename_i c' h; exact ih c' (Cfg.applyOp_closed hP h hc)
    · exact ih c hc

end Fiddle
