/-
Lemmas about the path grammar (`Model/Paths.lean`): decimal printing and evaluation, string
escaping, and "scanning the code of one element in front of a boundary yields that element".
-/
import FiddleModel.Model.Paths

namespace Fiddle.Paths

/-! ## `List.span` on a run followed by a stopper -/

theorem span_run (p : Char → Bool) (l r : List Char) (hl : ∀ c ∈ l, p c = true)
    (hr : r = [] ∨ ∃ c r', r = c :: r' ∧ p c = false) : spanP p (l ++ r) = (l, r) := by
  induction l with
  | nil =>
    rcases hr with rfl | ⟨c, r', rfl, hc⟩
    · simp [spanP]
    · simp [spanP, hc]
  | cons a l ih =>
    have ha := hl a (by simp)
    have := ih (fun c hc => hl c (by simp [hc]))
    simp [spanP, ha, this]

/-! ## Decimal numerals -/

theorem isDigit_digitChar (d : Nat) : isDigit (digitChar d) = true := by
  match d with
  | 0 | 1 | 2 | 3 | 4 | 5 | 6 | 7 | 8 => decide
  | n + 9 => simp only [digitChar]; decide

theorem digitVal_digitChar : ∀ d, d < 10 → digitVal (digitChar d) = d := by decide

theorem digitChar_ne_zero : ∀ d, d < 10 → 0 < d → digitChar d ≠ '0' := by decide

theorem natRepr_ne_nil (n : Nat) : natRepr n ≠ [] := by
  rw [natRepr]; split <;> simp

theorem natRepr_digits (n : Nat) : ∀ c ∈ natRepr n, isDigit c = true := by
  fun_induction natRepr n with
  | case1 n h => intro c hc; simp at hc; subst hc; exact isDigit_digitChar n
  | case2 n h ih =>
    intro c hc
    rcases List.mem_append.mp hc with h1 | h1
    · exact ih c h1
    · simp at h1; subst h1; exact isDigit_digitChar _

theorem evalDigits_append (l : List Char) (c : Char) :
    evalDigits (l ++ [c]) = 10 * evalDigits l + digitVal c := by
  simp [evalDigits, List.foldl_append]

theorem evalDigits_natRepr (n : Nat) : evalDigits (natRepr n) = n := by
  fun_induction natRepr n with
  | case1 n h => simp [evalDigits, digitVal_digitChar n h]
  | case2 n h ih =>
    rw [evalDigits_append, ih, digitVal_digitChar _ (Nat.mod_lt _ (by omega))]
    omega

theorem natRepr_head (n : Nat) (hn : 0 < n) : ∃ c r, natRepr n = c :: r ∧ c ≠ '0' := by
  fun_induction natRepr n with
  | case1 n h => exact ⟨digitChar n, [], rfl, digitChar_ne_zero n h hn⟩
  | case2 n h ih =>
    obtain ⟨c, r, e, hc⟩ := ih (by omega)
    exact ⟨c, r ++ [digitChar (n % 10)], by rw [e]; rfl, hc⟩

theorem evalInt_natRepr (n : Nat) : evalInt (natRepr n) = .ok n := by
  by_cases hn : n = 0
  · subst hn; rw [natRepr]; simp [evalInt, digitChar]
  · obtain ⟨c, r, e, hc⟩ := natRepr_head n (by omega)
    have hnot : (natRepr n).all (· == '0') = false := by
      rw [e]; simp [hc]
    unfold evalInt
    rw [hnot]
    simp only [Bool.false_eq_true, if_false]
    rw [e]
    split
    · rename_i heq; cases heq; exact absurd rfl hc
    · rw [← e, evalDigits_natRepr]

/-! ## Escaping -/

theorem plain_facts (c : Char) (h : plainChar c = true) :
    c ≠ '\\' ∧ c ≠ '\'' ∧ c ≠ '"' ∧ c ≠ '\n' ∧ c ≠ '\r' ∧ c.toNat ≠ 0 := by
  simp only [plainChar, Bool.and_eq_true, decide_eq_true_eq, bne_iff_ne, ne_eq] at h
  obtain ⟨⟨⟨⟨h1, _⟩, h3⟩, h4⟩, h5⟩ := h
  refine ⟨h5, h3, h4, ?_, ?_, ?_⟩
  · intro e; subst e; simp at h1
  · intro e; subst e; simp at h1
  · omega

/-- What one escaped character parses back to, in front of any parsed tail. -/
theorem unescape_escapeChar (c : Char) (a t t' : List Char) (ha : escapeChar c = .ok a)
    (ht : unescape t = .ok t') : unescape (a ++ t) = .ok (c :: t') := by
  unfold escapeChar at ha
  split at ha
  · rename_i h; simp at h; subst h; cases ha
    simp [unescape, ht]
  split at ha
  · rename_i h; simp at h; subst h; cases ha
    simp [unescape, ht]
  split at ha
  · rename_i h; simp at h; subst h; cases ha
    simp [unescape, ht]
  split at ha
  · rename_i h; simp at h; subst h; cases ha
    simp [unescape, ht]
  split at ha
  · rename_i h
    cases ha
    obtain ⟨h1, _, _, h4, h5, h6⟩ := plain_facts c h
    rw [unescape.eq_def]
    simp [h1, h4, h5, h6, ht]
  · cases ha

theorem unescape_escape (s e : List Char) (h : escape s = .ok e) : unescape e = .ok s := by
  induction s generalizing e with
  | nil => simp [escape] at h; subst h; simp [unescape]
  | cons c r ih =>
    simp only [escape] at h
    split at h
    · rename_i a b ha hb
      cases h
      exact unescape_escapeChar c a b r ha (ih b hb)
    · cases h

/-- An escaped string contains no single quote and no `=` unless the string does. -/
theorem escapeChar_mem (c : Char) (a : List Char) (ha : escapeChar c = .ok a) (x : Char) (hx : x ∈ a) :
    x = c ∨ x = '\\' ∨ x = 'n' ∨ x = 'r' ∨ x = 't' := by
  unfold escapeChar at ha
  repeat' split at ha
  all_goals first
    | (cases ha; simp at hx; rcases hx with rfl | rfl <;> simp)
    | (cases ha; simp at hx; subst hx; simp)
    | cases ha

theorem escapeChar_no_quote (c : Char) (a : List Char) (ha : escapeChar c = .ok a) :
    ∀ x ∈ a, x ≠ '\'' := by
  intro x hx
  unfold escapeChar at ha
  repeat' split at ha
  all_goals first
    | (cases ha; simp at hx; rcases hx with rfl | rfl <;> decide)
    | (cases ha
       rename_i hp
       simp at hx; subst hx
       exact (plain_facts _ hp).2.1)
    | cases ha

theorem escape_no_quote (s e : List Char) (h : escape s = .ok e) : ∀ x ∈ e, x ≠ '\'' := by
  induction s generalizing e with
  | nil => simp [escape] at h; subst h; simp
  | cons c r ih =>
    simp only [escape] at h
    split at h
    · rename_i a b ha hb
      cases h
      intro x hx
      rcases List.mem_append.mp hx with h1 | h1
      · exact escapeChar_no_quote c a ha x h1
      · exact ih b hb x h1
    · cases h

theorem escape_no_eq (s e : List Char) (h : escape s = .ok e) (hs : ∀ x ∈ s, x ≠ '=') :
    ∀ x ∈ e, x ≠ '=' := by
  induction s generalizing e with
  | nil => simp [escape] at h; subst h; simp
  | cons c r ih =>
    simp only [escape] at h
    split at h
    · rename_i a b ha hb
      cases h
      intro x hx
      rcases List.mem_append.mp hx with h1 | h1
      · rcases escapeChar_mem c a ha x h1 with rfl | rfl | rfl | rfl | rfl
        · exact hs _ (by simp)
        all_goals decide
      · exact ih b hb (fun y hy => hs y (by simp [hy])) x h1
    · cases h

/-! ## One element in front of a boundary -/

/-- Characters a string key may contain within the modelled subset. -/
def keyChar (c : Char) : Prop := plainChar c = true ∨ c = '\\' ∨ c = '\n' ∨ c = '\r' ∨ c = '\t'

/-- The elements the property speaks of: attribute names are non-empty words; string keys are
    quote-free (and printable ASCII or `\\ \n \r \t`, the modelled part of `repr`). -/
def Elem.ok : Elem → Prop
  | .attr n => n ≠ [] ∧ ∀ c ∈ n, isWord c = true
  | .index _ => True
  | .key (.int _) => True
  | .key (.str s) => ∀ c ∈ s, keyChar c

/-- `=`-free (the override syntax splits at the first `=`). -/
def Elem.noEq : Elem → Prop
  | .key (.str s) => ∀ c ∈ s, c ≠ '='
  | _ => True

/-- The rest of the text is empty or starts a new element. -/
def Boundary (r : List Char) : Prop := r = [] ∨ ∃ c r', r = c :: r' ∧ (c = '.' ∨ c = '[')

theorem escapeChar_ok (c : Char) (h : keyChar c) : ∃ a, escapeChar c = .ok a := by
  unfold escapeChar
  rcases h with h | rfl | rfl | rfl | rfl
  · repeat' split
    all_goals first | exact ⟨_, rfl⟩ | (rename_i hp; exact absurd h hp)
  all_goals exact ⟨_, rfl⟩

theorem escape_ok (s : List Char) (h : ∀ c ∈ s, keyChar c) : ∃ e, escape s = .ok e := by
  induction s with
  | nil => exact ⟨[], rfl⟩
  | cons c r ih =>
    obtain ⟨a, ha⟩ := escapeChar_ok c (h c (by simp))
    obtain ⟨b, hb⟩ := ih (fun x hx => h x (by simp [hx]))
    exact ⟨a ++ b, by simp [escape, ha, hb]⟩

theorem code_ok (e : Elem) (h : e.ok) : ∃ t, code e = .ok t := by
  match e, h with
  | .attr n, _ => exact ⟨_, rfl⟩
  | .index n, _ => exact ⟨_, rfl⟩
  | .key (.int n), _ => exact ⟨_, rfl⟩
  | .key (.str s), h =>
    obtain ⟨x, hx⟩ := escape_ok s h
    exact ⟨'[' :: '\'' :: x ++ ['\'', ']'], by simp [code, hx]⟩

theorem word_not_boundary (c : Char) (h : c = '.' ∨ c = '[') : isWord c = false := by
  rcases h with rfl | rfl <;> decide

theorem digit_facts (c : Char) (h : isDigit c = true) :
    c ≠ '\'' ∧ c ≠ '"' ∧ c ≠ '=' ∧ c ≠ ']' := by
  simp only [isDigit, Bool.and_eq_true, decide_eq_true_eq] at h
  have h1 : 48 ≤ c.toNat := by have := h.1; exact this
  have h2 : c.toNat ≤ 57 := by have := h.2; exact this
  refine ⟨?_, ?_, ?_, ?_⟩ <;> (intro e; subst e; revert h1 h2; decide)

theorem word_ne_eq (c : Char) (h : isWord c = true) : c ≠ '=' := by
  intro e; subst e; revert h; decide

/-- Scanning the printed form of one element, followed by a boundary, yields the element (as
    `parse_path` represents it) and leaves exactly the rest. -/
theorem scan_code (e : Elem) (t rest : List Char) (hc : code e = .ok t) (he : e.ok)
    (hb : Boundary rest) : scan (t ++ rest) = .ok (e.toParsed, rest) := by
  have stop_word : rest = [] ∨ ∃ c r', rest = c :: r' ∧ isWord c = false := by
    rcases hb with h | ⟨c, r', h, hc⟩
    · exact .inl h
    · exact .inr ⟨c, r', h, word_not_boundary c hc⟩
  have int_case : ∀ n, scan (('[' :: natRepr n ++ [']']) ++ rest) = .ok (.key (.int n), rest) := by
    intro n
    obtain ⟨d, ds, hd⟩ := List.exists_cons_of_ne_nil (natRepr_ne_nil n)
    have hdig := natRepr_digits n
    have hd1 : isDigit d = true := hdig d (by rw [hd]; simp)
    obtain ⟨q1, q2, _, _⟩ := digit_facts d hd1
    have hspan : spanP isDigit (natRepr n ++ (']' :: rest)) = (natRepr n, ']' :: rest) :=
      span_run isDigit _ _ hdig (.inr ⟨']', rest, rfl, by decide⟩)
    have : ('[' :: natRepr n ++ [']']) ++ rest = '[' :: (natRepr n ++ (']' :: rest)) := by simp
    rw [this]
    simp only [scan, show ('[' : Char) ≠ '.' by decide, if_false, if_true]
    rw [hd] at hspan ⊢
    simp only [List.cons_append, q1, q2, if_false]
    simp only [List.cons_append] at hspan
    simp only [scanDigits, hspan, if_true]
    rw [← hd, evalInt_natRepr]
  match e, he with
  | .attr n, ⟨hne, hw⟩ =>
    simp only [code] at hc; cases hc
    obtain ⟨c, cs, rfl⟩ := List.exists_cons_of_ne_nil hne
    simp only [List.cons_append, scan, if_true, scanAttr]
    have := span_run isWord (c :: cs) rest hw stop_word
    simp only [List.cons_append] at this
    rw [this]
    rfl
  | .index n, _ =>
    simp only [code] at hc; cases hc
    exact int_case n
  | .key (.int n), _ =>
    simp only [code] at hc; cases hc
    exact int_case n
  | .key (.str s), hs =>
    simp only [code] at hc
    split at hc
    · rename_i x hx
      cases hc
      have hq := escape_no_quote s x hx
      have hspan : spanP (· != '\'') (x ++ ('\'' :: ']' :: rest)) = (x, '\'' :: ']' :: rest) :=
        span_run _ _ _ (fun c hc => by simpa using hq c hc) (.inr ⟨'\'', _, rfl, by simp⟩)
      have : ('[' :: '\'' :: x ++ ['\'', ']']) ++ rest = '[' :: '\'' :: (x ++ ('\'' :: ']' :: rest)) := by simp
      rw [this]
      simp only [scan, show ('[' : Char) ≠ '.' by decide, if_false, if_true, scanQuoted, hspan,
        and_self, unescape_escape s x hx]
      rfl
    · cases hc

end Fiddle.Paths
