/-
The positional view (`cfg[:]`) as a function of the store's lookups: analysis of the parameter
loop of `transform_to_args_kwargs` in view mode (include_pos_or_kw_in_args = include_no_value =
True), where nothing is skipped and nothing raises.
-/
import FiddleModel.Lemmas.Dict

namespace Fiddle
namespace Sig

/-- The key under which the positional parameter `p` at signature index `i` is stored. -/
def posKey (p : Param) (i : Nat) : Option Key :=
  match p.kind with
  | .po => some (.idx i)
  | .pk => some (.name p.name)
  | _ => none

/-- Keys of the positional parameters of `ps` (whose head sits at index `i`). -/
def posKeys : List Param → Nat → List Key
  | [], _ => []
  | p :: ps, i =>
    match posKey p i with
    | some k => k :: posKeys ps (i + 1)
    | none => posKeys ps (i + 1)

/-- What the view shows for each positional parameter: the stored value, else the default
    found by `get_default(index)`, else `NO_VALUE`. -/
def viewSlots (s : Sig) (d : Dict Val) : List Param → Nat → List Val
  | [], _ => []
  | p :: ps, i =>
    match posKey p i with
    | some k => (d.get? k).getD ((s.getDefault (.idx i)).getD .nov) :: viewSlots s d ps (i + 1)
    | none => viewSlots s d ps (i + 1)

theorem fillSkipped_nil (pos : List Val) : fillSkipped pos [] = .ok pos := rfl

/-- View-mode loop: the positional list grows by exactly `viewSlots`, computed from the
    ORIGINAL dict `d`, provided the working dict agrees with `d` on the keys still to be
    consumed and those keys are pairwise distinct. -/
theorem taLoop_view (s : Sig) (d : Dict Val) (vp : Bool) :
    ∀ (ps : List Param) (i : Nat) (pos : List Val) (rest : Dict Val),
      (posKeys ps i).Nodup →
      (∀ k ∈ posKeys ps i, rest.get? k = d.get? k) →
      ∃ rest', taLoop s true true vp ps i pos rest [] = .ok (pos ++ viewSlots s d ps i, rest', []) ∧
        (∀ k, k ∉ posKeys ps i → rest'.get? k = rest.get? k) := by
  intro ps
  induction ps with
  | nil => intro i pos rest _ _; exact ⟨rest, by simp [taLoop, viewSlots], fun _ _ => rfl⟩
  | cons p ps ih =>
    intro i pos rest hnd hag
    cases hk : p.kind with
    | po =>
      have hpk : posKey p i = some (.idx i) := by simp [posKey, hk]
      have hkeys : posKeys (p :: ps) i = .idx i :: posKeys ps (i + 1) := by simp [posKeys, hpk]
      rw [hkeys] at hnd hag
      have hnd' := (List.nodup_cons.mp hnd)
      have hhead : rest.get? (.idx i) = d.get? (.idx i) := hag _ (by simp)
      cases hv : rest.get? (.idx i) with
      | some v =>
        have hag' : ∀ k ∈ posKeys ps (i + 1), (rest.del (.idx i)).get? k = d.get? k := by
          intro k hkm
          have hne : Key.idx i ≠ k := fun e => hnd'.1 (e ▸ hkm)
          rw [Dict.get?_del_other _ _ _ hne]; exact hag k (by simp [hkm])
        obtain ⟨rest', h1, h2⟩ := ih (i + 1) (pos ++ [v]) (rest.del (.idx i)) hnd'.2 hag'
        refine ⟨rest', ?_, ?_⟩
        · simp only [taLoop, hk, hv, fillSkipped_nil, viewSlots, hpk]
          rw [h1]; simp [← hhead, hv]
        · intro k hkn
          simp only [hkeys, List.mem_cons, not_or] at hkn
          rw [h2 k hkn.2, Dict.get?_del_other _ _ _ (fun e => hkn.1 e.symm)]
      | none =>
        have hag' : ∀ k ∈ posKeys ps (i + 1), rest.get? k = d.get? k :=
          fun k hkm => hag k (by simp [hkm])
        obtain ⟨rest', h1, h2⟩ :=
          ih (i + 1) (pos ++ [(s.getDefault (.idx i)).getD .nov]) rest hnd'.2 hag'
        refine ⟨rest', ?_, ?_⟩
        · simp only [taLoop, hk, hv, viewSlots, hpk, if_true]
          rw [h1]; simp [← hhead, hv]
        · intro k hkn
          simp only [hkeys, List.mem_cons, not_or] at hkn
          exact h2 k hkn.2
    | pk =>
      have hpk : posKey p i = some (.name p.name) := by simp [posKey, hk]
      have hkeys : posKeys (p :: ps) i = .name p.name :: posKeys ps (i + 1) := by simp [posKeys, hpk]
      rw [hkeys] at hnd hag
      have hnd' := (List.nodup_cons.mp hnd)
      have hhead : rest.get? (.name p.name) = d.get? (.name p.name) := hag _ (by simp)
      cases hv : rest.get? (.name p.name) with
      | some v =>
        have hag' : ∀ k ∈ posKeys ps (i + 1), (rest.del (.name p.name)).get? k = d.get? k := by
          intro k hkm
          have hne : Key.name p.name ≠ k := fun e => hnd'.1 (e ▸ hkm)
          rw [Dict.get?_del_other _ _ _ hne]; exact hag k (by simp [hkm])
        obtain ⟨rest', h1, h2⟩ := ih (i + 1) (pos ++ [v]) (rest.del (.name p.name)) hnd'.2 hag'
        refine ⟨rest', ?_, ?_⟩
        · simp only [taLoop, hk, hv, fillSkipped_nil, viewSlots, hpk, Bool.true_or, if_true]
          rw [h1]; simp [← hhead, hv]
        · intro k hkn
          simp only [hkeys, List.mem_cons, not_or] at hkn
          rw [h2 k hkn.2, Dict.get?_del_other _ _ _ (fun e => hkn.1 e.symm)]
      | none =>
        have hag' : ∀ k ∈ posKeys ps (i + 1), rest.get? k = d.get? k :=
          fun k hkm => hag k (by simp [hkm])
        obtain ⟨rest', h1, h2⟩ :=
          ih (i + 1) (pos ++ [(s.getDefault (.idx i)).getD .nov]) rest hnd'.2 hag'
        refine ⟨rest', ?_, ?_⟩
        · simp only [taLoop, hk, hv, viewSlots, hpk, Bool.true_or, if_true]
          rw [h1]; simp [← hhead, hv]
        · intro k hkn
          simp only [hkeys, List.mem_cons, not_or] at hkn
          exact h2 k hkn.2
    | vp =>
      have hpk : posKey p i = none := by simp [posKey, hk]
      have hkeys : posKeys (p :: ps) i = posKeys ps (i + 1) := by simp [posKeys, hpk]
      rw [hkeys] at hnd hag
      obtain ⟨rest', h1, h2⟩ := ih (i + 1) pos rest hnd hag
      exact ⟨rest', by simp only [taLoop, hk, viewSlots, hpk]; exact h1, by rw [hkeys]; exact h2⟩
    | ko =>
      have hpk : posKey p i = none := by simp [posKey, hk]
      have hkeys : posKeys (p :: ps) i = posKeys ps (i + 1) := by simp [posKeys, hpk]
      rw [hkeys] at hnd hag
      obtain ⟨rest', h1, h2⟩ := ih (i + 1) pos rest hnd hag
      exact ⟨rest', by simp only [taLoop, hk, viewSlots, hpk]; exact h1, by rw [hkeys]; exact h2⟩
    | vk =>
      have hpk : posKey p i = none := by simp [posKey, hk]
      have hkeys : posKeys (p :: ps) i = posKeys ps (i + 1) := by simp [posKeys, hpk]
      rw [hkeys] at hnd hag
      obtain ⟨rest', h1, h2⟩ := ih (i + 1) pos rest hnd hag
      exact ⟨rest', by simp only [taLoop, hk, viewSlots, hpk]; exact h1, by rw [hkeys]; exact h2⟩

end Sig
end Fiddle

namespace Fiddle
namespace Sig

/-- Contiguous `*args` entries `d[idx i], d[idx (i+1)], …`. -/
def varRun (d : Dict Val) : Nat → Nat → List Val
  | 0, _ => []
  | fuel + 1, i =>
    match d.get? (.idx i) with
    | some v => v :: varRun d fuel (i + 1)
    | none => []

/-- The `*args` collection loop (nothing skipped): appends exactly the contiguous run, read from
    any dict that agrees with the working dict on the int keys from `i` on. -/
theorem collectVar_run (d : Dict Val) :
    ∀ (fuel i : Nat) (pos : List Val) (rest : Dict Val),
      (∀ j, i ≤ j → rest.get? (.idx j) = d.get? (.idx j)) →
      ∃ rest', collectVar fuel i pos rest [] = .ok (pos ++ varRun d fuel i, rest') := by
  intro fuel
  induction fuel with
  | zero => intro i pos rest _; exact ⟨rest, by simp [collectVar, varRun]⟩
  | succ fuel ih =>
    intro i pos rest hag
    have h0 := hag i (Nat.le_refl i)
    cases hv : rest.get? (.idx (i : Int)) with
    | none =>
      refine ⟨rest, ?_⟩
      simp [collectVar, varRun, hv, ← h0]
    | some v =>
      have hag' : ∀ j, i + 1 ≤ j → (rest.del (.idx i)).get? (.idx j) = d.get? (.idx j) := by
        intro j hj
        have hne : Key.idx (i : Int) ≠ Key.idx (j : Int) := by
          intro e; injection e with e'; omega
        rw [Dict.get?_del_other _ _ _ hne]; exact hag j (by omega)
      obtain ⟨rest', h1⟩ := ih (i + 1) (pos ++ [v]) (rest.del (.idx i)) hag'
      refine ⟨rest', ?_⟩
      simp only [collectVar, hv, fillSkipped_nil, varRun]
      rw [h1, ← h0, hv]
      simp [List.append_assoc]

/-- Well-formedness of a signature as far as the positional view is concerned: the storage
    keys of the positional parameters are pairwise distinct (distinct names), and every
    positional-only parameter sits before `*args`. Both hold for every Python signature. -/
structure ViewWF (s : Sig) : Prop where
  keysNodup : (posKeys s 0).Nodup
  poBeforeVar : ∀ k ∈ posKeys s 0, ∀ st j, s.vpStart = some st → k = .idx (j : Nat) → j < st

/-- **`cfg[:]` before default replacement is a function of the store's lookups**: one slot
    per positional parameter (its own stored value, else default, else NO_VALUE), followed by the
    contiguous `*args` entries. -/
theorem allPositional_eq (s : Sig) (d : Dict Val) (wf : ViewWF s) :
    s.allPositional d = viewSlots s d s 0 ++
      (match s.vpStart with
       | some st => varRun d d.length st
       | none => []) := by
  unfold allPositional toArgsKwargs
  obtain ⟨rest', h1, h2⟩ := taLoop_view s d
    (match s.vpStart with | some i => d.contains (.idx i) | none => false) s 0 [] d wf.keysNodup
    (fun _ _ => rfl)
  cases hvs : s.vpStart with
  | none =>
    simp only [hvs] at h1
    simp [h1]
  | some st =>
    simp only [hvs] at h1
    simp only [h1, List.nil_append]
    have hag : ∀ j, st ≤ j → rest'.get? (.idx (j : Nat)) = d.get? (.idx (j : Nat)) := by
      intro j hj
      apply h2
      intro hmem
      have := wf.poBeforeVar _ hmem st j hvs rfl
      omega
    obtain ⟨rest'', h3⟩ := collectVar_run d d.length st (viewSlots s d s 0) rest' hag
    simp [h3]

end Sig
end Fiddle

namespace Fiddle
namespace Sig

/-- Decidable form of `ViewWF`. -/
def viewWFB (s : Sig) : Bool :=
  decide (posKeys s 0).Nodup &&
  (match s.vpStart with
   | none => true
   | some st => (posKeys s 0).all (fun k => match k with
      | .idx j => decide (j < (st : Int))
      | .name _ => true))

theorem viewWF_of_viewWFB (s : Sig) (h : viewWFB s = true) : ViewWF s := by
  unfold viewWFB at h
  simp only [Bool.and_eq_true, decide_eq_true_eq] at h
  refine ⟨h.1, ?_⟩
  intro k hk st j hs hj
  rw [hs] at h
  have := (List.all_eq_true.mp h.2) k hk
  subst hj
  simp only [decide_eq_true_eq] at this
  omega

end Sig
end Fiddle
