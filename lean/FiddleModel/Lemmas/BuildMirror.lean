/-
The built object graph mirrors the configuration graph: every built object is the image of
one configuration object, with the images of that object's children as its children.
-/
import FiddleModel.Lemmas.Build

namespace Fiddle

/-- The built value a configuration value was given. -/
def resultOf (memo : List (Nat × BVal)) : GVal → BVal
  | .atom t => .atom t
  | .ref k => (memoGet memo k).getD (.atom "?")

theorem resultOf_cons_ne (m : List (Nat × BVal)) (i : Nat) (r : BVal) (v : GVal)
    (h : ∀ k, v = .ref k → k ≠ i) : resultOf ((i, r) :: m) v = resultOf m v := by
  cases v with
  | atom t => rfl
  | ref k =>
    have := h k rfl
    simp only [resultOf, memoGet_cons]
    split
    · rename_i e; exact absurd e.symm this
    · rfl

/-- `Mirror`: each `.built j` entry of the memo points at a result object that is the image of
    its configuration object under the memo. -/
def Mirror (h : Heap) (st : BuildSt) : Prop :=
  ∀ i j, memoGet st.memo i = some (.built j) →
    ∃ o, h[i]? = some o ∧ o.kind ≠ .opaque ∧
      ((o.kind = .cfg ∧ ∃ slots var kw, st.out[j]? = some (.call o.ty slots var kw) ∧
          bindBuilt o (o.children.map (fun c => resultOf st.memo c.2)) = .ok (slots, var, kw)) ∨
       (o.kind ≠ .cfg ∧ st.out[j]? = some (.container o.kind o.ty
          ((o.children.map (·.1)).zip (o.children.map (fun c => resultOf st.memo c.2))))))

theorem Mirror.init (h : Heap) : Mirror h {} := by
  intro i j hm; simp [memoGet_nil] at hm

/-- Adding a memo entry for an object that was not memoized keeps every existing mirror fact
    (children of memoized objects are memoized, so none of them is the new object). -/
theorem Mirror.extend {h : Heap} {st : BuildSt} (hi : st.Inv h) (hm : Mirror h st) (i : Nat)
    (r : BVal) (out' : List BObj) (hnone : memoGet st.memo i = none) (hpre : st.out <+: out')
    (k j : Nat) (hk : k ≠ i) (hkj : memoGet st.memo k = some (.built j)) :
    ∃ o, h[k]? = some o ∧ o.kind ≠ .opaque ∧
      ((o.kind = .cfg ∧ ∃ slots var kw, out'[j]? = some (.call o.ty slots var kw) ∧
          bindBuilt o (o.children.map (fun c => resultOf ((i, r) :: st.memo) c.2)) = .ok (slots, var, kw)) ∨
       (o.kind ≠ .cfg ∧ out'[j]? = some (.container o.kind o.ty
          ((o.children.map (·.1)).zip (o.children.map (fun c => resultOf ((i, r) :: st.memo) c.2)))))) := by
  obtain ⟨o, ho, hnop, hcase⟩ := hm k j hkj
  have hj : j < st.out.length := hi.fresh k j hkj
  have hout : out'[j]? = st.out[j]? := by
    obtain ⟨t, rfl⟩ := hpre
    simp [List.getElem?_append_left hj]
  have hkmem : (memoGet st.memo k).isSome := by simp [hkj]
  have hsame : o.children.map (fun c => resultOf ((i, r) :: st.memo) c.2) =
      o.children.map (fun c => resultOf st.memo c.2) := by
    apply List.map_congr_left
    intro c hc
    apply resultOf_cons_ne
    intro k' hk' e
    subst e
    have := hi.closed k o ho hnop hkmem c hc k' hk'
    rw [hnone] at this; cases this
  refine ⟨o, ho, hnop, ?_⟩
  rw [hsame, hout]
  exact hcase

end Fiddle

namespace Fiddle

theorem buildVal_atom (h : Heap) (fails : List Nat) (fuel : Nat) (t : String) (path : Path)
    (st : BuildSt) (r : BVal) (st' : BuildSt)
    (hb : buildVal h fails fuel (.atom t) path st = .ok (r, st')) : r = .atom t ∧ st' = st := by
  cases fuel with
  | zero => simp [buildVal] at hb
  | succ n => simp [buildVal] at hb; exact ⟨hb.1.symm, hb.2.symm⟩

theorem buildChildren_mirror_of (h : Heap) (fails : List Nat) (fuel : Nat)
    (ihm : ∀ v path st r st', buildVal h fails fuel v path st = .ok (r, st') → st.Inv h →
      Mirror h st → Mirror h st')
    (cs : List (PElem × GVal)) (path : Path) (st : BuildSt) (rs : List BVal) (st' : BuildSt)
    (hb : buildChildren h fails fuel cs path st = .ok (rs, st')) (hi : st.Inv h)
    (hm : Mirror h st) :
    Mirror h st' ∧ rs = cs.map (fun c => resultOf st'.memo c.2) := by
  induction cs generalizing st rs st' with
  | nil =>
    simp [buildChildren] at hb
    obtain ⟨rfl, rfl⟩ := hb
    exact ⟨hm, rfl⟩
  | cons c cs ih =>
    obtain ⟨pe, v⟩ := c
    simp only [buildChildren] at hb
    split at hb
    · cases hb
    · rename_i r st1 h1
      split at hb
      · cases hb
      · rename_i rs' st2 h2
        cases hb
        obtain ⟨s1, m1⟩ := buildVal_step h fails fuel _ _ _ _ _ h1 hi
        have hm1 := ihm _ _ _ _ _ h1 hi hm
        obtain ⟨hm2, hrs⟩ := ih _ _ _ h2 s1.inv hm1
        have s2 := buildChildren_step h fails fuel _ _ _ _ _ h2 s1.inv
        refine ⟨hm2, ?_⟩
        simp only [List.map_cons, List.cons.injEq]
        refine ⟨?_, hrs⟩
        cases v with
        | atom t => exact (buildVal_atom h fails fuel t _ _ _ _ h1).1
        | ref k =>
          have := s2.memoMono k r (m1 k rfl)
          simp [resultOf, this]

theorem buildVal_mirror (h : Heap) (fails : List Nat) (fuel : Nat) :
    ∀ v path st r st', buildVal h fails fuel v path st = .ok (r, st') → st.Inv h →
      Mirror h st → Mirror h st' := by
  induction fuel with
  | zero => intro v path st r st' hb; simp [buildVal] at hb
  | succ fuel ih =>
    intro v path st r st' hb hi hm
    cases v with
    | atom t =>
      simp [buildVal] at hb
      obtain ⟨_, rfl⟩ := hb
      exact hm
    | ref i =>
      simp only [buildVal] at hb
      split at hb
      · cases hb; exact hm
      · rename_i hmemo
        split at hb
        · cases hb
        · rename_i hstack
          split at hb
          · cases hb
          · rename_i o ho
            split at hb
            · -- opaque leaf
              cases hb
              intro k j hk
              simp only [memoGet_cons] at hk
              split at hk
              · cases hk
              · rename_i hne
                exact Mirror.extend hi hm i (.orig i) st.out hmemo (List.prefix_refl _) k j
                  (fun e => hne e.symm) hk
            · rename_i hnop
              have hnop' : o.kind ≠ .opaque := by simpa using hnop
              split at hb
              · cases hb
              · rename_i vals st2 hch
                have hi1 : BuildSt.Inv h ({ st with onStack := i :: st.onStack } : BuildSt) :=
                  ⟨hi.nodup, hi.logged, by
                    intro j hj
                    simp at hj
                    rcases hj with rfl | hj
                    · exact hmemo
                    · exact hi.stack j hj, hi.closed, hi.cfgLogged, hi.ordered, hi.fresh, hi.inj⟩
                have hm1 : Mirror h ({ st with onStack := i :: st.onStack } : BuildSt) := hm
                obtain ⟨sc, chm⟩ := buildChildren_step_of h fails fuel (buildVal_step h fails fuel)
                  _ _ _ _ _ hch hi1
                obtain ⟨hm2, hvals⟩ := buildChildren_mirror_of h fails fuel ih _ _ _ _ _ hch hi1 hm1
                have hstk : st2.onStack = i :: st.onStack := sc.stackEq
                have hinone : memoGet st2.memo i = none :=
                  sc.inv.stack i (by rw [hstk]; simp)
                -- children are memoized in st2, the object itself is not: no child is `i`
                have hsame : ∀ r0 : BVal, o.children.map (fun c => resultOf ((i, r0) :: st2.memo) c.2) =
                    vals := by
                  intro r0
                  rw [hvals]
                  apply List.map_congr_left
                  intro c hc
                  apply resultOf_cons_ne
                  intro k hk e
                  subst e
                  have := chm c hc k hk
                  rw [hinone] at this; cases this
                split at hb
                · rename_i hcfg
                  have hcfg' : o.kind = .cfg := by simpa using hcfg
                  split at hb
                  · cases hb
                  · split at hb
                    · cases hb
                    · rename_i slots var kw hbind
                      cases hb
                      intro k j hk
                      by_cases hki : k = i
                      · subst hki
                        simp only [memoGet_cons, if_true, Option.some.injEq, BVal.built.injEq] at hk
                        subst hk
                        refine ⟨o, ho, hnop', Or.inl ⟨hcfg', slots, var, kw, by simp, ?_⟩⟩
                        rw [hsame]; exact hbind
                      · have hk' : memoGet st2.memo k = some (.built j) := by
                          simpa [memoGet_cons, Ne.symm hki] using hk
                        exact Mirror.extend sc.inv hm2 i _ _ hinone (List.prefix_append _ _) k j hki hk'
                · rename_i hncfg
                  have hncfg' : o.kind ≠ .cfg := by simpa using hncfg
                  cases hb
                  intro k j hk
                  by_cases hki : k = i
                  · subst hki
                    simp only [memoGet_cons, if_true, Option.some.injEq, BVal.built.injEq] at hk
                    subst hk
                    refine ⟨o, ho, hnop', Or.inr ⟨hncfg', ?_⟩⟩
                    rw [hsame]; simp
                  · have hk' : memoGet st2.memo k = some (.built j) := by
                      simpa [memoGet_cons, Ne.symm hki] using hk
                    exact Mirror.extend sc.inv hm2 i _ _ hinone (List.prefix_append _ _) k j hki hk'

/-- `fdl.build`: the result graph mirrors the configuration graph. -/
theorem build_mirror (h : Heap) (fails : List Nat) (root : GVal) (r : BVal) (st : BuildSt)
    (hb : build h fails root = .ok (r, st)) : Mirror h st :=
  buildVal_mirror h fails _ root [] {} r st hb (BuildSt.inv_init h) (Mirror.init h)

end Fiddle
