/-
Invariants of the memoized build traversal (`buildVal` / `buildChildren`).
-/
import FiddleModel.Model.Graph

namespace Fiddle

theorem memoGet_cons (m : List (Nat × BVal)) (i j : Nat) (r : BVal) :
    memoGet ((i, r) :: m) j = if i = j then some r else memoGet m j := by
  unfold memoGet
  by_cases h : i = j
  · subst h; simp
  · simp [h]

/-- `Reach h i k`: object `k` is reachable from object `i` through children of traversable
    (non-opaque) objects. -/
inductive Reach (h : Heap) : Nat → Nat → Prop
  | refl (i : Nat) : Reach h i i
  | step (i j k : Nat) (o : GObj) (pv : PElem × GVal) : h[i]? = some o → o.kind ≠ .opaque →
      pv ∈ o.children → pv.2 = .ref j → Reach h j k → Reach h i k

/-- The traversal state invariant: nothing is invoked twice, everything invoked is memoized,
    and nothing on the recursion stack is memoized yet. -/
structure BuildSt.Inv (h : Heap) (st : BuildSt) : Prop where
  nodup : st.log.Nodup
  logged : ∀ i ∈ st.log, (memoGet st.memo i).isSome
  stack : ∀ j ∈ st.onStack, memoGet st.memo j = none
  /-- the memo is closed under "child of": a memoized traversable node has memoized children -/
  closed : ∀ i o, h[i]? = some o → o.kind ≠ .opaque → (memoGet st.memo i).isSome →
    ∀ pv ∈ o.children, ∀ j, pv.2 = .ref j → (memoGet st.memo j).isSome
  /-- a memoized Buildable has been invoked -/
  cfgLogged : ∀ i o, h[i]? = some o → o.kind = .cfg → (memoGet st.memo i).isSome → i ∈ st.log
  /-- every invocation comes after the invocations of all Buildables it (transitively)
      depends on -/
  ordered : ∀ pre i post, st.log = pre ++ i :: post → ∀ o, h[i]? = some o →
    ∀ pv ∈ o.children, ∀ j, pv.2 = .ref j → ∀ k ok, Reach h j k → h[k]? = some ok →
      ok.kind = .cfg → k ∈ pre
  /-- built results point into the result heap -/
  fresh : ∀ i a, memoGet st.memo i = some (.built a) → a < st.out.length
  /-- distinct objects have distinct built results -/
  inj : ∀ i j a, memoGet st.memo i = some (.built a) → memoGet st.memo j = some (.built a) →
    i = j

theorem memoGet_nil (i : Nat) : memoGet [] i = none := rfl

theorem BuildSt.inv_init (h : Heap) : BuildSt.Inv h {} :=
  ⟨by simp, by simp, by simp, by intro i o _ _ hm; simp [memoGet_nil] at hm,
   by intro i o _ _ hm; simp [memoGet_nil] at hm,
   by intro pre i post hl; simp at hl,
   by intro i a hm; simp [memoGet_nil] at hm,
   by intro i j a hm; simp [memoGet_nil] at hm⟩

theorem memoGet_cons_isSome (m : List (Nat × BVal)) (i j : Nat) (r : BVal)
    (hj : (memoGet m j).isSome) : (memoGet ((i, r) :: m) j).isSome := by
  rw [memoGet_cons]; split <;> simp [hj]

theorem BuildSt.Inv.reach_memoized {h : Heap} {st : BuildSt} (hi : st.Inv h) {j k : Nat}
    (hr : Reach h j k) (hm : (memoGet st.memo j).isSome) : (memoGet st.memo k).isSome := by
  induction hr with
  | refl => exact hm
  | step i j k o pv ho hnop hpv hj _ ih => exact ih (hi.closed i o ho hnop hm pv hpv j hj)

theorem split_snoc {α} (pre : List α) (x : α) (post l : List α) (y : α)
    (e : pre ++ x :: post = l ++ [y]) :
    (post = [] ∧ pre = l ∧ x = y) ∨ (∃ post', post = post' ++ [y] ∧ l = pre ++ x :: post') := by
  rcases List.eq_nil_or_concat post with rfl | ⟨post', z, rfl⟩
  · left
    have := List.append_inj' e (by simp)
    simp at this
    exact ⟨rfl, this.1, this.2⟩
  · right
    have e' : (pre ++ x :: post') ++ [z] = l ++ [y] := by simpa using e
    have := List.append_inj' e' (by simp)
    simp at this
    exact ⟨post', by rw [this.2]; simp, this.1.symm⟩

/-- What one successful traversal step guarantees. -/
structure BuildSt.Step (h : Heap) (st st' : BuildSt) : Prop where
  inv : st'.Inv h
  stackEq : st'.onStack = st.onStack
  logPrefix : st.log <+: st'.log
  memoMono : ∀ i r, memoGet st.memo i = some r → memoGet st'.memo i = some r
  outPrefix : st.out <+: st'.out

theorem BuildSt.Step.refl {h : Heap} {st : BuildSt} (hi : st.Inv h) : BuildSt.Step h st st :=
  ⟨hi, rfl, List.prefix_refl _, fun _ _ h => h, List.prefix_refl _⟩

theorem BuildSt.Step.trans {h : Heap} {a b c : BuildSt} (h1 : BuildSt.Step h a b)
    (h2 : BuildSt.Step h b c) : BuildSt.Step h a c :=
  ⟨h2.inv, h2.stackEq.trans h1.stackEq, h1.logPrefix.trans h2.logPrefix,
   fun i r h => h2.memoMono i r (h1.memoMono i r h), h1.outPrefix.trans h2.outPrefix⟩

/-- Result of visiting a value: what the memo says about it afterwards. -/
def Memoized (st : BuildSt) (v : GVal) (r : BVal) : Prop :=
  ∀ i, v = .ref i → memoGet st.memo i = some r

theorem buildChildren_step_of (h : Heap) (fails : List Nat) (fuel : Nat)
    (ihv : ∀ v path st r st', buildVal h fails fuel v path st = .ok (r, st') → st.Inv h →
      BuildSt.Step h st st' ∧ Memoized st' v r)
    (cs : List (PElem × GVal)) (path : Path) (st : BuildSt) (rs : List BVal) (st' : BuildSt)
    (hb : buildChildren h fails fuel cs path st = .ok (rs, st')) (hi : st.Inv h) :
    BuildSt.Step h st st' ∧
      (∀ pv ∈ cs, ∀ j, pv.2 = .ref j → (memoGet st'.memo j).isSome) := by
  induction cs generalizing st rs st' with
  | nil =>
    simp [buildChildren] at hb
    obtain ⟨_, rfl⟩ := hb
    exact ⟨.refl hi, by simp⟩
  | cons c cs ih =>
    obtain ⟨pe, v⟩ := c
    simp only [buildChildren] at hb
    split at hb
    · cases hb
    · rename_i r st1 h1
      split at hb
      · cases hb
      · rename_i rs' st2 h2
        cases hb
        obtain ⟨s1, m1⟩ := ihv _ _ _ _ _ h1 hi
        obtain ⟨s2, m2⟩ := ih _ _ _ h2 s1.inv
        refine ⟨s1.trans s2, ?_⟩
        intro pv hpv j hj
        simp at hpv
        rcases hpv with rfl | hpv
        · have := s2.memoMono j r (m1 j hj)
          simp [this]
        · exact m2 pv hpv j hj

theorem buildVal_step (h : Heap) (fails : List Nat) (fuel : Nat) :
    ∀ v path st r st', buildVal h fails fuel v path st = .ok (r, st') → st.Inv h →
      BuildSt.Step h st st' ∧ Memoized st' v r := by
  induction fuel with
  | zero => intro v path st r st' hb; simp [buildVal] at hb
  | succ fuel ih =>
    intro v path st r st' hb hi
    cases v with
    | atom t =>
      simp [buildVal] at hb
      obtain ⟨_, rfl⟩ := hb
      exact ⟨.refl hi, by intro i hi'; cases hi'⟩
    | ref i =>
      simp only [buildVal] at hb
      split at hb
      · rename_i r0 hr0
        cases hb; exact ⟨.refl hi, by intro k hk; cases hk; exact hr0⟩
      · rename_i hmemo
        split at hb
        · cases hb
        · rename_i hstack
          split at hb
          · cases hb
          · rename_i o ho
            split at hb
            · -- opaque leaf: memoized, not invoked
              rename_i hop
              have hop' : o.kind = .opaque := by simpa using hop
              cases hb
              refine ⟨⟨⟨hi.nodup, ?_, ?_, ?_, ?_, hi.ordered, ?_, ?_⟩, rfl, List.prefix_refl _, ?_, List.prefix_refl _⟩, ?_⟩
              · intro k hk
                exact memoGet_cons_isSome _ _ _ _ (hi.logged k hk)
              · intro j hj
                simp only [memoGet_cons]
                split
                · rename_i e; subst e
                  simp [hj] at hstack
                · exact hi.stack j hj
              · intro k ok hk hnop hm pv hpv j hj
                simp only [memoGet_cons] at hm
                split at hm
                · rename_i e; subst e
                  rw [ho] at hk; cases hk; exact absurd hop' hnop
                · exact memoGet_cons_isSome _ _ _ _ (hi.closed k ok hk hnop hm pv hpv j hj)
              · intro k ok hk hcfg hm
                simp only [memoGet_cons] at hm
                split at hm
                · rename_i e; subst e
                  rw [ho] at hk; cases hk; rw [hop'] at hcfg; cases hcfg
                · exact hi.cfgLogged k ok hk hcfg hm
              · intro k a hk
                simp only [memoGet_cons] at hk
                split at hk
                · cases hk
                · exact hi.fresh k a hk
              · intro k j a hk hj
                simp only [memoGet_cons] at hk hj
                split at hk
                · cases hk
                · split at hj
                  · cases hj
                  · exact hi.inj k j a hk hj
              · intro k r hk
                simp only [memoGet_cons]
                split
                · rename_i e; subst e; rw [hmemo] at hk; cases hk
                · exact hk
              · intro k hk; cases hk; simp [memoGet_cons]
            · rename_i hnop
              have hnop' : o.kind ≠ .opaque := by simpa using hnop
              split at hb
              · cases hb
              · rename_i vals st2 hch
                have hi1 : BuildSt.Inv h ({ st with onStack := i :: st.onStack } : BuildSt) :=
                  ⟨hi.nodup, hi.logged, by
                    intro j hj
                    simp at hj
                    rcases hj with rfl | hj
                    · exact hmemo
                    · exact hi.stack j hj, hi.closed, hi.cfgLogged, hi.ordered, hi.fresh, hi.inj⟩
                obtain ⟨sc, chm⟩ := buildChildren_step_of h fails fuel ih _ _ _ _ _ hch hi1
                have hstk : st2.onStack = i :: st.onStack := sc.stackEq
                have hinone : memoGet st2.memo i = none :=
                  sc.inv.stack i (by rw [hstk]; simp)
                have hinotlog : i ∉ st2.log := by
                  intro hin
                  have := sc.inv.logged i hin
                  rw [hinone] at this; cases this
                have herase : st2.onStack.erase i = st.onStack := by
                  rw [hstk]; simp
                have hstack' : ∀ j ∈ st.onStack, j ≠ i := by
                  intro j hj e; subst e
                  simp [hj] at hstack
                -- common facts for the two result shapes
                have memo' : ∀ r0 : BVal, ∀ k r', memoGet st.memo k = some r' →
                    memoGet ((i, r0) :: st2.memo) k = some r' := by
                  intro r0 k r' hk
                  simp only [memoGet_cons]
                  split
                  · rename_i e; subst e; rw [hmemo] at hk; cases hk
                  · exact sc.memoMono k r' hk
                have stack' : ∀ r0 : BVal, ∀ j ∈ st.onStack,
                    memoGet ((i, r0) :: st2.memo) j = none := by
                  intro r0 j hj
                  simp only [memoGet_cons]
                  split
                  · rename_i e; exact absurd e.symm (hstack' j hj)
                  · exact sc.inv.stack j (by rw [hstk]; simp [hj])
                have closed' : ∀ r0 : BVal, ∀ k ok, h[k]? = some ok → ok.kind ≠ .opaque →
                    (memoGet ((i, r0) :: st2.memo) k).isSome →
                    ∀ pv ∈ ok.children, ∀ j, pv.2 = .ref j →
                      (memoGet ((i, r0) :: st2.memo) j).isSome := by
                  intro r0 k ok hk hnk hm pv hpv j hj
                  apply memoGet_cons_isSome
                  simp only [memoGet_cons] at hm
                  split at hm
                  · rename_i e; subst e
                    rw [ho] at hk; cases hk
                    exact chm pv hpv j hj
                  · exact sc.inv.closed k ok hk hnk hm pv hpv j hj
                have fresh' : ∀ (x : BObj) k a,
                    memoGet ((i, BVal.built st2.out.length) :: st2.memo) k = some (.built a) →
                    a < (st2.out ++ [x]).length := by
                  intro x k a hk
                  simp only [memoGet_cons] at hk
                  split at hk
                  · cases hk; simp
                  · have := sc.inv.fresh k a hk; simp; omega
                have inj' : ∀ k j a,
                    memoGet ((i, BVal.built st2.out.length) :: st2.memo) k = some (.built a) →
                    memoGet ((i, BVal.built st2.out.length) :: st2.memo) j = some (.built a) →
                    k = j := by
                  intro k j a hk hj
                  simp only [memoGet_cons] at hk hj
                  split at hk
                  · rename_i e; subst e
                    cases hk
                    split at hj
                    · rename_i e; exact e
                    · have := sc.inv.fresh j _ hj; omega
                  · split at hj
                    · rename_i e; subst e
                      cases hj
                      have := sc.inv.fresh k _ hk; omega
                    · exact sc.inv.inj k j a hk hj
                have self' : ∀ r0 : BVal, memoGet ((i, r0) :: st2.memo) i = some r0 := by
                  intro r0; simp [memoGet_cons]
                split at hb
                · rename_i hcfg
                  split at hb
                  · cases hb
                  · split at hb
                    · cases hb
                    · cases hb
                      refine ⟨⟨⟨?_, ?_, ?_, closed' _, ?_, ?_, fresh' _, inj'⟩, herase, ?_, memo' _,
                        sc.outPrefix.trans (List.prefix_append _ _)⟩, ?_⟩
                      · exact List.nodup_append.mpr ⟨sc.inv.nodup, by simp, by
                          intro a ha b hb'; simp at hb'; subst hb'
                          intro e; subst e; exact hinotlog ha⟩
                      · intro k hk
                        simp only [memoGet_cons]
                        split
                        · simp
                        · simp at hk
                          rcases hk with hk | rfl
                          · exact sc.inv.logged k hk
                          · rename_i ne; exact absurd rfl ne
                      · simpa [herase] using stack' _
                      · intro k ok hk hkc hm
                        simp only [memoGet_cons] at hm
                        split at hm
                        · rename_i e; subst e; simp
                        · simp; left; exact sc.inv.cfgLogged k ok hk hkc hm
                      · intro pre i' post hl o' ho' pv hpv j hj k ok hr hk hkc
                        rcases split_snoc _ _ _ _ _ hl.symm with ⟨_, rfl, rfl⟩ | ⟨post', _, hl'⟩
                        · rw [ho] at ho'; cases ho'
                          exact sc.inv.cfgLogged k ok hk hkc
                            (sc.inv.reach_memoized hr (chm pv hpv j hj))
                        · exact sc.inv.ordered pre i' post' hl' o' ho' pv hpv j hj k ok hr hk hkc
                      · exact sc.logPrefix.trans (List.prefix_append _ _)
                      · intro k hk; cases hk; exact self' _
                · rename_i hncfg
                  have hncfg' : o.kind ≠ .cfg := by simpa using hncfg
                  cases hb
                  refine ⟨⟨⟨sc.inv.nodup, ?_, ?_, closed' _, ?_, sc.inv.ordered, fresh' _, inj'⟩, herase, sc.logPrefix, memo' _,
                    sc.outPrefix.trans (List.prefix_append _ _)⟩, ?_⟩
                  · intro k hk
                    exact memoGet_cons_isSome _ _ _ _ (sc.inv.logged k hk)
                  · simpa [herase] using stack' _
                  · intro k ok hk hkc hm
                    simp only [memoGet_cons] at hm
                    split at hm
                    · rename_i e; subst e
                      rw [ho] at hk; cases hk; exact absurd hkc hncfg'
                    · exact sc.inv.cfgLogged k ok hk hkc hm
                  · intro k hk; cases hk; exact self' _

theorem buildChildren_step (h : Heap) (fails : List Nat) (fuel : Nat)
    (cs : List (PElem × GVal)) (path : Path) (st : BuildSt) (rs : List BVal) (st' : BuildSt)
    (hb : buildChildren h fails fuel cs path st = .ok (rs, st')) (hi : st.Inv h) :
    BuildSt.Step h st st' :=
  (buildChildren_step_of h fails fuel (buildVal_step h fails fuel) cs path st rs st' hb hi).1

end Fiddle
