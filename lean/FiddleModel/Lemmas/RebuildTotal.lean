/-
The memoized identity rebuild (`MemoizedTraversal` identity map, the `objects` table of
`dump_json`) returns on every acyclic structure: the fuel `|heap| + 1` suffices.
-/
import FiddleModel.Lemmas.RebuildL

namespace Fiddle

theorem rebuildChildren_total (h : Heap) (f : Nat)
    (ihv : ∀ v st, (∀ i, v = .ref i → i < f ∧ i < h.length) →
      ∃ r st', rebuildVal h (f + 1) v st = .ok (r, st'))
    (cs : List (PElem × GVal)) (st : RbSt)
    (hcs : ∀ c ∈ cs, ∀ j, c.2 = .ref j → j < f ∧ j < h.length) :
    ∃ rs st', rebuildChildren h (f + 1) cs st = .ok (rs, st') := by
  induction cs generalizing st with
  | nil => exact ⟨[], st, by simp [rebuildChildren]⟩
  | cons c cs ih =>
    obtain ⟨pe, v⟩ := c
    obtain ⟨r, st1, h1⟩ := ihv v st (fun i hv => hcs (pe, v) (by simp) i hv)
    obtain ⟨rs, st2, h2⟩ := ih st1 (fun c hc j hj => hcs c (by simp [hc]) j hj)
    exact ⟨r :: rs, st2, by simp [rebuildChildren, h1, h2]⟩

theorem rebuildVal_total (h : Heap) (wf : h.WellFormed) :
    ∀ (f : Nat) (v : GVal) (st : RbSt), (∀ i, v = .ref i → i < f ∧ i < h.length) →
      ∃ r st', rebuildVal h (f + 1) v st = .ok (r, st') := by
  intro f
  induction f with
  | zero =>
    intro v st hv
    cases v with
    | atom t => simp [rebuildVal]
    | ref i => exact absurd (hv i rfl).1 (by omega)
  | succ f ih =>
    intro v st hv
    cases v with
    | atom t => simp [rebuildVal]
    | ref i =>
      obtain ⟨hif, hil⟩ := hv i rfl
      cases hmemo : rbGet st.memo i with
      | some j => simp [rebuildVal, hmemo]
      | none =>
        obtain ⟨o, ho⟩ : ∃ o, h[i]? = some o := ⟨h[i], by simp [hil]⟩
        obtain ⟨vals, st1, hch⟩ := rebuildChildren_total h f ih o.children st (by
          intro c hc j hj
          have hji := wf i o ho c hc j hj
          exact ⟨by omega, by omega⟩)
        simp [rebuildVal, hmemo, ho, hch]

/-- The identity rebuild of an acyclic structure returns. -/
theorem rebuild_total (h : Heap) (wf : h.WellFormed) (root : GVal)
    (hr : ∀ i, root = .ref i → i < h.length) : ∃ r st, rebuild h root = .ok (r, st) := by
  unfold rebuild
  exact rebuildVal_total h wf h.length root {} (fun i hi => ⟨hr i hi, hr i hi⟩)

end Fiddle
