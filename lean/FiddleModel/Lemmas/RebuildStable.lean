/-
Rebuilding a rebuilt structure changes nothing: the table `dump_json` writes for the
reconstruction `load_json` made is the table it was loaded from.
-/
import FiddleModel.Lemmas.RebuildTotal

namespace Fiddle

/-! ## More fuel never changes a result -/

theorem rebuildChildren_fuel_of (h : Heap) (f : Nat)
    (ihv : ∀ v st x, rebuildVal h f v st = .ok x → rebuildVal h (f + 1) v st = .ok x) :
    ∀ (cs : List (PElem × GVal)) (st : RbSt) (x : List GVal × RbSt),
      rebuildChildren h f cs st = .ok x → rebuildChildren h (f + 1) cs st = .ok x := by
  intro cs
  induction cs with
  | nil => intro st x hx; simpa [rebuildChildren] using hx
  | cons c cs ih =>
    intro st x hx
    obtain ⟨pe, v⟩ := c
    simp only [rebuildChildren] at hx ⊢
    split at hx
    · cases hx
    · rename_i r st1 h1
      split at hx
      · cases hx
      · rename_i rs st2 h2
        simp [ihv v st _ h1, ih st1 _ h2, hx]

theorem rebuildVal_fuel_succ (h : Heap) : ∀ (f : Nat) (v : GVal) (st : RbSt) (x : GVal × RbSt),
    rebuildVal h f v st = .ok x → rebuildVal h (f + 1) v st = .ok x := by
  intro f
  induction f with
  | zero => intro v st x hx; simp [rebuildVal] at hx
  | succ f ih =>
    intro v st x hx
    cases v with
    | atom t => simpa [rebuildVal] using hx
    | ref i =>
      simp only [rebuildVal] at hx ⊢
      split
      · rename_i j hj; simpa [hj] using hx
      · rename_i hnone
        simp only [hnone] at hx
        split at hx
        · cases hx
        · rename_i o ho
          split at hx
          · cases hx
          · rename_i vals st1 hch
            simp [rebuildChildren_fuel_of h f ih o.children st _ hch, hx]

theorem rebuildVal_fuel_le (h : Heap) (f g : Nat) (hfg : f ≤ g) (v : GVal) (st : RbSt)
    (x : GVal × RbSt) (hx : rebuildVal h f v st = .ok x) : rebuildVal h g v st = .ok x := by
  induction g with
  | zero => have : f = 0 := by omega
            subst this; exact hx
  | succ g ih =>
    by_cases e : f = g + 1
    · subst e; exact hx
    · exact rebuildVal_fuel_succ h g v st x (ih (by omega))

end Fiddle

namespace Fiddle

/-! ## The second rebuild, run over the table the first one produced -/

/-- State of the second run after `n` objects: it has re-created exactly the first `n` entries
    of the table `g`, each under its own index. -/
def IdSt (g : Heap) (n : Nat) (st2 : RbSt) : Prop :=
  st2.out = g.take n ∧ ∀ k, rbGet st2.memo k = if k < n then some k else none

theorem rebuildChildren_length (h : Heap) (f : Nat) : ∀ (cs : List (PElem × GVal)) (st : RbSt)
    (vals : List GVal) (st' : RbSt), rebuildChildren h f cs st = .ok (vals, st') →
    vals.length = cs.length := by
  intro cs
  induction cs with
  | nil => intro st vals st' hb; simp [rebuildChildren] at hb; simp [hb.1]
  | cons c cs ih =>
    intro st vals st' hb
    obtain ⟨pe, v⟩ := c
    simp only [rebuildChildren] at hb
    split at hb
    · cases hb
    · rename_i r st1 h1
      split at hb
      · cases hb
      · rename_i rs st2 h2
        simp only [Except.ok.injEq, Prod.mk.injEq] at hb
        obtain ⟨rfl, rfl⟩ := hb
        simp [ih st1 rs st2 h2]

theorem rebuildChildren_inv_prefix (h : Heap) (wf : h.WellFormed) (f : Nat) :
    ∀ (cs : List (PElem × GVal)) (st : RbSt) (rs : List GVal) (st' : RbSt),
      rebuildChildren h f cs st = .ok (rs, st') → st.Inv h → st'.Inv h ∧ st.out <+: st'.out := by
  intro cs
  induction cs with
  | nil =>
    intro st rs st' hb hi
    simp [rebuildChildren] at hb
    obtain ⟨_, rfl⟩ := hb
    exact ⟨hi, List.prefix_refl _⟩
  | cons c cs ih =>
    intro st rs st' hb hi
    obtain ⟨pe, v⟩ := c
    simp only [rebuildChildren] at hb
    split at hb
    · cases hb
    · rename_i r st1 h1
      split at hb
      · cases hb
      · rename_i rs' st3 h2
        simp only [Except.ok.injEq, Prod.mk.injEq] at hb
        obtain ⟨_, rfl⟩ := hb
        have s1 := (rebuildVal_step h wf f v st r st1 h1 hi).1
        obtain ⟨i2, p2⟩ := ih st1 rs' st3 h2 s1.inv
        exact ⟨i2, s1.outPrefix.trans p2⟩

theorem rebuildChildren_again_of (h : Heap) (wf : h.WellFormed) (f : Nat)
    (ihv : ∀ v st r st', rebuildVal h f v st = .ok (r, st') → st.Inv h →
      ∀ g, st'.out <+: g → ∀ st2, IdSt g st.out.length st2 →
      ∃ st2', rebuildVal g f r st2 = .ok (r, st2') ∧ IdSt g st'.out.length st2') :
    ∀ (cs : List (PElem × GVal)) (st : RbSt) (vals : List GVal) (st' : RbSt),
      rebuildChildren h f cs st = .ok (vals, st') → st.Inv h →
      ∀ g, st'.out <+: g → ∀ st2, IdSt g st.out.length st2 →
      ∃ st2', rebuildChildren g f ((cs.map (·.1)).zip vals) st2 = .ok (vals, st2') ∧
        IdSt g st'.out.length st2' := by
  intro cs
  induction cs with
  | nil =>
    intro st vals st' hb _ g _ st2 hid
    simp [rebuildChildren] at hb
    obtain ⟨rfl, rfl⟩ := hb
    exact ⟨st2, by simp [rebuildChildren], hid⟩
  | cons c cs ih =>
    intro st vals st' hb hi g hg st2 hid
    obtain ⟨pe, v⟩ := c
    simp only [rebuildChildren] at hb
    split at hb
    · cases hb
    · rename_i r st1 h1
      split at hb
      · cases hb
      · rename_i rs st3 h2
        simp only [Except.ok.injEq, Prod.mk.injEq] at hb
        obtain ⟨rfl, rfl⟩ := hb
        have s1 := (rebuildVal_step h wf f v st r st1 h1 hi).1
        have s2 := rebuildChildren_inv_prefix h wf f cs st1 rs st3 h2 s1.inv
        obtain ⟨st2a, ha, hida⟩ := ihv v st r st1 h1 hi g (s2.2.trans hg) st2 hid
        obtain ⟨st2b, hb2, hidb⟩ := ih st1 rs st3 h2 s1.inv g hg st2a hida
        exact ⟨st2b, by simp [rebuildChildren, ha, hb2], hidb⟩

end Fiddle

namespace Fiddle

theorem take_succ_of_get {α} (g : List α) (n : Nat) (x : α) (hx : g[n]? = some x) :
    g.take (n + 1) = g.take n ++ [x] := by
  rw [List.take_succ, hx]; rfl

theorem rebuildVal_again (h : Heap) (wf : h.WellFormed) : ∀ (f : Nat) (v : GVal) (st : RbSt)
    (r : GVal) (st' : RbSt), rebuildVal h f v st = .ok (r, st') → st.Inv h →
    ∀ g, st'.out <+: g → ∀ st2, IdSt g st.out.length st2 →
    ∃ st2', rebuildVal g f r st2 = .ok (r, st2') ∧ IdSt g st'.out.length st2' := by
  intro f
  induction f with
  | zero => intro v st r st' hb; simp [rebuildVal] at hb
  | succ f ih =>
    intro v st r st' hb hi g hg st2 hid
    cases v with
    | atom t =>
      simp [rebuildVal] at hb
      obtain ⟨rfl, rfl⟩ := hb
      exact ⟨st2, by simp [rebuildVal], hid⟩
    | ref i =>
      simp only [rebuildVal] at hb
      split at hb
      · rename_i j hj
        simp only [Except.ok.injEq, Prod.mk.injEq] at hb
        obtain ⟨rfl, rfl⟩ := hb
        have hjl := hi.fresh i j hj
        have hm2 : rbGet st2.memo j = some j := by rw [hid.2 j]; simp [hjl]
        exact ⟨st2, by simp [rebuildVal, hm2], hid⟩
      · rename_i hnone
        split at hb
        · cases hb
        · rename_i o ho
          split at hb
          · cases hb
          · rename_i vals st1 hch
            simp only [Except.ok.injEq, Prod.mk.injEq] at hb
            obtain ⟨rfl, rfl⟩ := hb
            obtain ⟨inv1, pre1⟩ := rebuildChildren_inv_prefix h wf f o.children st vals st1 hch hi
            have hlen := rebuildChildren_length h f o.children st vals st1 hch
            -- the object the first run allocated is entry `j` of the table
            have hgj : g[st1.out.length]? = some { o with children := (o.children.map (·.1)).zip vals } := by
              obtain ⟨t, rfl⟩ := hg
              simp [List.getElem?_append_left, List.getElem?_append_right]
            have hg1 : st1.out <+: g := (List.prefix_append _ _).trans hg
            obtain ⟨st2a, hca, hida⟩ := rebuildChildren_again_of h wf f ih o.children st vals st1 hch hi g hg1 st2 hid
            have hle : st.out.length ≤ st1.out.length := pre1.length_le
            have hm2 : rbGet st2.memo st1.out.length = none := by
              rw [hid.2]; simp; omega
            have hlen2 : st2a.out.length = st1.out.length := by
              rw [hida.1, List.length_take]
              have := hg1.length_le
              omega
            have hkeys : ((o.children.map (·.1)).zip vals).map (·.1) = o.children.map (·.1) := by
              rw [List.map_fst_zip]; simp [hlen]
            refine ⟨{ memo := (st1.out.length, st1.out.length) :: st2a.memo,
                      out := st2a.out ++ [{ o with children := (o.children.map (·.1)).zip vals }] }, ?_, ?_, ?_⟩
            · simp only [rebuildVal, hm2, hgj, hca, hkeys, hlen2]
            · simp only [List.length_append, List.length_singleton]
              rw [hida.1, take_succ_of_get g st1.out.length _ hgj]
            · intro k
              simp only [rbGet_cons, List.length_append, List.length_singleton]
              by_cases e : st1.out.length = k
              · subst e; simp
              · simp only [e, if_false]
                rw [hida.2 k]
                by_cases hk : k < st1.out.length
                · simp [hk]; omega
                · simp [hk]; omega

end Fiddle

namespace Fiddle

/-- Rebuilding the rebuilt structure returns the same root and the same table. -/
theorem rebuild_stable (h : Heap) (wf : h.WellFormed) (root r : GVal) (st : RbSt)
    (hb : rebuild h root = .ok (r, st)) :
    ∃ st2, rebuild st.out r = .ok (r, st2) ∧ st2.out = st.out := by
  unfold rebuild at hb
  obtain ⟨s, m⟩ := rebuildVal_step h wf _ root {} r st hb (RbSt.inv_init h)
  obtain ⟨st2, h2, hid⟩ := rebuildVal_again h wf _ root {} r st hb (RbSt.inv_init h) st.out
    (List.prefix_refl _) {} ⟨by simp, by intro k; simp [rbGet_nil]⟩
  have hout : st2.out = st.out := by rw [hid.1]; simp
  -- the same run with the fuel `rebuild` itself passes
  have hwf := rebuilt_wellFormed h st s.inv
  have hr : ∀ j, r = .ref j → j < st.out.length := by
    intro j hj
    rw [m.1] at hj
    cases root with
    | atom t => simp [imageOf] at hj
    | ref k =>
      have hk := m.2 k rfl
      cases hg : rbGet st.memo k with
      | none => simp [hg] at hk
      | some j' =>
        simp only [imageOf, hg, Option.getD_some, GVal.ref.injEq] at hj
        subst hj; exact s.inv.fresh k _ hg
  obtain ⟨r3, st3, h3⟩ := rebuild_total st.out hwf r hr
  unfold rebuild at h3 ⊢
  have a := rebuildVal_fuel_le st.out _ (max (h.length + 1) (st.out.length + 1)) (Nat.le_max_left _ _)
    r {} _ h2
  have b := rebuildVal_fuel_le st.out _ (max (h.length + 1) (st.out.length + 1)) (Nat.le_max_right _ _)
    r {} _ h3
  rw [a] at b
  simp only [Except.ok.injEq, Prod.mk.injEq] at b
  obtain ⟨rfl, rfl⟩ := b
  exact ⟨st2, h3, hout⟩

end Fiddle
