/-
Soundness and completeness of `iterate` with respect to `followPath`.
-/
import FiddleModel.Model.Select

namespace Fiddle

theorem Heap.pathsDistinct_of_B (h : Heap) (hb : h.pathsDistinctB = true) : h.PathsDistinct := by
  intro i o ho
  have hm : o ∈ h := List.mem_of_getElem? ho
  simp [Heap.pathsDistinctB, List.all_eq_true] at hb
  exact hb o hm

theorem Heap.wellFormed_of_B (h : Heap) (hb : h.wellFormedB = true) : h.WellFormed := by
  intro i o ho pv hpv j hj
  simp only [Heap.wellFormedB, List.all_eq_true] at hb
  have hm : (o, i) ∈ h.zipIdx := by
    rw [List.mem_zipIdx_iff_getElem?]; simpa using ho
  have := hb (o, i) hm pv hpv
  rw [hj] at this
  simpa using this

theorem find?_of_nodup {α β} [DecidableEq α] (l : List (α × β)) (pv : α × β)
    (hn : (l.map (·.1)).Nodup) (hm : pv ∈ l) :
    l.find? (fun x => x.1 == pv.1) = some pv := by
  induction l with
  | nil => cases hm
  | cons x xs ih =>
    simp only [List.map_cons, List.nodup_cons] at hn
    rcases List.mem_cons.mp hm with rfl | hm
    · simp
    · have hne : x.1 ≠ pv.1 := by
        intro e; apply hn.1; rw [e]; exact List.mem_map_of_mem hm
      simp [List.find?_cons, hne, ih hn.2 hm]

theorem childAt_of_mem (o : GObj) (pv : PElem × GVal) (hn : (o.children.map (·.1)).Nodup)
    (hm : pv ∈ o.children) : childAt o pv.1 = some pv.2 := by
  unfold childAt
  rw [find?_of_nodup _ _ hn hm]; rfl

theorem childAt_mem (o : GObj) (pe : PElem) (c : GVal) (hc : childAt o pe = some c) :
    (pe, c) ∈ o.children := by
  unfold childAt at hc
  cases hf : o.children.find? (fun pv => pv.1 == pe) with
  | none => simp [hf] at hc
  | some pv =>
    simp [hf] at hc
    have h1 := List.find?_some hf
    have h2 := List.mem_of_find?_eq_some hf
    simp at h1
    subst hc; subst h1; exact h2

theorem followPath_snoc (h : Heap) (root : GVal) (path : Path) (i : Nat) (o : GObj) (pe : PElem)
    (c : GVal) (hp : followPath h root path = some (.ref i)) (ho : h[i]? = some o)
    (hc : childAt o pe = some c) : followPath h root (path ++ [pe]) = some c := by
  induction path generalizing root with
  | nil =>
    simp [followPath] at hp
    subst hp
    simp [followPath, ho, hc]
  | cons q qs ih =>
    cases root with
    | atom t => simp [followPath] at hp
    | ref r =>
      simp only [List.cons_append, followPath] at hp ⊢
      split at hp
      · cases hp
      · split at hp
        · cases hp
        · exact ih _ hp

theorem followPath_append (h : Heap) (root v w : GVal) (p q : Path)
    (hp : followPath h root p = some v) (hq : followPath h v q = some w) :
    followPath h root (p ++ q) = some w := by
  induction p generalizing root with
  | nil => simp [followPath] at hp; subst hp; simpa using hq
  | cons x xs ih =>
    cases root with
    | atom t => simp [followPath] at hp
    | ref r =>
      simp only [List.cons_append, followPath] at hp ⊢
      split at hp
      · cases hp
      · split at hp
        · cases hp
        · exact ih _ hp

/-! ## Soundness (all three modes) -/

def IterSt.Sound (h : Heap) (root : GVal) (st : IterSt) : Prop :=
  ∀ vp ∈ st.out, followPath h root vp.2 = some vp.1

theorem foldl_inv {α β} (P : β → Prop) (f : β → α → β) (l : List α) (b : β)
    (hb : P b) (hf : ∀ b, P b → ∀ a ∈ l, P (f b a)) : P (l.foldl f b) := by
  induction l generalizing b with
  | nil => exact hb
  | cons x xs ih =>
    simp only [List.foldl_cons]
    exact ih _ (hf b hb x (by simp)) (fun b hb a ha => hf b hb a (by simp [ha]))

/-- The visit step of `iterGo` (yield, then recurse into the children). -/
def visitSt (h : Heap) (mode : IterMode) (fuel : Nat) (v : GVal) (path : Path) (st : IterSt) :
    IterSt :=
  match v with
  | .atom _ => { st with out := st.out ++ [(v, path)] }
  | .ref i =>
    match h[i]? with
    | none => { st with out := st.out ++ [(v, path)] }
    | some o =>
      o.children.foldl (fun st pv => iterGo h mode fuel pv.2 (path ++ [pv.1]) st)
        { st with out := st.out ++ [(v, path)] }

theorem iterGo_succ (h : Heap) (mode : IterMode) (fuel : Nat) (v : GVal) (path : Path)
    (st : IterSt) :
    iterGo h mode (fuel + 1) v path st =
      match mode, v with
      | .basic, _ => visitSt h mode fuel v path st
      | .memo, .atom _ => visitSt h mode fuel v path st
      | .memoNoInternables, .atom _ => visitSt h mode fuel v path st
      | .memo, .ref i =>
        if st.memo.contains i then st
        else visitSt h mode fuel v path { st with memo := i :: st.memo }
      | .memoNoInternables, .ref i =>
        if isInternable h (h.length + 1) v then visitSt h mode fuel v path st
        else if st.memo.contains i then st
        else visitSt h mode fuel v path { st with memo := i :: st.memo } := by
  cases mode <;> cases v <;> simp [iterGo, visitSt]
  all_goals (rename_i i; cases h[i]? <;> rfl)

theorem visitSt_sound (h : Heap) (hd : h.PathsDistinct) (mode : IterMode) (root : GVal)
    (fuel : Nat)
    (ih : ∀ (v : GVal) (path : Path) (st : IterSt),
      followPath h root path = some v → st.Sound h root →
      (iterGo h mode fuel v path st).Sound h root)
    (v : GVal) (path : Path) (st : IterSt) (hp : followPath h root path = some v)
    (hs : st.Sound h root) : (visitSt h mode fuel v path st).Sound h root := by
  have happ : IterSt.Sound h root { st with out := st.out ++ [(v, path)] } := by
    intro vp hvp
    simp at hvp
    rcases hvp with hvp | rfl
    · exact hs vp hvp
    · exact hp
  unfold visitSt
  cases v with
  | atom t => exact happ
  | ref i =>
    dsimp only
    split
    · exact happ
    · rename_i o ho
      apply foldl_inv (IterSt.Sound h root)
      · exact happ
      · intro b hb pv hpv
        apply ih _ _ _ _ hb
        exact followPath_snoc h root path i o pv.1 pv.2 hp ho
          (childAt_of_mem o pv (hd i o ho) hpv)

theorem iterGo_sound (h : Heap) (hd : h.PathsDistinct) (mode : IterMode) (root : GVal)
    (fuel : Nat) : ∀ (v : GVal) (path : Path) (st : IterSt),
      followPath h root path = some v → st.Sound h root →
      (iterGo h mode fuel v path st).Sound h root := by
  induction fuel with
  | zero => intro v path st _ hs; simpa [iterGo] using hs
  | succ fuel ih =>
    intro v path st hp hs
    have visit := fun st0 hs0 => visitSt_sound h hd mode root fuel ih v path st0 hp hs0
    rw [iterGo_succ]
    have hmemo : ∀ i : Nat, IterSt.Sound h root { st with memo := i :: st.memo } := fun _ => hs
    cases mode <;> cases v <;> dsimp only
    all_goals first
      | exact visit st hs
      | (split
         · exact hs
         · exact visit _ (hmemo _))
      | (split
         · exact visit st hs
         · split
           · exact hs
           · exact visit _ (hmemo _))

/-! ## Un-memoized traversal: a closed form, completeness, no duplicates -/

/-- All (value, path) pairs below `v`, pre-order, to depth `fuel`. -/
def pairs (h : Heap) : Nat → GVal → Path → List (GVal × Path)
  | 0, _, _ => []
  | fuel + 1, v, path =>
    (v, path) ::
      (match v with
       | .atom _ => []
       | .ref i =>
         match h[i]? with
         | none => []
         | some o => o.children.flatMap (fun pv => pairs h fuel pv.2 (path ++ [pv.1])))

theorem foldl_out_append {α} (f : α → List (GVal × Path)) (l : List α) (st : IterSt) :
    l.foldl (fun st a => { st with out := st.out ++ f a }) st =
      { st with out := st.out ++ l.flatMap f } := by
  induction l generalizing st with
  | nil => simp
  | cons x xs ih => simp [List.foldl_cons, ih, List.flatMap_cons, List.append_assoc]

theorem iterGo_basic (h : Heap) (fuel : Nat) : ∀ (v : GVal) (path : Path) (st : IterSt),
    iterGo h .basic fuel v path st = { st with out := st.out ++ pairs h fuel v path } := by
  induction fuel with
  | zero => intro v path st; simp [iterGo, pairs]
  | succ fuel ih =>
    intro v path st
    rw [iterGo_succ]
    simp only [visitSt, pairs]
    cases v with
    | atom t => simp
    | ref i =>
      dsimp only
      cases h[i]? with
      | none => simp
      | some o =>
        simp only [ih]
        rw [foldl_out_append (fun (pv : PElem × GVal) => pairs h fuel pv.2 (path ++ [pv.1]))]
        simp [List.append_assoc]

theorem iterate_basic (h : Heap) (root : GVal) :
    iterate h .basic root = pairs h (h.length + 1) root [] := by
  simp [iterate, iterGo_basic]

theorem pairs_complete (h : Heap) (fuel : Nat) : ∀ (v w : GVal) (path q : Path),
    followPath h v q = some w → q.length < fuel → (w, path ++ q) ∈ pairs h fuel v path := by
  induction fuel with
  | zero => intro v w path q _ hl; omega
  | succ fuel ih =>
    intro v w path q hf hl
    cases q with
    | nil => simp [followPath] at hf; subst hf; simp [pairs]
    | cons pe rest =>
      cases v with
      | atom t => simp [followPath] at hf
      | ref i =>
        simp only [followPath] at hf
        simp only [pairs]
        cases ho : h[i]? with
        | none => simp [ho] at hf
        | some o =>
          simp only [ho] at hf
          cases hc : childAt o pe with
          | none => simp [hc] at hf
          | some c =>
            simp only [hc] at hf
            have hm := childAt_mem o pe c hc
            apply List.mem_cons_of_mem
            simp only [List.mem_flatMap]
            refine ⟨(pe, c), hm, ?_⟩
            have := ih c w (path ++ [pe]) rest hf (by simp at hl; omega)
            simpa [List.append_assoc] using this

def GVal.rank : GVal → Nat
  | .atom _ => 0
  | .ref i => i + 1

theorem followPath_length (h : Heap) (wf : h.WellFormed) : ∀ (q : Path) (v w : GVal),
    followPath h v q = some w → q.length ≤ v.rank := by
  intro q
  induction q with
  | nil => intro v w _; simp
  | cons pe rest ih =>
    intro v w hf
    cases v with
    | atom t => simp [followPath] at hf
    | ref i =>
      simp only [followPath] at hf
      cases ho : h[i]? with
      | none => simp [ho] at hf
      | some o =>
        simp only [ho] at hf
        cases hc : childAt o pe with
        | none => simp [hc] at hf
        | some c =>
          simp only [hc] at hf
          have hm := childAt_mem o pe c hc
          have hr := ih c w hf
          cases c with
          | atom t =>
            have h1 : rest.length ≤ 0 := by simpa [GVal.rank] using hr
            simp [GVal.rank]; omega
          | ref j =>
            have hj : j < i := wf i o ho (pe, .ref j) hm j rfl
            have h1 : rest.length ≤ j + 1 := by simpa [GVal.rank] using hr
            simp [GVal.rank]; omega

theorem followPath_length_heap (h : Heap) (wf : h.WellFormed) (q : Path) (v w : GVal)
    (hf : followPath h v q = some w) : q.length < h.length + 1 := by
  cases q with
  | nil => simp
  | cons pe rest =>
    cases v with
    | atom t => simp [followPath] at hf
    | ref i =>
      have hl := followPath_length h wf _ _ _ hf
      have hi : i < h.length := by
        simp only [followPath] at hf
        cases ho : h[i]? with
        | none => simp [ho] at hf
        | some o =>
          have := List.getElem?_eq_some_iff.mp ho
          exact this.1
      simp [GVal.rank] at hl ⊢; omega

theorem pairs_prefix (h : Heap) (fuel : Nat) : ∀ (v : GVal) (path : Path),
    ∀ wp ∈ pairs h fuel v path, path <+: wp.2 := by
  induction fuel with
  | zero => intro v path wp hwp; simp [pairs] at hwp
  | succ fuel ih =>
    intro v path wp hwp
    simp only [pairs, List.mem_cons] at hwp
    rcases hwp with rfl | hwp
    · exact List.prefix_refl _
    · cases v with
      | atom t => simp at hwp
      | ref i =>
        dsimp only at hwp
        cases ho : h[i]? with
        | none => simp [ho] at hwp
        | some o =>
          simp only [ho, List.mem_flatMap] at hwp
          obtain ⟨pv, _, hin⟩ := hwp
          exact (List.prefix_append _ _).trans (ih _ _ wp hin)

theorem flatMap_paths_nodup (h : Heap) (fuel : Nat) (path : Path)
    (ih : ∀ (v : GVal) (path : Path), ((pairs h fuel v path).map (·.2)).Nodup)
    (cs : List (PElem × GVal)) (hn : (cs.map (·.1)).Nodup) :
    ((cs.flatMap (fun pv => pairs h fuel pv.2 (path ++ [pv.1]))).map (·.2)).Nodup := by
  induction cs with
  | nil => simp
  | cons c cs ihc =>
    simp only [List.map_cons, List.nodup_cons] at hn
    simp only [List.flatMap_cons, List.map_append]
    refine List.nodup_append.mpr ⟨ih _ _, ihc hn.2, ?_⟩
    intro a ha b hb e
    subst e
    simp only [List.mem_map] at ha hb
    obtain ⟨wp, hwp, rfl⟩ := ha
    obtain ⟨wp', hwp', e⟩ := hb
    simp only [List.mem_flatMap] at hwp'
    obtain ⟨c', hc', hin'⟩ := hwp'
    have p1 := pairs_prefix h fuel _ _ wp hwp
    have p2 := pairs_prefix h fuel _ _ wp' hin'
    rw [e] at p2
    have := List.prefix_of_prefix_length_le p1 p2 (by simp)
    have e2 := this.eq_of_length (by simp)
    have e3 : c.1 = c'.1 := by
      have := List.append_inj' e2 (by simp)
      simpa using this.2
    apply hn.1
    rw [e3]
    exact List.mem_map_of_mem hc'

theorem pairs_paths_nodup (h : Heap) (hd : h.PathsDistinct) (fuel : Nat) :
    ∀ (v : GVal) (path : Path), ((pairs h fuel v path).map (·.2)).Nodup := by
  induction fuel with
  | zero => intro v path; simp [pairs]
  | succ fuel ih =>
    intro v path
    simp only [pairs, List.map_cons, List.nodup_cons]
    constructor
    · intro hm
      simp only [List.mem_map] at hm
      obtain ⟨wp, hwp, e⟩ := hm
      cases v with
      | atom t => simp at hwp
      | ref i =>
        dsimp only at hwp
        cases ho : h[i]? with
        | none => simp [ho] at hwp
        | some o =>
          simp only [ho, List.mem_flatMap] at hwp
          obtain ⟨pv, _, hin⟩ := hwp
          have := (pairs_prefix h fuel _ _ wp hin).length_le
          rw [e] at this
          simp at this
          omega
    · cases v with
      | atom t => simp
      | ref i =>
        dsimp only
        cases ho : h[i]? with
        | none => simp
        | some o => exact flatMap_paths_nodup h fuel path ih o.children (hd i o ho)

/-! ## Memoized traversal: each mutable object is yielded at most once -/

structure IterSt.Once (st : IterSt) : Prop where
  nodup : (refIds st.out).Nodup
  seen : ∀ i ∈ refIds st.out, i ∈ st.memo

theorem refIds_append_atom (out : List (GVal × Path)) (t : String) (p : Path) :
    refIds (out ++ [(.atom t, p)]) = refIds out := by
  simp [refIds, List.filterMap_append]

theorem refIds_append_ref (out : List (GVal × Path)) (i : Nat) (p : Path) :
    refIds (out ++ [(.ref i, p)]) = refIds out ++ [i] := by
  simp [refIds, List.filterMap_append]

theorem iterGo_memo_once (h : Heap) (fuel : Nat) : ∀ (v : GVal) (path : Path) (st : IterSt),
    st.Once → (iterGo h .memo fuel v path st).Once ∧
      (∀ i ∈ st.memo, i ∈ (iterGo h .memo fuel v path st).memo) := by
  induction fuel with
  | zero => intro v path st hs; simpa [iterGo] using hs
  | succ fuel ih =>
    intro v path st hs
    rw [iterGo_succ]
    cases v with
    | atom t =>
      simp only [visitSt]
      exact ⟨⟨by simpa [refIds_append_atom] using hs.nodup,
              by simpa [refIds_append_atom] using hs.seen⟩, fun _ hi => hi⟩
    | ref i =>
      dsimp only
      split
      · exact ⟨hs, fun _ hi => hi⟩
      · rename_i hnot
        have hnot' : i ∉ st.memo := by simpa using hnot
        have h0 : IterSt.Once { memo := i :: st.memo, out := st.out ++ [(GVal.ref i, path)] } := by
          constructor
          · rw [refIds_append_ref]
            refine List.nodup_append.mpr ⟨hs.nodup, by simp, ?_⟩
            intro a ha b hb e
            simp at hb; subst hb; subst e
            exact hnot' (hs.seen _ ha)
          · intro k hk
            rw [refIds_append_ref] at hk
            simp at hk
            rcases hk with hk | rfl
            · simp [hs.seen k hk]
            · simp
        simp only [visitSt]
        cases h[i]? with
        | none => exact ⟨h0, fun k hk => by simp [hk]⟩
        | some o =>
          dsimp only
          have key : ∀ (cs : List (PElem × GVal)) (st0 : IterSt), st0.Once →
              (cs.foldl (fun st pv => iterGo h .memo fuel pv.2 (path ++ [pv.1]) st) st0).Once ∧
              ∀ k ∈ st0.memo,
                k ∈ (cs.foldl (fun st pv => iterGo h .memo fuel pv.2 (path ++ [pv.1]) st) st0).memo := by
            intro cs
            induction cs with
            | nil => intro st0 h0; exact ⟨h0, fun _ hk => hk⟩
            | cons c cs ihc =>
              intro st0 h0
              simp only [List.foldl_cons]
              obtain ⟨a1, a2⟩ := ih c.2 (path ++ [c.1]) st0 h0
              obtain ⟨b1, b2⟩ := ihc _ a1
              exact ⟨b1, fun k hk => b2 k (a2 k hk)⟩
          obtain ⟨k1, k2⟩ := key o.children _ h0
          exact ⟨k1, fun k hk => k2 k (by simp [hk])⟩

/-! ## Memoized traversal: every reachable mutable object is yielded -/

/-- Reachability through children (any object kind). -/
inductive ReachA (h : Heap) : Nat → Nat → Prop
  | refl (i : Nat) : ReachA h i i
  | step (i j k : Nat) (o : GObj) (pv : PElem × GVal) : h[i]? = some o →
      pv ∈ o.children → pv.2 = .ref j → ReachA h j k → ReachA h i k

def FullAt (h : Heap) (st : IterSt) (k : Nat) : Prop := ∀ j, ReachA h k j → j ∈ st.memo

/-- All memoized objects below level `n` have been completely traversed. -/
def DoneBelow (h : Heap) (st : IterSt) (n : Nat) : Prop := ∀ k ∈ st.memo, k < n → FullAt h st k

structure MemoStep (h : Heap) (st st' : IterSt) (v : GVal) (n : Nat) : Prop where
  done : DoneBelow h st' n
  mono : ∀ k ∈ st.memo, k ∈ st'.memo
  newLow : ∀ k ∈ st'.memo, k ∈ st.memo ∨ k < v.rank
  full : ∀ i, v = .ref i → FullAt h st' i

theorem FullAt.mono {h : Heap} {st st' : IterSt} {k : Nat} (hf : FullAt h st k)
    (hm : ∀ k ∈ st.memo, k ∈ st'.memo) : FullAt h st' k := fun j hj => hm j (hf j hj)

theorem iterGo_memo_complete (h : Heap) (wf : h.WellFormed) (fuel : Nat) :
    ∀ (v : GVal) (path : Path) (st : IterSt) (n : Nat), v.rank ≤ fuel → v.rank ≤ n →
      DoneBelow h st n → MemoStep h st (iterGo h .memo fuel v path st) v n := by
  induction fuel with
  | zero =>
    intro v path st n hr _ hd
    cases v with
    | atom t =>
      simp only [iterGo]
      exact ⟨hd, fun _ hk => hk, fun _ hk => Or.inl hk, by intro i hi; cases hi⟩
    | ref i => simp [GVal.rank] at hr
  | succ fuel ih =>
    intro v path st n hr hn hd
    rw [iterGo_succ]
    cases v with
    | atom t =>
      simp only [visitSt]
      exact ⟨hd, fun _ hk => hk, fun _ hk => Or.inl hk, by intro i hi; cases hi⟩
    | ref i =>
      have hin : i < n := by simp [GVal.rank] at hn; omega
      dsimp only
      split
      · rename_i hmem
        have hmem' : i ∈ st.memo := by simpa using hmem
        refine ⟨hd, fun _ hk => hk, fun _ hk => Or.inl hk, ?_⟩
        intro k hk; cases hk
        exact hd i hmem' hin
      · rename_i hnot
        have hnot' : i ∉ st.memo := by simpa using hnot
        -- state after marking `i` and yielding it
        have hd0 : DoneBelow h { memo := i :: st.memo, out := st.out ++ [(GVal.ref i, path)] } i := by
          intro k hk hki
          simp only [List.mem_cons] at hk
          rcases hk with rfl | hk
          · omega
          · exact (hd k hk (by omega)).mono (fun k hk => by simp [hk])
        simp only [visitSt]
        cases ho : h[i]? with
        | none =>
          dsimp only
          refine ⟨?_, fun k hk => by simp [hk], ?_, ?_⟩
          · intro k hk hkn
            simp only [List.mem_cons] at hk
            rcases hk with rfl | hk
            · intro j hj
              cases hj with
              | refl => simp
              | step _ _ _ o pv ho' => rw [ho] at ho'; cases ho'
            · exact (hd k hk hkn).mono (fun k hk => by simp [hk])
          · intro k hk
            simp only [List.mem_cons] at hk
            rcases hk with rfl | hk
            · right; simp [GVal.rank]
            · exact Or.inl hk
          · intro k hk; cases hk
            intro j hj
            cases hj with
            | refl => simp
            | step _ _ _ o pv ho' => rw [ho] at ho'; cases ho'
        | some o =>
          dsimp only
          -- fold over the children at level `i`
          have key : ∀ (cs : List (PElem × GVal)) (st0 : IterSt),
              (∀ pv ∈ cs, pv ∈ o.children) → DoneBelow h st0 i →
              let st1 := cs.foldl (fun st pv => iterGo h .memo fuel pv.2 (path ++ [pv.1]) st) st0
              DoneBelow h st1 i ∧ (∀ k ∈ st0.memo, k ∈ st1.memo) ∧
                (∀ k ∈ st1.memo, k ∈ st0.memo ∨ k < i) ∧
                (∀ pv ∈ cs, ∀ c, pv.2 = .ref c → FullAt h st1 c) := by
            intro cs
            induction cs with
            | nil =>
              intro st0 _ h0
              exact ⟨h0, fun _ hk => hk, fun _ hk => Or.inl hk, by intro pv hpv; cases hpv⟩
            | cons c cs ihc =>
              intro st0 hsub h0
              simp only [List.foldl_cons]
              have hc : c ∈ o.children := hsub c (by simp)
              have hcr : c.2.rank ≤ i := by
                cases hc2 : c.2 with
                | atom t => simp [GVal.rank]
                | ref j => have := wf i o ho c hc j hc2; simp [GVal.rank]; omega
              have s1 := ih c.2 (path ++ [c.1]) st0 i (by simp [GVal.rank] at hr; omega) hcr h0
              obtain ⟨d2, m2, l2, f2⟩ := ihc _ (fun pv hpv => hsub pv (by simp [hpv])) s1.done
              refine ⟨d2, fun k hk => m2 k (s1.mono k hk), ?_, ?_⟩
              · intro k hk
                rcases l2 k hk with hk | hk
                · rcases s1.newLow k hk with hk | hk
                  · exact Or.inl hk
                  · right; omega
                · exact Or.inr hk
              · intro pv hpv c' hc'
                rcases List.mem_cons.mp hpv with rfl | hpv
                · exact (s1.full c' hc').mono m2
                · exact f2 pv hpv c' hc'
          obtain ⟨d1, m1, l1, f1⟩ := key o.children _ (fun _ hpv => hpv) hd0
          have hfull : FullAt h (o.children.foldl
              (fun st pv => iterGo h .memo fuel pv.2 (path ++ [pv.1]) st)
              { memo := i :: st.memo, out := st.out ++ [(GVal.ref i, path)] }) i := by
            intro j hj
            cases hj with
            | refl => exact m1 i (by simp)
            | step _ c _ o' pv ho' hpv hc hrest =>
              rw [ho] at ho'; cases ho'
              exact f1 pv hpv c hc j hrest
          refine ⟨?_, fun k hk => m1 k (by simp [hk]), ?_, ?_⟩
          · intro k hk hkn
            rcases l1 k hk with hk0 | hki
            · simp only [List.mem_cons] at hk0
              rcases hk0 with rfl | hk0
              · exact hfull
              · exact (hd k hk0 hkn).mono (fun k hk => m1 k (by simp [hk]))
            · exact d1 k hk hki
          · intro k hk
            rcases l1 k hk with hk0 | hki
            · simp only [List.mem_cons] at hk0
              rcases hk0 with rfl | hk0
              · right; simp [GVal.rank]
              · exact Or.inl hk0
            · right; simp [GVal.rank]; omega
          · intro k hk; cases hk; exact hfull

/-- Memoized objects have been yielded. -/
theorem iterGo_memo_yielded (h : Heap) (fuel : Nat) : ∀ (v : GVal) (path : Path) (st : IterSt),
    (∀ k ∈ st.memo, k ∈ refIds st.out) →
    ∀ k ∈ (iterGo h .memo fuel v path st).memo, k ∈ refIds (iterGo h .memo fuel v path st).out := by
  induction fuel with
  | zero => intro v path st hs; simpa [iterGo] using hs
  | succ fuel ih =>
    intro v path st hs
    rw [iterGo_succ]
    cases v with
    | atom t => simpa [visitSt, refIds_append_atom] using hs
    | ref i =>
      dsimp only
      split
      · exact hs
      · have h0 : ∀ k ∈ i :: st.memo, k ∈ refIds (st.out ++ [(GVal.ref i, path)]) := by
          intro k hk
          rw [refIds_append_ref]
          simp only [List.mem_cons] at hk
          rcases hk with rfl | hk
          · simp
          · simp [hs k hk]
        simp only [visitSt]
        cases h[i]? with
        | none => exact h0
        | some o =>
          dsimp only
          apply foldl_inv (fun (st : IterSt) => ∀ k ∈ st.memo, k ∈ refIds st.out)
          · exact h0
          · intro b hb pv _; exact ih _ _ _ hb

end Fiddle
