import FiddleModel.Lemmas.DiffL

namespace Fiddle.Diff
open Fiddle

theorem contains_set {α} (d : Dict α) (k k' : Key) (v : α) (h : d.contains k' = true) :
    (d.set k v).contains k' = true := by
  unfold Dict.contains at *
  by_cases e : k = k'
  · subst e; simp [Dict.get?_set_same]
  · rw [Dict.get?_set_other _ _ _ _ e]; exact h

theorem get?_none_iff {α} (d : Dict α) (k : Key) : d.get? k = none ↔ d.contains k = false := by
  unfold Dict.contains; cases d.get? k <;> simp

/-- `apply_diff(build_diff(old, new), old)` for one node, in the given phase order
    DeleteValue, RemoveTag, ModifyValue, SetValue, AddTag: succeeds and yields `new`. -/
theorem flat_roundtrip (sg : Sigs) (old new : Flat) (ho : old.Valid sg) (hn : new.Valid sg) :
    ∃ r, applyPhases sg ["DeleteValue", "RemoveTag", "ModifyValue", "SetValue", "AddTag"]
        (flatDiff old new) old = .ok r ∧
      r.fn = new.fn ∧ (∀ k, r.args.get? k = new.args.get? k) ∧
      (∀ n t, t ∈ r.tagsOf n ↔ t ∈ new.tagsOf n) := by
  obtain ⟨f1, f2, f3, f4, f5⟩ := filter_flatDiff old new
  -- phase 1: deletes
  obtain ⟨c1, e1, fn1, tg1, nd1, z1, o1, sub1⟩ :=
    phase_dels sg (dels old new) old (dels_nodup old new ho.argsNodup)
      (fun n hn' => (contains_iff_mem_keys _ _).mpr ((mem_dels old new n).mp hn').1) ho.argsNodup
  -- phase 2: tag removals
  have tof1 : ∀ n, c1.tagsOf n = old.tagsOf n := fun n => by simp [Flat.tagsOf, tg1]
  obtain ⟨c2, e2, fn2, ar2, m2⟩ :=
    phase_removeTags sg (tagPairs old new) c1 (tagPairs_nodup old new ho.tagsNodup)
      (fun p hp => by
        rw [tof1]
        exact ((mem_tagPairs old new ho.tagsNodup p.1 p.2).mp hp).1)
  -- what survives the deletes is accepted by the new callable
  have surv : ∀ k ∈ c2.args.keys, new.args.contains k = true := by
    intro k hk
    rw [ar2] at hk
    have hold := sub1 k hk
    have hacc := ho.argsOk k hold
    cases k with
    | idx i => simp [accepts] at hacc
    | name n =>
      cases hc : new.args.contains (.name n) with
      | true => rfl
      | false =>
        have hd : n ∈ dels old new := (mem_dels old new n).mpr ⟨hold, hc⟩
        have hz := z1 n hd
        have hcon := (contains_iff_mem_keys c1.args (.name n)).mpr hk
        rw [(get?_none_iff _ _).mp hz] at hcon
        cases hcon
  -- phase 3a: the callable
  have h3a : ∃ c3, applyAll sg c2 (fnChange old new) = .ok c3 ∧ c3.fn = new.fn ∧
      c3.args = c2.args ∧ c3.tags = c2.tags := by
    unfold fnChange
    split
    · rename_i hfn
      exact ⟨c2, rfl, by rw [fn2, fn1, hfn], rfl, rfl⟩
    · refine ⟨{ c2 with fn := new.fn }, ?_, rfl, rfl, rfl⟩
      have : c2.args.keys.all (accepts sg new.fn) = true := by
        rw [List.all_eq_true]
        intro k hk
        exact hn.argsOk k ((contains_iff_mem_keys _ _).mp (surv k hk))
      simp [applyAll, apply1, this]
  obtain ⟨c3, e3a, fn3, ar3, tg3⟩ := h3a
  -- phase 3b: modified values
  have nd3 : c3.args.NodupKeys := by rw [ar3, ar2]; exact nd1
  obtain ⟨c4, e3b, fn4, tg4, nd4, z4, o4, _⟩ :=
    phase_assign sg .modifyValue (fun c k => c.args.contains (.name k) = true)
      (fun c k k' v h => contains_set c.args (.name k) (.name k') v h)
      (fun c k v h => by simp [apply1, h])
      (mods old new) c3 (mods_keys_nodup old new ho.argsNodup)
      (fun p hp => by
        obtain ⟨v, hv, hg, _⟩ := (mem_mods old new p.1 p.2).mp hp
        have hnd : ∀ m ∈ dels old new, (Key.name p.1) ≠ .name m := by
          intro m hm e
          cases e
          have := ((mem_dels old new p.1).mp hm).2
          simp [Dict.contains, hg] at this
        show c3.args.contains (.name p.1) = true
        rw [ar3, ar2]
        simp only [Dict.contains, o1 _ hnd, get?_of_mem old.args ho.argsNodup _ _ hv]
        rfl)
      nd3
  -- phase 4: new arguments
  obtain ⟨c5, e4, fn5, tg5, nd5, z5, o5, _⟩ :=
    phase_assign sg .setValue (fun c k => (sg c.fn).contains k = true)
      (fun c k k' v h => h)
      (fun c k v h => by
        have h' : (sg c.fn).contains k = true := h
        simp only [apply1, h', if_true])
      (sets old new) c4 (sets_keys_nodup old new hn.argsNodup)
      (fun p hp => by
        have hm := ((mem_sets old new p.1 p.2).mp hp).1
        have hk : (Key.name p.1) ∈ new.args.keys := List.mem_map_of_mem (f := (·.1)) hm
        have := hn.argsOk _ hk
        show (sg c4.fn).contains p.1 = true
        rw [fn4, fn3]
        simpa [accepts] using this)
      nd4
  -- phase 5: new tags
  obtain ⟨c6, e5, fn6, ar6, m6⟩ :=
    phase_addTags sg (tagPairs new old) c5
      (fun p hp => by
        have ht := ((mem_tagPairs new old hn.tagsNodup p.1 p.2).mp hp).1
        have hk : (Key.name p.1) ∈ new.tags.keys := by
          unfold Flat.tagsOf at ht
          cases hg : new.tags.get? (.name p.1) with
          | none => simp [hg] at ht
          | some ts => exact List.mem_map_of_mem (f := (·.1)) (mem_of_get? _ _ _ hg)
        have := hn.tagsOk _ hk
        rw [fn5, fn4, fn3]
        simpa [accepts] using this)
  refine ⟨c6, ?_, by rw [fn6, fn5, fn4, fn3], ?_, ?_⟩
  · simp only [applyPhases, f1, f2, f3, f4, f5, e1, e2, applyAll_append, e3a, e3b, e4, e5]
  · -- arguments
    intro k
    rw [ar6]
    by_cases hs : ∃ p ∈ sets old new, k = .name p.1
    · obtain ⟨p, hp, rfl⟩ := hs
      rw [z5 p hp]
      exact (get?_of_mem new.args hn.argsNodup _ _ ((mem_sets old new p.1 p.2).mp hp).1).symm
    · have hs' : ∀ p ∈ sets old new, k ≠ .name p.1 := fun p hp e => hs ⟨p, hp, e⟩
      rw [o5 k hs']
      by_cases hm : ∃ p ∈ mods old new, k = .name p.1
      · obtain ⟨p, hp, rfl⟩ := hm
        rw [z4 p hp]
        obtain ⟨_, _, hg, _⟩ := (mem_mods old new p.1 p.2).mp hp
        exact hg.symm
      · have hm' : ∀ p ∈ mods old new, k ≠ .name p.1 := fun p hp e => hm ⟨p, hp, e⟩
        rw [o4 k hm', ar3, ar2]
        by_cases hd : ∃ n ∈ dels old new, k = .name n
        · obtain ⟨n, hnd, rfl⟩ := hd
          rw [z1 n hnd]
          exact ((get?_none_iff _ _).mpr ((mem_dels old new n).mp hnd).2).symm
        · have hd' : ∀ n ∈ dels old new, k ≠ .name n := fun n hnd e => hd ⟨n, hnd, e⟩
          rw [o1 k hd']
          cases hold : old.args.get? k with
          | none =>
            cases hnew : new.args.get? k with
            | none => rfl
            | some v =>
              exfalso
              have hmem := mem_of_get? _ _ _ hnew
              have hk : k ∈ new.args.keys := List.mem_map_of_mem (f := (·.1)) hmem
              have hacc := hn.argsOk k hk
              cases k with
              | idx i => simp [accepts] at hacc
              | name n =>
                exact hs ⟨(n, v), (mem_sets old new n v).mpr ⟨hmem, (get?_none_iff _ _).mp hold⟩, rfl⟩
          | some v =>
            have hmem := mem_of_get? _ _ _ hold
            have hk : k ∈ old.args.keys := List.mem_map_of_mem (f := (·.1)) hmem
            have hacc := ho.argsOk k hk
            cases k with
            | idx i => simp [accepts] at hacc
            | name n =>
              cases hnew : new.args.get? (.name n) with
              | none =>
                exact absurd rfl (hd' n ((mem_dels old new n).mpr ⟨hk, (get?_none_iff _ _).mp hnew⟩))
              | some v' =>
                by_cases hv : v' = v
                · rw [hv]
                · exact absurd rfl (hm' (n, v') ((mem_mods old new n v').mpr ⟨v, hmem, hnew, hv⟩))
  · -- tags
    intro n t
    have tof5 : ∀ m, c5.tagsOf m = c2.tagsOf m := fun m => by
      simp [Flat.tagsOf, tg5, tg4, tg3]
    rw [m6, tof5, m2, tof1, mem_tagPairs old new ho.tagsNodup, mem_tagPairs new old hn.tagsNodup]
    by_cases h1 : t ∈ old.tagsOf n <;> by_cases h2 : t ∈ new.tagsOf n <;> simp [h1, h2]

end Fiddle.Diff

namespace Fiddle.Diff
open Fiddle

theorem execAll_append (sg : Sigs) : ∀ (a b : List Stmt) (c : Flat),
    execAll sg c (a ++ b) =
      match execAll sg c a with
      | .ok c' => execAll sg c' b
      | .error e => .error e := by
  intro a
  induction a with
  | nil => intro b c; rfl
  | cons x xs ih =>
    intro b c
    simp only [List.cons_append, execAll]
    cases exec1 sg c x with
    | error e => rfl
    | ok c' => exact ih b c'

/-- every stored argument is accepted by the current callable -/
def ArgsOk (sg : Sigs) (c : Flat) : Prop := ∀ k ∈ c.args.keys, accepts sg c.fn k = true

/-- One emitted statement does what the change it was emitted for does, on a configuration
    whose arguments its callable accepts (which `Buildable` maintains); and that stays so. -/
theorem exec1_emit1 (sg : Sigs) (c r : Flat) (ch : Change) (hok : ArgsOk sg c)
    (h : apply1 sg c ch = .ok r) : exec1 sg c (emit1 ch) = .ok r ∧ ArgsOk sg r := by
  cases ch with
  | deleteValue k =>
    simp only [apply1] at h
    split at h
    · rename_i hc
      cases h
      refine ⟨by simp [emit1, exec1, hc], ?_⟩
      intro k' hk'
      exact hok k' (Dict.keys_del_subset _ _ _ hk')
    · cases h
  | removeTag k t =>
    simp only [apply1] at h
    split at h
    · rename_i hc
      cases h
      exact ⟨by simp only [emit1, exec1, hc, if_true], hok⟩
    · cases h
  | modifyFn f =>
    simp only [apply1] at h
    split at h
    · rename_i hc
      cases h
      refine ⟨by simp only [emit1, exec1, hc, if_true], ?_⟩
      intro k' hk'
      exact List.all_eq_true.mp hc k' hk'
    · cases h
  | modifyValue k v =>
    simp only [apply1] at h
    split at h
    · rename_i hc
      cases h
      have hk : (Key.name k) ∈ c.args.keys := (contains_iff_mem_keys _ _).mp hc
      have hacc : (sg c.fn).contains k = true := by simpa [accepts] using hok _ hk
      refine ⟨by simp only [emit1, exec1, hacc, if_true], ?_⟩
      intro k' hk'
      rcases Dict.keys_set_subset _ _ _ k' hk' with e | hm
      · subst e; exact hok _ hk
      · exact hok k' hm
    · cases h
  | setValue k v =>
    simp only [apply1] at h
    split at h
    · rename_i hc
      cases h
      refine ⟨by simp only [emit1, exec1, hc, if_true], ?_⟩
      intro k' hk'
      rcases Dict.keys_set_subset _ _ _ k' hk' with e | hm
      · subst e; simpa [accepts] using hc
      · exact hok k' hm
    · cases h
  | addTag k t =>
    simp only [apply1] at h
    split at h
    · rename_i hc
      cases h
      exact ⟨by simp only [emit1, exec1, hc, if_true], hok⟩
    · cases h

theorem execAll_emit (sg : Sigs) : ∀ (chs : List Change) (c r : Flat), ArgsOk sg c →
    applyAll sg c chs = .ok r → execAll sg c (chs.map emit1) = .ok r ∧ ArgsOk sg r := by
  intro chs
  induction chs with
  | nil => intro c r hok h; simp [applyAll] at h; subst h; exact ⟨rfl, hok⟩
  | cons ch chs ih =>
    intro c r hok h
    simp only [applyAll] at h
    split at h
    · rename_i c' h1
      obtain ⟨e1, ok1⟩ := exec1_emit1 sg c c' ch hok h1
      obtain ⟨e2, ok2⟩ := ih c' r ok1 h
      exact ⟨by simp only [List.map_cons, execAll, e1, e2], ok2⟩
    · cases h

/-- The emitted fiddler is exactly `apply_diff` with three coarser phases — (DeleteValue and
    RemoveTag), the callable, (ModifyValue, SetValue and AddTag) — each in diff order: for every
    list of changes. -/
theorem fiddler_eq_regrouped_apply (sg : Sigs) (chs : List Change) (c r : Flat)
    (hok : ArgsOk sg c) (h : applyAll sg c (regroup chs) = .ok r) :
    execAll sg c (emit chs) = .ok r :=
  (execAll_emit sg (regroup chs) c r hok h).1

/-- For a diff in `build_diff`'s order the three coarse phases and the five phases of
    `_apply_changes` are the same sequence of operations. -/
theorem regroup_flatDiff (old new : Flat) : regroup (flatDiff old new) = flatDiff old new := by
  have hf : ∀ (p : Change → Bool), (fnChange old new).filter p =
      if p (.modifyFn new.fn) then fnChange old new else [] := by
    intro p; unfold fnChange; split
    · simp
    · cases hp : p (.modifyFn new.fn) <;> simp [hp]
  unfold regroup flatDiff
  simp only [List.filter_append, hf]
  rw [filter_map_all (dels old new) Change.deleteValue Change.isDeleteLike (fun _ => rfl),
      filter_map_all (tagPairs old new) (fun p => Change.removeTag p.1 p.2) Change.isDeleteLike (fun _ => rfl),
      filter_map_none (mods old new) (fun p => Change.modifyValue p.1 p.2) Change.isDeleteLike (fun _ => rfl),
      filter_map_none (sets old new) (fun p => Change.setValue p.1 p.2) Change.isDeleteLike (fun _ => rfl),
      filter_map_none (tagPairs new old) (fun p => Change.addTag p.1 p.2) Change.isDeleteLike (fun _ => rfl),
      filter_map_none (dels old new) Change.deleteValue Change.isFn (fun _ => rfl),
      filter_map_none (tagPairs old new) (fun p => Change.removeTag p.1 p.2) Change.isFn (fun _ => rfl),
      filter_map_none (mods old new) (fun p => Change.modifyValue p.1 p.2) Change.isFn (fun _ => rfl),
      filter_map_none (sets old new) (fun p => Change.setValue p.1 p.2) Change.isFn (fun _ => rfl),
      filter_map_none (tagPairs new old) (fun p => Change.addTag p.1 p.2) Change.isFn (fun _ => rfl),
      filter_map_none (dels old new) Change.deleteValue Change.isAssignLike (fun _ => rfl),
      filter_map_none (tagPairs old new) (fun p => Change.removeTag p.1 p.2) Change.isAssignLike (fun _ => rfl),
      filter_map_all (mods old new) (fun p => Change.modifyValue p.1 p.2) Change.isAssignLike (fun _ => rfl),
      filter_map_all (sets old new) (fun p => Change.setValue p.1 p.2) Change.isAssignLike (fun _ => rfl),
      filter_map_all (tagPairs new old) (fun p => Change.addTag p.1 p.2) Change.isAssignLike (fun _ => rfl)]
  simp [Change.isDeleteLike, Change.isFn, Change.isAssignLike]

/-- ... and applying them phase by phase is applying them in sequence. -/
theorem applyPhases_flatDiff (sg : Sigs) (old new c : Flat) :
    applyPhases sg ["DeleteValue", "RemoveTag", "ModifyValue", "SetValue", "AddTag"]
      (flatDiff old new) c = applyAll sg c (flatDiff old new) := by
  obtain ⟨f1, f2, f3, f4, f5⟩ := filter_flatDiff old new
  have step : ∀ (a b : List Change) (c : Flat) (k : Flat → Except Err Flat),
      (∀ c', k c' = applyAll sg c' b) →
      (match applyAll sg c a with | .ok c' => k c' | .error e => .error e) =
        applyAll sg c (a ++ b) := by
    intro a b c k hk
    rw [applyAll_append]
    cases applyAll sg c a with
    | error e => rfl
    | ok c' => exact hk c'
  simp only [applyPhases, f1, f2, f3, f4, f5]
  unfold flatDiff
  simp only [List.append_assoc]
  rw [applyAll_append]
  cases applyAll sg c (List.map Change.deleteValue (dels old new)) with
  | error e => rfl
  | ok c1 =>
    simp only []
    rw [applyAll_append]
    cases applyAll sg c1 (List.map (fun p => Change.removeTag p.1 p.2) (tagPairs old new)) with
    | error e => rfl
    | ok c2 =>
      simp only []
      rw [applyAll_append sg (fnChange old new), applyAll_append sg (fnChange old new)]
      cases applyAll sg c2 (fnChange old new) with
      | error e => rfl
      | ok c3 =>
        simp only []
        rw [applyAll_append]
        cases applyAll sg c3 (List.map (fun p => Change.modifyValue p.1 p.2) (mods old new)) with
        | error e => rfl
        | ok c4 =>
          simp only []
          rw [applyAll_append]
          cases applyAll sg c4 (List.map (fun p => Change.setValue p.1 p.2) (sets old new)) with
          | error e => rfl
          | ok c5 =>
            simp only []
            cases applyAll sg c5 (List.map (fun p => Change.addTag p.1 p.2) (tagPairs new old)) <;> rfl

/-- The diff between a configuration and an equal one (its deep copy) is empty. -/
theorem flatDiff_self (c : Flat) (hn : c.args.NodupKeys) (ht : c.tags.NodupKeys) :
    flatDiff c c = [] := by
  have hd : dels c c = [] := by
    rw [List.eq_nil_iff_forall_not_mem]
    intro n hm
    obtain ⟨hk, hc⟩ := (mem_dels c c n).mp hm
    rw [(contains_iff_mem_keys _ _).mpr hk] at hc; cases hc
  have hm : mods c c = [] := by
    rw [List.eq_nil_iff_forall_not_mem]
    rintro ⟨n, v'⟩ hm
    obtain ⟨v, hv, hg, hne⟩ := (mem_mods c c n v').mp hm
    rw [get?_of_mem c.args hn _ _ hv] at hg
    cases hg; exact hne rfl
  have hs : sets c c = [] := by
    rw [List.eq_nil_iff_forall_not_mem]
    rintro ⟨n, v⟩ hm
    obtain ⟨hv, hc⟩ := (mem_sets c c n v).mp hm
    have : (Key.name n) ∈ c.args.keys := List.mem_map_of_mem (f := (·.1)) hv
    rw [(contains_iff_mem_keys _ _).mpr this] at hc; cases hc
  have htp : tagPairs c c = [] := by
    rw [List.eq_nil_iff_forall_not_mem]
    rintro ⟨n, t⟩ hm
    obtain ⟨h1, h2⟩ := (mem_tagPairs c c ht n t).mp hm
    exact h2 h1
  simp [flatDiff, hd, hm, hs, htp, fnChange]

end Fiddle.Diff
