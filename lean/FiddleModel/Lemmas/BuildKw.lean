/-
The keyword half of `transform_to_args_kwargs`: what is left in the dict after the positional
slots have been taken out (and is passed to the callable by keyword).
-/
import FiddleModel.Model.ArgStore
import FiddleModel.Lemmas.Dict

namespace Fiddle
open Sig

/-- `rest` holds only configured values, under their own keys. -/
def SubDict (rest d : Dict Val) : Prop := ∀ k v, rest.get? k = some v → d.get? k = some v

theorem SubDict.del {rest d : Dict Val} (h : SubDict rest d) (hn : rest.NodupKeys) (k : Key) :
    SubDict (rest.del k) d := by
  intro k' v hv
  by_cases e : k = k'
  · subst e; rw [Dict.get?_del_same _ _ hn] at hv; cases hv
  · rw [Dict.get?_del_other _ _ _ e] at hv; exact h k' v hv

/-- Names the loop never removes: they are not the name of a positional-or-keyword parameter. -/
def KeepsName (ps : List Param) (n : String) : Prop := ∀ p ∈ ps, p.kind = .pk → p.name ≠ n

theorem del_sublist (d : Dict Val) (k : Key) : (d.del k).Sublist d := by
  induction d with
  | nil => exact List.Sublist.slnil
  | cons kv r ih =>
    obtain ⟨k0, v0⟩ := kv
    simp only [Dict.del]
    split
    · exact List.sublist_cons_self _ _
    · exact ih.cons_cons _

structure LoopKw (d rest : Dict Val) (ps : List Param) : Prop where
  sub : SubDict rest d
  nodup : rest.NodupKeys
  /-- the entries that remain keep their relative (insertion) order -/
  order : rest.Sublist d
  names : ∀ n v, KeepsName ps n → d.get? (.name n) = some v → rest.get? (.name n) = some v

theorem taLoop_kw (s : Sig) (a b vp : Bool) (d : Dict Val) (all : List Param) :
    ∀ (ps : List Param) (i : Nat) (pos : List Val) (rest : Dict Val) (sk : List Param)
      (pos' : List Val) (rest' : Dict Val) (sk' : List Param),
      (∀ p ∈ ps, p ∈ all) → LoopKw d rest all →
      taLoop s a b vp ps i pos rest sk = .ok (pos', rest', sk') → LoopKw d rest' all := by
  intro ps
  induction ps with
  | nil => intro i pos rest sk pos' rest' sk' _ hl h; simp [taLoop] at h; obtain ⟨_, rfl, _⟩ := h; exact hl
  | cons p ps ih =>
    intro i pos rest sk pos' rest' sk' hall hl h
    have hps : ∀ q ∈ ps, q ∈ all := fun q hq => hall q (by simp [hq])
    have delIdx : LoopKw d (rest.del (.idx i)) all :=
      ⟨hl.sub.del hl.nodup _, Dict.nodup_del _ _ hl.nodup, (del_sublist _ _).trans hl.order, by
        intro n v hk hd
        rw [Dict.get?_del_other _ _ _ (by simp)]
        exact hl.names n v hk hd⟩
    have delName : p.kind = .pk → LoopKw d (rest.del (.name p.name)) all := by
      intro hk
      refine ⟨hl.sub.del hl.nodup _, Dict.nodup_del _ _ hl.nodup, (del_sublist _ _).trans hl.order, ?_⟩
      intro n v hkn hd
      have hne : p.name ≠ n := hkn p (hall p (by simp)) hk
      rw [Dict.get?_del_other _ _ _ (by simpa using hne)]
      exact hl.names n v hkn hd
    simp only [taLoop] at h
    cases hk : p.kind <;> simp only [hk] at h
    · -- po
      repeat' split at h
      all_goals first
        | cases h
        | exact ih _ _ _ _ _ _ _ hps delIdx h
        | exact ih _ _ _ _ _ _ _ hps hl h
    · -- pk
      repeat' split at h
      all_goals first
        | cases h
        | exact ih _ _ _ _ _ _ _ hps (delName hk) h
        | exact ih _ _ _ _ _ _ _ hps hl h
    all_goals exact ih _ _ _ _ _ _ _ hps hl h

theorem collectVar_kw (d : Dict Val) (all : List Param) :
    ∀ (fuel i : Nat) (pos : List Val) (rest : Dict Val) (sk : List Param) (pos' : List Val)
      (rest' : Dict Val), LoopKw d rest all →
      collectVar fuel i pos rest sk = .ok (pos', rest') → LoopKw d rest' all := by
  intro fuel
  induction fuel with
  | zero => intro i pos rest sk pos' rest' hl h; simp [collectVar] at h; obtain ⟨_, rfl⟩ := h; exact hl
  | succ fuel ih =>
    intro i pos rest sk pos' rest' hl h
    simp only [collectVar] at h
    repeat' split at h
    all_goals first
      | (cases h; exact hl)
      | cases h
      | (simp at h; obtain ⟨_, rfl⟩ := h; exact hl)
      | (refine ih _ _ _ _ _ _ ?_ h
         exact ⟨hl.sub.del hl.nodup _, Dict.nodup_del _ _ hl.nodup, (del_sublist _ _).trans hl.order, by
           intro n v hk hd
           rw [Dict.get?_del_other _ _ _ (by simp)]
           exact hl.names n v hk hd⟩)

/-- What `transform_to_args_kwargs` leaves for the keyword part. -/
theorem toArgsKwargs_kw (s : Sig) (d : Dict Val) (a b : Bool) (hd : d.NodupKeys)
    (pos : List Val) (kw : Dict Val) (h : s.toArgsKwargs d a b = .ok (pos, kw)) :
    LoopKw d kw s := by
  unfold Sig.toArgsKwargs at h
  have h0 : LoopKw d d s := ⟨fun _ _ hv => hv, hd, List.Sublist.refl _, fun _ _ _ hv => hv⟩
  simp only at h
  split at h
  · cases h
  · rename_i pos1 rest1 sk1 hl
    have h1 := taLoop_kw s a b _ d s s 0 [] d [] pos1 rest1 sk1 (fun p hp => hp) h0 hl
    split at h
    · cases h; exact h1
    · exact collectVar_kw d s _ _ _ _ _ _ _ h1 h

end Fiddle
