/-
Selections: reachability characterisation, frame lemmas for `.set` / `.replace` / set_tagged.
-/
import FiddleModel.Lemmas.Traverse

namespace Fiddle

theorem followPath_reach (h : Heap) : ∀ (p : Path) (i j : Nat),
    followPath h (.ref i) p = some (.ref j) → ReachA h i j := by
  intro p
  induction p with
  | nil => intro i j hf; simp [followPath] at hf; subst hf; exact .refl _
  | cons pe rest ih =>
    intro i j hf
    simp only [followPath] at hf
    cases ho : h[i]? with
    | none => simp [ho] at hf
    | some o =>
      simp only [ho] at hf
      cases hc : childAt o pe with
      | none => simp [hc] at hf
      | some c =>
        simp only [hc] at hf
        cases c with
        | atom t => cases rest <;> simp [followPath] at hf
        | ref k => exact .step i k j o (pe, .ref k) ho (childAt_mem o pe _ hc) rfl (ih k j hf)

theorem mem_refIds {out : List (GVal × Path)} {j : Nat} :
    j ∈ refIds out ↔ ∃ p, (GVal.ref j, p) ∈ out := by
  simp only [refIds, List.mem_filterMap]
  constructor
  · rintro ⟨⟨v, p⟩, hm, hv⟩
    cases v with
    | atom t => simp at hv
    | ref k => simp at hv; subst hv; exact ⟨p, hm⟩
  · rintro ⟨p, hm⟩
    exact ⟨(.ref j, p), hm, by simp⟩

/-- The memoized walk reaches exactly the objects reachable through children. -/
theorem mem_reachableIds (h : Heap) (wf : h.WellFormed) (hd : h.PathsDistinct) (i : Nat)
    (hi : i < h.length) (j : Nat) : j ∈ reachableIds h (.ref i) ↔ ReachA h i j := by
  constructor
  · intro hm
    obtain ⟨p, hp⟩ := mem_refIds.mp hm
    have := iterGo_sound h hd .memo (.ref i) (h.length + 1) (.ref i) [] {} rfl
      (by intro vp hvp; cases hvp) (.ref j, p) hp
    exact followPath_reach h p i j this
  · intro hr
    have hs := iterGo_memo_complete h wf (h.length + 1) (.ref i) [] {} (i + 1)
      (by simp [GVal.rank]; omega) (by simp [GVal.rank]) (by intro k hk; cases hk)
    have hy := iterGo_memo_yielded h (h.length + 1) (.ref i) [] {} (by intro k hk; cases hk)
    exact hy j (hs.full i rfl j hr)

theorem reachableIds_nodup (h : Heap) (root : GVal) : (reachableIds h root).Nodup :=
  (iterGo_memo_once h (h.length + 1) root [] {} ⟨by simp [refIds], by simp [refIds]⟩).1.nodup

/-! ## upsert -/

def lk (ch : List (PElem × GVal)) (q : PElem) : Option GVal := (ch.find? (fun c => c.1 == q)).map (·.2)
theorem lk_nil (q : PElem) : lk [] q = none := rfl
theorem lk_cons (c : PElem × GVal) (cs) (q : PElem) : lk (c :: cs) q = if c.1 = q then some c.2 else lk cs q := by
  unfold lk
  by_cases h : c.1 = q <;> simp [List.find?_cons, h]
theorem lk_append (a b : List (PElem × GVal)) (q : PElem) : lk (a ++ b) q = (lk a q).or (lk b q) := by
  induction a with
  | nil => simp [lk_nil]
  | cons c cs ih => rw [List.cons_append, lk_cons, lk_cons, ih]; split <;> simp
theorem lk_setKey (ch : List (PElem × GVal)) (pe q : PElem) (v : GVal) :
    lk (ch.map (fun c => if c.1 == pe then (pe, v) else c)) q =
      if q = pe then (if ch.any (fun c => c.1 == pe) then some v else none) else lk ch q := by
  induction ch with
  | nil => simp [lk_nil]
  | cons c cs ih =>
    rw [List.map_cons, lk_cons, ih, lk_cons, List.any_cons]
    by_cases hc : c.1 = pe
    · by_cases hq : q = pe
      · simp [hc, hq]
      · have : ¬ pe = q := fun e => hq e.symm
        simp [hc, hq, this]
    · by_cases hq : q = pe
      · subst hq
        have hb : (c.1 == q) = false := by simpa using hc
        simp only [hc, if_false, if_true, hb, Bool.false_or, Bool.false_eq_true]
      · simp [hc, hq]

theorem lk_upsert (ch : List (PElem × GVal)) (pe q : PElem) (v : GVal) :
    lk (upsert ch pe v) q = if q = pe then some v else lk ch q := by
  unfold upsert
  by_cases hany : ch.any (fun c => c.1 == pe) = true
  · rw [if_pos hany, lk_setKey]
    by_cases hq : q = pe <;> simp [hq, hany]
  · rw [if_neg hany, lk_append, lk_cons, lk_nil]
    have hnone : lk ch pe = none := by
      unfold lk
      have : ch.find? (fun c => c.1 == pe) = none := by
        rw [List.find?_eq_none]
        intro x hx hk
        exact hany (List.any_eq_true.mpr ⟨x, hx, hk⟩)
      simp [this]
    by_cases hq : q = pe
    · subst hq; simp [hnone]
    · have : ¬ pe = q := fun e => hq e.symm
      simp [hq, this]

theorem lookup_upsert_same (ch : List (PElem × GVal)) (pe : PElem) (v : GVal) :
    lk (upsert ch pe v) pe = some v := by simp [lk_upsert]

theorem lookup_upsert_other (ch : List (PElem × GVal)) (pe q : PElem) (v : GVal) (hq : q ≠ pe) :
    lk (upsert ch pe v) q = lk ch q := by simp [lk_upsert, hq]

theorem upsert_keys (ch : List (PElem × GVal)) (pe : PElem) (v : GVal) :
    (upsert ch pe v).map (·.1) =
      if ch.any (fun c => c.1 == pe) then ch.map (·.1) else ch.map (·.1) ++ [pe] := by
  unfold upsert
  split
  · simp only [List.map_map]
    apply List.map_congr_left
    intro c _
    by_cases hc : c.1 = pe <;> simp [hc]
  · simp

/-! ## `.set` -/

theorem setOn_get (h : Heap) (ids : List Nat) (kvs : List (PElem × GVal)) (k : Nat) :
    (h.setOn ids kvs)[k]? = (h[k]?).map (fun o =>
      if ids.contains k then { o with children := upsertAll o.children kvs } else o) := by
  simp only [Heap.setOn, List.getElem?_map, List.getElem?_zipIdx]
  cases h[k]? <;> simp

theorem setOn_length (h : Heap) (ids : List Nat) (kvs : List (PElem × GVal)) :
    (h.setOn ids kvs).length = h.length := by simp [Heap.setOn]

/-! ## `.replace` -/

theorem replaceRefs_get (h : Heap) (ids : List Nat) (v : GVal) (k : Nat) :
    (h.replaceRefs ids v)[k]? =
      (h[k]?).map (fun o => { o with children := o.children.map (replaceChild ids v) }) := by
  simp [Heap.replaceRefs, List.getElem?_map]

/-! ## set_tagged -/

theorem setTagged_get (h : Heap) (root : GVal) (sub : Nat → Nat → Bool) (T : Nat) (v : GVal)
    (k : Nat) :
    (h.setTagged root sub T v)[k]? = (h[k]?).map (fun o =>
      if (reachableIds h root).contains k && o.kind == .cfg then
        { o with children :=
            upsertAll o.children ((taggedKeys sub T o).map (fun key => (pelemOfKey key, v))) }
      else o) := by
  simp only [Heap.setTagged, List.getElem?_map, List.getElem?_zipIdx]
  cases h[k]? <;> simp

/-- `upsertAll` touches exactly the listed keys. -/
theorem lookup_upsertAll_other (kvs : List (PElem × GVal)) : ∀ (ch : List (PElem × GVal)) (q : PElem),
    (∀ kv ∈ kvs, kv.1 ≠ q) →
    lk (upsertAll ch kvs) q = lk ch q := by
  induction kvs with
  | nil => intro ch q _; rfl
  | cons kv kvs ih =>
    intro ch q hq
    simp only [upsertAll, List.foldl_cons]
    have := ih (upsert ch kv.1 kv.2) q (fun kv' hkv' => hq kv' (by simp [hkv']))
    simp only [upsertAll] at this
    rw [this, lookup_upsert_other ch kv.1 q kv.2 (fun e => hq kv (by simp) e.symm)]

/-- ... and gives each listed key the value `v` (all values equal, as in `set_tagged`). -/
theorem lookup_upsertAll_const (keys : List PElem) (v : GVal) : ∀ (ch : List (PElem × GVal))
    (q : PElem), q ∈ keys →
    lk (upsertAll ch (keys.map (fun k => (k, v)))) q = some v := by
  induction keys with
  | nil => intro ch q hq; cases hq
  | cons k ks ih =>
    intro ch q hq
    simp only [List.map_cons, upsertAll, List.foldl_cons]
    by_cases hin : q ∈ ks
    · have := ih (upsert ch k v) q hin
      simpa only [upsertAll] using this
    · have hqk : q = k := by
        rcases List.mem_cons.mp hq with e | e
        · exact e
        · exact absurd e hin
      subst hqk
      have h1 := lookup_upsertAll_other (ks.map (fun k => (k, v))) (upsert ch q v) q
        (by intro kv hkv; simp only [List.mem_map] at hkv
            obtain ⟨k', hk', rfl⟩ := hkv
            intro e; apply hin; rw [← e]; exact hk')
      simp only [upsertAll] at h1
      rw [h1, lookup_upsert_same]

end Fiddle

namespace Fiddle

/-- General form: the last assignment to a key wins, untouched keys keep their value. -/
theorem lk_upsertAll (kvs : List (PElem × GVal)) : ∀ (ch : List (PElem × GVal)) (q : PElem),
    lk (upsertAll ch kvs) q = (lk kvs.reverse q).or (lk ch q) := by
  induction kvs with
  | nil => intro ch q; simp [upsertAll, lk_nil]
  | cons kv kvs ih =>
    intro ch q
    have := ih (upsert ch kv.1 kv.2) q
    simp only [upsertAll, List.foldl_cons] at this ⊢
    rw [this, List.reverse_cons, lk_append, lk_cons, lk_nil, lk_upsert]
    cases lk kvs.reverse q with
    | some x => simp
    | none =>
      by_cases hq : q = kv.1
      · subst hq; simp
      · have : ¬ kv.1 = q := fun e => hq e.symm
        simp [hq, this]

theorem upsert_keys_sub (ch : List (PElem × GVal)) (pe : PElem) (v : GVal) :
    ∀ k ∈ ch.map (·.1), k ∈ (upsert ch pe v).map (·.1) := by
  intro k hk
  rw [upsert_keys]; split
  · exact hk
  · exact List.mem_append_left _ hk

theorem nodup_eraseDups_aux (n : Nat) : ∀ (l : List Nat), l.length ≤ n → l.eraseDups.Nodup := by
  induction n with
  | zero =>
    intro l hl
    have : l = [] := List.eq_nil_of_length_eq_zero (by omega)
    subst this; simp
  | succ n ih =>
    intro l hl
    cases l with
    | nil => simp
    | cons a as =>
      rw [List.eraseDups_cons]
      refine List.nodup_cons.mpr ⟨?_, ih _ ?_⟩
      · rw [List.mem_eraseDups]
        simp
      · have := List.length_filter_le (fun b => !b == a) as
        simp at hl; omega

theorem nodup_eraseDups (l : List Nat) : l.eraseDups.Nodup :=
  nodup_eraseDups_aux l.length l (Nat.le_refl _)

end Fiddle
