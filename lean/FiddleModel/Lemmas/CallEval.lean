/-
C11: calling an auto_config function directly and evaluating it into a configuration run in
lock-step — same references, and the objects of the direct call are exactly the configuration's
objects read through `builtOf`.
-/
import FiddleModel.Lemmas.CodegenL
import FiddleModel.Lemmas.BuildMirror
import FiddleModel.Lemmas.BuildTotal

namespace Fiddle

/-- The result heap `out` is the configuration heap `h` with every recorded call made. -/
def CallImage (h : Heap) (out : List BObj) : Prop := h.map builtOf = out.map some

theorem CallImage.length {h : Heap} {out : List BObj} (hi : CallImage h out) :
    h.length = out.length := by
  have := congrArg List.length hi
  simpa using this

theorem CallImage.snoc {h : Heap} {out : List BObj} (hi : CallImage h out) (o : GObj) (b : BObj)
    (hb : builtOf o = some b) : CallImage (h ++ [o]) (out ++ [b]) := by
  unfold CallImage at *
  simp [hi, hb]

mutual
theorem CExpr.call_lockstep : ∀ (e : CExpr) (env : CEnv) (h : Heap) (out : List BObj) (v : GVal)
    (out' : List BObj), CallImage h out → e.call env out = some (v, out') →
    ∃ h', e.eval env h = some (v, h') ∧ CallImage h' out'
  | .atom t, env, h, out, v, out', hi, he => by
    simp only [CExpr.call, Option.some.injEq, Prod.mk.injEq] at he
    obtain ⟨rfl, rfl⟩ := he
    exact ⟨h, by simp [CExpr.eval], hi⟩
  | .var x, env, h, out, v, out', hi, he => by
    simp only [CExpr.call, Option.map_eq_some_iff, Prod.mk.injEq] at he
    obtain ⟨w, hw, rfl, rfl⟩ := he
    exact ⟨h, by simp [CExpr.eval, hw], hi⟩
  | .node kind ty bk sig ch tags, env, h, out, v, out', hi, he => by
    simp only [CExpr.call] at he
    split at he
    · cases he
    · rename_i vals out1 hc
      split at he
      · cases he
      · rename_i b hb
        simp only [Option.some.injEq, Prod.mk.injEq] at he
        obtain ⟨rfl, rfl⟩ := he
        obtain ⟨h1, he1, hi1⟩ := CExpr.callCh_lockstep ch env h out vals out1 hi hc
        refine ⟨h1 ++ [{ kind := kind, ty := ty, bk := bk, sig := sig, children := vals, tags := tags }],
          ?_, hi1.snoc _ _ hb⟩
        simp [CExpr.eval, he1, hi1.length]
theorem CExpr.callCh_lockstep : ∀ (ch : List (PElem × CExpr)) (env : CEnv) (h : Heap)
    (out : List BObj) (vs : List (PElem × GVal)) (out' : List BObj), CallImage h out →
    CExpr.callCh ch env out = some (vs, out') →
    ∃ h', CExpr.evalCh ch env h = some (vs, h') ∧ CallImage h' out'
  | [], env, h, out, vs, out', hi, he => by
    simp only [CExpr.callCh, Option.some.injEq, Prod.mk.injEq] at he
    obtain ⟨rfl, rfl⟩ := he
    exact ⟨h, by simp [CExpr.evalCh], hi⟩
  | (pe, e) :: r, env, h, out, vs, out', hi, he => by
    simp only [CExpr.callCh] at he
    split at he
    · cases he
    · rename_i v out1 h1e
      split at he
      · cases he
      · rename_i vs' out2 h2e
        simp only [Option.some.injEq, Prod.mk.injEq] at he
        obtain ⟨rfl, rfl⟩ := he
        obtain ⟨h1, he1, hi1⟩ := CExpr.call_lockstep e env h out v out1 hi h1e
        obtain ⟨h2, he2, hi2⟩ := CExpr.callCh_lockstep r env h1 out1 vs' out2 hi1 h2e
        exact ⟨h2, by simp [CExpr.evalCh, he1, he2], hi2⟩
end

theorem callAssigns_lockstep : ∀ (as : List (Nat × CExpr)) (env : CEnv) (h : Heap)
    (out : List BObj) (env' : CEnv) (out' : List BObj), CallImage h out →
    callAssigns as env out = some (env', out') →
    ∃ h', runAssigns as env h = some (env', h') ∧ CallImage h' out' := by
  intro as
  induction as with
  | nil =>
    intro env h out env' out' hi he
    simp only [callAssigns, Option.some.injEq, Prod.mk.injEq] at he
    obtain ⟨rfl, rfl⟩ := he
    exact ⟨h, by simp [runAssigns], hi⟩
  | cons a as ih =>
    intro env h out env' out' hi he
    obtain ⟨x, e⟩ := a
    simp only [callAssigns] at he
    split at he
    · cases he
    · rename_i v out1 h1e
      obtain ⟨h1, he1, hi1⟩ := CExpr.call_lockstep e env h out v out1 hi h1e
      obtain ⟨h2, he2, hi2⟩ := ih _ h1 out1 env' out' hi1 he
      exact ⟨h2, by simp [runAssigns, he1, he2], hi2⟩

/-! ### The converse: the direct call fails only where a binding fails -/

mutual
theorem CExpr.eval_lockstep : ∀ (e : CExpr) (env : CEnv) (h : Heap) (out : List BObj) (v : GVal)
    (h' : Heap), CallImage h out → e.eval env h = some (v, h') → (∀ o ∈ h', (builtOf o).isSome) →
    ∃ out', e.call env out = some (v, out') ∧ CallImage h' out'
  | .atom t, env, h, out, v, h', hi, he, _ => by
    simp only [CExpr.eval, Option.some.injEq, Prod.mk.injEq] at he
    obtain ⟨rfl, rfl⟩ := he
    exact ⟨out, by simp [CExpr.call], hi⟩
  | .var x, env, h, out, v, h', hi, he, _ => by
    simp only [CExpr.eval, Option.map_eq_some_iff, Prod.mk.injEq] at he
    obtain ⟨w, hw, rfl, rfl⟩ := he
    exact ⟨out, by simp [CExpr.call, hw], hi⟩
  | .node kind ty bk sig ch tags, env, h, out, v, h', hi, he, hall => by
    simp only [CExpr.eval] at he
    split at he
    · cases he
    · rename_i vals h1 hc
      simp only [Option.some.injEq, Prod.mk.injEq] at he
      obtain ⟨rfl, rfl⟩ := he
      obtain ⟨out1, hc1, hi1⟩ := CExpr.evalCh_lockstep ch env h out vals h1 hi hc
        (fun o ho => hall o (by simp [ho]))
      have hb := hall { kind := kind, ty := ty, bk := bk, sig := sig, children := vals, tags := tags }
        (by simp)
      obtain ⟨b, hb⟩ := Option.isSome_iff_exists.mp hb
      exact ⟨out1 ++ [b], by simp [CExpr.call, hc1, hb, hi1.length], hi1.snoc _ _ hb⟩
theorem CExpr.evalCh_lockstep : ∀ (ch : List (PElem × CExpr)) (env : CEnv) (h : Heap)
    (out : List BObj) (vs : List (PElem × GVal)) (h' : Heap), CallImage h out →
    CExpr.evalCh ch env h = some (vs, h') → (∀ o ∈ h', (builtOf o).isSome) →
    ∃ out', CExpr.callCh ch env out = some (vs, out') ∧ CallImage h' out'
  | [], env, h, out, vs, h', hi, he, _ => by
    simp only [CExpr.evalCh, Option.some.injEq, Prod.mk.injEq] at he
    obtain ⟨rfl, rfl⟩ := he
    exact ⟨out, by simp [CExpr.callCh], hi⟩
  | (pe, e) :: r, env, h, out, vs, h', hi, he, hall => by
    simp only [CExpr.evalCh] at he
    split at he
    · cases he
    · rename_i v h1 h1e
      split at he
      · cases he
      · rename_i vs' h2 h2e
        simp only [Option.some.injEq, Prod.mk.injEq] at he
        obtain ⟨rfl, rfl⟩ := he
        have hp := CExpr.evalCh_prefix r env h1 vs' h2 h2e
        obtain ⟨out1, hc1, hi1⟩ := CExpr.eval_lockstep e env h out v h1 hi h1e
          (fun o ho => hall o (hp.subset ho))
        obtain ⟨out2, hc2, hi2⟩ := CExpr.evalCh_lockstep r env h1 out1 vs' h2 hi1 h2e hall
        exact ⟨out2, by simp [CExpr.callCh, hc1, hc2], hi2⟩
end

theorem runAssigns_lockstep : ∀ (as : List (Nat × CExpr)) (env : CEnv) (h : Heap)
    (out : List BObj) (env' : CEnv) (h' : Heap), CallImage h out →
    runAssigns as env h = some (env', h') → (∀ o ∈ h', (builtOf o).isSome) →
    ∃ out', callAssigns as env out = some (env', out') ∧ CallImage h' out' := by
  intro as
  induction as with
  | nil =>
    intro env h out env' h' hi he _
    simp only [runAssigns, Option.some.injEq, Prod.mk.injEq] at he
    obtain ⟨rfl, rfl⟩ := he
    exact ⟨out, by simp [callAssigns], hi⟩
  | cons a as ih =>
    intro env h out env' h' hi he hall
    obtain ⟨x, e⟩ := a
    simp only [runAssigns] at he
    split at he
    · cases he
    · rename_i v h1 h1e
      have hp : h1 <+: h' := by
        clear ih hall h1e hi
        induction as generalizing h1 env v x with
        | nil => simp [runAssigns] at he; rw [he.2]; exact List.prefix_refl _
        | cons b bs ihb =>
          obtain ⟨y, f⟩ := b
          simp only [runAssigns] at he
          split at he
          · cases he
          · rename_i w h2 h2e
            exact (CExpr.eval_prefix f _ h1 w h2 h2e).trans (ihb _ _ _ _ he)
      obtain ⟨out1, hc1, hi1⟩ := CExpr.eval_lockstep e env h out v h1 hi h1e
        (fun o ho => hall o (hp.subset ho))
      obtain ⟨out2, hc2, hi2⟩ := ih _ h1 out1 env' h' hi1 he hall
      exact ⟨out2, by simp [callAssigns, hc1, hc2], hi2⟩

/-- If the program evaluates into a configuration every one of whose recorded calls can be
    made, the direct call succeeds (and by `callRun_lockstep` returns the same reference). -/
theorem CProg.run_lockstep (p : CProg) (r : GVal) (h : Heap) (hp : p.run = some (r, h))
    (hall : ∀ o ∈ h, (builtOf o).isSome) : ∃ out, p.callRun = some (r, out) ∧ CallImage h out := by
  unfold CProg.run at hp
  split at hp
  · cases hp
  · rename_i env h1 ha
    have hpre := CExpr.eval_prefix p.ret env h1 r h hp
    obtain ⟨out1, hc1, hi1⟩ := runAssigns_lockstep p.assigns [] [] [] env h1 rfl ha
      (fun o ho => hall o (hpre.subset ho))
    obtain ⟨out2, hc2, hi2⟩ := CExpr.eval_lockstep p.ret env h1 out1 r h hi1 hp hall
    exact ⟨out2, by simp [CProg.callRun, hc1, hc2], hi2⟩

/-- The direct call of a program and its evaluation into a configuration return the same
    reference, and the call's objects are the configuration's objects with every call made. -/
theorem CProg.callRun_lockstep (p : CProg) (r : GVal) (out : List BObj)
    (hc : p.callRun = some (r, out)) : ∃ h, p.run = some (r, h) ∧ CallImage h out := by
  unfold CProg.callRun at hc
  split at hc
  · cases hc
  · rename_i env out1 ha
    obtain ⟨h1, he1, hi1⟩ := callAssigns_lockstep p.assigns [] [] [] env out1 rfl ha
    obtain ⟨h2, he2, hi2⟩ := CExpr.call_lockstep p.ret env h1 out1 r out hi1 hc
    exact ⟨h2, by simp [CProg.run, he1, he2], hi2⟩

end Fiddle

namespace Fiddle

/-! ## Renaming result references -/

def renV (ρ : Nat → BVal) : BVal → BVal
  | .built i => ρ i
  | b => b

def renO (ρ : Nat → BVal) : BObj → BObj
  | .container k ty ch => .container k ty (ch.map (fun c => (c.1, renV ρ c.2)))
  | .call fn s v kw => .call fn (s.map (fun c => (c.1, renV ρ c.2))) (v.map (renV ρ))
      (kw.map (fun c => (c.1, renV ρ c.2)))

/-- What the callable receives is natural in the argument values: binding renamed values is
    renaming the binding. -/
theorem bindBuilt_map (o : GObj) (vals : List BVal) (ρ : Nat → BVal) :
    bindBuilt o (vals.map (renV ρ)) =
      (bindBuilt o vals).map (fun r => (r.1.map (fun c => (c.1, renV ρ c.2)), r.2.1.map (renV ρ),
        r.2.2.map (fun c => (c.1, renV ρ c.2)))) := by
  unfold bindBuilt
  simp only
  split
  · rfl
  · split
    · rfl
    · rename_i b hb
      simp only [Except.map, List.map_map, Function.comp_def, List.getD_eq_getElem?_getD,
        List.getElem?_map]
      congr 1
      refine Prod.ext ?_ (Prod.ext ?_ ?_)
      · apply List.map_congr_left
        intro x _
        rcases x with ⟨a, v⟩
        cases v <;> simp [renV]
        rename_i n _
        cases vals[n]? <;> simp [renV]
      · apply List.map_congr_left
        intro v _
        cases v <;> simp [renV]
        rename_i n _
        cases vals[n]? <;> simp [renV]
      · apply List.map_congr_left
        intro x _
        rcases x with ⟨a, v⟩
        cases v <;> simp [renV]
        rename_i n _
        cases vals[n]? <;> simp [renV]

end Fiddle

namespace Fiddle

/-- The renaming a build induces on the references of the direct call's objects: object `k` of
    the direct call is the object the build made for configuration object `k`. -/
def buildRen (st : BuildSt) (k : Nat) : BVal := resultOf st.memo (.ref k)

theorem resultOf_eq_ren (st : BuildSt) (v : GVal) : resultOf st.memo v = renV (buildRen st) (toB v) := by
  cases v <;> rfl

theorem CallImage.get {h : Heap} {out : List BObj} (hi : CallImage h out) (i : Nat) (o : GObj)
    (ho : h[i]? = some o) : ∃ b, out[i]? = some b ∧ builtOf o = some b := by
  have := congrArg (fun l => l[i]?) hi
  simp only [List.getElem?_map, ho, Option.map_some] at this
  cases hb : out[i]? with
  | none => simp [hb] at this
  | some b => simp [hb] at this; exact ⟨b, rfl, this⟩

/-- Every object `fdl.build` makes for a configuration object is the object the direct call
    made at that point of the program, with its references renamed by the build's memo. -/
theorem built_is_renamed_call (h : Heap) (out : List BObj) (st : BuildSt) (hi : CallImage h out)
    (hm : Mirror h st) (i j : Nat) (hij : memoGet st.memo i = some (.built j)) :
    st.out[j]? = (out[i]?).map (renO (buildRen st)) := by
  obtain ⟨o, ho, _, hcase⟩ := hm i j hij
  obtain ⟨b, hb, hbo⟩ := hi.get i o ho
  rw [hb, Option.map_some]
  have hch : o.children.map (fun c => resultOf st.memo c.2) =
      (o.children.map (fun c => toB c.2)).map (renV (buildRen st)) := by
    simp [List.map_map, Function.comp_def, resultOf_eq_ren]
  rcases hcase with ⟨hk, slots, var, kw, hout, hbind⟩ | ⟨hk, hout⟩
  · rw [hch, bindBuilt_map] at hbind
    unfold builtOf at hbo
    simp only [hk, beq_self_eq_true, if_true] at hbo
    cases hbb : bindBuilt o (o.children.map (fun c => toB c.2)) with
    | error e => simp [hbb] at hbo
    | ok r =>
      obtain ⟨s, v, k⟩ := r
      simp only [hbb, Option.some.injEq] at hbo
      simp only [hbb, Except.map, Except.ok.injEq, Prod.mk.injEq] at hbind
      obtain ⟨rfl, rfl, rfl⟩ := hbind
      rw [hout, ← hbo]
      rfl
  · unfold builtOf at hbo
    have hk' : (o.kind == NKind.cfg) = false := by
      cases hkk : o.kind <;> simp_all
    simp only [hk', Bool.false_eq_true, if_false, Option.some.injEq] at hbo
    rw [hout, ← hbo, hch]
    simp [renO, List.zip_map_right, Prod.map]

end Fiddle

namespace Fiddle

/-! ## The configuration of a program is acyclic and, when the direct call succeeded, binds -/

/-- Whether a call binds does not depend on the argument values. -/
theorem bindBuilt_ok_indep (o : GObj) (vals vals' : List BVal) (r : _)
    (hr : bindBuilt o vals = .ok r) : ∃ r', bindBuilt o vals' = .ok r' := by
  unfold bindBuilt at hr ⊢
  simp only at hr ⊢
  split at hr
  · cases hr
  · rename_i hk
    simp only [hk]
    split at hr
    · cases hr
    · rename_i b hb
      simp [hb]

theorem CallImage.binds {h : Heap} {out : List BObj} (hi : CallImage h out) : h.Binds := by
  intro o ho hk vals
  obtain ⟨i, hlt, hget⟩ := List.getElem_of_mem ho
  obtain ⟨b, _, hb⟩ := hi.get i o (by simp [hlt, hget])
  unfold builtOf at hb
  simp only [hk, beq_self_eq_true, if_true] at hb
  cases hbb : bindBuilt o (o.children.map (fun c => toB c.2)) with
  | error e => simp [hbb] at hb
  | ok r => exact bindBuilt_ok_indep o _ vals r hbb

def EnvBound (env : CEnv) (n : Nat) : Prop :=
  ∀ x v, env.lookup x = some v → ∀ j, v = .ref j → j < n

theorem EnvBound.mono {env : CEnv} {n m : Nat} (hb : EnvBound env n) (hnm : n ≤ m) : EnvBound env m :=
  fun x v hx j hj => Nat.lt_of_lt_of_le (hb x v hx j hj) hnm

theorem wellFormed_snoc (h : Heap) (o : GObj) (wf : h.WellFormed)
    (ho : ∀ c ∈ o.children, ∀ j, c.2 = .ref j → j < h.length) : (h ++ [o]).WellFormed := by
  intro i o' hi c hc j hj
  by_cases hlt : i < h.length
  · rw [List.getElem?_append_left hlt] at hi
    exact wf i o' hi c hc j hj
  · have hge : h.length ≤ i := by omega
    rw [List.getElem?_append_right hge] at hi
    have hi0 : i - h.length = 0 := by
      cases hd : i - h.length with
      | zero => rfl
      | succ n => simp [hd] at hi
    simp [hi0] at hi
    subst hi
    have := ho c hc j hj
    omega

mutual
theorem CExpr.eval_wf : ∀ (e : CExpr) (env : CEnv) (h : Heap) (v : GVal) (h' : Heap),
    h.WellFormed → EnvBound env h.length → e.eval env h = some (v, h') →
    h'.WellFormed ∧ ∀ j, v = .ref j → j < h'.length
  | .atom t, env, h, v, h', wf, _, he => by
    simp only [CExpr.eval, Option.some.injEq, Prod.mk.injEq] at he
    obtain ⟨rfl, rfl⟩ := he
    exact ⟨wf, by intro j hj; cases hj⟩
  | .var x, env, h, v, h', wf, hb, he => by
    simp only [CExpr.eval, Option.map_eq_some_iff, Prod.mk.injEq] at he
    obtain ⟨w, hw, rfl, rfl⟩ := he
    exact ⟨wf, hb x w hw⟩
  | .node kind ty bk sig ch tags, env, h, v, h', wf, hb, he => by
    simp only [CExpr.eval] at he
    split at he
    · cases he
    · rename_i vals h1 hc
      simp only [Option.some.injEq, Prod.mk.injEq] at he
      obtain ⟨rfl, rfl⟩ := he
      obtain ⟨wf1, hv1⟩ := CExpr.evalCh_wf ch env h vals h1 wf hb hc
      exact ⟨wellFormed_snoc h1 _ wf1 hv1, by intro j hj; cases hj; simp⟩
theorem CExpr.evalCh_wf : ∀ (ch : List (PElem × CExpr)) (env : CEnv) (h : Heap)
    (vs : List (PElem × GVal)) (h' : Heap), h.WellFormed → EnvBound env h.length →
    CExpr.evalCh ch env h = some (vs, h') →
    h'.WellFormed ∧ ∀ c ∈ vs, ∀ j, c.2 = .ref j → j < h'.length
  | [], env, h, vs, h', wf, _, he => by
    simp only [CExpr.evalCh, Option.some.injEq, Prod.mk.injEq] at he
    obtain ⟨rfl, rfl⟩ := he
    exact ⟨wf, by simp⟩
  | (pe, e) :: r, env, h, vs, h', wf, hb, he => by
    simp only [CExpr.evalCh] at he
    split at he
    · cases he
    · rename_i v h1 h1e
      split at he
      · cases he
      · rename_i vs' h2 h2e
        simp only [Option.some.injEq, Prod.mk.injEq] at he
        obtain ⟨rfl, rfl⟩ := he
        obtain ⟨wf1, hv1⟩ := CExpr.eval_wf e env h v h1 wf hb h1e
        have hp1 := (CExpr.eval_prefix e env h v h1 h1e).length_le
        have hp2 := (CExpr.evalCh_prefix r env h1 vs' h2 h2e).length_le
        obtain ⟨wf2, hv2⟩ := CExpr.evalCh_wf r env h1 vs' h2 wf1 (hb.mono hp1) h2e
        refine ⟨wf2, ?_⟩
        intro c hc j hj
        simp at hc
        rcases hc with rfl | hc
        · exact Nat.lt_of_lt_of_le (hv1 j hj) hp2
        · exact hv2 c hc j hj
end

theorem runAssigns_wf : ∀ (as : List (Nat × CExpr)) (env : CEnv) (h : Heap) (env' : CEnv)
    (h' : Heap), h.WellFormed → EnvBound env h.length → runAssigns as env h = some (env', h') →
    h'.WellFormed ∧ EnvBound env' h'.length := by
  intro as
  induction as with
  | nil =>
    intro env h env' h' wf hb he
    simp only [runAssigns, Option.some.injEq, Prod.mk.injEq] at he
    obtain ⟨rfl, rfl⟩ := he
    exact ⟨wf, hb⟩
  | cons a as ih =>
    intro env h env' h' wf hb he
    obtain ⟨x, e⟩ := a
    simp only [runAssigns] at he
    split at he
    · cases he
    · rename_i v h1 h1e
      obtain ⟨wf1, hv1⟩ := CExpr.eval_wf e env h v h1 wf hb h1e
      have hp1 := (CExpr.eval_prefix e env h v h1 h1e).length_le
      refine ih _ h1 env' h' wf1 ?_ he
      intro y w hy j hj
      rw [lookup_cons] at hy
      split at hy
      · cases hy; exact hv1 j hj
      · exact (hb.mono hp1) y w hy j hj

/-- The configuration a program evaluates into is acyclic and its root lies inside it. -/
theorem CProg.run_wf (p : CProg) (r : GVal) (h : Heap) (hp : p.run = some (r, h)) :
    h.WellFormed ∧ ∀ j, r = .ref j → j < h.length := by
  unfold CProg.run at hp
  split at hp
  · cases hp
  · rename_i env h1 ha
    obtain ⟨wf1, hb1⟩ := runAssigns_wf p.assigns [] [] env h1
      (by intro i o hi; simp at hi) (by intro x v hx; simp [CEnv.lookup] at hx) ha
    exact CExpr.eval_wf p.ret env h1 r h wf1 hb1 hp

end Fiddle
