/-
`==` ignores the order in which dict entries and Buildable arguments were inserted.

`Reordered h h'`: `h'` lists the children of dict-like objects (dicts, defaultdicts, Buildables)
in another order; sequences keep theirs.  Both halves of `buildableEq` give the same answer on
reordered heaps: the value comparison because it looks children up by key, the sharing walk
because the correspondence it decides (`Lemmas/ShareL.lean`) does not mention any order.
-/
import FiddleModel.Lemmas.ShareL

namespace Fiddle

theorem all_perm {α} {l1 l2 : List α} (p : l1.Perm l2) (f : α → Bool) : l1.all f = l2.all f := by
  rw [Bool.eq_iff_iff]
  simp only [List.all_eq_true]
  exact ⟨fun h x hx => h x (p.mem_iff.mpr hx), fun h x hx => h x (p.mem_iff.mp hx)⟩

theorem any_perm {α} {l1 l2 : List α} (p : l1.Perm l2) (f : α → Bool) : l1.any f = l2.any f := by
  rw [Bool.eq_iff_iff]
  simp only [List.any_eq_true]
  exact ⟨fun ⟨x, hx, h⟩ => ⟨x, p.mem_iff.mp hx, h⟩, fun ⟨x, hx, h⟩ => ⟨x, p.mem_iff.mpr hx, h⟩⟩

def GObj.seqLike (o : GObj) : Bool :=
  o.kind == .list || o.kind == .tuple || o.kind == .ntuple || o.kind == .custom

/-- Same objects at the same indices; children of dict-like objects possibly in another order. -/
structure Reordered (h h' : Heap) : Prop where
  len : h'.length = h.length
  obj : ∀ (i : Nat) (o : GObj), h[i]? = some o → ∃ o' : GObj, h'[i]? = some o' ∧ o'.kind = o.kind ∧ o'.ty = o.ty ∧
    o'.bk = o.bk ∧ o'.children.Perm o.children ∧
    (childrenWithDefaults o').Perm (childrenWithDefaults o) ∧
    (o.seqLike = true → o'.children = o.children)

theorem Reordered.none {h h' : Heap} (r : Reordered h h') (i : Nat) (hn : h[i]? = none) :
    h'[i]? = none := by
  rw [List.getElem?_eq_none_iff] at hn ⊢
  rw [r.len]; exact hn

theorem lookupChild_perm (c c' : List (PElem × GVal)) (p : c'.Perm c) (nd : (c.map (·.1)).Nodup)
    (k : PElem) : lookupChild c' k = lookupChild c k := by
  have nd' : (c'.map (·.1)).Nodup := (p.map (·.1)).nodup_iff.mpr nd
  cases h : lookupChild c k with
  | some v =>
    have hm := lookupChild_mem c k v h
    exact lookupChild_self c' nd' (k, v) (p.mem_iff.mpr hm)
  | none =>
    cases h' : lookupChild c' k with
    | none => rfl
    | some v =>
      have hm := lookupChild_mem c' k v h'
      have := lookupChild_self c nd (k, v) (p.mem_iff.mp hm)
      rw [h] at this; cases this

theorem isInternable_reordered {h h' : Heap} (r : Reordered h h') (fuel : Nat) (v : GVal) :
    isInternable h' fuel v = isInternable h fuel v := by
  induction fuel generalizing v with
  | zero => cases v <;> rfl
  | succ fuel ih =>
    cases v with
    | atom t => rfl
    | ref i =>
      simp only [isInternable]
      cases ho : h[i]? with
      | none => rw [r.none i ho]
      | some o =>
        obtain ⟨o', ho', hk, _, _, hp, _, _⟩ := r.obj i o ho
        rw [ho']
        simp only [hk, all_perm hp]
        congr 1
        apply List.all_congr rfl
        intro pv
        exact ih pv.2

theorem skipB_reordered {h1 h1' h2 h2' : Heap} (r1 : Reordered h1 h1') (r2 : Reordered h2 h2')
    (v w : GVal) : skipB h1' h2' v w = skipB h1 h2 v w := by
  unfold skipB
  rw [r1.len, r2.len, isInternable_reordered r1, isInternable_reordered r2]

theorem Rec_reordered {h1 h1' h2 h2' : Heap} (r1 : Reordered h1 h1') (r2 : Reordered h2 h2')
    (B : List (Nat × Nat)) (v w : GVal) : Rec h1 h2 B v w → Rec h1' h2' B v w := by
  intro h
  rcases h with h | h
  · exact .inl (by rw [skipB_reordered r1 r2]; exact h)
  · exact .inr h

theorem NodeOK_reordered {h1 h1' h2 h2' : Heap} (r1 : Reordered h1 h1') (r2 : Reordered h2 h2')
    (w2 : h2.EqWF) (B : List (Nat × Nat)) (i j : Nat) (h : NodeOK h1 h2 B i j) :
    NodeOK h1' h2' B i j := by
  obtain ⟨a, b, ha, hb, h⟩ := h
  obtain ⟨a', ha', hka, _, _, _, hpa, _⟩ := r1.obj i a ha
  obtain ⟨b', hb', hkb, _, _, _, hpb, _⟩ := r2.obj j b hb
  refine ⟨a', b', ha', hb', ?_⟩
  rcases h with h | h | ⟨hl, hc⟩
  · exact .inl (hka.trans h)
  · exact .inr (.inl (hkb.trans h))
  · refine .inr (.inr ⟨by rw [hpa.length_eq, hpb.length_eq, hl], ?_⟩)
    intro x hx
    obtain ⟨y, hy, hr⟩ := hc x (hpa.mem_iff.mp hx)
    exact ⟨y, by rw [lookupChild_perm _ _ hpb (w2.keys j b hb)]; exact hy, Rec_reordered r1 r2 B _ _ hr⟩

theorem Corr_reordered {h1 h1' h2 h2' : Heap} (r1 : Reordered h1 h1') (r2 : Reordered h2 h2')
    (w2 : h2.EqWF) (B : List (Nat × Nat)) (h : Corr h1 h2 B) : Corr h1' h2' B :=
  ⟨h.fun1, h.fun2, fun p hp => NodeOK_reordered r1 r2 w2 B _ _ (h.closed p hp)⟩

/-- `Reordered` is symmetric (so every statement above can be used in both directions). -/
theorem Reordered.symm {h h' : Heap} (r : Reordered h h') : Reordered h' h := by
  refine ⟨r.len.symm, ?_⟩
  intro i o' ho'
  have hi : i < h.length := by
    have := (List.getElem?_eq_some_iff.mp ho').1
    rw [r.len] at this; exact this
  have ho : h[i]? = some h[i] := by simp [hi]
  obtain ⟨o2, ho2, hk, ht, hb, hp, hpc, hs⟩ := r.obj i _ ho
  rw [ho'] at ho2; cases ho2
  refine ⟨h[i], ho, hk.symm, ht.symm, hb.symm, hp.symm, hpc.symm, ?_⟩
  intro hseq
  have : (h[i]).seqLike = true := by
    unfold GObj.seqLike at hseq ⊢; rw [← hk]; exact hseq
  exact (hs this).symm

/-- The sharing walk gives the same verdict on reordered heaps. -/
theorem shareVisit_reordered {h1 h1' h2 h2' : Heap} (r1 : Reordered h1 h1') (r2 : Reordered h2 h2')
    (w1 : h1.EqWF) (w1' : h1'.EqWF) (w2 : h2.EqWF) (w2' : h2'.EqWF) (f f' : Nat) (v w : GVal)
    (hv : ∀ i, v = .ref i → i < f) (hv' : ∀ i, v = .ref i → i < f') :
    (shareVisit h1' h2' f' v w {}).isSome = (shareVisit h1 h2 f v w {}).isSome := by
  rw [Bool.eq_iff_iff, shareVisit_iff h1' h2' w1' f' v w hv', shareVisit_iff h1 h2 w1 f v w hv]
  constructor
  · rintro ⟨B, hB, hr⟩
    exact ⟨B, Corr_reordered r1.symm r2.symm w2' B hB, Rec_reordered r1.symm r2.symm B _ _ hr⟩
  · rintro ⟨B, hB, hr⟩
    exact ⟨B, Corr_reordered r1 r2 w2 B hB, Rec_reordered r1 r2 B _ _ hr⟩

/-- The value comparison gives the same verdict on reordered heaps. -/
theorem valEq_reordered {h1 h1' h2 h2' : Heap} (r1 : Reordered h1 h1') (r2 : Reordered h2 h2')
    (w2 : h2.EqWF) (fuel : Nat) :
    ∀ (v w : GVal), valEq h1' h2' fuel v w = valEq h1 h2 fuel v w := by
  induction fuel with
  | zero => intro v w; cases v <;> cases w <;> simp [valEq]
  | succ fuel ih =>
    intro v w
    cases v with
    | atom s => cases w <;> simp [valEq]
    | ref i =>
      cases w with
      | atom t => simp [valEq]
      | ref j =>
        simp only [valEq]
        cases ha : h1[i]? with
        | none => rw [r1.none i ha]
        | some a =>
          obtain ⟨a', ha', hka, hta, hba, hpa, hca, hsa⟩ := r1.obj i a ha
          cases hb : h2[j]? with
          | none => rw [ha', r2.none j hb]
          | some b =>
            obtain ⟨b', hb', hkb, htb, hbb, hpb, hcb, hsb⟩ := r2.obj j b hb
            rw [ha', hb']
            simp only [hka, hta, hba, hkb, htb, hbb]
            split
            · rfl
            · rename_i hc
              have hkk : a.kind = b.kind := by
                simp only [Bool.or_eq_true, bne_iff_ne, ne_eq, not_or, Classical.not_not] at hc
                exact hc.1.1
              have fcongr : (fun (x : PElem × GVal) => match lookupChild b'.children x.1 with
                    | some y => valEq h1' h2' fuel x.2 y
                    | none => false) =
                  (fun x => match lookupChild b.children x.1 with
                    | some y => valEq h1 h2 fuel x.2 y
                    | none => false) := by
                funext x
                rw [lookupChild_perm _ _ hpb (w2.keys' j b hb)]
                cases lookupChild b.children x.1 with
                | none => rfl
                | some y => exact ih x.2 y
              have gcongr : (fun (x : PElem × GVal) => match lookupChild (childrenWithDefaults b') x.1 with
                    | some y => valEq h1' h2' fuel x.2 y
                    | none => false) =
                  (fun x => match lookupChild (childrenWithDefaults b) x.1 with
                    | some y => valEq h1 h2 fuel x.2 y
                    | none => false) := by
                funext x
                rw [lookupChild_perm _ _ hcb (w2.keys j b hb)]
                cases lookupChild (childrenWithDefaults b) x.1 with
                | none => rfl
                | some y => exact ih x.2 y
              have seqcase : a.seqLike = true →
                  (a'.children.length == b'.children.length &&
                    (a'.children.zip b'.children).all (fun (x, y) => x.1 == y.1 && valEq h1' h2' fuel x.2 y.2)) =
                  (a.children.length == b.children.length &&
                    (a.children.zip b.children).all (fun (x, y) => x.1 == y.1 && valEq h1 h2 fuel x.2 y.2)) := by
                intro hs
                have hsb' : b.seqLike = true := by unfold GObj.seqLike at hs ⊢; rw [← hkk]; exact hs
                rw [hsa hs, hsb hsb']
                congr 1
                apply List.all_congr rfl
                intro xy
                obtain ⟨x, y⟩ := xy
                simp only [ih]
              have dictcase :
                  (a'.children.length == b'.children.length && a'.children.all (fun x =>
                    match lookupChild b'.children x.1 with
                    | some y => valEq h1' h2' fuel x.2 y
                    | none => false)) =
                  (a.children.length == b.children.length && a.children.all (fun x =>
                    match lookupChild b.children x.1 with
                    | some y => valEq h1 h2 fuel x.2 y
                    | none => false)) := by
                rw [fcongr, all_perm hpa, hpa.length_eq, hpb.length_eq]
              have cfgcase :
                  ((childrenWithDefaults a').length == (childrenWithDefaults b').length &&
                    (childrenWithDefaults a').all (fun x =>
                    match lookupChild (childrenWithDefaults b') x.1 with
                    | some y => valEq h1' h2' fuel x.2 y
                    | none => false)) =
                  ((childrenWithDefaults a).length == (childrenWithDefaults b).length &&
                    (childrenWithDefaults a).all (fun x =>
                    match lookupChild (childrenWithDefaults b) x.1 with
                    | some y => valEq h1 h2 fuel x.2 y
                    | none => false)) := by
                rw [gcongr, all_perm hca, hca.length_eq, hcb.length_eq]
              cases hk : a.kind
              all_goals simp only []
              all_goals first
                | rfl
                | exact seqcase (by simp [GObj.seqLike, hk])
                | exact dictcase
                | exact cfgcase

/-- **`==` ignores dict and argument insertion order.** -/
theorem buildableEq_reordered {h1 h1' h2 h2' : Heap} (r1 : Reordered h1 h1') (r2 : Reordered h2 h2')
    (w1 : h1.EqWF) (w1' : h1'.EqWF) (w2 : h2.EqWF) (w2' : h2'.EqWF) (v w : GVal)
    (hv : ∀ i, v = .ref i → i < h1.length) :
    buildableEq h1' h2' v w = buildableEq h1 h2 v w := by
  unfold buildableEq
  simp only [r1.len, r2.len]
  rw [valEq_reordered r1 r2 w2]
  congr 1
  exact shareVisit_reordered r1 r2 w1 w1' w2 w2' _ _ v w
    (fun i hi => by have := hv i hi; omega) (fun i hi => by have := hv i hi; omega)

end Fiddle
