/-
Index assignment inside the fixed prefix is Python list item assignment on the view.
-/
import FiddleModel.Lemmas.View
import FiddleModel.Lemmas.Dict

namespace Fiddle
open Sig

theorem viewSlots_congr' (s : Sig) (d d' : Dict Val) :
    ∀ ps i, (∀ k ∈ posKeys ps i, d.get? k = d'.get? k) → viewSlots s d ps i = viewSlots s d' ps i := by
  intro ps
  induction ps with
  | nil => intro i _; rfl
  | cons p ps ih =>
    intro i h
    simp only [viewSlots, posKeys] at h ⊢
    cases hk : posKey p i with
    | none => simp only [hk] at h ⊢; exact ih (i + 1) h
    | some k =>
      simp only [hk] at h ⊢
      rw [h k (by simp), ih (i + 1) (fun k' hk' => h k' (by simp [hk']))]

/-- Storing `v` under the key of the `j`-th positional slot changes exactly that slot. -/
theorem viewSlots_set (s : Sig) (d : Dict Val) (k : Key) (v : Val) :
    ∀ (ps : List Param) (i0 j : Nat), (posKeys ps i0).Nodup → (posKeys ps i0)[j]? = some k →
      viewSlots s (d.set k v) ps i0 = (viewSlots s d ps i0).set j v := by
  intro ps
  induction ps with
  | nil => intro i0 j _ h; simp [posKeys] at h
  | cons p ps ih =>
    intro i0 j nd h
    simp only [viewSlots, posKeys] at nd h ⊢
    cases hk : posKey p i0 with
    | none => simp only [hk] at nd h ⊢; exact ih (i0 + 1) j nd h
    | some k0 =>
      simp only [hk] at nd h ⊢
      rw [List.nodup_cons] at nd
      cases j with
      | zero =>
        simp only [List.getElem?_cons_zero, Option.some.injEq] at h
        subst h
        simp only [List.set_cons_zero, Dict.get?_set_same, Option.getD_some]
        congr 1
        apply viewSlots_congr'
        intro k' hk'
        exact Dict.get?_set_other _ _ _ _ (fun e => nd.1 (e ▸ hk'))
      | succ j' =>
        simp only [List.getElem?_cons_succ] at h
        have hne : k ≠ k0 := by
          intro e; subst e
          exact nd.1 (List.mem_of_getElem? h)
        simp only [List.set_cons_succ, Dict.get?_set_other _ _ _ _ hne]
        rw [ih (i0 + 1) j' nd.2 h]

/-- When the first `i + 1` parameters are positional, the `i`-th positional key is the key of
    the `i`-th parameter. -/
theorem posKeys_prefix : ∀ (ps : List Param) (i0 i : Nat),
    (∀ j, j ≤ i → ∃ p, ps[j]? = some p ∧ (p.kind = .po ∨ p.kind = .pk)) →
    ∃ p, ps[i]? = some p ∧ (posKeys ps i0)[i]? = posKey p (i0 + i) := by
  intro ps
  induction ps with
  | nil => intro i0 i h; obtain ⟨p, hp, _⟩ := h 0 (Nat.zero_le _); simp at hp
  | cons q ps ih =>
    intro i0 i h
    obtain ⟨p0, hp0, hk0⟩ := h 0 (Nat.zero_le _)
    simp only [List.getElem?_cons_zero, Option.some.injEq] at hp0
    subst hp0
    have hpk : ∃ k0, posKey q i0 = some k0 := by
      rcases hk0 with e | e <;> simp [posKey, e]
    obtain ⟨k0, hk⟩ := hpk
    cases i with
    | zero => exact ⟨q, rfl, by simp [posKeys, hk]⟩
    | succ i' =>
      obtain ⟨p, hp, he⟩ := ih (i0 + 1) i' (fun j hj => by
        obtain ⟨p, hp, hk⟩ := h (j + 1) (by omega)
        exact ⟨p, by simpa using hp, hk⟩)
      refine ⟨p, by simpa using hp, ?_⟩
      simp only [posKeys, hk, List.getElem?_cons_succ]
      rw [he]; congr 1; omega

end Fiddle
