/-
The memoized rebuild produces an isomorphic copy: invariants and path faithfulness.
-/
import FiddleModel.Model.Rebuild
import FiddleModel.Lemmas.Traverse

namespace Fiddle

theorem rbGet_cons (m : List (Nat × Nat)) (i j k : Nat) :
    rbGet ((i, j) :: m) k = if i = k then some j else rbGet m k := by
  unfold rbGet
  by_cases h : i = k
  · subst h; simp
  · simp [h]

theorem rbGet_nil (k : Nat) : rbGet [] k = none := rfl

/-- The copy of a value under the memo. -/
def imageOf (memo : List (Nat × Nat)) : GVal → GVal
  | .atom t => .atom t
  | .ref k => .ref ((rbGet memo k).getD 0)

theorem imageOf_cons_ne (m : List (Nat × Nat)) (i j : Nat) (v : GVal)
    (h : ∀ k, v = .ref k → k ≠ i) : imageOf ((i, j) :: m) v = imageOf m v := by
  cases v with
  | atom t => rfl
  | ref k =>
    have := h k rfl
    simp only [imageOf, rbGet_cons]
    split
    · rename_i e; exact absurd e.symm this
    · rfl

def copyOf (memo : List (Nat × Nat)) (o : GObj) : GObj :=
  { o with children := (o.children.map (·.1)).zip (o.children.map (fun c => imageOf memo c.2)) }

structure RbSt.Inv (h : Heap) (st : RbSt) : Prop where
  fresh : ∀ i j, rbGet st.memo i = some j → j < st.out.length
  inj : ∀ i i' j, rbGet st.memo i = some j → rbGet st.memo i' = some j → i = i'
  closed : ∀ i o, h[i]? = some o → (rbGet st.memo i).isSome →
    ∀ c ∈ o.children, ∀ k, c.2 = .ref k → (rbGet st.memo k).isSome
  mirror : ∀ i j, rbGet st.memo i = some j → ∃ o, h[i]? = some o ∧ st.out[j]? = some (copyOf st.memo o)
  onto : ∀ j, j < st.out.length → ∃ i, rbGet st.memo i = some j
  /-- copies of children are allocated before the copy of their parent -/
  ordered : ∀ i j o, rbGet st.memo i = some j → h[i]? = some o → ∀ c ∈ o.children, ∀ k j',
    c.2 = .ref k → rbGet st.memo k = some j' → j' < j

theorem RbSt.inv_init (h : Heap) : RbSt.Inv h {} :=
  ⟨by intro i j hm; simp [rbGet_nil] at hm, by intro i i' j hm; simp [rbGet_nil] at hm,
   by intro i o _ hm; simp [rbGet_nil] at hm, by intro i j hm; simp [rbGet_nil] at hm,
   by intro j hj; simp at hj, by intro i j o hm; simp [rbGet_nil] at hm⟩

structure RbSt.Step (h : Heap) (st st' : RbSt) (v : GVal) : Prop where
  inv : st'.Inv h
  memoMono : ∀ i j, rbGet st.memo i = some j → rbGet st'.memo i = some j
  outPrefix : st.out <+: st'.out
  newLow : ∀ k, (rbGet st'.memo k).isSome → (rbGet st.memo k).isSome ∨ k < v.rank

def Rebuilt (st : RbSt) (v r : GVal) : Prop :=
  r = imageOf st.memo v ∧ ∀ i, v = .ref i → (rbGet st.memo i).isSome

theorem rebuildChildren_step_of (h : Heap) (fuel : Nat)
    (ihv : ∀ v st r st', rebuildVal h fuel v st = .ok (r, st') → st.Inv h →
      RbSt.Step h st st' v ∧ Rebuilt st' v r)
    (cs : List (PElem × GVal)) (bound : Nat) (hb : ∀ c ∈ cs, c.2.rank ≤ bound)
    (st : RbSt) (rs : List GVal) (st' : RbSt)
    (hr : rebuildChildren h fuel cs st = .ok (rs, st')) (hi : st.Inv h) :
    st'.Inv h ∧ (∀ i j, rbGet st.memo i = some j → rbGet st'.memo i = some j) ∧
      st.out <+: st'.out ∧
      (∀ k, (rbGet st'.memo k).isSome → (rbGet st.memo k).isSome ∨ k < bound) ∧
      rs = cs.map (fun c => imageOf st'.memo c.2) ∧
      (∀ c ∈ cs, ∀ k, c.2 = .ref k → (rbGet st'.memo k).isSome) := by
  induction cs generalizing st rs st' with
  | nil =>
    simp [rebuildChildren] at hr
    obtain ⟨rfl, rfl⟩ := hr
    exact ⟨hi, fun _ _ h => h, List.prefix_refl _, fun _ h => Or.inl h, rfl, by simp⟩
  | cons c cs ih =>
    obtain ⟨pe, v⟩ := c
    simp only [rebuildChildren] at hr
    split at hr
    · cases hr
    · rename_i r st1 h1
      split at hr
      · cases hr
      · rename_i rs' st2 h2
        cases hr
        obtain ⟨s1, m1⟩ := ihv _ _ _ _ h1 hi
        obtain ⟨i2, mm2, op2, nl2, hrs, chm2⟩ := ih (fun c hc => hb c (by simp [hc])) _ _ _ h2 s1.inv
        have hvb : v.rank ≤ bound := hb (pe, v) (by simp)
        refine ⟨i2, fun i j hm => mm2 i j (s1.memoMono i j hm), s1.outPrefix.trans op2, ?_, ?_, ?_⟩
        · intro k hk
          rcases nl2 k hk with hk1 | hk1
          · rcases s1.newLow k hk1 with hk0 | hk0
            · exact Or.inl hk0
            · right; omega
          · exact Or.inr hk1
        · simp only [List.map_cons, List.cons.injEq]
          refine ⟨?_, hrs⟩
          rw [m1.1]
          cases v with
          | atom t => rfl
          | ref k =>
            have hk := m1.2 k rfl
            cases hg : rbGet st1.memo k with
            | none => simp [hg] at hk
            | some j => simp [imageOf, hg, mm2 k j hg]
        · intro c hc k hk
          rcases List.mem_cons.mp hc with rfl | hc
          · have hk1 := m1.2 k hk
            cases hg : rbGet st1.memo k with
            | none => simp [hg] at hk1
            | some j => simp [mm2 k j hg]
          · exact chm2 c hc k hk

theorem rebuildVal_step (h : Heap) (wf : h.WellFormed) (fuel : Nat) :
    ∀ v st r st', rebuildVal h fuel v st = .ok (r, st') → st.Inv h →
      RbSt.Step h st st' v ∧ Rebuilt st' v r := by
  induction fuel with
  | zero => intro v st r st' hb; simp [rebuildVal] at hb
  | succ fuel ih =>
    intro v st r st' hb hi
    cases v with
    | atom t =>
      simp [rebuildVal] at hb
      obtain ⟨rfl, rfl⟩ := hb
      exact ⟨⟨hi, fun _ _ h => h, List.prefix_refl _, fun _ h => Or.inl h⟩, rfl,
        by intro i hi'; cases hi'⟩
    | ref i =>
      simp only [rebuildVal] at hb
      split at hb
      · rename_i j hj
        cases hb
        exact ⟨⟨hi, fun _ _ h => h, List.prefix_refl _, fun _ h => Or.inl h⟩,
          by simp [imageOf, hj], by intro k hk; cases hk; simp [hj]⟩
      · rename_i hnone
        split at hb
        · cases hb
        · rename_i o ho
          split at hb
          · cases hb
          · rename_i vals st1 hch
            cases hb
            have hbound : ∀ c ∈ o.children, c.2.rank ≤ i := by
              intro c hc
              cases hc2 : c.2 with
              | atom t => simp [GVal.rank]
              | ref k => have := wf i o ho c hc k hc2; simp [GVal.rank]; omega
            obtain ⟨i1, mm1, op1, nl1, hvals, chm⟩ :=
              rebuildChildren_step_of h fuel ih o.children i hbound _ _ _ hch hi
            have hinone : rbGet st1.memo i = none := by
              cases hg : rbGet st1.memo i with
              | none => rfl
              | some j =>
                rcases nl1 i (by simp [hg]) with h0 | h0
                · rw [hnone] at h0; cases h0
                · omega
            -- children are memoized in st1 and are not `i`
            have hsame : ∀ (o' : GObj) (k : Nat), h[k]? = some o' → (rbGet st1.memo k).isSome →
                copyOf ((i, st1.out.length) :: st1.memo) o' = copyOf st1.memo o' := by
              intro o' k hk hm
              unfold copyOf
              congr 2
              apply List.map_congr_left
              intro c hc
              apply imageOf_cons_ne
              intro k' hk' e
              subst e
              have := i1.closed k o' hk hm c hc k' hk'
              rw [hinone] at this; cases this
            have hself : copyOf ((i, st1.out.length) :: st1.memo) o =
                { o with children := (o.children.map (·.1)).zip vals } := by
              unfold copyOf
              congr 2
              rw [hvals]
              apply List.map_congr_left
              intro c hc
              apply imageOf_cons_ne
              intro k' hk' e
              subst e
              have := chm c hc k' hk'
              rw [hinone] at this; cases this
            refine ⟨⟨⟨?_, ?_, ?_, ?_, ?_, ?_⟩, ?_, op1.trans (List.prefix_append _ _), ?_⟩, ?_, ?_⟩
            · -- fresh
              intro k j hk
              simp only [rbGet_cons] at hk
              split at hk
              · cases hk; simp
              · have := i1.fresh k j hk; simp; omega
            · -- inj
              intro k k' j hk hk'
              simp only [rbGet_cons] at hk hk'
              split at hk
              · rename_i e; subst e; cases hk
                split at hk'
                · rename_i e; exact e
                · have := i1.fresh k' _ hk'; omega
              · split at hk'
                · rename_i e; subst e; cases hk'
                  have := i1.fresh k _ hk; omega
                · exact i1.inj k k' j hk hk'
            · -- closed
              intro k o' hk hm c hc k' hk'
              simp only [rbGet_cons] at hm ⊢
              split at hm
              · rename_i e; subst e
                rw [ho] at hk; cases hk
                have := chm c hc k' hk'
                split <;> simp [this]
              · have := i1.closed k o' hk hm c hc k' hk'
                split <;> simp [this]
            · -- mirror
              intro k j hk
              simp only [rbGet_cons] at hk
              split at hk
              · rename_i e; subst e; cases hk
                exact ⟨o, ho, by rw [hself]; simp⟩
              · obtain ⟨o', ho', hout⟩ := i1.mirror k j hk
                have hj := i1.fresh k j hk
                refine ⟨o', ho', ?_⟩
                rw [hsame o' k ho' (by simp [hk]), List.getElem?_append_left hj]
                exact hout
            · -- onto
              intro j hj
              by_cases e : j = st1.out.length
              · exact ⟨i, by simp [rbGet_cons, e]⟩
              · have hj' : j < st1.out.length := by simp at hj; omega
                obtain ⟨k, hk⟩ := i1.onto j hj'
                refine ⟨k, ?_⟩
                simp only [rbGet_cons]
                split
                · rename_i e'; subst e'; rw [hinone] at hk; cases hk
                · exact hk
            · -- ordered
              intro k j o' hk ho' c hc k' j' hk' hj'
              have hk'ne : k' ≠ i := by
                intro e; subst e
                simp only [rbGet_cons] at hk
                split at hk
                · rename_i e; subst e
                  rw [ho] at ho'; cases ho'
                  have := chm c hc k' hk'
                  rw [hinone] at this; cases this
                · have := i1.closed k o' ho' (by simp [hk]) c hc k' hk'
                  rw [hinone] at this; cases this
              have hj1 : rbGet st1.memo k' = some j' := by
                simpa [rbGet_cons, Ne.symm hk'ne] using hj'
              simp only [rbGet_cons] at hk
              split at hk
              · cases hk; exact i1.fresh k' j' hj1
              · exact i1.ordered k j o' hk ho' c hc k' j' hk' hj1
            · -- memoMono
              intro k j hk
              simp only [rbGet_cons]
              split
              · rename_i e; subst e; rw [hnone] at hk; cases hk
              · exact mm1 k j hk
            · -- newLow
              intro k hk
              simp only [rbGet_cons] at hk
              split at hk
              · rename_i e; subst e; right; simp [GVal.rank]
              · rcases nl1 k hk with h0 | h0
                · exact Or.inl h0
                · right; simp [GVal.rank]; omega
            · simp [imageOf, rbGet_cons]
            · intro k hk; cases hk; simp [rbGet_cons]

end Fiddle

namespace Fiddle

theorem zip_map_snd {α β γ} (l : List (α × β)) (f : β → γ) :
    (l.map (·.1)).zip (l.map (fun c => f c.2)) = l.map (fun c => (c.1, f c.2)) := by
  induction l with
  | nil => rfl
  | cons x xs ih => simp [ih]

theorem childAt_copyOf (memo : List (Nat × Nat)) (o : GObj) (pe : PElem) :
    childAt (copyOf memo o) pe = (childAt o pe).map (imageOf memo) := by
  unfold childAt copyOf
  simp only [zip_map_snd]
  induction o.children with
  | nil => rfl
  | cons c cs ih =>
    by_cases hc : c.1 = pe
    · simp [hc]
    · simp [List.find?_cons, hc]
      simpa using ih

def Memoized' (st : RbSt) (v : GVal) : Prop := ∀ k, v = .ref k → (rbGet st.memo k).isSome

/-- Everything reachable by a path from a memoized value is memoized. -/
theorem followPath_memoized (h : Heap) (st : RbSt) (hi : st.Inv h) : ∀ (p : Path) (v w : GVal),
    Memoized' st v → followPath h v p = some w → Memoized' st w := by
  intro p
  induction p with
  | nil => intro v w hv hf; simp [followPath] at hf; subst hf; exact hv
  | cons pe rest ih =>
    intro v w hv hf
    cases v with
    | atom t => simp [followPath] at hf
    | ref k =>
      simp only [followPath] at hf
      cases ho : h[k]? with
      | none => simp [ho] at hf
      | some o =>
        simp only [ho] at hf
        cases hc : childAt o pe with
        | none => simp [hc] at hf
        | some c =>
          simp only [hc] at hf
          refine ih c w ?_ hf
          intro k' hk'
          exact hi.closed k o ho (hv k rfl) (pe, c) (childAt_mem o pe c hc) k' hk'

/-- **Path for path the rebuilt structure is the image of the original.** -/
theorem followPath_rebuilt (h : Heap) (st : RbSt) (hi : st.Inv h) : ∀ (p : Path) (v : GVal),
    Memoized' st v →
    followPath st.out (imageOf st.memo v) p = (followPath h v p).map (imageOf st.memo) := by
  intro p
  induction p with
  | nil => intro v _; simp [followPath]
  | cons pe rest ih =>
    intro v hv
    cases v with
    | atom t => simp [followPath, imageOf]
    | ref k =>
      have hk := hv k rfl
      cases hg : rbGet st.memo k with
      | none => simp [hg] at hk
      | some j =>
        obtain ⟨o, ho, hout⟩ := hi.mirror k j hg
        simp only [imageOf, hg, Option.getD_some, followPath, hout, ho, childAt_copyOf]
        cases hc : childAt o pe with
        | none => simp
        | some c =>
          simp only [Option.map_some]
          apply ih
          intro k' hk'
          exact hi.closed k o ho hk (pe, c) (childAt_mem o pe c hc) k' hk'

/-- The image map is injective on memoized values: distinct objects have distinct copies. -/
theorem imageOf_injective (h : Heap) (st : RbSt) (hi : st.Inv h) (v w : GVal)
    (hv : Memoized' st v) (hw : Memoized' st w) (e : imageOf st.memo v = imageOf st.memo w) :
    v = w := by
  cases v with
  | atom s =>
    cases w with
    | atom t => simpa [imageOf] using e
    | ref k => simp [imageOf] at e
  | ref k =>
    cases w with
    | atom t => simp [imageOf] at e
    | ref k' =>
      have h1 := hv k rfl
      have h2 := hw k' rfl
      cases g1 : rbGet st.memo k with
      | none => simp [g1] at h1
      | some j =>
        cases g2 : rbGet st.memo k' with
        | none => simp [g2] at h2
        | some j' =>
          simp only [imageOf, g1, g2, Option.getD_some, GVal.ref.injEq] at e
          subst e
          rw [hi.inj k k' j g1 g2]

end Fiddle

namespace Fiddle

theorem rebuilt_out_object (h : Heap) (st : RbSt) (hi : st.Inv h) (j : Nat) (o' : GObj)
    (hj : st.out[j]? = some o') :
    ∃ i o, rbGet st.memo i = some j ∧ h[i]? = some o ∧ o' = copyOf st.memo o := by
  have hlt : j < st.out.length := (List.getElem?_eq_some_iff.mp hj).1
  obtain ⟨i, hij⟩ := hi.onto j hlt
  obtain ⟨o, ho, hout⟩ := hi.mirror i j hij
  rw [hj] at hout
  exact ⟨i, o, hij, ho, by cases hout; rfl⟩

/-- The rebuilt heap is itself topologically ordered. -/
theorem rebuilt_wellFormed (h : Heap) (st : RbSt) (hi : st.Inv h) : st.out.WellFormed := by
  intro j o' hj c hc j' hcj
  obtain ⟨i, o, hij, ho, rfl⟩ := rebuilt_out_object h st hi j o' hj
  simp only [copyOf, zip_map_snd, List.mem_map] at hc
  obtain ⟨c0, hc0, rfl⟩ := hc
  cases h0 : c0.2 with
  | atom t => simp [imageOf, h0] at hcj
  | ref k =>
    have hk := hi.closed i o ho (by simp [hij]) c0 hc0 k h0
    cases hg : rbGet st.memo k with
    | none => simp [hg] at hk
    | some jk =>
      simp only [imageOf, h0, hg, Option.getD_some, GVal.ref.injEq] at hcj
      subst hcj
      exact hi.ordered i j o hij ho c0 hc0 k jk h0 hg

end Fiddle
