/-
The full edit alphabet of C16: the six positional / attribute edits of C03 (`Op`) plus tag
edits (`add_tag`, `remove_tag`, `clear_tags`, `set_tags`), `materialize_defaults`, `assign`,
`copy_with` (followed on the copy) and `update_callable` (which switches the signature the
later operations are interpreted against).

A predicate closed under the two logging hooks of the argument store AND under a logged update
of one tag set (`Cfg.ClosedT`) is preserved by every such operation, hence by every history.
-/
import FiddleModel.Lemmas.Ops
import FiddleModel.Lemmas.History

namespace Fiddle

structure Cfg.ClosedT (P : Cfg → Prop) : Prop where
  base : Cfg.Closed P
  /-- `__argument_tags__[k] = ts` followed by `History.add_updated_tags(k, ts)` -/
  setTags : ∀ (c : Cfg) (k : Key) (ts : List Nat), P c →
    P (({ c with tags := c.tags.set k ts } : Cfg).log k (.tags ts))
  /-- one more UPDATE_TAGS entry carrying the current tag set (`set_tags`' last step) -/
  logTags : ∀ (c : Cfg) (k : Key), P c → P (c.log k (.tags (c.tagsOf k)))
  /-- the `__fn_or_cls__` entry of `update_callable` -/
  logFn : ∀ (c : Cfg), P c → P (c.log (.name "__fn_or_cls__") (.val (.v 0)))

inductive Op2
  | edit (o : Op)
  | addTag (k : Key) (t : Nat)
  | removeTag (k : Key) (t : Nat)
  | clearTags (k : Key)
  | setTags (k : Key) (ts : List Nat)
  | materialize
  | assign (kvs : List (String × Val))
  | copyWith (kvs : List (String × Val))
  | updateCallable (newSig : Sig) (drop : Bool)

def Cfg.applyOp2 (s : Sig) (c : Cfg) : Op2 → Except Err (Sig × Cfg)
  | .edit o => (c.applyOp s o).map (fun c' => (s, c'))
  | .addTag k t => (c.addTag s k t).map (fun c' => (s, c'))
  | .removeTag k t => (c.removeTag s k t).map (fun c' => (s, c'))
  | .clearTags k => (c.clearTags s k).map (fun c' => (s, c'))
  | .setTags k ts => (c.setTags s k ts).map (fun c' => (s, c'))
  | .materialize => (c.materializeDefaults s).map (fun c' => (s, c'))
  | .assign kvs => .ok (s, c.assignAll s kvs)
  -- `copy_with`: the edits are made on a shallow copy, which replaces the original in the
  -- history only if every name is accepted (a failing `copy_with` leaves the original in use)
  | .copyWith kvs => .ok (s, if c.assignOk s kvs then c.assignAll s kvs else c)
  | .updateCallable ns drop => (Cfg.updateCallable ns c drop).map (fun c' => (ns, c'))

/-- Running a history over the full alphabet; a rejected operation leaves the state as it was
    (`materialize_defaults` never is; a rejected `assign` keeps its earlier edits, see above). -/
def Cfg.run2 : Sig × Cfg → List Op2 → Sig × Cfg
  | sc, [] => sc
  | sc, o :: r =>
    match sc.2.applyOp2 sc.1 o with
    | .ok sc' => Cfg.run2 sc' r
    | .error _ => Cfg.run2 sc r

variable {P : Cfg → Prop}

theorem Cfg.addTag_closedT (hP : Cfg.ClosedT P) {s : Sig} {c c' : Cfg} {k : Key} {t : Nat}
    (h : c.addTag s k t = .ok c') (hc : P c) : P c' := by
  unfold Cfg.addTag at h
  split at h
  · cases h
  · cases h; exact hP.setTags _ _ _ hc

theorem Cfg.removeTag_closedT (hP : Cfg.ClosedT P) {s : Sig} {c c' : Cfg} {k : Key} {t : Nat}
    (h : c.removeTag s k t = .ok c') (hc : P c) : P c' := by
  unfold Cfg.removeTag at h
  split at h
  · cases h
  · split at h
    · cases h
    · cases h; exact hP.setTags _ _ _ hc

theorem Cfg.clearTags_closedT (hP : Cfg.ClosedT P) {s : Sig} {c c' : Cfg} {k : Key}
    (h : c.clearTags s k = .ok c') (hc : P c) : P c' := by
  unfold Cfg.clearTags at h
  split at h
  · cases h
  · cases h; exact hP.setTags _ _ _ hc

theorem Cfg.addTags_closedT (hP : Cfg.ClosedT P) {s : Sig} {k : Key} : ∀ (ts : List Nat) {c c' : Cfg},
    Cfg.addTags s k c ts = .ok c' → P c → P c' := by
  intro ts
  induction ts with
  | nil => intro c c' h hc; simp [Cfg.addTags] at h; subst h; exact hc
  | cons t r ih =>
    intro c c' h hc
    simp only [Cfg.addTags] at h
    split at h
    · rename_i c1 h1; exact ih h (Cfg.addTag_closedT hP h1 hc)
    · cases h

theorem Cfg.setTags_closedT (hP : Cfg.ClosedT P) {s : Sig} {c c' : Cfg} {k : Key} {ts : List Nat}
    (h : c.setTags s k ts = .ok c') (hc : P c) : P c' := by
  unfold Cfg.setTags at h
  split at h
  · cases h
  · rename_i c1 h1
    split at h
    · cases h
    · rename_i c2 h2
      split at h
      · cases h
      · cases h
        exact hP.logTags _ _ (Cfg.addTags_closedT hP ts h2 (Cfg.clearTags_closedT hP h1 hc))

theorem Cfg.materializeLoop_closed (hP : Cfg.Closed P) (s : Sig) : ∀ (ps : List Param) (i : Nat)
    (pf : Bool) {c c' : Cfg}, Cfg.materializeLoop s ps i pf c = .ok c' → P c → P c' := by
  intro ps
  induction ps with
  | nil => intro i pf c c' h hc; simp [Cfg.materializeLoop] at h; subst h; exact hc
  | cons p r ih =>
    intro i pf c c' h hc
    simp only [Cfg.materializeLoop] at h
    repeat' split at h
    all_goals first
      | exact ih _ _ h hc
      | (apply ih _ _ h
         first
           | exact Cfg.setItem_closed hP (by assumption) hc
           | exact Cfg.setAttr_closed hP (by assumption) hc)
      | cases h

theorem Cfg.assignAll_closed (hP : Cfg.Closed P) (s : Sig) : ∀ (kvs : List (String × Val)) (c : Cfg),
    P c → P (c.assignAll s kvs) := by
  intro kvs
  induction kvs with
  | nil => intro c hc; exact hc
  | cons kv r ih =>
    intro c hc
    obtain ⟨n, v⟩ := kv
    simp only [Cfg.assignAll]
    split
    · rename_i c1 h1; exact ih c1 (Cfg.setAttr_closed hP h1 hc)
    · exact hc

theorem Cfg.dropArgs_closed (hP : Cfg.Closed P) (s : Sig) : ∀ (ns : List String) {c c' : Cfg},
    Cfg.dropArgs s c ns = .ok c' → P c → P c' := by
  intro ns
  induction ns with
  | nil => intro c c' h hc; simp [Cfg.dropArgs] at h; subst h; exact hc
  | cons n r ih =>
    intro c c' h hc
    simp only [Cfg.dropArgs] at h
    split at h
    · rename_i c1 h1; exact ih h (Cfg.delAttr_closed (s := s) hP h1 hc)
    · cases h

theorem Cfg.updateCallable_closedT (hP : Cfg.ClosedT P) {ns : Sig} {c c' : Cfg} {drop : Bool}
    (h : Cfg.updateCallable ns c drop = .ok c') (hc : P c) : P c' := by
  unfold Cfg.updateCallable at h
  split at h
  · cases h
  · simp only at h
    generalize (if ns.hasVk = true then ([] : List String) else _) = inv at h
    by_cases he : inv.isEmpty = true
    · simp only [he, if_true] at h
      cases h
      exact hP.logFn c hc
    · simp only [he, if_false, Bool.false_eq_true] at h
      cases drop with
      | false => simp at h
      | true =>
        simp only [if_true] at h
        cases hd : Cfg.dropArgs ns c inv with
        | error e => simp [hd] at h
        | ok c1 =>
          simp only [hd] at h
          cases h
          exact hP.logFn c1 (Cfg.dropArgs_closed hP.base ns inv hd hc)

theorem map_ok {α β ε} {f : α → β} {x : Except ε α} {b : β} (h : x.map f = .ok b) :
    ∃ a, x = .ok a ∧ f a = b := by
  cases x with
  | error e => simp [Except.map] at h
  | ok a => simp [Except.map] at h; exact ⟨a, rfl, h⟩

theorem Cfg.applyOp2_closed (hP : Cfg.ClosedT P) {s s' : Sig} {c c' : Cfg} {o : Op2}
    (h : c.applyOp2 s o = .ok (s', c')) (hc : P c) : P c' := by
  cases o with
  | edit o =>
    obtain ⟨a, ha, e⟩ := map_ok h; cases e
    exact Cfg.applyOp_closed hP.base ha hc
  | addTag k t =>
    obtain ⟨a, ha, e⟩ := map_ok h; cases e
    exact Cfg.addTag_closedT hP ha hc
  | removeTag k t =>
    obtain ⟨a, ha, e⟩ := map_ok h; cases e
    exact Cfg.removeTag_closedT hP ha hc
  | clearTags k =>
    obtain ⟨a, ha, e⟩ := map_ok h; cases e
    exact Cfg.clearTags_closedT hP ha hc
  | setTags k ts =>
    obtain ⟨a, ha, e⟩ := map_ok h; cases e
    exact Cfg.setTags_closedT hP ha hc
  | materialize =>
    obtain ⟨a, ha, e⟩ := map_ok h; cases e
    exact Cfg.materializeLoop_closed hP.base s _ _ _ ha hc
  | assign kvs =>
    simp only [Cfg.applyOp2] at h
    cases h
    exact Cfg.assignAll_closed hP.base s kvs c hc
  | copyWith kvs =>
    simp only [Cfg.applyOp2] at h
    cases h
    split
    · exact Cfg.assignAll_closed hP.base s kvs c hc
    · exact hc
  | updateCallable ns drop =>
    obtain ⟨a, ha, e⟩ := map_ok h; cases e
    exact Cfg.updateCallable_closedT hP ha hc

/-- A predicate closed under the hooks and tag updates holds after every history of edits over
    the full alphabet. -/
theorem Cfg.run2_closed (hP : Cfg.ClosedT P) (ops : List Op2) :
    ∀ sc : Sig × Cfg, P sc.2 → P (Cfg.run2 sc ops).2 := by
  induction ops with
  | nil => intro sc hc; exact hc
  | cons o r ih =>
    intro sc hc
    simp only [Cfg.run2]
    split
    · rename_i sc' h
      exact ih sc' (Cfg.applyOp2_closed (s' := sc'.1) (c' := sc'.2) hP h hc)
    · exact ih sc hc

end Fiddle
