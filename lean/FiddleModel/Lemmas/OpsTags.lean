/-
The full edit alphabet of C16: the six positional / attribute edits of C03 (`Op`) plus tag
edits (`add_tag`, `remove_tag`, `clear_tags`, `set_tags`), `materialize_defaults` and `assign`.

A predicate closed under the two logging hooks of the argument store AND under a logged update
of one tag set (`Cfg.ClosedT`) is preserved by every such operation, hence by every history.
-/
import FiddleModel.Lemmas.Ops
import FiddleModel.Lemmas.History

namespace Fiddle

structure Cfg.ClosedT (P : Cfg → Prop) : Prop where
  base : Cfg.Closed P
  /-- `__argument_tags__[k] = ts` followed by `History.add_updated_tags(k, ts)` -/
  setTags : ∀ (c : Cfg) (k : Key) (ts : List Nat), P c →
    P (({ c with tags := c.tags.set k ts } : Cfg).log k (.tags ts))
  /-- one more UPDATE_TAGS entry carrying the current tag set (`set_tags`' last step) -/
  logTags : ∀ (c : Cfg) (k : Key), P c → P (c.log k (.tags (c.tagsOf k)))

inductive Op2
  | edit (o : Op)
  | addTag (k : Key) (t : Nat)
  | removeTag (k : Key) (t : Nat)
  | clearTags (k : Key)
  | setTags (k : Key) (ts : List Nat)
  | materialize
  | assign (kvs : List (String × Val))

def Cfg.applyOp2 (s : Sig) (c : Cfg) : Op2 → Except Err Cfg
  | .edit o => c.applyOp s o
  | .addTag k t => c.addTag s k t
  | .removeTag k t => c.removeTag s k t
  | .clearTags k => c.clearTags s k
  | .setTags k ts => c.setTags s k ts
  | .materialize => c.materializeDefaults s
  | .assign kvs => .ok (c.assignAll s kvs)

/-- Running a history over the full alphabet; a rejected operation leaves the state as it was
    (`materialize_defaults` never is; a rejected `assign` keeps its earlier edits, see above). -/
def Cfg.run2 (s : Sig) : Cfg → List Op2 → Cfg
  | c, [] => c
  | c, o :: r =>
    match c.applyOp2 s o with
    | .ok c' => Cfg.run2 s c' r
    | .error _ => Cfg.run2 s c r

variable {P : Cfg → Prop}

theorem Cfg.addTag_closedT (hP : Cfg.ClosedT P) {s : Sig} {c c' : Cfg} {k : Key} {t : Nat}
    (h : c.addTag s k t = .ok c') (hc : P c) : P c' := by
  unfold Cfg.addTag at h
  split at h
  · cases h
  · cases h; exact hP.setTags _ _ _ hc

theorem Cfg.removeTag_closedT (hP : Cfg.ClosedT P) {s : Sig} {c c' : Cfg} {k : Key} {t : Nat}
    (h : c.removeTag s k t = .ok c') (hc : P c) : P c' := by
  unfold Cfg.removeTag at h
  split at h
  · cases h
  · split at h
    · cases h
    · cases h; exact hP.setTags _ _ _ hc

theorem Cfg.clearTags_closedT (hP : Cfg.ClosedT P) {s : Sig} {c c' : Cfg} {k : Key}
    (h : c.clearTags s k = .ok c') (hc : P c) : P c' := by
  unfold Cfg.clearTags at h
  split at h
  · cases h
  · cases h; exact hP.setTags _ _ _ hc

theorem Cfg.addTags_closedT (hP : Cfg.ClosedT P) {s : Sig} {k : Key} : ∀ (ts : List Nat) {c c' : Cfg},
    Cfg.addTags s k c ts = .ok c' → P c → P c' := by
  intro ts
  induction ts with
  | nil => intro c c' h hc; simp [Cfg.addTags] at h; subst h; exact hc
  | cons t r ih =>
    intro c c' h hc
    simp only [Cfg.addTags] at h
    split at h
    · rename_i c1 h1; exact ih h (Cfg.addTag_closedT hP h1 hc)
    · cases h

theorem Cfg.setTags_closedT (hP : Cfg.ClosedT P) {s : Sig} {c c' : Cfg} {k : Key} {ts : List Nat}
    (h : c.setTags s k ts = .ok c') (hc : P c) : P c' := by
  unfold Cfg.setTags at h
  split at h
  · cases h
  · rename_i c1 h1
    split at h
    · cases h
    · rename_i c2 h2
      split at h
      · cases h
      · cases h
        exact hP.logTags _ _ (Cfg.addTags_closedT hP ts h2 (Cfg.clearTags_closedT hP h1 hc))

theorem Cfg.materializeLoop_closed (hP : Cfg.Closed P) (s : Sig) : ∀ (ps : List Param) (i : Nat)
    (pf : Bool) {c c' : Cfg}, Cfg.materializeLoop s ps i pf c = .ok c' → P c → P c' := by
  intro ps
  induction ps with
  | nil => intro i pf c c' h hc; simp [Cfg.materializeLoop] at h; subst h; exact hc
  | cons p r ih =>
    intro i pf c c' h hc
    simp only [Cfg.materializeLoop] at h
    repeat' split at h
    all_goals first
      | exact ih _ _ h hc
      | (apply ih _ _ h
         first
           | exact Cfg.setItem_closed hP (by assumption) hc
           | exact Cfg.setAttr_closed hP (by assumption) hc)
      | cases h

theorem Cfg.assignAll_closed (hP : Cfg.Closed P) (s : Sig) : ∀ (kvs : List (String × Val)) (c : Cfg),
    P c → P (c.assignAll s kvs) := by
  intro kvs
  induction kvs with
  | nil => intro c hc; exact hc
  | cons kv r ih =>
    intro c hc
    obtain ⟨n, v⟩ := kv
    simp only [Cfg.assignAll]
    split
    · rename_i c1 h1; exact ih c1 (Cfg.setAttr_closed hP h1 hc)
    · exact hc

theorem Cfg.applyOp2_closed (hP : Cfg.ClosedT P) {s : Sig} {c c' : Cfg} {o : Op2}
    (h : c.applyOp2 s o = .ok c') (hc : P c) : P c' := by
  cases o with
  | edit o => exact Cfg.applyOp_closed hP.base h hc
  | addTag k t => exact Cfg.addTag_closedT hP h hc
  | removeTag k t => exact Cfg.removeTag_closedT hP h hc
  | clearTags k => exact Cfg.clearTags_closedT hP h hc
  | setTags k ts => exact Cfg.setTags_closedT hP h hc
  | materialize => exact Cfg.materializeLoop_closed hP.base s _ _ _ h hc
  | assign kvs =>
    simp only [Cfg.applyOp2] at h
    cases h
    exact Cfg.assignAll_closed hP.base s kvs c hc

/-- A predicate closed under the hooks and tag updates holds after every history of edits over
    the full alphabet. -/
theorem Cfg.run2_closed (hP : Cfg.ClosedT P) (s : Sig) (ops : List Op2) :
    ∀ c, P c → P (Cfg.run2 s c ops) := by
  induction ops with
  | nil => intro c hc; exact hc
  | cons o r ih =>
    intro c hc
    simp only [Cfg.run2]
    split
    · rename_i c' h; exact ih c' (Cfg.applyOp2_closed hP h hc)
    · exact ih c hc

end Fiddle
