/-
`materialize_defaults` on one Buildable: what the loop does to the argument store.
-/
import FiddleModel.Lemmas.History

namespace Fiddle

namespace Dict
variable {α : Type}

theorem set_absent (d : Dict α) (k : Key) (v : α) (h : d.contains k = false) :
    d.set k v = d ++ [(k, v)] := by
  induction d with
  | nil => rfl
  | cons kv r ih =>
    obtain ⟨k', v'⟩ := kv
    by_cases hk : k' = k
    · simp [contains, get?, hk] at h
    · have hr : contains r k = false := by simpa [contains, get?, hk] using h
      simp [set, hk, ih hr]

theorem get?_append (d a : Dict α) (k : Key) : (d ++ a).get? k = (d.get? k).or (a.get? k) := by
  induction d with
  | nil => simp [get?]
  | cons kv r ih =>
    obtain ⟨k', v'⟩ := kv
    by_cases hk : k' = k
    · simp [get?, hk]
    · simp [get?, hk, ih]

theorem get?_mem (d : Dict α) (k : Key) (v : α) (h : d.get? k = some v) : (k, v) ∈ d := by
  induction d with
  | nil => simp [get?] at h
  | cons kv r ih =>
    obtain ⟨k', v'⟩ := kv
    by_cases hk : k' = k
    · simp [get?, hk] at h; subst hk; subst h; simp
    · simp [get?, hk] at h; exact List.mem_cons_of_mem _ (ih h)

end Dict

/-- `kv` is parameter `p`'s default stored under `p`'s own key. -/
def OwnDefault (s : Sig) (kv : Key × Val) : Prop :=
  ∃ p ∈ s, p.dflt = true ∧ kv.2 = Sig.dfltVal p ∧
    ((p.kind ≠ .po ∧ kv.1 = .name p.name) ∨ (p.kind = .po ∧ ∃ i : Nat, s[i]? = some p ∧ kv.1 = .idx i))

/-- What a (partial) run of the loop has done: tags untouched, arguments extended at the end by
    defaults of parameters that had no value, each under its own key. -/
structure MatResult (s : Sig) (c c' : Cfg) : Prop where
  tags : c'.tags = c.tags
  ext : ∃ added : Dict Val, c'.args = c.args ++ added ∧
    ∀ kv ∈ added, c.args.contains kv.1 = false ∧ OwnDefault s kv

theorem MatResult.refl (s : Sig) (c : Cfg) : MatResult s c c :=
  ⟨rfl, [], by simp, by intro kv hkv; cases hkv⟩

theorem contains_append_left {d a : Dict Val} {k : Key} (h : (d ++ a).contains k = false) :
    d.contains k = false := by
  simp only [Dict.contains, Dict.get?_append] at h ⊢
  cases hd : d.get? k with
  | none => rfl
  | some v => simp [hd] at h

theorem MatResult.trans {s : Sig} {a b c : Cfg} (h1 : MatResult s a b) (h2 : MatResult s b c) :
    MatResult s a c := by
  obtain ⟨ad1, e1, p1⟩ := h1.ext
  obtain ⟨ad2, e2, p2⟩ := h2.ext
  refine ⟨h2.tags.trans h1.tags, ad1 ++ ad2, by rw [e2, e1, List.append_assoc], ?_⟩
  intro kv hkv
  rcases List.mem_append.mp hkv with hm | hm
  · exact p1 kv hm
  · obtain ⟨hc, ho⟩ := p2 kv hm
    rw [e1] at hc
    exact ⟨contains_append_left hc, ho⟩

theorem dfltVal_plain (p : Param) : ∀ ts i, Sig.dfltVal p ≠ .tv ts i := by
  intro ts i h; cases h

/-- One default stored under an absent key. -/
theorem MatResult.step (s : Sig) (c : Cfg) (key : Key) (p : Param)
    (habs : c.args.contains key = false) (ho : OwnDefault s (key, Sig.dfltVal p)) :
    MatResult s c (c.setValue key (Sig.dfltVal p)) := by
  rw [setValue_plain c key _ (dfltVal_plain p)]
  refine ⟨by simp [log_tags], [(key, Sig.dfltVal p)], ?_, ?_⟩
  · simp [log_args, Dict.set_absent _ _ _ habs]
  · intro kv hkv
    simp at hkv; subst hkv
    exact ⟨habs, ho⟩

theorem setItem_po (s : Sig) (c c' : Cfg) (i : Nat) (p : Param) (v : Val) (hs : s[i]? = some p)
    (hp : p.kind = .po) (h : c.setItem s (i : Int) v = .ok c') : c' = c.setValue (.idx i) v := by
  have hi : i < s.length := (List.getElem?_eq_some_iff.mp hs).1
  have hnn : ¬ ((i : Int) < 0) := by omega
  have hkey : s.indexToKey (i : Int) c.args = .ok (.idx i) := by
    unfold Sig.indexToKey
    have h1 : ((i : Int) < (s.length : Int)) := by omega
    have h2 : ¬ ((i : Int) < -(s.length : Int)) := by omega
    have h3 : Py.getIdx s (i : Int) = some p := by
      unfold Py.getIdx
      simp [hnn, hs]
    simp [hnn, h1, h2, h3, hp]
  unfold Cfg.setItem at h
  simp only [hnn, if_false, hkey] at h
  split at h <;> (split at h <;> first | (cases h; rfl) | cases h)

theorem materializeLoop_result (s : Sig) : ∀ (ps pre : List Param) (i : Nat) (pf : Bool)
    (c c' : Cfg), s = pre ++ ps → pre.length = i → Cfg.materializeLoop s ps i pf c = .ok c' →
    MatResult s c c' ∧
      ∀ p ∈ ps, p.dflt = true → p.kind ≠ .po → c'.args.contains (.name p.name) = true := by
  intro ps
  induction ps with
  | nil =>
    intro pre i pf c c' _ _ h
    simp [Cfg.materializeLoop] at h; subst h
    exact ⟨.refl s c, by intro p hp; cases hp⟩
  | cons p ps ih =>
    intro pre i pf c c' hs hlen h
    have hs' : s = (pre ++ [p]) ++ ps := by simp [hs]
    have hlen' : (pre ++ [p]).length = i + 1 := by simp [hlen]
    have hsi : s[i]? = some p := by
      rw [hs, ← hlen]; simp
    have hmem : p ∈ s := by rw [hs]; simp
    -- monotonicity of `contains` along a MatResult
    have mono : ∀ {a b : Cfg} (k : Key), MatResult s a b → a.args.contains k = true →
        b.args.contains k = true := by
      intro a b k hr hk
      obtain ⟨ad, e, _⟩ := hr.ext
      simp only [Dict.contains, e, Dict.get?_append] at hk ⊢
      cases hg : a.args.get? k with
      | none => simp [hg] at hk
      | some v => simp
    by_cases hd' : p.dflt = true
    · by_cases hpo' : p.kind = .po
      · -- positional-only parameter with a default
        simp [Cfg.materializeLoop, hd', hpo'] at h
        split at h
        · obtain ⟨r, al⟩ := ih _ _ _ _ _ hs' hlen' h
          refine ⟨r, ?_⟩
          intro q hq hqd hqk
          rcases List.mem_cons.mp hq with rfl | hq
          · exact absurd hpo' hqk
          · exact al q hq hqd hqk
        · rename_i hcond
          split at h
          · rename_i c1 hset
            have e1 := setItem_po s c c1 i p _ hsi hpo' hset
            have habs : c.args.contains (.idx i) = false := by
              simp only [not_or] at hcond
              simpa using hcond.1
            have st : MatResult s c c1 := by
              rw [e1]
              exact MatResult.step s c (.idx i) p habs
                ⟨p, hmem, hd', rfl, Or.inr ⟨hpo', i, hsi, rfl⟩⟩
            obtain ⟨r, al⟩ := ih _ _ _ _ _ hs' hlen' h
            refine ⟨st.trans r, ?_⟩
            intro q hq hqd hqk
            rcases List.mem_cons.mp hq with rfl | hq
            · exact absurd hpo' hqk
            · exact al q hq hqd hqk
          · cases h
      · -- named parameter with a default
        simp [Cfg.materializeLoop, hd', hpo'] at h
        split at h
        · rename_i hcont
          obtain ⟨r, al⟩ := ih _ _ _ _ _ hs' hlen' h
          refine ⟨r, ?_⟩
          intro q hq hqd hqk
          rcases List.mem_cons.mp hq with rfl | hq
          · exact mono _ r hcont
          · exact al q hq hqd hqk
        · rename_i hcont
          split at h
          · rename_i c1 hset
            have e1 : c1 = c.setValue (.name p.name) (Sig.dfltVal p) := by
              unfold Cfg.setAttr at hset
              split at hset
              · cases hset; rfl
              · cases hset
            have habs : c.args.contains (.name p.name) = false := by simpa using hcont
            have st : MatResult s c c1 := by
              rw [e1]
              exact MatResult.step s c (.name p.name) p habs
                ⟨p, hmem, hd', rfl, Or.inl ⟨hpo', rfl⟩⟩
            have hnow : c1.args.contains (.name p.name) = true := by
              rw [e1, setValue_plain c _ _ (dfltVal_plain p)]
              simp [log_args, Dict.contains, Dict.get?_set_same]
            obtain ⟨r, al⟩ := ih _ _ _ _ _ hs' hlen' h
            refine ⟨st.trans r, ?_⟩
            intro q hq hqd hqk
            rcases List.mem_cons.mp hq with rfl | hq
            · exact mono _ r hnow
            · exact al q hq hqd hqk
          · cases h
    · -- no default
      simp [Cfg.materializeLoop, hd'] at h
      obtain ⟨r, al⟩ := ih _ _ _ _ _ hs' hlen' h
      refine ⟨r, ?_⟩
      intro q hq hqd hqk
      rcases List.mem_cons.mp hq with rfl | hq
      · exact absurd hqd hd'
      · exact al q hq hqd hqk

end Fiddle

namespace Fiddle

theorem MatResult.contains_mono {s : Sig} {a b : Cfg} (h : MatResult s a b) (k : Key)
    (hk : a.args.contains k = true) : b.args.contains k = true := by
  obtain ⟨ad, e, _⟩ := h.ext
  simp only [Dict.contains, e, Dict.get?_append] at hk ⊢
  cases hg : a.args.get? k with
  | none => simp [hg] at hk
  | some v => simp

theorem contains_setValue_other (c : Cfg) (k k' : Key) (p : Param) (h : k ≠ k') :
    (c.setValue k (Sig.dfltVal p)).args.contains k' = c.args.contains k' := by
  rw [setValue_plain c k _ (dfltVal_plain p)]
  simp [log_args, Dict.contains, Dict.get?_set_other _ _ _ _ h]

theorem contains_setValue_same (c : Cfg) (k : Key) (p : Param) :
    (c.setValue k (Sig.dfltVal p)).args.contains k = true := by
  rw [setValue_plain c k _ (dfltVal_plain p)]
  simp [log_args, Dict.contains, Dict.get?_set_same]

/-- A second run of the loop over a state that already contains everything the first run left
    is the identity. `d` is any state that contains what the first run's result contains and
    agrees with the first run's *input* on the required positional-only parameters (which the
    loop never sets). -/
theorem materializeLoop_noop (s : Sig) : ∀ (ps pre : List Param) (i : Nat) (pf : Bool)
    (c c' d : Cfg), s = pre ++ ps → pre.length = i → Cfg.materializeLoop s ps i pf c = .ok c' →
    (∀ k, c'.args.contains k = true → d.args.contains k = true) →
    (∀ (j : Nat) (q : Param), s[j]? = some q → q.kind = .po → q.dflt = false →
      d.args.contains (.idx j) = c.args.contains (.idx j)) →
    Cfg.materializeLoop s ps i pf d = .ok d := by
  intro ps
  induction ps with
  | nil => intro pre i pf c c' d _ _ _ _ _; simp [Cfg.materializeLoop]
  | cons p ps ih =>
    intro pre i pf c c' d hs hlen h hsup hreq
    have hs' : s = (pre ++ [p]) ++ ps := by simp [hs]
    have hlen' : (pre ++ [p]).length = i + 1 := by simp [hlen]
    have hsi : s[i]? = some p := by rw [hs, ← hlen]; simp
    by_cases hd' : p.dflt = true
    · by_cases hpo' : p.kind = .po
      · simp [Cfg.materializeLoop, hd', hpo'] at h ⊢
        split at h
        · rename_i hcond
          have hskip : (d.args.contains (.idx i) = true ∨ pf = false) := by
            rcases hcond with hc | hpf
            · left
              have r := (materializeLoop_result s ps (pre ++ [p]) (i + 1) pf c c' hs' hlen' h).1
              exact hsup _ (r.contains_mono _ hc)
            · right; exact hpf
          rw [if_pos hskip]
          exact ih _ _ _ _ _ _ hs' hlen' h hsup hreq
        · rename_i hcond
          split at h
          · rename_i c1 hset
            have e1 := setItem_po s c c1 i p _ hsi hpo' hset
            have r := (materializeLoop_result s ps (pre ++ [p]) (i + 1) pf c1 c' hs' hlen' h).1
            have hin : d.args.contains (.idx i) = true := by
              apply hsup; apply r.contains_mono
              rw [e1]; exact contains_setValue_same c _ p
            rw [if_pos (Or.inl hin)]
            refine ih _ _ _ _ _ _ hs' hlen' h hsup ?_
            intro j q hq hqk hqd
            rw [hreq j q hq hqk hqd, e1]
            have hne : (Key.idx (i : Int)) ≠ .idx (j : Int) := by
              intro e
              simp only [Key.idx.injEq] at e
              have : i = j := by omega
              subst this
              rw [hsi] at hq; cases hq
              rw [hd'] at hqd; cases hqd
            exact (contains_setValue_other c _ _ p hne).symm
          · cases h
      · simp [Cfg.materializeLoop, hd', hpo'] at h ⊢
        split at h
        · rename_i hcont
          have r := (materializeLoop_result s ps (pre ++ [p]) (i + 1) pf c c' hs' hlen' h).1
          have hin : d.args.contains (.name p.name) = true := hsup _ (r.contains_mono _ hcont)
          rw [if_pos hin]
          exact ih _ _ _ _ _ _ hs' hlen' h hsup hreq
        · split at h
          · rename_i c1 hset
            have e1 : c1 = c.setValue (.name p.name) (Sig.dfltVal p) := by
              unfold Cfg.setAttr at hset
              split at hset
              · cases hset; rfl
              · cases hset
            have r := (materializeLoop_result s ps (pre ++ [p]) (i + 1) pf c1 c' hs' hlen' h).1
            have hin : d.args.contains (.name p.name) = true := by
              apply hsup; apply r.contains_mono
              rw [e1]; exact contains_setValue_same c _ p
            rw [if_pos hin]
            refine ih _ _ _ _ _ _ hs' hlen' h hsup ?_
            intro j q hq hqk hqd
            rw [hreq j q hq hqk hqd, e1]
            exact (contains_setValue_other c _ _ p (by intro e; cases e)).symm
          · cases h
    · simp [Cfg.materializeLoop, hd'] at h ⊢
      have hflag : (if p.kind = Kind.po then pf && d.args.contains (.idx i) else pf) =
          (if p.kind = Kind.po then pf && c.args.contains (.idx i) else pf) := by
        by_cases hk : p.kind = .po
        · simp only [hk, if_true]
          rw [hreq i p hsi hk (by simpa using hd')]
        · simp [hk]
      rw [hflag]
      exact ih _ _ _ _ _ _ hs' hlen' h hsup hreq

/-- `materialize_defaults` is idempotent: a second run changes nothing at all. -/
theorem materializeDefaults_idempotent (s : Sig) (c c' : Cfg)
    (h : c.materializeDefaults s = .ok c') : c'.materializeDefaults s = .ok c' := by
  apply materializeLoop_noop s s [] 0 true c c' c' rfl rfl h (fun _ hk => hk)
  intro j q hq hqk hqd
  obtain ⟨added, e, pa⟩ := (materializeLoop_result s s [] 0 true c c' rfl rfl h).1.ext
  simp only [Dict.contains, e, Dict.get?_append]
  cases hg : c.args.get? (.idx j) with
  | some v => simp
  | none =>
    cases ha : added.get? (.idx j) with
    | none => simp
    | some v =>
      exfalso
      obtain ⟨_, p, _, hpd, _, hkey⟩ := pa (.idx j, v) (Dict.get?_mem added _ _ ha)
      rcases hkey with ⟨_, e'⟩ | ⟨_, i', hi', e'⟩
      · cases e'
      · simp only [Key.idx.injEq] at e'
        have : i' = j := by omega
        subst this
        rw [hi'] at hq; cases hq
        rw [hpd] at hqd; cases hqd

end Fiddle
