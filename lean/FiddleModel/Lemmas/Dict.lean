/-
Lemmas about the insertion-ordered association-list dict (`Fiddle.Dict`).
-/
import FiddleModel.Model.ArgStore

namespace Fiddle.Dict
variable {α : Type}

@[simp] theorem get?_nil (k : Key) : (Dict.get? ([] : Dict α) k) = none := rfl

theorem get?_set_same (d : Dict α) (k : Key) (v : α) : (d.set k v).get? k = some v := by
  induction d with
  | nil => simp [set, get?]
  | cons kv r ih =>
    obtain ⟨k', v'⟩ := kv
    by_cases h : k' = k
    · simp [set, get?, h]
    · simp [set, get?, h, ih]

theorem get?_set_other (d : Dict α) (k k' : Key) (v : α) (h : k ≠ k') :
    (d.set k v).get? k' = d.get? k' := by
  induction d with
  | nil => simp [set, get?, h]
  | cons kv r ih =>
    obtain ⟨k0, v0⟩ := kv
    by_cases h0 : k0 = k
    · subst h0; simp [set, get?, h]
    · by_cases h1 : k0 = k'
      · subst h1; simp [set, get?, h0]
      · simp [set, get?, h0, h1, ih]

theorem get?_del_other (d : Dict α) (k k' : Key) (h : k ≠ k') :
    (d.del k).get? k' = d.get? k' := by
  induction d with
  | nil => simp [del, get?]
  | cons kv r ih =>
    obtain ⟨k0, v0⟩ := kv
    by_cases h0 : k0 = k
    · subst h0; simp [del, get?, h]
    · by_cases h1 : k0 = k'
      · subst h1; simp [del, get?, h0]
      · simp [del, get?, h0, h1, ih]

/-- Keys are pairwise distinct (true of every Python dict). -/
def NodupKeys (d : Dict α) : Prop := d.keys.Nodup

theorem get?_none_of_not_mem (d : Dict α) (k : Key) (h : k ∉ d.keys) : d.get? k = none := by
  induction d with
  | nil => rfl
  | cons kv r ih =>
    obtain ⟨k0, v0⟩ := kv
    simp [keys] at h
    have h0 : ¬ k0 = k := fun e => h.1 e.symm
    simp [get?, h0]
    exact ih (by simpa [keys] using h.2)

theorem get?_del_same (d : Dict α) (k : Key) (hd : d.NodupKeys) : (d.del k).get? k = none := by
  induction d with
  | nil => rfl
  | cons kv r ih =>
    obtain ⟨k0, v0⟩ := kv
    have hd' : (k0 :: keys r).Nodup := by simpa [NodupKeys, keys] using hd
    rw [List.nodup_cons] at hd'
    by_cases h0 : k0 = k
    · subst h0
      simp [del]
      exact get?_none_of_not_mem r k0 hd'.1
    · simp [del, get?, h0]
      exact ih hd'.2

@[simp] theorem keys_cons (kv : Key × α) (r : Dict α) : keys (kv :: r) = kv.1 :: keys r := rfl
@[simp] theorem keys_nil : keys ([] : Dict α) = [] := rfl

theorem keys_set_subset (d : Dict α) (k : Key) (v : α) :
    ∀ x, x ∈ (d.set k v).keys → x = k ∨ x ∈ d.keys := by
  induction d with
  | nil => intro x hx; simp only [set, keys_cons, keys_nil, List.mem_singleton] at hx; exact Or.inl hx
  | cons kv r ih =>
    obtain ⟨k0, v0⟩ := kv
    intro x hx
    by_cases h0 : k0 = k
    · subst h0
      simp only [set, if_true, keys_cons, List.mem_cons] at hx ⊢
      rcases hx with h | h
      · exact Or.inl h
      · exact Or.inr (Or.inr h)
    · simp only [set, h0, if_false, keys_cons, List.mem_cons] at hx ⊢
      rcases hx with h | h
      · exact Or.inr (Or.inl h)
      · rcases ih x h with h' | h'
        · exact Or.inl h'
        · exact Or.inr (Or.inr h')

theorem nodup_set (d : Dict α) (k : Key) (v : α) (hd : d.NodupKeys) : (d.set k v).NodupKeys := by
  induction d with
  | nil => simp [set, NodupKeys, keys]
  | cons kv r ih =>
    obtain ⟨k0, v0⟩ := kv
    have hd' : (k0 :: keys r).Nodup := by simpa [NodupKeys, keys] using hd
    rw [List.nodup_cons] at hd'
    by_cases h0 : k0 = k
    · subst h0; simpa [set, NodupKeys, keys] using hd
    · simp only [set, h0, if_false, NodupKeys, keys, List.map_cons]
      rw [List.nodup_cons]
      refine ⟨?_, ih hd'.2⟩
      intro hm
      rcases keys_set_subset r k v k0 hm with h | h
      · exact h0 h
      · exact hd'.1 h

theorem keys_del_subset (d : Dict α) (k : Key) : ∀ x, x ∈ (d.del k).keys → x ∈ d.keys := by
  induction d with
  | nil => intro x hx; simpa [del] using hx
  | cons kv r ih =>
    obtain ⟨k0, v0⟩ := kv
    intro x hx
    by_cases h0 : k0 = k
    · simp only [del, h0, if_true, keys_cons, List.mem_cons] at hx ⊢; exact Or.inr hx
    · simp only [del, h0, if_false, keys_cons, List.mem_cons] at hx ⊢
      rcases hx with h | h
      · exact Or.inl h
      · exact Or.inr (ih x h)

theorem nodup_del (d : Dict α) (k : Key) (hd : d.NodupKeys) : (d.del k).NodupKeys := by
  induction d with
  | nil => simpa [del] using hd
  | cons kv r ih =>
    obtain ⟨k0, v0⟩ := kv
    have hd' : (k0 :: keys r).Nodup := by simpa [NodupKeys, keys] using hd
    rw [List.nodup_cons] at hd'
    by_cases h0 : k0 = k
    · simpa [del, h0, NodupKeys] using hd'.2
    · simp only [del, h0, if_false, NodupKeys, keys, List.map_cons]
      rw [List.nodup_cons]
      exact ⟨fun hm => hd'.1 (keys_del_subset r k k0 hm), ih hd'.2⟩

theorem contains_iff (d : Dict α) (k : Key) : d.contains k = true ↔ ∃ v, d.get? k = some v := by
  simp [contains, Option.isSome_iff_exists]

end Fiddle.Dict
