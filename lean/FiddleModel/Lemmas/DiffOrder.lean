/-
Independence of changes: reordering a change list by moving commuting steps past each other
does not change the result of a successful application.
-/
import FiddleModel.Lemmas.DiffMain

namespace Fiddle.Diff
open Fiddle

/-- `q` may be moved in front of `p`: whenever `p; q` succeeds, `q; p` succeeds with the same
    result. -/
def MovesBefore (sg : Sigs) (q p : Change) : Prop :=
  ∀ c c1 c2, apply1 sg c p = .ok c1 → apply1 sg c1 q = .ok c2 →
    ∃ c1', apply1 sg c q = .ok c1' ∧ apply1 sg c1' p = .ok c2

theorem applyAll_cons_ok (sg : Sigs) (c r : Flat) (x : Change) (l : List Change) :
    applyAll sg c (x :: l) = .ok r ↔ ∃ c1, apply1 sg c x = .ok c1 ∧ applyAll sg c1 l = .ok r := by
  simp only [applyAll]
  cases apply1 sg c x with
  | error e => simp
  | ok c1 => simp

theorem applyAll_append_ok (sg : Sigs) (c r : Flat) (a b : List Change) :
    applyAll sg c (a ++ b) = .ok r ↔ ∃ c1, applyAll sg c a = .ok c1 ∧ applyAll sg c1 b = .ok r := by
  rw [applyAll_append]
  cases applyAll sg c a with
  | error e => simp
  | ok c1 => simp

/-- Move one step in front of a whole list of steps it may be moved before. -/
theorem move_front (sg : Sigs) (q : Change) : ∀ (ps : List Change) (c r : Flat),
    (∀ p ∈ ps, MovesBefore sg q p) →
    applyAll sg c (ps ++ [q]) = .ok r → applyAll sg c (q :: ps) = .ok r := by
  intro ps
  induction ps with
  | nil => intro c r _ h; simpa using h
  | cons p ps ih =>
    intro c r hm h
    rw [List.cons_append, applyAll_cons_ok] at h
    obtain ⟨c1, h1, h2⟩ := h
    have h3 := ih c1 r (fun p' hp' => hm p' (by simp [hp'])) h2
    rw [applyAll_cons_ok] at h3
    obtain ⟨c2, h4, h5⟩ := h3
    obtain ⟨c1', h6, h7⟩ := hm p (by simp) c c1 c2 h1 h4
    rw [applyAll_cons_ok]
    refine ⟨c1', h6, ?_⟩
    rw [applyAll_cons_ok]
    exact ⟨c2, h7, h5⟩

/-- Separated to interleaved: if running all `P` steps and then all `Q` steps succeeds, so does
    running them in their original (interleaved) order, with the same result — provided every
    `Q` step may be moved before every `P` step. `L` contains only `P` and `Q` steps. -/
theorem interleave_of_separated (sg : Sigs) (P Q : Change → Bool) : ∀ (L : List Change) (c r : Flat),
    (∀ x ∈ L, P x = true ∨ Q x = true) → (∀ x ∈ L, ¬ (P x = true ∧ Q x = true)) →
    (∀ p ∈ L, ∀ q ∈ L, P p = true → Q q = true → MovesBefore sg q p) →
    applyAll sg c (L.filter P ++ L.filter Q) = .ok r → applyAll sg c L = .ok r := by
  intro L
  induction L with
  | nil => intro c r _ _ _ h; simpa using h
  | cons x xs ih =>
    intro c r hcls hex hm h
    have hcls' : ∀ y ∈ xs, P y = true ∨ Q y = true := fun y hy => hcls y (by simp [hy])
    have hex' : ∀ y ∈ xs, ¬ (P y = true ∧ Q y = true) := fun y hy => hex y (by simp [hy])
    have hm' : ∀ p ∈ xs, ∀ q ∈ xs, P p = true → Q q = true → MovesBefore sg q p :=
      fun p hp q hq => hm p (by simp [hp]) q (by simp [hq])
    rcases hcls x (by simp) with hp | hq
    · have hnq : Q x = false := by
        cases hqx : Q x with
        | false => rfl
        | true => exact absurd ⟨hp, hqx⟩ (hex x (by simp))
      simp only [List.filter_cons, hp, hnq, if_true, List.cons_append] at h
      rw [applyAll_cons_ok] at h ⊢
      obtain ⟨c1, h1, h2⟩ := h
      exact ⟨c1, h1, ih c1 r hcls' hex' hm' h2⟩
    · have hnp : P x = false := by
        cases hpx : P x with
        | false => rfl
        | true => exact absurd ⟨hpx, hq⟩ (hex x (by simp))
      simp only [List.filter_cons, hq, hnp, if_true] at h
      -- h : Ps ++ (x :: Qs)
      have h' : applyAll sg c ((xs.filter P ++ [x]) ++ xs.filter Q) = .ok r := by
        simpa [List.append_assoc] using h
      rw [applyAll_append_ok] at h'
      obtain ⟨c1, h1, h2⟩ := h'
      have h3 := move_front sg x (xs.filter P) c c1
        (fun p hp => hm p (by simp [(List.mem_filter.mp hp).1]) x (by simp)
          (List.mem_filter.mp hp).2 hq) h1
      rw [applyAll_cons_ok] at h3 ⊢
      obtain ⟨c0, h4, h5⟩ := h3
      refine ⟨c0, h4, ih c0 r hcls' hex' hm' ?_⟩
      rw [applyAll_append_ok]
      exact ⟨c1, h5, h2⟩

/-- Interleaved to "all `Q` first": if the interleaved run succeeds, so does running all `Q`
    steps first and then all `P` steps. -/
theorem qfirst_of_interleaved (sg : Sigs) (P Q : Change → Bool) : ∀ (L : List Change) (c r : Flat),
    (∀ x ∈ L, P x = true ∨ Q x = true) → (∀ x ∈ L, ¬ (P x = true ∧ Q x = true)) →
    (∀ p ∈ L, ∀ q ∈ L, P p = true → Q q = true → MovesBefore sg q p) →
    applyAll sg c L = .ok r → applyAll sg c (L.filter Q ++ L.filter P) = .ok r := by
  intro L
  induction L with
  | nil => intro c r _ _ _ h; simpa using h
  | cons x xs ih =>
    intro c r hcls hex hm h
    have hcls' : ∀ y ∈ xs, P y = true ∨ Q y = true := fun y hy => hcls y (by simp [hy])
    have hex' : ∀ y ∈ xs, ¬ (P y = true ∧ Q y = true) := fun y hy => hex y (by simp [hy])
    have hm' : ∀ p ∈ xs, ∀ q ∈ xs, P p = true → Q q = true → MovesBefore sg q p :=
      fun p hp q hq => hm p (by simp [hp]) q (by simp [hq])
    rw [applyAll_cons_ok] at h
    obtain ⟨c1, h1, h2⟩ := h
    have h3 := ih c1 r hcls' hex' hm' h2
    rcases hcls x (by simp) with hp | hq
    · have hnq : Q x = false := by
        cases hqx : Q x with
        | false => rfl
        | true => exact absurd ⟨hp, hqx⟩ (hex x (by simp))
      simp only [List.filter_cons, hp, hnq, if_true]
      -- want: Qs ++ (x :: Ps); have x; (Qs ++ Ps): move every Q in front of x
      rw [applyAll_append_ok] at h3
      obtain ⟨c2, h4, h5⟩ := h3
      -- x then Qs  ==> Qs then x, by moving each q before x
      have key : ∀ (qs : List Change) (c c1 c2 : Flat), (∀ q ∈ qs, MovesBefore sg q x) →
          apply1 sg c x = .ok c1 → applyAll sg c1 qs = .ok c2 →
          ∃ c', applyAll sg c qs = .ok c' ∧ apply1 sg c' x = .ok c2 := by
        intro qs
        induction qs with
        | nil => intro c c1 c2 _ hx hq; simp [applyAll] at hq; subst hq; exact ⟨c, rfl, hx⟩
        | cons q qs ihq =>
          intro c c1 c2 hmq hx hq
          rw [applyAll_cons_ok] at hq
          obtain ⟨d, hd1, hd2⟩ := hq
          obtain ⟨d', e1, e2⟩ := hmq q (by simp) c c1 d hx hd1
          obtain ⟨c', f1, f2⟩ := ihq d' d c2 (fun q' hq' => hmq q' (by simp [hq'])) e2 hd2
          exact ⟨c', by rw [applyAll_cons_ok]; exact ⟨d', e1, f1⟩, f2⟩
      obtain ⟨c', k1, k2⟩ := key (xs.filter Q) c c1 c2
        (fun q hq' => hm x (by simp) q (by simp [(List.mem_filter.mp hq').1]) hp
          (List.mem_filter.mp hq').2) h1 h4
      rw [applyAll_append_ok]
      refine ⟨c', k1, ?_⟩
      rw [applyAll_cons_ok]
      exact ⟨c2, k2, h5⟩
    · have hnp : P x = false := by
        cases hpx : P x with
        | false => rfl
        | true => exact absurd ⟨hpx, hq⟩ (hex x (by simp))
      simp only [List.filter_cons, hq, hnp, if_true, List.cons_append]
      rw [applyAll_cons_ok]
      exact ⟨c1, h1, h3⟩

end Fiddle.Diff

namespace Fiddle.Diff
open Fiddle

theorem keys_set_present {α} (d : Dict α) (k : Key) (v : α) (h : d.contains k = true) :
    (d.set k v).keys = d.keys := by
  induction d with
  | nil => simp [Dict.contains, Dict.get?] at h
  | cons kv r ih =>
    obtain ⟨k', v'⟩ := kv
    by_cases hk : k' = k
    · subst hk; simp [Dict.set, Dict.keys]
    · have hr : Dict.contains r k = true := by simpa [Dict.contains, Dict.get?, hk] using h
      have := ih hr
      simp only [Dict.keys] at this
      simp [Dict.set, hk, Dict.keys, this]

theorem set_comm {α} (d : Dict α) (k k' : Key) (v v' : α) (hne : k ≠ k')
    (hk : d.contains k = true) : (d.set k v).set k' v' = (d.set k' v').set k v := by
  induction d with
  | nil => simp [Dict.contains, Dict.get?] at hk
  | cons kv r ih =>
    obtain ⟨k0, v0⟩ := kv
    by_cases h0 : k0 = k
    · subst h0
      have : ¬ k0 = k' := hne
      simp [Dict.set, this]
    · have hr : Dict.contains r k = true := by simpa [Dict.contains, Dict.get?, h0] using hk
      by_cases h1 : k0 = k'
      · subst h1
        have : ¬ k0 = k := h0
        simp [Dict.set, this]
      · simp [Dict.set, h0, h1, ih hr]

/-- tag removal may be moved before a deletion -/
theorem moves_removeTag_deleteValue (sg : Sigs) (k : String) (t : Nat) (k' : String) :
    MovesBefore sg (.removeTag k t) (.deleteValue k') := by
  intro c c1 c2 h1 h2
  by_cases hd : c.args.contains (.name k') = true
  · simp only [apply1, hd, if_true, Except.ok.injEq] at h1
    subst h1
    by_cases ht : (c.tagsOf k).contains t = true
    · have ht' : (Flat.tagsOf { c with args := c.args.del (.name k') } k).contains t = true := ht
      simp only [apply1, ht', if_true, Except.ok.injEq] at h2
      subst h2
      exact ⟨{ c with tags := c.tags.set (.name k) ((c.tagsOf k).filter (· != t)) },
        by simp only [apply1, ht, if_true], by simp only [apply1, hd, if_true]; rfl⟩
    · have ht' : ¬ (Flat.tagsOf { c with args := c.args.del (.name k') } k).contains t = true := ht
      simp only [apply1] at h2
      split at h2
      · rename_i hm; exact absurd hm ht'
      · cases h2
  · simp only [apply1, if_neg hd] at h1; cases h1

/-- the callable change may be moved before a value modification -/
theorem moves_modifyFn_modifyValue (sg : Sigs) (f : String) (k : String) (v : Val) :
    MovesBefore sg (.modifyFn f) (.modifyValue k v) := by
  intro c c1 c2 h1 h2
  by_cases hc : c.args.contains (.name k) = true
  · simp only [apply1, hc, if_true, Except.ok.injEq] at h1
    subst h1
    by_cases hall : c.args.keys.all (accepts sg f) = true
    · have hall' : (c.args.set (.name k) v).keys.all (accepts sg f) = true := by
        rw [keys_set_present _ _ _ hc]; exact hall
      simp only [apply1, hall', if_true, Except.ok.injEq] at h2
      subst h2
      exact ⟨{ c with fn := f }, by simp only [apply1, hall, if_true],
        by simp only [apply1, hc, if_true]⟩
    · have hall' : ¬ (c.args.set (.name k) v).keys.all (accepts sg f) = true := by
        rw [keys_set_present _ _ _ hc]; exact hall
      simp [apply1, hall'] at h2
  · simp only [apply1, if_neg hc] at h1; cases h1

/-- a new argument may be set before a modification of a different argument -/
theorem moves_setValue_modifyValue (sg : Sigs) (k' : String) (v' : Val) (k : String) (v : Val)
    (hne : k ≠ k') : MovesBefore sg (.setValue k' v') (.modifyValue k v) := by
  intro c c1 c2 h1 h2
  by_cases hc : c.args.contains (.name k) = true
  · simp only [apply1, hc, if_true, Except.ok.injEq] at h1
    subst h1
    by_cases hacc : (sg c.fn).contains k' = true
    · simp only [apply1, hacc, if_true, Except.ok.injEq] at h2
      subst h2
      have hkk : (Key.name k) ≠ .name k' := by intro e; cases e; exact hne rfl
      have hc' : (c.args.set (.name k') v').contains (.name k) = true :=
        contains_set c.args (.name k') (.name k) v' hc
      refine ⟨{ c with args := c.args.set (.name k') v' }, by simp only [apply1, hacc, if_true], ?_⟩
      simp only [apply1, hc', if_true]
      rw [set_comm c.args (.name k) (.name k') v v' hkk hc]
    · simp only [apply1, if_neg hacc] at h2; cases h2
  · simp only [apply1, if_neg hc] at h1; cases h1

/-- a tag may be added before a value modification / a new argument (different fields) -/
theorem moves_addTag_modifyValue (sg : Sigs) (k : String) (t : Nat) (k' : String) (v : Val) :
    MovesBefore sg (.addTag k t) (.modifyValue k' v) := by
  intro c c1 c2 h1 h2
  by_cases hc : c.args.contains (.name k') = true
  · simp only [apply1, hc, if_true, Except.ok.injEq] at h1
    subst h1
    by_cases hacc : (sg c.fn).contains k = true
    · simp only [apply1, hacc, if_true, Except.ok.injEq] at h2
      subst h2
      exact ⟨{ c with tags := c.tags.set (.name k) (tagInsert (c.tagsOf k) t) },
        by simp only [apply1, hacc, if_true], by simp only [apply1, hc, if_true]; rfl⟩
    · simp only [apply1, if_neg hacc] at h2; cases h2
  · simp only [apply1, if_neg hc] at h1; cases h1

theorem moves_addTag_setValue (sg : Sigs) (k : String) (t : Nat) (k' : String) (v : Val) :
    MovesBefore sg (.addTag k t) (.setValue k' v) := by
  intro c c1 c2 h1 h2
  by_cases hc : (sg c.fn).contains k' = true
  · simp only [apply1, hc, if_true, Except.ok.injEq] at h1
    subst h1
    by_cases hacc : (sg c.fn).contains k = true
    · simp only [apply1, hacc, if_true, Except.ok.injEq] at h2
      subst h2
      exact ⟨{ c with tags := c.tags.set (.name k) (tagInsert (c.tagsOf k) t) },
        by simp only [apply1, hacc, if_true], by simp only [apply1, hc, if_true]; rfl⟩
    · simp only [apply1, if_neg hacc] at h2; cases h2
  · simp only [apply1, if_neg hc] at h1; cases h1

end Fiddle.Diff

namespace Fiddle.Diff
open Fiddle

def Change.isD : Change → Bool | .deleteValue _ => true | _ => false
def Change.isR : Change → Bool | .removeTag _ _ => true | _ => false
def Change.isM : Change → Bool | .modifyValue _ _ => true | _ => false
def Change.isS : Change → Bool | .setValue _ _ => true | _ => false
def Change.isA : Change → Bool | .addTag _ _ => true | _ => false
def Change.isFM (c : Change) : Bool := c.isFn || c.isM
def Change.isMS (c : Change) : Bool := c.isM || c.isS

theorem filter_filter_sub {α} (l : List α) (p q : α → Bool) (h : ∀ x, q x = true → p x = true) :
    (l.filter p).filter q = l.filter q := by
  rw [List.filter_filter]
  apply List.filter_congr
  intro x _
  cases hq : q x with
  | false => simp
  | true => simp [h x hq]

theorem opType_filters (chs : List Change) :
    chs.filter (fun ch => ch.opType == "DeleteValue") = chs.filter Change.isD ∧
    chs.filter (fun ch => ch.opType == "RemoveTag") = chs.filter Change.isR ∧
    chs.filter (fun ch => ch.opType == "ModifyValue") = chs.filter Change.isFM ∧
    chs.filter (fun ch => ch.opType == "SetValue") = chs.filter Change.isS ∧
    chs.filter (fun ch => ch.opType == "AddTag") = chs.filter Change.isA := by
  refine ⟨?_, ?_, ?_, ?_, ?_⟩ <;>
  · apply List.filter_congr
    intro x _
    cases x <;> simp [Change.opType, Change.isD, Change.isR, Change.isFM, Change.isFn, Change.isM,
      Change.isS, Change.isA]

/-- `_apply_changes` (five phases) as one sequential application. -/
theorem applyPhases_concat (sg : Sigs) (chs : List Change) (c : Flat) :
    applyPhases sg ["DeleteValue", "RemoveTag", "ModifyValue", "SetValue", "AddTag"] chs c =
      applyAll sg c (chs.filter Change.isD ++ (chs.filter Change.isR ++ (chs.filter Change.isFM ++
        (chs.filter Change.isS ++ chs.filter Change.isA)))) := by
  obtain ⟨f1, f2, f3, f4, f5⟩ := opType_filters chs
  simp only [applyPhases, f1, f2, f3, f4, f5]
  rw [applyAll_append]
  cases applyAll sg c (chs.filter Change.isD) with
  | error e => rfl
  | ok c1 =>
    simp only []
    rw [applyAll_append]
    cases applyAll sg c1 (chs.filter Change.isR) with
    | error e => rfl
    | ok c2 =>
      simp only []
      rw [applyAll_append]
      cases applyAll sg c2 (chs.filter Change.isFM) with
      | error e => rfl
      | ok c3 =>
        simp only []
        rw [applyAll_append]
        cases applyAll sg c3 (chs.filter Change.isS) with
        | error e => rfl
        | ok c4 =>
          simp only []
          cases applyAll sg c4 (chs.filter Change.isA) <;> rfl

/-- **The generated fiddler's order is as good as `_apply_changes`' order**: whenever the
    five-phase application of a change list succeeds, applying the same changes in the order a
    fiddler executes them (deletions and tag removals in diff order, the callable, assignments
    and tag additions in diff order) succeeds with exactly the same configuration. The only
    requirement on the change list: no argument is both modified and set. -/
theorem regroup_of_phases (sg : Sigs) (chs : List Change)
    (hMS : ∀ k v k' v', Change.modifyValue k v ∈ chs → Change.setValue k' v' ∈ chs → k ≠ k')
    (c r : Flat)
    (h : applyPhases sg ["DeleteValue", "RemoveTag", "ModifyValue", "SetValue", "AddTag"] chs c = .ok r) :
    applyAll sg c (regroup chs) = .ok r := by
  rw [applyPhases_concat] at h
  -- split the sequential run
  rw [← List.append_assoc, applyAll_append_ok] at h
  obtain ⟨s1, hDR, h⟩ := h
  rw [applyAll_append_ok] at h
  obtain ⟨s2, hFM, hSA⟩ := h
  -- (D ++ R) -> interleaved deletions
  have e1 : (chs.filter Change.isDeleteLike).filter Change.isD = chs.filter Change.isD :=
    filter_filter_sub _ _ _ (by intro x hx; cases x <;> simp_all [Change.isD, Change.isDeleteLike])
  have e2 : (chs.filter Change.isDeleteLike).filter Change.isR = chs.filter Change.isR :=
    filter_filter_sub _ _ _ (by intro x hx; cases x <;> simp_all [Change.isR, Change.isDeleteLike])
  have hDL : applyAll sg c (chs.filter Change.isDeleteLike) = .ok s1 := by
    apply interleave_of_separated sg Change.isD Change.isR
    · intro x hx
      have := (List.mem_filter.mp hx).2
      cases x <;> simp_all [Change.isD, Change.isR, Change.isDeleteLike]
    · intro x _; cases x <;> simp [Change.isD, Change.isR]
    · intro p _ q _ hp hq
      cases p <;> simp [Change.isD] at hp
      cases q <;> simp [Change.isR] at hq
      exact moves_removeTag_deleteValue sg _ _ _
    · rw [e1, e2]; exact hDR
  -- interleaved (F|M) -> F first
  have e3 : (chs.filter Change.isFM).filter Change.isFn = chs.filter Change.isFn :=
    filter_filter_sub _ _ _ (by intro x hx; simp [Change.isFM, hx])
  have e4 : (chs.filter Change.isFM).filter Change.isM = chs.filter Change.isM :=
    filter_filter_sub _ _ _ (by intro x hx; simp [Change.isFM, hx])
  have hFM' : applyAll sg s1 (chs.filter Change.isFn ++ chs.filter Change.isM) = .ok s2 := by
    rw [← e3, ← e4]
    apply qfirst_of_interleaved sg Change.isM Change.isFn
    · intro x hx
      have := (List.mem_filter.mp hx).2
      simp only [Change.isFM, Bool.or_eq_true] at this
      exact this.symm
    · intro x _; cases x <;> simp [Change.isM, Change.isFn]
    · intro p _ q _ hp hq
      cases p <;> simp [Change.isM] at hp
      cases q <;> simp [Change.isFn] at hq
      exact moves_modifyFn_modifyValue sg _ _ _
    · exact hFM
  rw [applyAll_append_ok] at hFM'
  obtain ⟨t1, hF, hM⟩ := hFM'
  -- M ++ S -> interleaved (M|S)
  rw [applyAll_append_ok] at hSA
  obtain ⟨s3, hS, hA⟩ := hSA
  have e5 : (chs.filter Change.isMS).filter Change.isM = chs.filter Change.isM :=
    filter_filter_sub _ _ _ (by intro x hx; simp [Change.isMS, hx])
  have e6 : (chs.filter Change.isMS).filter Change.isS = chs.filter Change.isS :=
    filter_filter_sub _ _ _ (by intro x hx; simp [Change.isMS, hx])
  have hMS' : applyAll sg t1 (chs.filter Change.isMS) = .ok s3 := by
    apply interleave_of_separated sg Change.isM Change.isS
    · intro x hx
      have := (List.mem_filter.mp hx).2
      simpa [Change.isMS] using this
    · intro x _; cases x <;> simp [Change.isM, Change.isS]
    · intro p hp' q hq' hp hq
      cases p <;> simp [Change.isM] at hp
      cases q <;> simp [Change.isS] at hq
      rename_i k v k' v'
      exact moves_setValue_modifyValue sg k' v' k v
        (hMS k v k' v' (List.mem_filter.mp hp').1 (List.mem_filter.mp hq').1)
    · rw [e5, e6, applyAll_append_ok]; exact ⟨s2, hM, hS⟩
  -- (M|S) ++ A -> interleaved assignments
  have e7 : (chs.filter Change.isAssignLike).filter Change.isMS = chs.filter Change.isMS :=
    filter_filter_sub _ _ _ (by intro x hx; cases x <;> simp_all [Change.isMS, Change.isM, Change.isS, Change.isAssignLike])
  have e8 : (chs.filter Change.isAssignLike).filter Change.isA = chs.filter Change.isA :=
    filter_filter_sub _ _ _ (by intro x hx; cases x <;> simp_all [Change.isA, Change.isAssignLike])
  have hAL : applyAll sg t1 (chs.filter Change.isAssignLike) = .ok r := by
    apply interleave_of_separated sg Change.isMS Change.isA
    · intro x hx
      have := (List.mem_filter.mp hx).2
      cases x <;> simp_all [Change.isMS, Change.isM, Change.isS, Change.isA, Change.isAssignLike]
    · intro x _; cases x <;> simp [Change.isMS, Change.isM, Change.isS, Change.isA]
    · intro p _ q _ hp hq
      cases q <;> simp [Change.isA] at hq
      cases p <;> simp [Change.isMS, Change.isM, Change.isS] at hp
      · exact moves_addTag_modifyValue sg _ _ _ _
      · exact moves_addTag_setValue sg _ _ _ _
    · rw [e7, e8, applyAll_append_ok]; exact ⟨s3, hMS', hA⟩
  -- assemble
  unfold regroup
  rw [List.append_assoc, applyAll_append_ok]
  refine ⟨s1, hDL, ?_⟩
  rw [applyAll_append_ok]
  exact ⟨t1, hF, hAL⟩

end Fiddle.Diff
