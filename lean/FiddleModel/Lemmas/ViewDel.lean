/-
Deleting the value stored for a positional slot shows, in that slot of the view, what an
unconfigured Buildable shows there (the parameter's default, else NO_VALUE) and changes no other slot.
-/
import FiddleModel.Lemmas.ViewSet

namespace Fiddle
open Sig

theorem viewSlots_del (s : Sig) (d : Dict Val) (k : Key) (hd : d.NodupKeys) :
    ∀ (ps : List Param) (i0 j : Nat), (posKeys ps i0).Nodup → (posKeys ps i0)[j]? = some k →
      viewSlots s (d.del k) ps i0 =
        (viewSlots s d ps i0).set j ((viewSlots s ([] : Dict Val) ps i0).getD j .nov) := by
  intro ps
  induction ps with
  | nil => intro i0 j _ h; simp [posKeys] at h
  | cons p ps ih =>
    intro i0 j nd h
    simp only [viewSlots, posKeys] at nd h ⊢
    cases hk : posKey p i0 with
    | none => simp only [hk] at nd h ⊢; exact ih (i0 + 1) j nd h
    | some k0 =>
      simp only [hk] at nd h ⊢
      rw [List.nodup_cons] at nd
      cases j with
      | zero =>
        simp only [List.getElem?_cons_zero, Option.some.injEq] at h
        subst h
        simp only [List.set_cons_zero, Dict.get?_del_same _ _ hd, Option.getD_none, List.getD_cons_zero]
        have he : Dict.get? ([] : Dict Val) k0 = none := rfl
        rw [he, Option.getD_none]
        congr 1
        apply viewSlots_congr'
        intro k' hk'
        exact Dict.get?_del_other _ _ _ (fun e => nd.1 (e ▸ hk'))
      | succ j' =>
        simp only [List.getElem?_cons_succ] at h
        have hne : k ≠ k0 := by
          intro e; subst e
          exact nd.1 (List.mem_of_getElem? h)
        simp only [List.set_cons_succ, Dict.get?_del_other _ _ _ hne, List.getD_cons_succ]
        rw [ih (i0 + 1) j' nd.2 h]

end Fiddle
