/-
`fdl.build` succeeds on every well-formed (acyclic) configuration all of whose calls bind:
no cycle error, no fuel error, no failed call. Used by C11: the configuration `as_buildable`
returns for a program whose direct call succeeds is such a configuration.
-/
import FiddleModel.Lemmas.Build

namespace Fiddle

/-- Every Buildable's call binds, whatever values its arguments were built to. -/
def Heap.Binds (h : Heap) : Prop :=
  ∀ o ∈ h, o.kind = .cfg → ∀ vals, ∃ r, bindBuilt o vals = .ok r

theorem buildChildren_total (h : Heap) (f : Nat)
    (ihv : ∀ v path st, BuildSt.Inv h st →
      (∀ i, v = .ref i → i < f ∧ i < h.length ∧ ∀ k ∈ st.onStack, i < k) →
      ∃ r st', buildVal h [] (f + 1) v path st = .ok (r, st'))
    (cs : List (PElem × GVal)) (path : Path) (st : BuildSt) (hi : st.Inv h)
    (hcs : ∀ c ∈ cs, ∀ j, c.2 = .ref j → j < f ∧ j < h.length ∧ ∀ k ∈ st.onStack, j < k) :
    ∃ rs st', buildChildren h [] (f + 1) cs path st = .ok (rs, st') := by
  induction cs generalizing st with
  | nil => exact ⟨[], st, by simp [buildChildren]⟩
  | cons c cs ih =>
    obtain ⟨pe, v⟩ := c
    obtain ⟨r, st1, h1⟩ := ihv v (path ++ [pe]) st hi (fun i hv => hcs (pe, v) (by simp) i hv)
    have s1 := (buildVal_step h [] (f + 1) v _ st r st1 h1 hi).1
    obtain ⟨rs, st2, h2⟩ := ih st1 s1.inv (by
      intro c hc j hj
      have := hcs c (by simp [hc]) j hj
      rw [s1.stackEq]
      exact this)
    exact ⟨r :: rs, st2, by simp [buildChildren, h1, h2]⟩

theorem buildVal_total (h : Heap) (wf : h.WellFormed) (hb : h.Binds) :
    ∀ (f : Nat) (v : GVal) (path : Path) (st : BuildSt), st.Inv h →
      (∀ i, v = .ref i → i < f ∧ i < h.length ∧ ∀ k ∈ st.onStack, i < k) →
      ∃ r st', buildVal h [] (f + 1) v path st = .ok (r, st') := by
  intro f
  induction f with
  | zero =>
    intro v path st _ hv
    cases v with
    | atom t => simp [buildVal]
    | ref i => exact absurd (hv i rfl).1 (by omega)
  | succ f ih =>
    intro v path st hi hv
    cases v with
    | atom t => simp [buildVal]
    | ref i =>
      obtain ⟨hif, hil, hstk⟩ := hv i rfl
      cases hmemo : memoGet st.memo i with
      | some r => exact ⟨r, st, by simp [buildVal, hmemo]⟩
      | none =>
        have hns : i ∉ st.onStack := fun hin => absurd (hstk i hin) (by omega)
        obtain ⟨o, ho⟩ : ∃ o, h[i]? = some o := ⟨h[i], by simp [hil]⟩
        by_cases hop : o.kind = .opaque
        · simp [buildVal, hmemo, hns, ho, hop]
        · have hi1 : BuildSt.Inv h ({ st with onStack := i :: st.onStack } : BuildSt) :=
            ⟨hi.nodup, hi.logged, by
              intro j hj
              simp at hj
              rcases hj with rfl | hj
              · exact hmemo
              · exact hi.stack j hj, hi.closed, hi.cfgLogged, hi.ordered, hi.fresh, hi.inj⟩
          obtain ⟨vals, st2, hch⟩ := buildChildren_total h f ih o.children path _ hi1 (by
            intro c hc j hj
            have hji := wf i o ho c hc j hj
            refine ⟨by omega, by omega, ?_⟩
            intro k hk
            simp at hk
            rcases hk with rfl | hk
            · exact hji
            · have := hstk k hk; omega)
          have hop' : (o.kind == NKind.opaque) = false := by simpa using hop
          by_cases hcfg : o.kind = .cfg
          · obtain ⟨r, hr⟩ := hb o (List.mem_of_getElem? ho) hcfg vals
            obtain ⟨slots, var, kw⟩ := r
            simp [buildVal, hmemo, hns, ho, hop', hch, hcfg, hr]
          · have hcfg' : (o.kind == NKind.cfg) = false := by simpa using hcfg
            simp [buildVal, hmemo, hns, ho, hop', hch, hcfg']

/-- `fdl.build` of an acyclic configuration whose calls all bind returns. -/
theorem build_total (h : Heap) (wf : h.WellFormed) (hb : h.Binds) (root : GVal)
    (hr : ∀ i, root = .ref i → i < h.length) : ∃ r st, build h [] root = .ok (r, st) := by
  unfold build
  exact buildVal_total h wf hb h.length root [] {} (BuildSt.inv_init h)
    (fun i hi => ⟨hr i hi, hr i hi, by simp⟩)

end Fiddle
