/-
Call-time evaluation of built Partial arguments: pass-through and freshness.
-/
import FiddleModel.Model.Partial

namespace Fiddle

mutual
/-- The value delivered for an argument that involves no factory: itself, build-time
    identities kept. -/
def AV.embed : AV → RV
  | .atom t => .atom t
  | .leaf i t => .leaf i t
  | .fac fn _ _ _ => .atom fn      -- not used: factories are never embedded
  | .cont i kind ty ch => .cont (.build i) kind ty (AV.embedCh ch)
def AV.embedCh : List (PElem × AV) → List (PElem × RV)
  | [] => []
  | (k, a) :: r => (k, a.embed) :: AV.embedCh r
end

mutual
/-- Identities allocated at call time that occur in a delivered value (with multiplicity). -/
def RV.freshIds : RV → List Nat
  | .atom _ => []
  | .leaf _ _ => []
  | .dflt _ => []
  | .obj n _ slots var kw => n :: (RV.freshIdsKw slots ++ RV.freshIdsL var ++ RV.freshIdsKw kw)
  | .cont (.fresh n) _ _ ch => n :: RV.freshIdsCh ch
  | .cont (.build _) _ _ ch => RV.freshIdsCh ch
def RV.freshIdsL : List RV → List Nat
  | [] => []
  | a :: r => a.freshIds ++ RV.freshIdsL r
def RV.freshIdsKw : List (String × RV) → List Nat
  | [] => []
  | (_, a) :: r => a.freshIds ++ RV.freshIdsKw r
def RV.freshIdsCh : List (PElem × RV) → List Nat
  | [] => []
  | (_, a) :: r => a.freshIds ++ RV.freshIdsCh r
end

/-! ## Pass-through -/

mutual
theorem AV.invoke_noFactory : ∀ (a : AV) (ctr : Nat), a.hasFactory = false →
    a.invoke ctr = some (a.embed, ctr)
  | .atom t, ctr, _ => by simp [AV.invoke, AV.embed]
  | .leaf i t, ctr, _ => by simp [AV.invoke, AV.embed]
  | .fac fn sig args kw, ctr, h => by simp [AV.hasFactory] at h
  | .cont i kind ty ch, ctr, h => by
    have h' : AV.hasFactoryL ch = false := by simpa [AV.hasFactory] using h
    simp [AV.invoke, AV.embed, h', AV.invokeCh_noFactory ch ctr h']
theorem AV.invokeCh_noFactory : ∀ (ch : List (PElem × AV)) (ctr : Nat),
    AV.hasFactoryL ch = false → AV.invokeCh ch ctr = some (AV.embedCh ch, ctr)
  | [], ctr, _ => by simp [AV.invokeCh, AV.embedCh]
  | (k, a) :: r, ctr, h => by
    have h' : a.hasFactory = false ∧ AV.hasFactoryL r = false := by
      simpa [AV.hasFactoryL] using h
    simp [AV.invokeCh, AV.embedCh, AV.invoke_noFactory a ctr h'.1,
      AV.invokeCh_noFactory r ctr h'.2]
end

mutual
theorem AV.embed_noFresh : ∀ (a : AV), a.embed.freshIds = []
  | .atom t => by simp [AV.embed, RV.freshIds]
  | .leaf i t => by simp [AV.embed, RV.freshIds]
  | .fac fn _ _ _ => by simp [AV.embed, RV.freshIds]
  | .cont i kind ty ch => by simp [AV.embed, RV.freshIds, AV.embedCh_noFresh ch]
theorem AV.embedCh_noFresh : ∀ (ch : List (PElem × AV)), RV.freshIdsCh (AV.embedCh ch) = []
  | [] => by simp [AV.embedCh, RV.freshIdsCh]
  | (k, a) :: r => by simp [AV.embedCh, RV.freshIdsCh, AV.embed_noFresh a, AV.embedCh_noFresh r]
end

/-! ## Freshness -/

/-- All ids of `l` lie in `[lo, hi)`. -/
def InRange (l : List Nat) (lo hi : Nat) : Prop := ∀ n ∈ l, lo ≤ n ∧ n < hi

theorem InRange.nil (lo hi : Nat) : InRange [] lo hi := by intro n hn; cases hn

theorem InRange.mono {l : List Nat} {a b a' b' : Nat} (h : InRange l a b) (ha : a' ≤ a)
    (hb : b ≤ b') : InRange l a' b' := by
  intro n hn; have := h n hn; omega

theorem InRange.append {l1 l2 : List Nat} {a b : Nat} (h1 : InRange l1 a b) (h2 : InRange l2 a b) :
    InRange (l1 ++ l2) a b := by
  intro n hn
  rcases List.mem_append.mp hn with hn | hn
  · exact h1 n hn
  · exact h2 n hn

theorem InRange.cons {l : List Nat} {a b n : Nat} (h : InRange l a b) (hn : a ≤ n ∧ n < b) :
    InRange (n :: l) a b := by
  intro m hm
  rcases List.mem_cons.mp hm with rfl | hm
  · exact hn
  · exact h m hm

theorem freshIdsL_mem (l : List RV) (v : RV) (hv : v ∈ l) : ∀ n ∈ v.freshIds, n ∈ RV.freshIdsL l := by
  induction l with
  | nil => cases hv
  | cons x xs ih =>
    intro n hn
    simp only [RV.freshIdsL, List.mem_append]
    rcases List.mem_cons.mp hv with rfl | hv
    · exact Or.inl hn
    · exact Or.inr (ih hv n hn)

theorem freshIdsL_append (l1 l2 : List RV) :
    RV.freshIdsL (l1 ++ l2) = RV.freshIdsL l1 ++ RV.freshIdsL l2 := by
  induction l1 with
  | nil => simp [RV.freshIdsL]
  | cons x xs ih => simp [RV.freshIdsL, ih, List.append_assoc]

theorem freshIdsL_kwvals (kw : List (String × RV)) :
    RV.freshIdsL (kw.map (·.2)) = RV.freshIdsKw kw := by
  induction kw with
  | nil => simp [RV.freshIdsL, RV.freshIdsKw]
  | cons x xs ih => obtain ⟨k, v⟩ := x; simp [RV.freshIdsL, RV.freshIdsKw, ih]

theorem getD_ids (all : List RV) (k : Nat) :
    ∀ n ∈ (all.getD k (.atom "?")).freshIds, n ∈ RV.freshIdsL all := by
  intro n hn
  rw [List.getD_eq_getElem?_getD] at hn
  cases hk : all[k]? with
  | none => simp [hk, RV.freshIds] at hn
  | some v =>
    simp [hk] at hn
    exact freshIdsL_mem all v (List.mem_of_getElem? hk) n hn

theorem back_ids (all : List RV) (v : Val) :
    ∀ n ∈ (match v with
            | .v k => all.getD k (.atom "?")
            | .d name => RV.dflt name
            | _ => RV.atom "?").freshIds, n ∈ RV.freshIdsL all := by
  intro n hn
  cases v with
  | v k => exact getD_ids all k n hn
  | d name => simp [RV.freshIds] at hn
  | nov => simp [RV.freshIds] at hn
  | tv tags inner => simp [RV.freshIds] at hn

theorem bindRV_ids (sig : Sig) (args : List RV) (kw : List (String × RV))
    (slots : List (String × RV)) (var : List RV) (kwr : List (String × RV))
    (hb : bindRV sig args kw = some (slots, var, kwr)) :
    ∀ n ∈ RV.freshIdsKw slots ++ RV.freshIdsL var ++ RV.freshIdsKw kwr,
      n ∈ RV.freshIdsL args ++ RV.freshIdsKw kw := by
  unfold bindRV at hb
  simp only at hb
  split at hb
  · cases hb
  · rename_i b _
    simp only [Option.some.injEq, Prod.mk.injEq] at hb
    obtain ⟨rfl, rfl, rfl⟩ := hb
    have key : ∀ n, n ∈ RV.freshIdsL (args ++ kw.map (·.2)) →
        n ∈ RV.freshIdsL args ++ RV.freshIdsKw kw := by
      intro n hn
      rwa [freshIdsL_append, freshIdsL_kwvals] at hn
    have hkw : ∀ (l : List (String × Val)) n,
        n ∈ RV.freshIdsKw (l.map (fun (x : String × Val) => (x.1,
          (match x.2 with
            | .v k => (args ++ kw.map (·.2)).getD k (.atom "?")
            | .d name => RV.dflt name
            | _ => RV.atom "?")))) → n ∈ RV.freshIdsL (args ++ kw.map (·.2)) := by
      intro l
      induction l with
      | nil => intro n hn; simp [RV.freshIdsKw] at hn
      | cons x xs ih =>
        intro n hn
        simp only [List.map_cons, RV.freshIdsKw, List.mem_append] at hn
        rcases hn with hn | hn
        · exact back_ids _ x.2 n hn
        · exact ih n hn
    have hl : ∀ (l : List Val) n,
        n ∈ RV.freshIdsL (l.map (fun (v : Val) =>
          (match v with
            | .v k => (args ++ kw.map (·.2)).getD k (.atom "?")
            | .d name => RV.dflt name
            | _ => RV.atom "?"))) → n ∈ RV.freshIdsL (args ++ kw.map (·.2)) := by
      intro l
      induction l with
      | nil => intro n hn; simp [RV.freshIdsL] at hn
      | cons x xs ih =>
        intro n hn
        simp only [List.map_cons, RV.freshIdsL, List.mem_append] at hn
        rcases hn with hn | hn
        · exact back_ids _ x n hn
        · exact ih n hn
    intro n hn
    simp only [List.mem_append] at hn
    rcases hn with (hn | hn) | hn
    · exact key n (hkw _ n hn)
    · exact key n (hl _ n hn)
    · exact key n (hkw _ n hn)

mutual
theorem AV.invoke_range : ∀ (a : AV) (ctr : Nat) (v : RV) (ctr' : Nat),
    a.invoke ctr = some (v, ctr') → ctr ≤ ctr' ∧ InRange v.freshIds ctr ctr'
  | .atom t, ctr, v, ctr', h => by
    simp [AV.invoke] at h; obtain ⟨rfl, rfl⟩ := h
    exact ⟨Nat.le_refl _, by simp [RV.freshIds, InRange.nil]⟩
  | .leaf i t, ctr, v, ctr', h => by
    simp [AV.invoke] at h; obtain ⟨rfl, rfl⟩ := h
    exact ⟨Nat.le_refl _, by simp [RV.freshIds, InRange.nil]⟩
  | .fac fn sig args kw, ctr, v, ctr', h => by
    simp only [AV.invoke] at h
    split at h
    · cases h
    · rename_i as ctr1 h1
      split at h
      · cases h
      · rename_i ks ctr2 h2
        split at h
        · cases h
        · rename_i slots var kwr hb
          simp only [Option.some.injEq, Prod.mk.injEq] at h
          obtain ⟨rfl, rfl⟩ := h
          obtain ⟨l1, r1⟩ := AV.invokeArgs_range args ctr as ctr1 h1
          obtain ⟨l2, r2⟩ := AV.invokeKw_range kw ctr1 ks ctr2 h2
          refine ⟨by omega, ?_⟩
          simp only [RV.freshIds]
          apply InRange.cons
          · intro n hn
            have := bindRV_ids sig as ks slots var kwr hb n hn
            rcases List.mem_append.mp this with hm | hm
            · have := r1 n hm; omega
            · have := r2 n hm; omega
          · omega
  | .cont i kind ty ch, ctr, v, ctr', h => by
    simp only [AV.invoke] at h
    split at h
    · split at h
      · cases h
      · rename_i rs ctr1 h1
        simp only [Option.some.injEq, Prod.mk.injEq] at h
        obtain ⟨rfl, rfl⟩ := h
        obtain ⟨l1, r1⟩ := AV.invokeCh_range ch ctr rs ctr1 h1
        refine ⟨by omega, ?_⟩
        simp only [RV.freshIds]
        exact InRange.cons (r1.mono (Nat.le_refl _) (by omega)) (by omega)
    · split at h
      · cases h
      · rename_i rs ctr1 h1
        simp only [Option.some.injEq, Prod.mk.injEq] at h
        obtain ⟨rfl, rfl⟩ := h
        obtain ⟨l1, r1⟩ := AV.invokeCh_range ch ctr rs _ h1
        exact ⟨l1, by simpa [RV.freshIds] using r1⟩
theorem AV.invokeArgs_range : ∀ (l : List AV) (ctr : Nat) (vs : List RV) (ctr' : Nat),
    AV.invokeArgs l ctr = some (vs, ctr') → ctr ≤ ctr' ∧ InRange (RV.freshIdsL vs) ctr ctr'
  | [], ctr, vs, ctr', h => by
    simp [AV.invokeArgs] at h; obtain ⟨rfl, rfl⟩ := h
    exact ⟨Nat.le_refl _, by simp [RV.freshIdsL, InRange.nil]⟩
  | a :: r, ctr, vs, ctr', h => by
    simp only [AV.invokeArgs] at h
    split at h
    · cases h
    · rename_i v ctr1 h1
      split at h
      · cases h
      · rename_i vs' ctr2 h2
        simp only [Option.some.injEq, Prod.mk.injEq] at h
        obtain ⟨rfl, rfl⟩ := h
        obtain ⟨l1, r1⟩ := AV.invoke_range a ctr v ctr1 h1
        obtain ⟨l2, r2⟩ := AV.invokeArgs_range r ctr1 vs' _ h2
        refine ⟨by omega, ?_⟩
        simp only [RV.freshIdsL]
        exact (r1.mono (Nat.le_refl _) l2).append (r2.mono l1 (Nat.le_refl _))
theorem AV.invokeKw_range : ∀ (l : List (String × AV)) (ctr : Nat) (vs : List (String × RV))
    (ctr' : Nat),
    AV.invokeKw l ctr = some (vs, ctr') → ctr ≤ ctr' ∧ InRange (RV.freshIdsKw vs) ctr ctr'
  | [], ctr, vs, ctr', h => by
    simp [AV.invokeKw] at h; obtain ⟨rfl, rfl⟩ := h
    exact ⟨Nat.le_refl _, by simp [RV.freshIdsKw, InRange.nil]⟩
  | (k, a) :: r, ctr, vs, ctr', h => by
    simp only [AV.invokeKw] at h
    split at h
    · cases h
    · rename_i v ctr1 h1
      split at h
      · cases h
      · rename_i vs' ctr2 h2
        simp only [Option.some.injEq, Prod.mk.injEq] at h
        obtain ⟨rfl, rfl⟩ := h
        obtain ⟨l1, r1⟩ := AV.invoke_range a ctr v ctr1 h1
        obtain ⟨l2, r2⟩ := AV.invokeKw_range r ctr1 vs' _ h2
        refine ⟨by omega, ?_⟩
        simp only [RV.freshIdsKw]
        exact (r1.mono (Nat.le_refl _) l2).append (r2.mono l1 (Nat.le_refl _))
theorem AV.invokeCh_range : ∀ (l : List (PElem × AV)) (ctr : Nat) (vs : List (PElem × RV))
    (ctr' : Nat),
    AV.invokeCh l ctr = some (vs, ctr') → ctr ≤ ctr' ∧ InRange (RV.freshIdsCh vs) ctr ctr'
  | [], ctr, vs, ctr', h => by
    simp [AV.invokeCh] at h; obtain ⟨rfl, rfl⟩ := h
    exact ⟨Nat.le_refl _, by simp [RV.freshIdsCh, InRange.nil]⟩
  | (k, a) :: r, ctr, vs, ctr', h => by
    simp only [AV.invokeCh] at h
    split at h
    · cases h
    · rename_i v ctr1 h1
      split at h
      · cases h
      · rename_i vs' ctr2 h2
        simp only [Option.some.injEq, Prod.mk.injEq] at h
        obtain ⟨rfl, rfl⟩ := h
        obtain ⟨l1, r1⟩ := AV.invoke_range a ctr v ctr1 h1
        obtain ⟨l2, r2⟩ := AV.invokeCh_range r ctr1 vs' _ h2
        refine ⟨by omega, ?_⟩
        simp only [RV.freshIdsCh]
        exact (r1.mono (Nat.le_refl _) l2).append (r2.mono l1 (Nat.le_refl _))
end

end Fiddle
