/-
The sharing walk of `Buildable.__eq__` (`shareVisit`) characterised declaratively:

  the walk from `(v, w)` succeeds   ⟺   there is a one-to-one correspondence `B` between
  objects of the two heaps that contains the pair `(v, w)` (unless it is skipped) and is closed:
  paired objects have the same keys and their children under equal keys are again paired (or
  skipped).

Soundness (`shareVisit_sound`): what the walk records is such a correspondence.
Completeness (`shareVisit_complete`): if one exists, the walk cannot fail.
Symmetry and invariance under the order of children follow because the right-hand side does
not mention the order in which anything is visited.
-/
import FiddleModel.Model.Eq
import FiddleModel.Lemmas.EqSymm

namespace Fiddle

/-- The walk does not descend into (or record) a pair with an internable side. -/
def skipB (h1 h2 : Heap) (v w : GVal) : Bool :=
  isInternable h1 (h1.length + 1) v || isInternable h2 (h2.length + 1) w

theorem isInternable_atom (h : Heap) (n : Nat) (t : String) : isInternable h n (.atom t) = true := by
  cases n <;> rfl

/-- The two maps are each other's inverse and have distinct keys. -/
structure ShareSt.Inv (st : ShareSt) : Prop where
  inv : st.yToX = st.xToY.map Prod.swap
  nd1 : (st.xToY.map (·.1)).Nodup
  nd2 : (st.xToY.map (·.2)).Nodup

theorem ShareSt.inv_empty : ({} : ShareSt).Inv := ⟨rfl, by simp, by simp⟩

theorem assocGet_mem (m : List (Nat × Nat)) (i j : Nat) (h : assocGet m i = some j) : (i, j) ∈ m := by
  unfold assocGet at h
  cases hf : m.find? (fun kv => kv.1 == i) with
  | none => simp [hf] at h
  | some kv =>
    simp [hf] at h
    have h1 := List.find?_some hf
    have h2 := List.mem_of_find?_eq_some hf
    simp at h1
    subst h; subst h1; exact h2

theorem assocGet_none (m : List (Nat × Nat)) (i : Nat) (h : assocGet m i = none) :
    ∀ j, (i, j) ∉ m := by
  intro j hj
  unfold assocGet at h
  simp only [Option.map_eq_none_iff, List.find?_eq_none] at h
  have := h (i, j) hj
  simp at this

theorem assocGet_of_mem (m : List (Nat × Nat)) (nd : (m.map (·.1)).Nodup) (i j : Nat)
    (h : (i, j) ∈ m) : assocGet m i = some j := by
  induction m with
  | nil => cases h
  | cons kv r ih =>
    simp only [List.map_cons, List.nodup_cons] at nd
    rcases List.mem_cons.mp h with h1 | h1
    · subst h1; simp [assocGet]
    · have hne : (kv.1 == i) = false := by
        simp only [beq_eq_false_iff_ne, ne_eq]
        intro e
        exact nd.1 (List.mem_map.mpr ⟨(i, j), h1, e.symm⟩)
      have := ih nd.2 h1
      unfold assocGet at this ⊢
      rw [List.find?_cons, hne]
      exact this

theorem mem_swap (m : List (Nat × Nat)) (i j : Nat) : (j, i) ∈ m.map Prod.swap ↔ (i, j) ∈ m := by
  constructor
  · intro h
    obtain ⟨p, hp, e⟩ := List.mem_map.mp h
    cases p; simp [Prod.swap] at e; obtain ⟨rfl, rfl⟩ := e; exact hp
  · intro h; exact List.mem_map.mpr ⟨(i, j), h, rfl⟩

theorem map_fst_swap (m : List (Nat × Nat)) : (m.map Prod.swap).map (·.1) = m.map (·.2) := by
  induction m with
  | nil => rfl
  | cons a r ih => simp [ih]

/-- "`(v, w)` is taken care of by the correspondence `P`": skipped, or a recorded pair. -/
def Rec (h1 h2 : Heap) (P : List (Nat × Nat)) (v w : GVal) : Prop :=
  skipB h1 h2 v w = true ∨ ∃ i j, v = .ref i ∧ w = .ref j ∧ (i, j) ∈ P

theorem Rec.mono {h1 h2 : Heap} {P P' : List (Nat × Nat)} {v w : GVal} (hs : ∀ p ∈ P, p ∈ P')
    (h : Rec h1 h2 P v w) : Rec h1 h2 P' v w := by
  rcases h with h | ⟨i, j, rfl, rfl, hm⟩
  · exact .inl h
  · exact .inr ⟨i, j, rfl, rfl, hs _ hm⟩

/-- A paired couple of objects is consistent: opaque on one side, or the same number of children
    and every key of the left object present on the right with the two children taken care of. -/
def NodeOK (h1 h2 : Heap) (P : List (Nat × Nat)) (i j : Nat) : Prop :=
  ∃ a b, h1[i]? = some a ∧ h2[j]? = some b ∧
    (a.kind = .opaque ∨ b.kind = .opaque ∨
      ((childrenWithDefaults a).length = (childrenWithDefaults b).length ∧
        ∀ x ∈ childrenWithDefaults a, ∃ y, lookupChild (childrenWithDefaults b) x.1 = some y ∧
          Rec h1 h2 P x.2 y))

theorem NodeOK.mono {h1 h2 : Heap} {P P' : List (Nat × Nat)} {i j : Nat} (hs : ∀ p ∈ P, p ∈ P')
    (h : NodeOK h1 h2 P i j) : NodeOK h1 h2 P' i j := by
  obtain ⟨a, b, ha, hb, h⟩ := h
  refine ⟨a, b, ha, hb, ?_⟩
  rcases h with h | h | ⟨hl, hc⟩
  · exact .inl h
  · exact .inr (.inl h)
  · refine .inr (.inr ⟨hl, ?_⟩)
    intro x hx
    obtain ⟨y, hy, hr⟩ := hc x hx
    exact ⟨y, hy, hr.mono hs⟩

/-- The step function of the fold over the children. -/
def shareStep (h1 h2 : Heap) (fuel : Nat) (cb : List (PElem × GVal)) :
    Option ShareSt → PElem × GVal → Option ShareSt :=
  fun acc x =>
    match acc with
    | none => none
    | some st =>
      match lookupChild cb x.1 with
      | none => none
      | some y => shareVisit h1 h2 fuel x.2 y st

theorem foldl_shareStep_none (h1 h2 : Heap) (fuel : Nat) (cb cs : List (PElem × GVal)) :
    cs.foldl (shareStep h1 h2 fuel cb) none = none := by
  induction cs with
  | nil => rfl
  | cons x r ih => simp [List.foldl, shareStep, ih]

/-- What a successful visit guarantees. -/
structure VisitOK (h1 h2 : Heap) (st st' : ShareSt) (v w : GVal) : Prop where
  inv : st'.Inv
  mono : ∀ p ∈ st.xToY, p ∈ st'.xToY
  recd : Rec h1 h2 st'.xToY v w
  closed : ∀ p ∈ st'.xToY, p ∉ st.xToY → NodeOK h1 h2 st'.xToY p.1 p.2

/-- What a successful fold over a list of children guarantees. -/
structure FoldOK (h1 h2 : Heap) (cb : List (PElem × GVal)) (st st' : ShareSt)
    (cs : List (PElem × GVal)) : Prop where
  inv : st'.Inv
  mono : ∀ p ∈ st.xToY, p ∈ st'.xToY
  recs : ∀ x ∈ cs, ∃ y, lookupChild cb x.1 = some y ∧ Rec h1 h2 st'.xToY x.2 y
  closed : ∀ p ∈ st'.xToY, p ∉ st.xToY → NodeOK h1 h2 st'.xToY p.1 p.2

theorem fold_sound (h1 h2 : Heap) (fuel : Nat) (cb : List (PElem × GVal))
    (ih : ∀ v w st st', st.Inv → shareVisit h1 h2 fuel v w st = some st' → VisitOK h1 h2 st st' v w) :
    ∀ (cs : List (PElem × GVal)) (st st' : ShareSt), st.Inv →
      cs.foldl (shareStep h1 h2 fuel cb) (some st) = some st' → FoldOK h1 h2 cb st st' cs := by
  intro cs
  induction cs with
  | nil =>
    intro st st' hi h
    simp [List.foldl] at h; subst h
    exact ⟨hi, fun p hp => hp, (by intro x hx; cases hx), fun p hp hn => absurd hp hn⟩
  | cons x r ihr =>
    intro st st' hi h
    simp only [List.foldl] at h
    cases hl : lookupChild cb x.1 with
    | none =>
      simp only [shareStep, hl] at h
      rw [foldl_shareStep_none] at h; cases h
    | some y =>
      cases hv : shareVisit h1 h2 fuel x.2 y st with
      | none =>
        simp only [shareStep, hl, hv] at h
        rw [foldl_shareStep_none] at h; cases h
      | some st1 =>
        simp only [shareStep, hl, hv] at h
        have v1 := ih x.2 y st st1 hi hv
        have f2 := ihr st1 st' v1.inv h
        refine ⟨f2.inv, fun p hp => f2.mono p (v1.mono p hp), ?_, ?_⟩
        · intro x' hx'
          rcases List.mem_cons.mp hx' with rfl | hx'
          · exact ⟨y, hl, v1.recd.mono f2.mono⟩
          · exact f2.recs x' hx'
        · intro p hp hn
          by_cases h1p : p ∈ st1.xToY
          · exact (v1.closed p h1p hn).mono f2.mono
          · exact f2.closed p hp h1p

/-- **Soundness of the walk**: a successful visit leaves a one-to-one correspondence that extends
    the given one, takes care of the visited pair, and is closed on everything it added. -/
theorem shareVisit_sound (h1 h2 : Heap) (fuel : Nat) :
    ∀ (v w : GVal) (st st' : ShareSt), st.Inv → shareVisit h1 h2 fuel v w st = some st' →
      VisitOK h1 h2 st st' v w := by
  induction fuel with
  | zero =>
    intro v w st st' hi h
    cases v with
    | atom t =>
      simp [shareVisit] at h; subst h
      exact ⟨hi, fun p hp => hp, .inl (by simp [skipB, isInternable_atom]), fun p hp hn => absurd hp hn⟩
    | ref i =>
      cases w with
      | atom t =>
        simp [shareVisit] at h; subst h
        exact ⟨hi, fun p hp => hp, .inl (by simp [skipB, isInternable_atom]), fun p hp hn => absurd hp hn⟩
      | ref j => simp [shareVisit] at h
  | succ fuel ih =>
    intro v w st st' hi h
    cases v with
    | atom t =>
      simp [shareVisit] at h; subst h
      exact ⟨hi, fun p hp => hp, .inl (by simp [skipB, isInternable_atom]), fun p hp hn => absurd hp hn⟩
    | ref i =>
      cases w with
      | atom t =>
        simp [shareVisit] at h; subst h
        exact ⟨hi, fun p hp => hp, .inl (by simp [skipB, isInternable_atom]), fun p hp hn => absurd hp hn⟩
      | ref j =>
        simp only [shareVisit] at h
        split at h
        · rename_i hskip
          cases h
          exact ⟨hi, fun p hp => hp, .inl (by simpa [skipB] using hskip), fun p hp hn => absurd hp hn⟩
        · rename_i hskip
          cases hx : assocGet st.xToY i with
          | some j' =>
            cases hy : assocGet st.yToX j with
            | none => simp [hx, hy] at h
            | some i' =>
              simp only [hx, hy] at h
              split at h
              · rename_i hc
                cases h
                simp only [Bool.and_eq_true, beq_iff_eq] at hc
                rw [hc.1] at hx
                exact ⟨hi, fun p hp => hp, .inr ⟨i, j, rfl, rfl, assocGet_mem _ _ _ hx⟩,
                  fun p hp hn => absurd hp hn⟩
              · cases h
          | none =>
            cases hy : assocGet st.yToX j with
            | some i' => simp [hx, hy] at h
            | none =>
              simp only [hx, hy] at h
              -- the new state
              have hnx := assocGet_none _ _ hx
              have hny : ∀ i', (i', j) ∉ st.xToY := by
                intro i' hm
                have := assocGet_none _ _ hy i'
                rw [hi.inv] at this
                exact this ((mem_swap _ _ _).mpr hm)
              have hi1 : ShareSt.Inv { xToY := (i, j) :: st.xToY, yToX := (j, i) :: st.yToX } := by
                refine ⟨by simp [hi.inv, Prod.swap], ?_, ?_⟩
                · simp only [List.map_cons, List.nodup_cons]
                  refine ⟨?_, hi.nd1⟩
                  intro hm
                  obtain ⟨p, hp, e⟩ := List.mem_map.mp hm
                  cases p; simp at e; subst e; exact hnx _ hp
                · simp only [List.map_cons, List.nodup_cons]
                  refine ⟨?_, hi.nd2⟩
                  intro hm
                  obtain ⟨p, hp, e⟩ := List.mem_map.mp hm
                  cases p; simp at e; subst e; exact hny _ hp
              cases ha : h1[i]? with
              | none => simp [ha] at h
              | some a =>
                cases hb : h2[j]? with
                | none => simp [ha, hb] at h
                | some b =>
                  simp only [ha, hb] at h
                  split at h
                  · rename_i hop
                    cases h
                    refine ⟨hi1, fun p hp => List.mem_cons_of_mem _ hp,
                      .inr ⟨i, j, rfl, rfl, by simp⟩, ?_⟩
                    intro p hp hn
                    rcases List.mem_cons.mp hp with rfl | hp
                    · refine ⟨a, b, ha, hb, ?_⟩
                      simp only [Bool.or_eq_true, beq_iff_eq] at hop
                      rcases hop with h | h
                      · exact .inl h
                      · exact .inr (.inl h)
                    · exact absurd hp hn
                  · split at h
                    · cases h
                    · rename_i hop hlen
                      have hf := fold_sound h1 h2 fuel (childrenWithDefaults b) ih
                        (childrenWithDefaults a) _ st' hi1 h
                      refine ⟨hf.inv, fun p hp => hf.mono p (List.mem_cons_of_mem _ hp),
                        .inr ⟨i, j, rfl, rfl, hf.mono _ (by simp)⟩, ?_⟩
                      intro p hp hn
                      by_cases hpe : p = (i, j)
                      · subst hpe
                        refine ⟨a, b, ha, hb, .inr (.inr ⟨?_, hf.recs⟩)⟩
                        simpa using hlen
                      · refine hf.closed p hp ?_
                        intro hm
                        rcases List.mem_cons.mp hm with h | h
                        · exact hpe h
                        · exact hn h

/-- A one-to-one, closed correspondence between objects of the two heaps. -/
structure Corr (h1 h2 : Heap) (B : List (Nat × Nat)) : Prop where
  fun1 : ∀ i j j', (i, j) ∈ B → (i, j') ∈ B → j = j'
  fun2 : ∀ i i' j, (i, j) ∈ B → (i', j) ∈ B → i = i'
  closed : ∀ p ∈ B, NodeOK h1 h2 B p.1 p.2

/-- What the completeness statement delivers. -/
structure Done (B : List (Nat × Nat)) (st st' : ShareSt) : Prop where
  inv : st'.Inv
  mono : ∀ p ∈ st.xToY, p ∈ st'.xToY
  sub : ∀ p ∈ st'.xToY, p ∈ B

theorem fold_complete (h1 h2 : Heap) (fuel : Nat) (B : List (Nat × Nat))
    (cb : List (PElem × GVal))
    (ih : ∀ v w st, st.Inv → (∀ p ∈ st.xToY, p ∈ B) → Rec h1 h2 B v w → (∀ i, v = .ref i → i < fuel) →
      ∃ st', shareVisit h1 h2 fuel v w st = some st' ∧ Done B st st') :
    ∀ (cs : List (PElem × GVal)) (st : ShareSt), st.Inv → (∀ p ∈ st.xToY, p ∈ B) →
      (∀ x ∈ cs, ∃ y, lookupChild cb x.1 = some y ∧ Rec h1 h2 B x.2 y) →
      (∀ x ∈ cs, ∀ k, x.2 = .ref k → k < fuel) →
      ∃ st', cs.foldl (shareStep h1 h2 fuel cb) (some st) = some st' ∧ Done B st st' := by
  intro cs
  induction cs with
  | nil => intro st hi hs _ _; exact ⟨st, rfl, hi, fun p hp => hp, hs⟩
  | cons x r ihr =>
    intro st hi hs hrec hrank
    obtain ⟨y, hy, hr⟩ := hrec x (by simp)
    obtain ⟨st1, hv, d1⟩ := ih x.2 y st hi hs hr (hrank x (by simp))
    obtain ⟨st2, hf, d2⟩ := ihr st1 d1.inv d1.sub (fun x' hx' => hrec x' (by simp [hx']))
      (fun x' hx' => hrank x' (by simp [hx']))
    refine ⟨st2, ?_, d2.inv, fun p hp => d2.mono p (d1.mono p hp), d2.sub⟩
    simp only [List.foldl, shareStep, hy, hv]
    exact hf

/-- **Completeness of the walk**: if a one-to-one closed correspondence `B` exists, a visit of
    any pair `B` takes care of, from any recorded part of `B`, succeeds and stays inside `B`. -/
theorem shareVisit_complete (h1 h2 : Heap) (w1 : h1.EqWF) (B : List (Nat × Nat))
    (hB : Corr h1 h2 B) (fuel : Nat) :
    ∀ (v w : GVal) (st : ShareSt), st.Inv → (∀ p ∈ st.xToY, p ∈ B) → Rec h1 h2 B v w →
      (∀ i, v = .ref i → i < fuel) →
      ∃ st', shareVisit h1 h2 fuel v w st = some st' ∧ Done B st st' := by
  induction fuel with
  | zero =>
    intro v w st hi hs _ hrank
    cases v with
    | atom t => exact ⟨st, by simp [shareVisit], hi, fun p hp => hp, hs⟩
    | ref i => exact absurd (hrank i rfl) (Nat.not_lt_zero _)
  | succ fuel ih =>
    intro v w st hi hs hrec hrank
    cases v with
    | atom t => exact ⟨st, by simp [shareVisit], hi, fun p hp => hp, hs⟩
    | ref i =>
      cases w with
      | atom t => exact ⟨st, by simp [shareVisit], hi, fun p hp => hp, hs⟩
      | ref j =>
        simp only [shareVisit]
        split
        · exact ⟨st, rfl, hi, fun p hp => hp, hs⟩
        · rename_i hskip
          have hij : (i, j) ∈ B := by
            rcases hrec with h | ⟨i', j', e1, e2, hm⟩
            · exact absurd (by simpa [skipB] using h) hskip
            · cases e1; cases e2; exact hm
          cases hx : assocGet st.xToY i with
          | some j' =>
            have hm := assocGet_mem _ _ _ hx
            have : j' = j := hB.fun1 i j' j (hs _ hm) hij
            subst this
            have hy : assocGet st.yToX j' = some i := by
              rw [hi.inv]
              refine assocGet_of_mem _ ?_ j' i ((mem_swap _ _ _).mpr hm)
              rw [map_fst_swap]; exact hi.nd2
            simp only [hy]
            exact ⟨st, by simp, hi, fun p hp => hp, hs⟩
          | none =>
            have hnx := assocGet_none _ _ hx
            cases hy : assocGet st.yToX j with
            | some i' =>
              exfalso
              have hm := assocGet_mem _ _ _ hy
              rw [hi.inv] at hm
              have hm' := (mem_swap _ _ _).mp hm
              have : i' = i := hB.fun2 i' i j (hs _ hm') hij
              subst this
              exact hnx j hm'
            | none =>
              simp only []
              have hny : ∀ i', (i', j) ∉ st.xToY := by
                intro i' hm
                have := assocGet_none _ _ hy i'
                rw [hi.inv] at this
                exact this ((mem_swap _ _ _).mpr hm)
              have hi1 : ShareSt.Inv { xToY := (i, j) :: st.xToY, yToX := (j, i) :: st.yToX } := by
                refine ⟨by simp [hi.inv, Prod.swap], ?_, ?_⟩
                · simp only [List.map_cons, List.nodup_cons]
                  refine ⟨?_, hi.nd1⟩
                  intro hm
                  obtain ⟨p, hp, e⟩ := List.mem_map.mp hm
                  cases p; simp at e; subst e; exact hnx _ hp
                · simp only [List.map_cons, List.nodup_cons]
                  refine ⟨?_, hi.nd2⟩
                  intro hm
                  obtain ⟨p, hp, e⟩ := List.mem_map.mp hm
                  cases p; simp at e; subst e; exact hny _ hp
              have hs1 : ∀ p ∈ (i, j) :: st.xToY, p ∈ B := by
                intro p hp
                rcases List.mem_cons.mp hp with rfl | hp
                · exact hij
                · exact hs p hp
              obtain ⟨a, b, ha, hb, hok⟩ := hB.closed (i, j) hij
              simp only [ha, hb]
              split
              · exact ⟨_, rfl, hi1, fun p hp => List.mem_cons_of_mem _ hp, hs1⟩
              · rename_i hop
                have hno : ¬ a.kind = .opaque ∧ ¬ b.kind = .opaque := by
                  simp only [Bool.or_eq_true, beq_iff_eq, not_or] at hop
                  exact hop
                rcases hok with h | h | ⟨hl, hc⟩
                · exact absurd h hno.1
                · exact absurd h hno.2
                · have hl' : ((childrenWithDefaults a).length != (childrenWithDefaults b).length) = false := by
                    simp [hl]
                  simp only [hl', Bool.false_eq_true, if_false]
                  obtain ⟨st', hf, d⟩ := fold_complete h1 h2 fuel B (childrenWithDefaults b) ih
                    (childrenWithDefaults a) _ hi1 hs1 hc
                    (by
                      intro x hx k hk
                      have := w1.ch i a ha x hx k hk
                      have := hrank i rfl
                      omega)
                  exact ⟨st', hf, d.inv, fun p hp => d.mono p (List.mem_cons_of_mem _ hp), d.sub⟩

/-! ## The characterisation, and what follows from it -/

theorem corr_of_inv (h1 h2 : Heap) (st : ShareSt) (hi : st.Inv)
    (hc : ∀ p ∈ st.xToY, NodeOK h1 h2 st.xToY p.1 p.2) : Corr h1 h2 st.xToY := by
  refine ⟨?_, ?_, hc⟩
  · intro i j j' h h'
    have a := assocGet_of_mem _ hi.nd1 i j h
    have b := assocGet_of_mem _ hi.nd1 i j' h'
    rw [a] at b; exact Option.some.inj b
  · intro i i' j h h'
    have nd : ((st.xToY.map Prod.swap).map (·.1)).Nodup := by rw [map_fst_swap]; exact hi.nd2
    have a := assocGet_of_mem _ nd j i ((mem_swap _ _ _).mpr h)
    have b := assocGet_of_mem _ nd j i' ((mem_swap _ _ _).mpr h')
    rw [a] at b; exact Option.some.inj b

/-- **The walk succeeds exactly when a one-to-one closed correspondence exists.** -/
theorem shareVisit_iff (h1 h2 : Heap) (w1 : h1.EqWF) (fuel : Nat) (v w : GVal)
    (hr : ∀ i, v = .ref i → i < fuel) :
    (shareVisit h1 h2 fuel v w {}).isSome = true ↔ ∃ B, Corr h1 h2 B ∧ Rec h1 h2 B v w := by
  constructor
  · intro h
    obtain ⟨st', hs⟩ := Option.isSome_iff_exists.mp h
    have ok := shareVisit_sound h1 h2 fuel v w {} st' ShareSt.inv_empty hs
    exact ⟨st'.xToY, corr_of_inv h1 h2 st' ok.inv (fun p hp => ok.closed p hp (by simp)), ok.recd⟩
  · rintro ⟨B, hB, hrec⟩
    obtain ⟨st', hs, _⟩ := shareVisit_complete h1 h2 w1 B hB fuel v w {} ShareSt.inv_empty
      (by intro p hp; simp at hp) hrec hr
    rw [hs]; rfl

theorem skipB_swap (h1 h2 : Heap) (v w : GVal) : skipB h2 h1 w v = skipB h1 h2 v w := by
  unfold skipB; exact Bool.or_comm _ _

theorem Rec.swap {h1 h2 : Heap} {B : List (Nat × Nat)} {v w : GVal} (h : Rec h1 h2 B v w) :
    Rec h2 h1 (B.map Prod.swap) w v := by
  rcases h with h | ⟨i, j, rfl, rfl, hm⟩
  · exact .inl (by rw [skipB_swap]; exact h)
  · exact .inr ⟨j, i, rfl, rfl, (mem_swap _ _ _).mpr hm⟩

theorem NodeOK.swap {h1 h2 : Heap} (w1 : h1.EqWF) (w2 : h2.EqWF) {B : List (Nat × Nat)} {i j : Nat}
    (h : NodeOK h1 h2 B i j) : NodeOK h2 h1 (B.map Prod.swap) j i := by
  obtain ⟨a, b, ha, hb, h⟩ := h
  refine ⟨b, a, hb, ha, ?_⟩
  rcases h with h | h | ⟨hl, hc⟩
  · exact .inr (.inl h)
  · exact .inl h
  · refine .inr (.inr ⟨hl.symm, ?_⟩)
    have na := w1.keys i a ha
    have nb := w2.keys j b hb
    -- every key of `a` is a key of `b`; equal sizes and distinct keys give the converse
    have hsub : (childrenWithDefaults a).map (·.1) ⊆ (childrenWithDefaults b).map (·.1) := by
      intro k hk
      obtain ⟨x, hx, rfl⟩ := List.mem_map.mp hk
      obtain ⟨y, hy, _⟩ := hc x hx
      exact List.mem_map.mpr ⟨(x.1, y), lookupChild_mem _ _ _ hy, rfl⟩
    have hsup := subset_of_nodup_subset_length _ _ na hsub (by simp [hl])
    intro y' hy'
    have hk : y'.1 ∈ (childrenWithDefaults a).map (·.1) := hsup (List.mem_map.mpr ⟨y', hy', rfl⟩)
    obtain ⟨x, hx, hxk⟩ := List.mem_map.mp hk
    obtain ⟨y, hy, hr⟩ := hc x hx
    have e1 : lookupChild (childrenWithDefaults a) y'.1 = some x.2 := by
      rw [← hxk]; exact lookupChild_self _ na x hx
    have e2 : lookupChild (childrenWithDefaults b) x.1 = some y'.2 := by
      rw [hxk]; exact lookupChild_self _ nb y' hy'
    rw [e2] at hy
    cases hy
    exact ⟨x.2, e1, hr.swap⟩

theorem Corr.swap {h1 h2 : Heap} (w1 : h1.EqWF) (w2 : h2.EqWF) {B : List (Nat × Nat)}
    (h : Corr h1 h2 B) : Corr h2 h1 (B.map Prod.swap) := by
  refine ⟨?_, ?_, ?_⟩
  · intro j i i' a b
    exact h.fun2 i i' j ((mem_swap _ _ _).mp a) ((mem_swap _ _ _).mp b)
  · intro j j' i a b
    exact h.fun1 i j j' ((mem_swap _ _ _).mp a) ((mem_swap _ _ _).mp b)
  · intro p hp
    obtain ⟨q, hq, rfl⟩ := List.mem_map.mp hp
    exact (h.closed q hq).swap w1 w2

/-- **The sharing walk is symmetric**: comparing `y` with `x` succeeds whenever comparing `x`
    with `y` does, although the two walks visit children in different orders. -/
theorem shareVisit_symm (h1 h2 : Heap) (w1 : h1.EqWF) (w2 : h2.EqWF) (f1 f2 : Nat) (v w : GVal)
    (hv : ∀ i, v = .ref i → i < f1) (hw : ∀ j, w = .ref j → j < f2)
    (h : (shareVisit h1 h2 f1 v w {}).isSome = true) :
    (shareVisit h2 h1 f2 w v {}).isSome = true := by
  obtain ⟨B, hB, hr⟩ := (shareVisit_iff h1 h2 w1 f1 v w hv).mp h
  exact (shareVisit_iff h2 h1 w2 f2 w v hw).mpr ⟨B.map Prod.swap, hB.swap w1 w2, hr.swap⟩

end Fiddle
