import FiddleModel.Model.Copy
import FiddleModel.Lemmas.Traverse

namespace Fiddle

theorem deepcopy_orig (h : Heap) (i : Nat) (hi : i < h.length) : (h.deepcopy)[i]? = h[i]? := by
  simp [Heap.deepcopy, List.getElem?_append_left hi]

theorem deepcopy_copy (h : Heap) (i : Nat) :
    (h.deepcopy)[i + h.length]? = (h[i]?).map (shiftObj h.length) := by
  simp [Heap.deepcopy, List.getElem?_append_right, List.getElem?_map]

theorem deepcopy_length (h : Heap) : h.deepcopy.length = h.length + h.length := by
  simp [Heap.deepcopy]

theorem childAt_shift (n : Nat) (o : GObj) (pe : PElem) :
    childAt (shiftObj n o) pe = (childAt o pe).map (shiftVal n) := by
  unfold childAt shiftObj
  simp only
  induction o.children with
  | nil => rfl
  | cons c cs ih =>
    by_cases hc : c.1 = pe
    · simp [hc]
    · simp [List.find?_cons, hc]
      simpa using ih

/-- The copy is path-for-path the image of the original. -/
theorem followPath_deepcopy (h : Heap) : ∀ (p : Path) (root : GVal),
    followPath h.deepcopy (shiftVal h.length root) p = (followPath h root p).map (shiftVal h.length) := by
  intro p
  induction p with
  | nil => intro root; simp [followPath]
  | cons pe rest ih =>
    intro root
    cases root with
    | atom t => simp [followPath, shiftVal]
    | ref i =>
      simp only [shiftVal, followPath, deepcopy_copy]
      cases ho : h[i]? with
      | none => simp
      | some o =>
        simp only [Option.map_some, childAt_shift]
        cases hc : childAt o pe with
        | none => simp
        | some c => simpa using ih c

/-- Two heaps that agree below `n` give the same answers to every path query from an object
    below `n`, when children refer to earlier objects. -/
theorem followPath_agree (h h2 : Heap) (wf : h.WellFormed) (n : Nat)
    (hag : ∀ i, i < n → h2[i]? = h[i]?) : ∀ (p : Path) (v : GVal),
    (∀ i, v = .ref i → i < n) → followPath h2 v p = followPath h v p := by
  intro p
  induction p with
  | nil => intro v _; simp [followPath]
  | cons pe rest ih =>
    intro v hv
    cases v with
    | atom t => simp [followPath]
    | ref i =>
      have hi := hv i rfl
      simp only [followPath, hag i hi]
      cases ho : h[i]? with
      | none => rfl
      | some o =>
        dsimp only
        cases hc : childAt o pe with
        | none => rfl
        | some c =>
          dsimp only
          apply ih
          intro j hj
          have := wf i o ho (pe, c) (childAt_mem o pe c hc) j hj
          omega

theorem shallowCopy_orig (h : Heap) (i : Nat) (bk : Option String) (k : Nat) (hk : k < h.length) :
    (h.shallowCopy i bk)[k]? = h[k]? := by
  unfold Heap.shallowCopy
  cases h[i]? with
  | none => rfl
  | some o => simp [List.getElem?_append_left hk]

theorem shallowCopy_new (h : Heap) (i : Nat) (bk : Option String) (o : GObj) (ho : h[i]? = some o) :
    (h.shallowCopy i bk)[h.length]? = some { o with bk := bk.getD o.bk } := by
  unfold Heap.shallowCopy
  simp [ho]

end Fiddle
