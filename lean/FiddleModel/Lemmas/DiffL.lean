import FiddleModel.Model.Diff
import FiddleModel.Lemmas.Dict

namespace Fiddle.Diff
open Fiddle

structure Flat.Valid (sg : Sigs) (c : Flat) : Prop where
  argsOk : ∀ k ∈ c.args.keys, accepts sg c.fn k = true
  argsNodup : c.args.NodupKeys
  tagsOk : ∀ k ∈ c.tags.keys, accepts sg c.fn k = true
  tagsNodup : c.tags.NodupKeys

theorem contains_iff_mem_keys {α} (d : Dict α) (k : Key) : d.contains k = true ↔ k ∈ d.keys := by
  induction d with
  | nil => simp [Dict.contains, Dict.get?, Dict.keys]
  | cons kv r ih =>
    obtain ⟨k', v⟩ := kv
    by_cases h : k' = k
    · simp [Dict.contains, Dict.get?, Dict.keys, h]
    · have : (Dict.contains r k = true) ↔ k ∈ Dict.keys r := ih
      simp only [Dict.contains] at this
      simp [Dict.contains, Dict.get?, Dict.keys, h, this, Ne.symm h]

/-! ## Phase: DeleteValue -/

theorem phase_dels (sg : Sigs) : ∀ (ks : List String) (c : Flat), ks.Nodup →
    (∀ n ∈ ks, c.args.contains (.name n) = true) → c.args.NodupKeys →
    ∃ c', applyAll sg c (ks.map .deleteValue) = .ok c' ∧ c'.fn = c.fn ∧ c'.tags = c.tags ∧
      c'.args.NodupKeys ∧ (∀ n ∈ ks, c'.args.get? (.name n) = none) ∧
      (∀ k, (∀ n ∈ ks, k ≠ .name n) → c'.args.get? k = c.args.get? k) ∧
      (∀ k, k ∈ c'.args.keys → k ∈ c.args.keys) := by
  intro ks
  induction ks with
  | nil => intro c _ _ hn; exact ⟨c, rfl, rfl, rfl, hn, by simp, by simp, by simp⟩
  | cons n ks ih =>
    intro c hnd hall hn
    have hn0 := hall n (by simp)
    simp only [List.nodup_cons] at hnd
    let c1 : Flat := { c with args := c.args.del (.name n) }
    have h1 : ∀ m ∈ ks, c1.args.contains (.name m) = true := by
      intro m hm
      have hne : (Key.name n) ≠ .name m := by
        intro e; cases e; exact hnd.1 hm
      simp only [Dict.contains, c1, Dict.get?_del_other _ _ _ hne]
      exact hall m (by simp [hm])
    obtain ⟨c', e, f, t, nd, z, o, sub⟩ := ih c1 hnd.2 h1 (Dict.nodup_del _ _ hn)
    refine ⟨c', ?_, f, t, nd, ?_, ?_, ?_⟩
    · simp only [List.map_cons, applyAll, apply1, hn0, if_true]
      exact e
    · intro m hm
      rcases List.mem_cons.mp hm with rfl | hm
      · by_cases hin : m ∈ ks
        · exact z m hin
        · rw [o _ (by intro m' hm' e; cases e; exact hin hm')]
          exact Dict.get?_del_same _ _ hn
      · exact z m hm
    · intro k hk
      rw [o k (fun m hm => hk m (by simp [hm]))]
      exact Dict.get?_del_other _ _ _ (fun e => hk n (by simp) e.symm)
    · intro k hk
      exact Dict.keys_del_subset _ _ _ (sub k hk)

/-! ## Phases: ModifyValue (arguments) and SetValue -/

theorem phase_assign (sg : Sigs) (mk : String → Val → Change)
    (pre : Flat → String → Prop)
    (hpre_keep : ∀ (c : Flat) (k k' : String) (v : Val), pre c k' →
      pre { c with args := c.args.set (.name k) v } k')
    (hstep : ∀ (c : Flat) (k : String) (v : Val), pre c k →
      apply1 sg c (mk k v) = .ok { c with args := c.args.set (.name k) v }) :
    ∀ (ms : List (String × Val)) (c : Flat), (ms.map (·.1)).Nodup →
    (∀ p ∈ ms, pre c p.1) → c.args.NodupKeys →
    ∃ c', applyAll sg c (ms.map (fun p => mk p.1 p.2)) = .ok c' ∧ c'.fn = c.fn ∧
      c'.tags = c.tags ∧ c'.args.NodupKeys ∧
      (∀ p ∈ ms, c'.args.get? (.name p.1) = some p.2) ∧
      (∀ k, (∀ p ∈ ms, k ≠ .name p.1) → c'.args.get? k = c.args.get? k) ∧
      (∀ k, k ∈ c'.args.keys → k ∈ c.args.keys ∨ ∃ p ∈ ms, k = .name p.1) := by
  intro ms
  induction ms with
  | nil => intro c _ _ hn; exact ⟨c, rfl, rfl, rfl, hn, by simp, by simp, by simp⟩
  | cons p ms ih =>
    intro c hnd hall hn
    obtain ⟨k, v⟩ := p
    simp only [List.map_cons, List.nodup_cons] at hnd
    let c1 : Flat := { c with args := c.args.set (.name k) v }
    have h1 : ∀ q ∈ ms, pre c1 q.1 := fun q hq => hpre_keep c k q.1 v (hall q (by simp [hq]))
    obtain ⟨c', e, f, t, nd, z, o, sub⟩ := ih c1 hnd.2 h1 (Dict.nodup_set _ _ _ hn)
    refine ⟨c', ?_, f, t, nd, ?_, ?_, ?_⟩
    · simp only [List.map_cons, applyAll, hstep c k v (hall (k, v) (by simp))]
      exact e
    · intro q hq
      rcases List.mem_cons.mp hq with rfl | hq
      · rw [o _ (by
          intro q hq e
          simp only [Key.name.injEq] at e
          exact hnd.1 (by rw [e]; exact List.mem_map_of_mem hq))]
        exact Dict.get?_set_same _ _ _
      · exact z q hq
    · intro k' hk
      rw [o k' (fun q hq => hk q (by simp [hq]))]
      exact Dict.get?_set_other _ _ _ _ (fun e => hk (k, v) (by simp) e.symm)
    · intro k' hk
      rcases sub k' hk with h | ⟨q, hq, e⟩
      · rcases Dict.keys_set_subset _ _ _ k' h with h | h
        · exact Or.inr ⟨(k, v), by simp, h⟩
        · exact Or.inl h
      · exact Or.inr ⟨q, by simp [hq], e⟩

/-! ## Phases: RemoveTag and AddTag -/

theorem tagsOf_set (c : Flat) (k k' : String) (ts : List Nat) :
    ({ c with tags := c.tags.set (.name k) ts } : Flat).tagsOf k' =
      if k' = k then ts else c.tagsOf k' := by
  unfold Flat.tagsOf
  by_cases h : k' = k
  · subst h; simp [Dict.get?_set_same]
  · have : (Key.name k) ≠ .name k' := by intro e; cases e; exact h rfl
    simp [h, Dict.get?_set_other _ _ _ _ this]

theorem mem_tagInsert (ts : List Nat) (t t' : Nat) : t' ∈ tagInsert ts t ↔ t' ∈ ts ∨ t' = t := by
  unfold tagInsert
  split
  · rename_i h
    constructor
    · exact Or.inl
    · rintro (h' | rfl)
      · exact h'
      · simpa using h
  · simp

theorem phase_removeTags (sg : Sigs) : ∀ (rs : List (String × Nat)) (c : Flat), rs.Nodup →
    (∀ p ∈ rs, p.2 ∈ c.tagsOf p.1) →
    ∃ c', applyAll sg c (rs.map (fun p => .removeTag p.1 p.2)) = .ok c' ∧ c'.fn = c.fn ∧
      c'.args = c.args ∧ ∀ k t, t ∈ c'.tagsOf k ↔ (t ∈ c.tagsOf k ∧ (k, t) ∉ rs) := by
  intro rs
  induction rs with
  | nil => intro c _ _; exact ⟨c, rfl, rfl, rfl, by simp⟩
  | cons p rs ih =>
    intro c hnd hall
    obtain ⟨k0, t0⟩ := p
    simp only [List.nodup_cons] at hnd
    have h0 : t0 ∈ c.tagsOf k0 := hall (k0, t0) (by simp)
    let c1 : Flat := { c with tags := c.tags.set (.name k0) ((c.tagsOf k0).filter (· != t0)) }
    have hc1 : ∀ k t, t ∈ c1.tagsOf k ↔ (t ∈ c.tagsOf k ∧ (k, t) ≠ (k0, t0)) := by
      intro k t
      simp only [c1, tagsOf_set]
      by_cases hk : k = k0
      · subst hk
        simp only [if_true, List.mem_filter, bne_iff_ne, ne_eq, Prod.mk.injEq, true_and]
      · simp [hk]
    have h1 : ∀ q ∈ rs, q.2 ∈ c1.tagsOf q.1 := by
      intro q hq
      rw [hc1]
      refine ⟨hall q (by simp [hq]), ?_⟩
      intro e
      apply hnd.1
      have : q = (k0, t0) := e
      rw [← this]; exact hq
    obtain ⟨c', e, f, a, m⟩ := ih c1 hnd.2 h1
    refine ⟨c', ?_, f, a, ?_⟩
    · have : (c.tagsOf k0).contains t0 = true := by simpa using h0
      simp only [List.map_cons, applyAll, apply1, this, if_true]
      exact e
    · intro k t
      rw [m, hc1]
      simp only [List.mem_cons, not_or]
      constructor
      · rintro ⟨⟨h, hne⟩, hnin⟩; exact ⟨h, hne, hnin⟩
      · rintro ⟨h, hne, hnin⟩; exact ⟨⟨h, hne⟩, hnin⟩

theorem phase_addTags (sg : Sigs) : ∀ (as : List (String × Nat)) (c : Flat),
    (∀ p ∈ as, (sg c.fn).contains p.1 = true) →
    ∃ c', applyAll sg c (as.map (fun p => .addTag p.1 p.2)) = .ok c' ∧ c'.fn = c.fn ∧
      c'.args = c.args ∧ ∀ k t, t ∈ c'.tagsOf k ↔ (t ∈ c.tagsOf k ∨ (k, t) ∈ as) := by
  intro as
  induction as with
  | nil => intro c _; exact ⟨c, rfl, rfl, rfl, by simp⟩
  | cons p as ih =>
    intro c hall
    obtain ⟨k0, t0⟩ := p
    have h0 := hall (k0, t0) (by simp)
    let c1 : Flat := { c with tags := c.tags.set (.name k0) (tagInsert (c.tagsOf k0) t0) }
    have hc1 : ∀ k t, t ∈ c1.tagsOf k ↔ (t ∈ c.tagsOf k ∨ (k, t) = (k0, t0)) := by
      intro k t
      simp only [c1, tagsOf_set]
      by_cases hk : k = k0
      · subst hk
        simp only [if_true, mem_tagInsert, Prod.mk.injEq, true_and]
      · simp [hk]
    obtain ⟨c', e, f, a, m⟩ := ih c1 (fun q hq => hall q (by simp [hq]))
    refine ⟨c', ?_, f, a, ?_⟩
    · simp only [List.map_cons, applyAll, apply1, h0, if_true]
      exact e
    · intro k t
      rw [m, hc1]
      simp only [List.mem_cons]
      constructor
      · rintro ((h | h) | h)
        · exact Or.inl h
        · exact Or.inr (Or.inl h)
        · exact Or.inr (Or.inr h)
      · rintro (h | h | h)
        · exact Or.inl (Or.inl h)
        · exact Or.inl (Or.inr h)
        · exact Or.inr h

/-! ## What `flatDiff` contains -/

theorem nameOf_eq {k : Key} {n : String} : nameOf k = some n ↔ k = .name n := by
  cases k <;> simp [nameOf]

theorem mem_of_get? {α} (d : Dict α) (k : Key) (v : α) (h : d.get? k = some v) : (k, v) ∈ d := by
  induction d with
  | nil => simp [Dict.get?] at h
  | cons kv r ih =>
    obtain ⟨k', v'⟩ := kv
    by_cases hk : k' = k
    · simp [Dict.get?, hk] at h; subst hk; subst h; simp
    · simp [Dict.get?, hk] at h; exact List.mem_cons_of_mem _ (ih h)

theorem get?_of_mem {α} (d : Dict α) (hn : d.NodupKeys) (k : Key) (v : α) (h : (k, v) ∈ d) :
    d.get? k = some v := by
  induction d with
  | nil => cases h
  | cons kv r ih =>
    obtain ⟨k', v'⟩ := kv
    simp only [Dict.NodupKeys, Dict.keys_cons, List.nodup_cons] at hn
    rcases List.mem_cons.mp h with e | h
    · cases e; simp [Dict.get?]
    · have hne : k' ≠ k := by
        intro e; subst e
        exact hn.1 (List.mem_map_of_mem (f := (·.1)) h)
      simp [Dict.get?, hne]
      exact ih hn.2 h

theorem pairwise_keys {α} (d : Dict α) (hn : d.NodupKeys) : d.Pairwise (fun a b => a.1 ≠ b.1) := by
  have : (d.map (·.1)).Pairwise (· ≠ ·) := hn
  exact List.pairwise_map.mp this

theorem mem_dels (old new : Flat) (n : String) :
    n ∈ dels old new ↔ (.name n) ∈ old.args.keys ∧ new.args.contains (.name n) = false := by
  simp only [dels, List.mem_filterMap]
  constructor
  · rintro ⟨k, hk, h⟩
    split at h
    · cases h
    · rename_i hc
      have := nameOf_eq.mp h
      subst this
      exact ⟨hk, by simpa using hc⟩
  · rintro ⟨hk, hc⟩
    exact ⟨.name n, hk, by simp [hc, nameOf]⟩

theorem dels_nodup (old new : Flat) (hn : old.args.NodupKeys) : (dels old new).Nodup := by
  unfold dels
  refine List.Pairwise.filterMap _ ?_ hn
  intro a a' hne b hb b' hb' e
  subst e
  split at hb
  · cases hb
  · split at hb'
    · cases hb'
    · exact hne ((nameOf_eq.mp hb).trans (nameOf_eq.mp hb').symm)

theorem mem_mods (old new : Flat) (n : String) (v' : Val) :
    (n, v') ∈ mods old new ↔
      ∃ v, (.name n, v) ∈ old.args ∧ new.args.get? (.name n) = some v' ∧ v' ≠ v := by
  simp only [mods, List.mem_filterMap]
  constructor
  · rintro ⟨⟨k, v⟩, hkv, h⟩
    cases k with
    | idx i => simp [nameOf] at h
    | name m =>
      simp only [nameOf] at h
      cases hg : new.args.get? (.name m) with
      | none => simp [hg] at h
      | some w =>
        simp only [hg] at h
        split at h
        · cases h
        · rename_i hne
          simp only [Option.some.injEq, Prod.mk.injEq] at h
          obtain ⟨rfl, rfl⟩ := h
          exact ⟨v, hkv, hg, hne⟩
  · rintro ⟨v, hkv, hg, hne⟩
    exact ⟨(.name n, v), hkv, by simp [nameOf, hg, hne]⟩

theorem mods_keys_nodup (old new : Flat) (hn : old.args.NodupKeys) :
    ((mods old new).map (·.1)).Nodup := by
  unfold mods
  refine List.pairwise_map.mpr ?_
  refine List.Pairwise.filterMap _ ?_ (pairwise_keys _ hn)
  intro a a' hne b hb b' hb' e
  obtain ⟨ka, va⟩ := a
  obtain ⟨ka', va'⟩ := a'
  cases ka with
  | idx i => simp [nameOf] at hb
  | name m =>
    cases ka' with
    | idx i => simp [nameOf] at hb'
    | name m' =>
      simp only [nameOf] at hb hb'
      cases hg : new.args.get? (.name m) <;> simp only [hg] at hb
      · cases hb
      · cases hg' : new.args.get? (.name m') <;> simp only [hg'] at hb'
        · cases hb'
        · split at hb
          · cases hb
          · split at hb'
            · cases hb'
            · cases hb; cases hb'
              simp at e; subst e; exact hne rfl

theorem mem_sets (old new : Flat) (n : String) (v : Val) :
    (n, v) ∈ sets old new ↔ (.name n, v) ∈ new.args ∧ old.args.contains (.name n) = false := by
  simp only [sets, List.mem_filterMap]
  constructor
  · rintro ⟨⟨k, w⟩, hkv, h⟩
    cases k with
    | idx i => simp [nameOf] at h
    | name m =>
      simp only [nameOf] at h
      split at h
      · cases h
      · rename_i hc
        simp only [Option.some.injEq, Prod.mk.injEq] at h
        obtain ⟨rfl, rfl⟩ := h
        exact ⟨hkv, by simpa using hc⟩
  · rintro ⟨hkv, hc⟩
    exact ⟨(.name n, v), hkv, by simp [nameOf, hc]⟩

theorem sets_keys_nodup (old new : Flat) (hn : new.args.NodupKeys) :
    ((sets old new).map (·.1)).Nodup := by
  unfold sets
  refine List.pairwise_map.mpr ?_
  refine List.Pairwise.filterMap _ ?_ (pairwise_keys _ hn)
  intro a a' hne b hb b' hb' e
  obtain ⟨ka, va⟩ := a
  obtain ⟨ka', va'⟩ := a'
  cases ka with
  | idx i => simp [nameOf] at hb
  | name m =>
    cases ka' with
    | idx i => simp [nameOf] at hb'
    | name m' =>
      simp only [nameOf] at hb hb'
      split at hb
      · cases hb
      · split at hb'
        · cases hb'
        · cases hb; cases hb'
          simp at e; subst e; exact hne rfl

theorem nodup_eraseDups_nat_aux (n : Nat) : ∀ (l : List Nat), l.length ≤ n → l.eraseDups.Nodup := by
  induction n with
  | zero =>
    intro l hl
    have : l = [] := List.eq_nil_of_length_eq_zero (by omega)
    subst this; simp
  | succ n ih =>
    intro l hl
    cases l with
    | nil => simp
    | cons a as =>
      rw [List.eraseDups_cons]
      refine List.nodup_cons.mpr ⟨?_, ih _ ?_⟩
      · rw [List.mem_eraseDups]; simp
      · have := List.length_filter_le (fun b => !b == a) as
        simp at hl; omega

theorem mem_tagPairs (a b : Flat) (hn : a.tags.NodupKeys) (n : String) (t : Nat) :
    (n, t) ∈ tagPairs a b ↔ t ∈ a.tagsOf n ∧ t ∉ b.tagsOf n := by
  simp only [tagPairs, List.mem_flatMap]
  constructor
  · rintro ⟨⟨k, ts⟩, hkt, h⟩
    cases k with
    | idx i => simp [nameOf] at h
    | name m =>
      simp only [nameOf, List.mem_map, List.mem_eraseDups, List.mem_filter, Prod.mk.injEq] at h
      obtain ⟨t', ⟨ht', hnb⟩, rfl, rfl⟩ := h
      have hg := get?_of_mem a.tags hn _ _ hkt
      refine ⟨by simp [Flat.tagsOf, hg, ht'], by simpa using hnb⟩
  · rintro ⟨ha, hb⟩
    unfold Flat.tagsOf at ha
    cases hg : a.tags.get? (.name n) with
    | none => simp [hg] at ha
    | some ts =>
      simp only [hg, Option.getD_some] at ha
      refine ⟨(.name n, ts), mem_of_get? _ _ _ hg, ?_⟩
      simp only [nameOf]
      exact List.mem_map.mpr ⟨t, List.mem_eraseDups.mpr
        (List.mem_filter.mpr ⟨ha, by simpa using hb⟩), rfl⟩

theorem tagPairs_nodup (a b : Flat) (hn : a.tags.NodupKeys) : (tagPairs a b).Nodup := by
  unfold tagPairs
  rw [List.nodup_iff_pairwise_ne, List.pairwise_flatMap]
  constructor
  · intro kt _
    cases h : nameOf kt.1 with
    | none => simp
    | some m =>
      simp only []
      refine List.Pairwise.map _ ?_ (nodup_eraseDups_nat_aux _ _ (Nat.le_refl _))
      intro x y hxy e
      simp at e; exact hxy e
  · refine (pairwise_keys _ hn).imp ?_
    intro kt kt' hne x hx y hy e
    subst e
    cases h : nameOf kt.1 with
    | none => simp [h] at hx
    | some m =>
      cases h' : nameOf kt'.1 with
      | none => simp [h'] at hy
      | some m' =>
        simp only [h, h', List.mem_map] at hx hy
        obtain ⟨_, _, rfl⟩ := hx
        obtain ⟨_, _, e⟩ := hy
        simp only [Prod.mk.injEq] at e
        have := (nameOf_eq.mp h).trans ((congrArg Key.name e.1.symm).trans (nameOf_eq.mp h').symm)
        exact hne this

/-! ## Splitting the change list by operation type -/

theorem applyAll_append (sg : Sigs) : ∀ (a b : List Change) (c : Flat),
    applyAll sg c (a ++ b) =
      match applyAll sg c a with
      | .ok c' => applyAll sg c' b
      | .error e => .error e := by
  intro a
  induction a with
  | nil => intro b c; rfl
  | cons x xs ih =>
    intro b c
    simp only [List.cons_append, applyAll]
    cases apply1 sg c x with
    | error e => rfl
    | ok c' => exact ih b c'

theorem filter_map_all {α} (l : List α) (f : α → Change) (p : Change → Bool)
    (h : ∀ x, p (f x) = true) : (l.map f).filter p = l.map f := by
  induction l with
  | nil => rfl
  | cons x xs ih => simp [List.filter_cons, h x, ih]

theorem filter_map_none {α} (l : List α) (f : α → Change) (p : Change → Bool)
    (h : ∀ x, p (f x) = false) : (l.map f).filter p = [] := by
  induction l with
  | nil => rfl
  | cons x xs ih => simp [List.filter_cons, h x, ih]

theorem filter_flatDiff (old new : Flat) :
    (flatDiff old new).filter (fun ch => ch.opType == "DeleteValue") = (dels old new).map .deleteValue ∧
    (flatDiff old new).filter (fun ch => ch.opType == "RemoveTag") =
      (tagPairs old new).map (fun p => .removeTag p.1 p.2) ∧
    (flatDiff old new).filter (fun ch => ch.opType == "ModifyValue") =
      fnChange old new ++ (mods old new).map (fun p => .modifyValue p.1 p.2) ∧
    (flatDiff old new).filter (fun ch => ch.opType == "SetValue") =
      (sets old new).map (fun p => .setValue p.1 p.2) ∧
    (flatDiff old new).filter (fun ch => ch.opType == "AddTag") =
      (tagPairs new old).map (fun p => .addTag p.1 p.2) := by
  have hf : ∀ (s : String), (fnChange old new).filter (fun ch => ch.opType == s) =
      if s = "ModifyValue" then fnChange old new else [] := by
    intro s
    unfold fnChange
    split
    · simp
    · by_cases hs : s = "ModifyValue"
      · subst hs; simp [Change.opType]
      · have : ("ModifyValue" == s) = false := by
          simp; exact fun e => hs e.symm
        simp [Change.opType, hs, this]
  unfold flatDiff
  simp only [List.filter_append, hf]
  refine ⟨?_, ?_, ?_, ?_, ?_⟩
  · rw [filter_map_all (dels old new) Change.deleteValue (fun ch => ch.opType == "DeleteValue") (by intro x; simp [Change.opType]),
      filter_map_none (tagPairs old new) (fun p => Change.removeTag p.1 p.2) (fun ch => ch.opType == "DeleteValue") (by intro x; simp [Change.opType]),
      filter_map_none (mods old new) (fun p => Change.modifyValue p.1 p.2) (fun ch => ch.opType == "DeleteValue") (by intro x; simp [Change.opType]),
      filter_map_none (sets old new) (fun p => Change.setValue p.1 p.2) (fun ch => ch.opType == "DeleteValue") (by intro x; simp [Change.opType]),
      filter_map_none (tagPairs new old) (fun p => Change.addTag p.1 p.2) (fun ch => ch.opType == "DeleteValue") (by intro x; simp [Change.opType])]
    simp
  · rw [filter_map_none (dels old new) Change.deleteValue (fun ch => ch.opType == "RemoveTag") (by intro x; simp [Change.opType]),
      filter_map_all (tagPairs old new) (fun p => Change.removeTag p.1 p.2) (fun ch => ch.opType == "RemoveTag") (by intro x; simp [Change.opType]),
      filter_map_none (mods old new) (fun p => Change.modifyValue p.1 p.2) (fun ch => ch.opType == "RemoveTag") (by intro x; simp [Change.opType]),
      filter_map_none (sets old new) (fun p => Change.setValue p.1 p.2) (fun ch => ch.opType == "RemoveTag") (by intro x; simp [Change.opType]),
      filter_map_none (tagPairs new old) (fun p => Change.addTag p.1 p.2) (fun ch => ch.opType == "RemoveTag") (by intro x; simp [Change.opType])]
    simp
  · rw [filter_map_none (dels old new) Change.deleteValue (fun ch => ch.opType == "ModifyValue") (by intro x; simp [Change.opType]),
      filter_map_none (tagPairs old new) (fun p => Change.removeTag p.1 p.2) (fun ch => ch.opType == "ModifyValue") (by intro x; simp [Change.opType]),
      filter_map_all (mods old new) (fun p => Change.modifyValue p.1 p.2) (fun ch => ch.opType == "ModifyValue") (by intro x; simp [Change.opType]),
      filter_map_none (sets old new) (fun p => Change.setValue p.1 p.2) (fun ch => ch.opType == "ModifyValue") (by intro x; simp [Change.opType]),
      filter_map_none (tagPairs new old) (fun p => Change.addTag p.1 p.2) (fun ch => ch.opType == "ModifyValue") (by intro x; simp [Change.opType])]
    simp
  · rw [filter_map_none (dels old new) Change.deleteValue (fun ch => ch.opType == "SetValue") (by intro x; simp [Change.opType]),
      filter_map_none (tagPairs old new) (fun p => Change.removeTag p.1 p.2) (fun ch => ch.opType == "SetValue") (by intro x; simp [Change.opType]),
      filter_map_none (mods old new) (fun p => Change.modifyValue p.1 p.2) (fun ch => ch.opType == "SetValue") (by intro x; simp [Change.opType]),
      filter_map_all (sets old new) (fun p => Change.setValue p.1 p.2) (fun ch => ch.opType == "SetValue") (by intro x; simp [Change.opType]),
      filter_map_none (tagPairs new old) (fun p => Change.addTag p.1 p.2) (fun ch => ch.opType == "SetValue") (by intro x; simp [Change.opType])]
    simp
  · rw [filter_map_none (dels old new) Change.deleteValue (fun ch => ch.opType == "AddTag") (by intro x; simp [Change.opType]),
      filter_map_none (tagPairs old new) (fun p => Change.removeTag p.1 p.2) (fun ch => ch.opType == "AddTag") (by intro x; simp [Change.opType]),
      filter_map_none (mods old new) (fun p => Change.modifyValue p.1 p.2) (fun ch => ch.opType == "AddTag") (by intro x; simp [Change.opType]),
      filter_map_none (sets old new) (fun p => Change.setValue p.1 p.2) (fun ch => ch.opType == "AddTag") (by intro x; simp [Change.opType]),
      filter_map_all (tagPairs new old) (fun p => Change.addTag p.1 p.2) (fun ch => ch.opType == "AddTag") (by intro x; simp [Change.opType])]
    simp

end Fiddle.Diff
