/-
Build mode of `transform_to_args_kwargs` (include_no_value = False): the positional list it
returns is ALIGNED with the positional parameters — entry j is the stored value of the j-th
positional parameter or, for a slot that had to be filled, that parameter's own default — and a
required slot is never skipped over.
-/
import FiddleModel.Lemmas.View

namespace Fiddle
namespace Sig

/-- Is `p` passed positionally in this mode? -/
def posMode (inclPk vp : Bool) (p : Param) : Bool :=
  p.kind == .po || (p.kind == .pk && (inclPk || vp))

def dfltOpt (p : Param) : Option Val := if p.dflt then some (dfltVal p) else none

/-- What each positional-mode parameter should receive: its stored value, else its default,
    else nothing (`none` = required and unset). -/
def expectedSlots (inclPk vp : Bool) (d : Dict Val) : List Param → Nat → List (Option Val)
  | [], _ => []
  | p :: ps, i =>
    if posMode inclPk vp p then
      (match posKey p i with
       | some k => (match d.get? k with | some v => some v | none => dfltOpt p)
       | none => dfltOpt p) :: expectedSlots inclPk vp d ps (i + 1)
    else expectedSlots inclPk vp d ps (i + 1)

theorem fillSkipped_ok : ∀ (sk : List Param) (pos pos' : List Val),
    fillSkipped pos sk = .ok pos' →
    pos'.map some = pos.map some ++ sk.map dfltOpt := by
  intro sk
  induction sk with
  | nil => intro pos pos' h; simp [fillSkipped] at h; subst h; simp
  | cons p r ih =>
    intro pos pos' h
    simp only [fillSkipped] at h
    split at h
    · rename_i hd
      have := ih _ _ h
      simp [this, dfltOpt, hd, List.append_assoc]
    · cases h

/-- A skipped parameter without a default makes the fill (and hence the build) raise. -/
theorem fillSkipped_required_raises (sk : List Param) (pos : List Val)
    (h : ∃ p ∈ sk, p.dflt = false) : fillSkipped pos sk = .error .typeError := by
  induction sk generalizing pos with
  | nil => obtain ⟨p, hp, _⟩ := h; cases hp
  | cons q r ih =>
    simp only [fillSkipped]
    by_cases hq : q.dflt = true
    · simp only [hq, if_true]
      obtain ⟨p, hp, hd⟩ := h
      rcases List.mem_cons.mp hp with rfl | hp'
      · rw [hq] at hd; cases hd
      · exact ih _ ⟨p, hp', hd⟩
    · simp [hq]

/-- **Alignment invariant of the build-mode loop.** -/
theorem taLoop_build_aligned (s : Sig) (d : Dict Val) (inclPk vp : Bool) :
    ∀ (ps : List Param) (i : Nat) (pos : List Val) (rest : Dict Val) (sk : List Param)
      (pos' : List Val) (rest' : Dict Val) (sk' : List Param),
      (posKeys ps i).Nodup →
      (∀ k ∈ posKeys ps i, rest.get? k = d.get? k) →
      taLoop s inclPk false vp ps i pos rest sk = .ok (pos', rest', sk') →
      pos'.map some ++ sk'.map dfltOpt =
        pos.map some ++ sk.map dfltOpt ++ expectedSlots inclPk vp d ps i ∧
      (∀ p ∈ sk', ∀ k j, posKey p j = some k → True) := by
  intro ps
  induction ps with
  | nil =>
    intro i pos rest sk pos' rest' sk' _ _ h
    simp only [taLoop] at h
    cases h
    simp [expectedSlots]
  | cons p ps ih =>
    intro i pos rest sk pos' rest' sk' hnd hag h
    cases hk : p.kind with
    | po =>
      have hpk : posKey p i = some (.idx i) := by simp [posKey, hk]
      have hkeys : posKeys (p :: ps) i = .idx i :: posKeys ps (i + 1) := by simp [posKeys, hpk]
      rw [hkeys] at hnd hag
      have hnd' := (List.nodup_cons.mp hnd)
      have hhead : rest.get? (.idx i) = d.get? (.idx i) := hag _ (by simp)
      have hpm : posMode inclPk vp p = true := by simp [posMode, hk]
      simp only [taLoop, hk] at h
      cases hv : rest.get? (.idx (i : Int)) with
      | some v =>
        simp only [hv] at h
        cases hf : fillSkipped pos sk with
        | error e => simp [hf] at h
        | ok posf =>
          simp only [hf] at h
          have hag' : ∀ k ∈ posKeys ps (i + 1), (rest.del (.idx i)).get? k = d.get? k := by
            intro k hkm
            have hne : Key.idx i ≠ k := fun e => hnd'.1 (e ▸ hkm)
            rw [Dict.get?_del_other _ _ _ hne]; exact hag k (by simp [hkm])
          have := (ih (i + 1) (posf ++ [v]) (rest.del (.idx i)) [] pos' rest' sk' hnd'.2 hag' h).1
          refine ⟨?_, fun _ _ _ _ _ => trivial⟩
          rw [this]
          have hfill := fillSkipped_ok sk pos posf hf
          simp only [expectedSlots, hpm, if_true, hpk, ← hhead, hv, List.map_append, List.map_cons,
            List.map_nil, hfill, List.append_assoc, List.nil_append, List.cons_append]
      | none =>
        simp only [hv] at h
        have hag' : ∀ k ∈ posKeys ps (i + 1), rest.get? k = d.get? k :=
          fun k hkm => hag k (by simp [hkm])
        have := (ih (i + 1) pos rest (sk ++ [p]) pos' rest' sk' hnd'.2 hag' h).1
        refine ⟨?_, fun _ _ _ _ _ => trivial⟩
        rw [this]
        simp only [expectedSlots, hpm, if_true, hpk, ← hhead, hv, List.map_append, List.map_cons,
          List.map_nil, List.append_assoc, List.nil_append, List.cons_append]
    | pk =>
      have hpk : posKey p i = some (.name p.name) := by simp [posKey, hk]
      have hkeys : posKeys (p :: ps) i = .name p.name :: posKeys ps (i + 1) := by simp [posKeys, hpk]
      rw [hkeys] at hnd hag
      have hnd' := (List.nodup_cons.mp hnd)
      have hhead : rest.get? (.name p.name) = d.get? (.name p.name) := hag _ (by simp)
      simp only [taLoop, hk] at h
      by_cases hm : (inclPk || vp) = true
      · have hpm : posMode inclPk vp p = true := by simp [posMode, hk, hm]
        simp only [hm, if_true] at h
        cases hv : rest.get? (.name p.name) with
        | some v =>
          simp only [hv] at h
          cases hf : fillSkipped pos sk with
          | error e => simp [hf] at h
          | ok posf =>
            simp only [hf] at h
            have hag' : ∀ k ∈ posKeys ps (i + 1), (rest.del (.name p.name)).get? k = d.get? k := by
              intro k hkm
              have hne : Key.name p.name ≠ k := fun e => hnd'.1 (e ▸ hkm)
              rw [Dict.get?_del_other _ _ _ hne]; exact hag k (by simp [hkm])
            have := (ih (i + 1) (posf ++ [v]) (rest.del (.name p.name)) [] pos' rest' sk' hnd'.2 hag' h).1
            refine ⟨?_, fun _ _ _ _ _ => trivial⟩
            rw [this]
            have hfill := fillSkipped_ok sk pos posf hf
            simp only [expectedSlots, hpm, if_true, hpk, ← hhead, hv, List.map_append, List.map_cons,
              List.map_nil, hfill, List.append_assoc, List.nil_append, List.cons_append]
        | none =>
          simp only [hv] at h
          have hag' : ∀ k ∈ posKeys ps (i + 1), rest.get? k = d.get? k :=
            fun k hkm => hag k (by simp [hkm])
          have := (ih (i + 1) pos rest (sk ++ [p]) pos' rest' sk' hnd'.2 hag' h).1
          refine ⟨?_, fun _ _ _ _ _ => trivial⟩
          rw [this]
          simp only [expectedSlots, hpm, if_true, hpk, ← hhead, hv, List.map_append, List.map_cons,
            List.map_nil, List.append_assoc, List.nil_append, List.cons_append]
      · have hm' : (inclPk || vp) = false := by simpa using hm
        have hpm : posMode inclPk vp p = false := by simp [posMode, hk, hm']
        simp only [hm', if_false, Bool.false_eq_true] at h
        have hag' : ∀ k ∈ posKeys ps (i + 1), rest.get? k = d.get? k :=
          fun k hkm => hag k (by simp [hkm])
        have := (ih (i + 1) pos rest sk pos' rest' sk' hnd'.2 hag' h).1
        refine ⟨?_, fun _ _ _ _ _ => trivial⟩
        rw [this]
        simp [expectedSlots, hpm]
    | vp =>
      have hpk : posKey p i = none := by simp [posKey, hk]
      have hkeys : posKeys (p :: ps) i = posKeys ps (i + 1) := by simp [posKeys, hpk]
      rw [hkeys] at hnd hag
      have hpm : posMode inclPk vp p = false := by simp [posMode, hk]
      simp only [taLoop, hk] at h
      have := (ih (i + 1) pos rest sk pos' rest' sk' hnd hag h).1
      exact ⟨by rw [this]; simp [expectedSlots, hpm], fun _ _ _ _ _ => trivial⟩
    | ko =>
      have hpk : posKey p i = none := by simp [posKey, hk]
      have hkeys : posKeys (p :: ps) i = posKeys ps (i + 1) := by simp [posKeys, hpk]
      rw [hkeys] at hnd hag
      have hpm : posMode inclPk vp p = false := by simp [posMode, hk]
      simp only [taLoop, hk] at h
      have := (ih (i + 1) pos rest sk pos' rest' sk' hnd hag h).1
      exact ⟨by rw [this]; simp [expectedSlots, hpm], fun _ _ _ _ _ => trivial⟩
    | vk =>
      have hpk : posKey p i = none := by simp [posKey, hk]
      have hkeys : posKeys (p :: ps) i = posKeys ps (i + 1) := by simp [posKeys, hpk]
      rw [hkeys] at hnd hag
      have hpm : posMode inclPk vp p = false := by simp [posMode, hk]
      simp only [taLoop, hk] at h
      have := (ih (i + 1) pos rest sk pos' rest' sk' hnd hag h).1
      exact ⟨by rw [this]; simp [expectedSlots, hpm], fun _ _ _ _ _ => trivial⟩

end Sig
end Fiddle

namespace Fiddle
namespace Sig

/-- The `*args` loop in build mode: either there are no variadic values (nothing changes, the
    skipped slots stay skipped), or the skipped slots are filled first and the whole contiguous
    run is appended. -/
theorem collectVar_build (d : Dict Val) :
    ∀ (fuel i : Nat) (pos : List Val) (rest : Dict Val) (sk : List Param) (pos' : List Val) (rest' : Dict Val),
      (∀ j, i ≤ j → rest.get? (.idx j) = d.get? (.idx j)) →
      collectVar fuel i pos rest sk = .ok (pos', rest') →
      (varRun d fuel i = [] ∧ pos' = pos) ∨
      (∃ posf, fillSkipped pos sk = .ok posf ∧ pos' = posf ++ varRun d fuel i ∧ varRun d fuel i ≠ []) := by
  intro fuel
  cases fuel with
  | zero => intro i pos rest sk pos' rest' _ h; simp [collectVar] at h; left; simp [varRun, h.1]
  | succ fuel =>
    intro i pos rest sk pos' rest' hag h
    have h0 := hag i (Nat.le_refl i)
    simp only [collectVar] at h
    cases hv : rest.get? (.idx (i : Int)) with
    | none =>
      simp only [hv] at h; cases h
      left; simp [varRun, ← h0, hv]
    | some v =>
      simp only [hv] at h
      cases hf : fillSkipped pos sk with
      | error e => simp [hf] at h
      | ok posf =>
        simp only [hf] at h
        right
        have hag' : ∀ j, i + 1 ≤ j → (rest.del (.idx i)).get? (.idx j) = d.get? (.idx j) := by
          intro j hj
          have hne : Key.idx (i : Int) ≠ Key.idx (j : Int) := by
            intro e; injection e with e'; omega
          rw [Dict.get?_del_other _ _ _ hne]; exact hag j (by omega)
        obtain ⟨rest'', h1⟩ := collectVar_run d fuel (i + 1) (posf ++ [v]) (rest.del (.idx i)) hag'
        rw [h1] at h
        cases h
        refine ⟨posf, rfl, ?_, ?_⟩
        · simp [varRun, ← h0, hv, List.append_assoc]
        · simp [varRun, ← h0, hv]

/-- The parameter loop (any mode) only deletes positional storage keys: every other lookup of
    the working dict is unchanged. -/
theorem taLoop_keeps_other (s : Sig) (inclPk inclNo vp : Bool) :
    ∀ (ps : List Param) (i : Nat) (pos : List Val) (rest : Dict Val) (sk : List Param)
      (pos' : List Val) (rest' : Dict Val) (sk' : List Param),
      taLoop s inclPk inclNo vp ps i pos rest sk = .ok (pos', rest', sk') →
      ∀ k, k ∉ posKeys ps i → rest'.get? k = rest.get? k := by
  intro ps
  induction ps with
  | nil => intro i pos rest sk pos' rest' sk' h k _; simp [taLoop] at h; rw [h.2.1]
  | cons p ps ih =>
    intro i pos rest sk pos' rest' sk' h k hk
    cases hkind : p.kind with
    | po =>
      have hpk : posKey p i = some (.idx i) := by simp [posKey, hkind]
      simp only [posKeys, hpk, List.mem_cons, not_or] at hk
      simp only [taLoop, hkind] at h
      split at h
      · split at h
        · rw [ih _ _ _ _ _ _ _ h k hk.2, Dict.get?_del_other _ _ _ (fun e => hk.1 e.symm)]
        · cases h
      · split at h
        · exact ih _ _ _ _ _ _ _ h k hk.2
        · exact ih _ _ _ _ _ _ _ h k hk.2
    | pk =>
      have hpk : posKey p i = some (.name p.name) := by simp [posKey, hkind]
      simp only [posKeys, hpk, List.mem_cons, not_or] at hk
      simp only [taLoop, hkind] at h
      split at h
      · split at h
        · split at h
          · rw [ih _ _ _ _ _ _ _ h k hk.2, Dict.get?_del_other _ _ _ (fun e => hk.1 e.symm)]
          · cases h
        · split at h
          · exact ih _ _ _ _ _ _ _ h k hk.2
          · exact ih _ _ _ _ _ _ _ h k hk.2
      · exact ih _ _ _ _ _ _ _ h k hk.2
    | vp =>
      have hpk : posKey p i = none := by simp [posKey, hkind]
      simp only [posKeys, hpk] at hk
      simp only [taLoop, hkind] at h
      exact ih _ _ _ _ _ _ _ h k hk
    | ko =>
      have hpk : posKey p i = none := by simp [posKey, hkind]
      simp only [posKeys, hpk] at hk
      simp only [taLoop, hkind] at h
      exact ih _ _ _ _ _ _ _ h k hk
    | vk =>
      have hpk : posKey p i = none := by simp [posKey, hkind]
      simp only [posKeys, hpk] at hk
      simp only [taLoop, hkind] at h
      exact ih _ _ _ _ _ _ _ h k hk

/-- **Positional arguments are aligned with their parameters** (the whole
    `transform_to_args_kwargs` in build mode): the positional list is `front ++ var`, where
    `front` followed by the not-passed (skipped, unset) parameters is exactly the list of what
    each positional-mode parameter should receive, `var` is the contiguous `*args` run, and when
    `var` is non-empty no positional slot is left out. -/
theorem toArgsKwargs_aligned (s : Sig) (d : Dict Val) (inclPk : Bool) (wf : ViewWF s)
    (pos : List Val) (kw : Dict Val) (h : s.toArgsKwargs d inclPk false = .ok (pos, kw))
    (vp : Bool) (hvp : vp = (match s.vpStart with
      | some i => d.contains (.idx i)
      | none => false))
    (var : List Val) (hvar : var = (match s.vpStart with
      | some st => varRun d d.length st
      | none => [])) :
    ∃ front sk', pos = front ++ var ∧
      front.map some ++ sk'.map dfltOpt = expectedSlots inclPk vp d s 0 ∧
      (var ≠ [] → sk' = []) := by
  subst hvp
  unfold toArgsKwargs at h
  simp only at h
  split at h
  · cases h
  · rename_i pos1 rest1 sk1 hl
    have hal := (taLoop_build_aligned s d inclPk _ s 0 [] d [] pos1 rest1 sk1 wf.keysNodup
      (fun _ _ => rfl) hl).1
    simp only [List.map_nil, List.nil_append] at hal
    cases hvs : s.vpStart with
    | none =>
      simp only [hvs] at h hvar hal ⊢
      cases h
      subst hvar
      exact ⟨pos, sk1, by simp, hal, by simp⟩
    | some st =>
      simp only [hvs] at h hvar hal hl ⊢
      subst hvar
      have hag : ∀ j, st ≤ j → rest1.get? (.idx (j : Nat)) = d.get? (.idx (j : Nat)) := by
        intro j hj
        exact taLoop_keeps_other s inclPk false _ s 0 [] d [] pos1 rest1 sk1 hl (.idx (j : Nat))
          (by intro hmem; have := wf.poBeforeVar _ hmem st j hvs rfl; omega)
      rcases collectVar_build d d.length st pos1 rest1 sk1 pos kw hag h with ⟨hnil, hp⟩ | ⟨posf, hf, hp, hne⟩
      · refine ⟨pos1, sk1, ?_, hal, ?_⟩
        · simp [hnil, hp]
        · intro hc; exact absurd hnil hc
      · refine ⟨posf, [], by simp [hp], ?_, fun _ => rfl⟩
        have := fillSkipped_ok sk1 pos1 posf hf
        simp only [List.map_nil, List.append_nil]
        rw [this]; exact hal

end Sig
end Fiddle
