/-
Reflexivity of the `==` model on a well-formed heap.
-/
import FiddleModel.Model.Eq
import FiddleModel.Lemmas.Traverse

namespace Fiddle

theorem Heap.eqWF_of_B (h : Heap) (hb : h.eqWFB = true) : h.EqWF := by
  simp only [Heap.eqWFB, List.all_eq_true, Bool.and_eq_true, decide_eq_true_eq] at hb
  have get : ∀ i o, h[i]? = some o → (o, i) ∈ h.zipIdx := by
    intro i o ho
    rw [List.mem_zipIdx_iff_getElem?]; simpa using ho
  refine ⟨?_, ?_, ?_, ?_⟩
  · intro i o ho pv hpv j hj
    have := (hb (o, i) (get i o ho)).1.1.1 pv hpv
    rw [hj] at this; simpa using this
  · intro i o ho; exact (hb (o, i) (get i o ho)).1.2
  · intro i o ho; exact (hb (o, i) (get i o ho)).2
  · intro i o ho pv hpv j hj
    have := (hb (o, i) (get i o ho)).1.1.2 pv hpv
    rw [hj] at this; simpa using this

theorem lookupChild_self (ch : List (PElem × GVal)) (hn : (ch.map (·.1)).Nodup)
    (x : PElem × GVal) (hx : x ∈ ch) : lookupChild ch x.1 = some x.2 := by
  unfold lookupChild
  rw [find?_of_nodup ch x hn hx]; rfl

theorem zip_self_all {α} (l : List α) (f : α × α → Bool) :
    (l.zip l).all f = l.all (fun x => f (x, x)) := by
  induction l with
  | nil => rfl
  | cons x xs ih => simp [List.zip_cons_cons, List.all_cons, ih]

/-- Reflexivity of value comparison, given enough fuel. -/
theorem valEq_refl (h : Heap) (wf : h.EqWF) (fuel : Nat) : ∀ v : GVal, v.rank ≤ fuel →
    (∀ i, v = .ref i → ∃ o, h[i]? = some o) → valEq h h fuel v v = true := by
  induction fuel with
  | zero =>
    intro v hr _
    cases v with
    | atom t => simp [valEq]
    | ref i => simp [GVal.rank] at hr
  | succ fuel ih =>
    intro v hr hex
    cases v with
    | atom t => simp [valEq]
    | ref i =>
      obtain ⟨o, ho⟩ := hex i rfl
      have child : ∀ (l : List (PElem × GVal)), (∀ pv ∈ l, ∀ j, pv.2 = GVal.ref j → j < i) →
          ∀ x ∈ l, valEq h h fuel x.2 x.2 = true := by
        intro l hl x hx
        apply ih
        · cases hx2 : x.2 with
          | atom t => simp [GVal.rank]
          | ref j =>
            have := hl x hx j hx2
            simp [GVal.rank] at hr ⊢; omega
        · intro j hj
          have hji := hl x hx j hj
          have : j < h.length := by
            have := (List.getElem?_eq_some_iff.mp ho).1; omega
          exact ⟨h[j], by simp [this]⟩
      simp only [valEq, ho]
      simp only [bne_self_eq_false, Bool.or_self, Bool.false_eq_true, if_false]
      have hseq : (o.children.length == o.children.length &&
          (o.children.zip o.children).all
            (fun x => x.1.1 == x.2.1 && valEq h h fuel x.1.2 x.2.2)) = true := by
        simp only [beq_self_eq_true, Bool.true_and, zip_self_all]
        rw [List.all_eq_true]
        intro x hx
        simp [child o.children (wf.ch' i o ho) x hx]
      have hdict : (o.children.length == o.children.length &&
          o.children.all (fun x => match lookupChild o.children x.1 with
            | some y => valEq h h fuel x.2 y
            | none => false)) = true := by
        simp only [beq_self_eq_true, Bool.true_and]
        rw [List.all_eq_true]
        intro x hx
        rw [lookupChild_self _ (wf.keys' i o ho) x hx]
        exact child o.children (wf.ch' i o ho) x hx
      have hcfg : ((childrenWithDefaults o).length == (childrenWithDefaults o).length &&
          (childrenWithDefaults o).all (fun x => match lookupChild (childrenWithDefaults o) x.1 with
            | some y => valEq h h fuel x.2 y
            | none => false)) = true := by
        simp only [beq_self_eq_true, Bool.true_and]
        rw [List.all_eq_true]
        intro x hx
        rw [lookupChild_self _ (wf.keys i o ho) x hx]
        exact child _ (wf.ch i o ho) x hx
      cases hk : o.kind <;> simp only [] <;> first | rfl | exact hseq | exact hdict | exact hcfg

/-- The correspondence built while comparing a structure with itself is the identity. -/
structure ShareSt.Diag (st : ShareSt) : Prop where
  same : st.yToX = st.xToY
  diag : ∀ kv ∈ st.xToY, kv.2 = kv.1

theorem assocGet_diag (m : List (Nat × Nat)) (hd : ∀ kv ∈ m, kv.2 = kv.1) (i j : Nat)
    (hg : assocGet m i = some j) : j = i := by
  unfold assocGet at hg
  cases hf : m.find? (fun kv => kv.1 == i) with
  | none => simp [hf] at hg
  | some kv =>
    simp [hf] at hg
    have h1 := List.find?_some hf
    have h2 := List.mem_of_find?_eq_some hf
    simp at h1
    rw [← hg, hd kv h2, h1]

theorem shareVisit_refl (h : Heap) (wf : h.EqWF) (fuel : Nat) : ∀ (v : GVal) (st : ShareSt),
    v.rank ≤ fuel → (∀ i, v = .ref i → ∃ o, h[i]? = some o) → st.Diag →
    ∃ st', shareVisit h h fuel v v st = some st' ∧ st'.Diag := by
  induction fuel with
  | zero =>
    intro v st hr _ hd
    cases v with
    | atom t => exact ⟨st, by simp [shareVisit], hd⟩
    | ref i => simp [GVal.rank] at hr
  | succ fuel ih =>
    intro v st hr hex hd
    cases v with
    | atom t => exact ⟨st, by simp [shareVisit], hd⟩
    | ref i =>
      obtain ⟨o, ho⟩ := hex i rfl
      simp only [shareVisit]
      split
      · exact ⟨st, rfl, hd⟩
      · rw [hd.same]
        cases hg : assocGet st.xToY i with
        | some j =>
          have := assocGet_diag _ hd.diag i j hg
          subst this
          exact ⟨st, by simp, hd⟩
        | none =>
          simp only [ho]
          have hd0 : ShareSt.Diag { xToY := (i, i) :: st.xToY, yToX := (i, i) :: st.xToY } :=
            ⟨rfl, by
              intro kv hkv
              rcases List.mem_cons.mp hkv with rfl | hkv
              · rfl
              · exact hd.diag kv hkv⟩
          split
          · exact ⟨_, rfl, hd0⟩
          · simp only [bne_self_eq_false, Bool.false_eq_true, if_false]
            apply foldl_inv (fun (acc : Option ShareSt) => ∃ st' : ShareSt, acc = some st' ∧ st'.Diag)
            · exact ⟨_, rfl, hd0⟩
            · rintro acc ⟨st1, rfl, hd1⟩ x hx
              simp only []
              rw [lookupChild_self _ (wf.keys i o ho) x hx]
              apply ih _ _ _ _ hd1
              · cases hx2 : x.2 with
                | atom t => simp [GVal.rank]
                | ref j =>
                  have := wf.ch i o ho x hx j hx2
                  simp [GVal.rank] at hr ⊢; omega
              · intro j hj
                have hji := wf.ch i o ho x hx j hj
                have : j < h.length := by
                  have := (List.getElem?_eq_some_iff.mp ho).1; omega
                exact ⟨h[j], by simp [this]⟩

/-- `x == x` holds for every Buildable (every object) of a well-formed heap. -/
theorem buildableEq_refl (h : Heap) (wf : h.EqWF) (i : Nat) (o : GObj) (ho : h[i]? = some o) :
    buildableEq h h (.ref i) (.ref i) = true := by
  have hi : i < h.length := (List.getElem?_eq_some_iff.mp ho).1
  have hr : (GVal.ref i).rank ≤ h.length + h.length + 2 := by simp [GVal.rank]; omega
  have hex : ∀ k, GVal.ref i = .ref k → ∃ o, h[k]? = some o := by
    intro k hk; cases hk; exact ⟨o, ho⟩
  obtain ⟨st', hs, _⟩ := shareVisit_refl h wf _ (.ref i) {} hr hex ⟨rfl, by simp⟩
  simp [buildableEq, valEq_refl h wf _ (.ref i) hr hex, hs]

end Fiddle
