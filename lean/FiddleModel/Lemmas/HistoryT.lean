/-
The tag half of the history invariant ("each parameter's history ends with its current tag
set"), and a smaller closure principle from which closure under the full edit alphabet
(`Cfg.ClosedT`, `Lemmas/OpsTags.lean`) follows: a TaggedValue assignment is a tag-set update
followed by a plain assignment.
-/
import FiddleModel.Lemmas.OpsTags

namespace Fiddle

/-- The four primitive logged steps every edit is composed of. -/
structure Cfg.ClosedCore (P : Cfg → Prop) : Prop where
  plain : ∀ (c : Cfg) (k : Key) (v : Val), P c →
    P (({ c with args := c.args.set k v } : Cfg).log k (.val v))
  del : ∀ (c : Cfg) (k : Key), P c → P (({ c with args := c.args.del k } : Cfg).log k .deleted)
  setTags : ∀ (c : Cfg) (k : Key) (ts : List Nat), P c →
    P (({ c with tags := c.tags.set k ts } : Cfg).log k (.tags ts))
  logTags : ∀ (c : Cfg) (k : Key), P c → P (c.log k (.tags (c.tagsOf k)))
  logFn : ∀ (c : Cfg), P c → P (c.log (.name "__fn_or_cls__") (.val (.v 0)))

theorem Cfg.ClosedCore.toClosedT {P : Cfg → Prop} (h : Cfg.ClosedCore P) : Cfg.ClosedT P where
  base := {
    set := by
      intro c k v hc
      cases v with
      | tv ts inner =>
        simp only [Cfg.setValue]
        have h1 : P (if ts.isEmpty then c else
            ({ c with tags := c.tags.set k (tagUnion ((c.tags.get? k).getD []) ts) } : Cfg).log k
              (.tags (tagUnion ((c.tags.get? k).getD []) ts))) := by
          split
          · exact hc
          · exact h.setTags c k _ hc
        generalize (if ts.isEmpty then c else _) = c1 at h1
        cases inner with
        | none => exact h1
        | some n => exact h.plain c1 k (.v n) h1
      | v n => exact h.plain c k _ hc
      | d n => exact h.plain c k _ hc
      | nov => exact h.plain c k _ hc
    del := by
      intro c k c' hd hc
      unfold Cfg.delValue at hd
      split at hd
      · cases hd; exact h.del c k hc
      · cases hd }
  setTags := h.setTags
  logTags := h.logTags
  logFn := h.logFn

/-- If any tag update was logged for `k`, the last one is `k`'s current tag set (an argument
    without a stored tag set has the empty one, as with Python's `defaultdict(set)`). -/
def TagsFaithfulT (c : Cfg) : Prop :=
  ∀ k ts, lastTags c.hist k = some (.tags ts) → c.tagsOf k = ts

theorem lastTags_log_value (c : Cfg) (k k' : Key) (h : HVal) (hv : h.isValue = true) :
    lastTags (c.log k h).hist k' = lastTags c.hist k' := by
  unfold Cfg.log
  split
  · simp only [lastTags_append]
    simp [hv]
  · rfl

theorem TagsFaithfulT_value (c c0 : Cfg) (k : Key) (h : HVal) (hv : h.isValue = true)
    (ht : c0.tags = c.tags) (hh : c0.hist = c.hist) (hc : c0.ctr = c.ctr) (htr : c0.tracking = c.tracking)
    (hf : TagsFaithfulT c) : TagsFaithfulT (c0.log k h) := by
  intro k' ts hl
  have e : (c0.log k h).tagsOf k' = c.tagsOf k' := by
    unfold Cfg.tagsOf; rw [log_tags, ht]
  rw [e]
  apply hf k' ts
  rw [lastTags_log_value c0 k k' h hv, hh] at hl
  exact hl

theorem TagsFaithfulT_setTags (c : Cfg) (k : Key) (ts : List Nat) (ht : c.tracking = true)
    (hf : TagsFaithfulT c) :
    TagsFaithfulT (({ c with tags := c.tags.set k ts } : Cfg).log k (.tags ts)) := by
  intro k' ts' hl
  rw [log_hist_on _ _ _ (by exact ht)] at hl
  simp only [lastTags_append, HVal.isValue, and_true] at hl
  unfold Cfg.tagsOf
  rw [log_tags]
  by_cases hk : k = k'
  · subst hk
    simp only [if_true] at hl
    cases hl
    simp [Dict.get?_set_same]
  · simp only [hk, if_false] at hl
    simp only [Dict.get?_set_other _ _ _ _ hk]
    exact hf k' ts' hl

theorem TagsFaithfulT_logTags (c : Cfg) (k : Key) (ht : c.tracking = true) (hf : TagsFaithfulT c) :
    TagsFaithfulT (c.log k (.tags (c.tagsOf k))) := by
  intro k' ts' hl
  rw [log_hist_on _ _ _ ht] at hl
  simp only [lastTags_append, HVal.isValue, and_true] at hl
  have e : (c.log k (.tags (c.tagsOf k))).tagsOf k' = c.tagsOf k' := by
    unfold Cfg.tagsOf; rw [log_tags]
  rw [e]
  by_cases hk : k = k'
  · subst hk
    simp only [if_true] at hl
    cases hl
    rfl
  · simp only [hk, if_false] at hl
    exact hf k' ts' hl

/-- The complete history invariant: values (`HistInv`) and tag sets. -/
structure HistInvT (c : Cfg) : Prop where
  base : HistInv c
  tagsF : c.tracking = true → TagsFaithfulT c

theorem HistInv_tagStep (c c0 : Cfg) (k : Key) (ts : List Nat) (ha : c0.args = c.args)
    (hh : c0.hist = c.hist) (hc : c0.ctr = c.ctr) (htr : c0.tracking = c.tracking) (hi : HistInv c) :
    HistInv (c0.log k (.tags ts)) := by
  have hi0 : HistInv c0 := by
    refine ⟨by rw [ha]; exact hi.nodup, ?_, ?_⟩
    · unfold SeqOK; rw [hh, hc]; exact hi.seq
    · intro ht
      rw [htr] at ht
      have := hi.vals ht
      unfold ValuesFaithful at this ⊢
      rw [ha, hh]; exact this
  refine ⟨by rw [log_args]; exact hi0.nodup, SeqOK_log _ _ _ hi0.seq, ?_⟩
  intro ht
  rw [log_tracking] at ht
  exact ValuesFaithful_logTags _ _ _ (hi0.vals ht)

theorem ValuesFaithful_logFn (c : Cfg) (hf : ValuesFaithful c) :
    ValuesFaithful (c.log fnKey (.val (.v 0))) := by
  by_cases ht : c.tracking = true
  · intro k hk
    rw [log_args, log_hist_on _ _ _ ht]
    simp only [lastValue_append]
    have hne : ¬ (fnKey = k ∧ (HVal.val (Val.v 0)).isValue = true) := fun e => hk e.1.symm
    simp only [hne, if_false]
    exact hf k hk
  · rw [log_off _ _ _ (by simpa using ht)]; exact hf

theorem HistInvT_core : Cfg.ClosedCore HistInvT where
  plain := by
    intro c k v hc
    refine ⟨?_, ?_⟩
    · by_cases hv : ∀ ts i, v ≠ .tv ts i
      · rw [← setValue_plain c k v hv]; exact HistInv_closed.set c k v hc.base
      · -- a TaggedValue stored as such never occurs through the hooks; the step is still a plain
        -- store update + value entry, which preserves the invariant for any value
        refine ⟨?_, ?_, ?_⟩
        · rw [log_args]; exact Dict.nodup_set _ _ _ hc.base.nodup
        · exact SeqOK_log _ _ _ hc.base.seq
        · intro ht
          rw [log_tracking] at ht
          exact ValuesFaithful_set c k v ht (hc.base.vals ht)
    · intro ht
      rw [log_tracking] at ht
      exact TagsFaithfulT_value c _ k (.val v) rfl rfl rfl rfl rfl (hc.tagsF ht)
  del := by
    intro c k hc
    by_cases hk : c.args.contains k = true
    · have hd : c.delValue k = .ok (({ c with args := c.args.del k } : Cfg).log k .deleted) := by
        unfold Cfg.delValue; simp [hk]
      refine ⟨HistInv_closed.del c k _ hd hc.base, ?_⟩
      intro ht
      rw [log_tracking] at ht
      exact TagsFaithfulT_value c _ k .deleted rfl rfl rfl rfl rfl (hc.tagsF ht)
    · -- deleting an absent key (never reached through `delValue`, which raises KeyError first)
      have hnone : c.args.get? k = none := by
        cases hg : c.args.get? k with
        | none => rfl
        | some v => exact absurd ((Dict.contains_iff _ _).mpr ⟨v, hg⟩) hk
      refine ⟨⟨?_, ?_, ?_⟩, ?_⟩
      · rw [log_args]; exact Dict.nodup_del _ _ hc.base.nodup
      · exact SeqOK_log _ _ _ hc.base.seq
      · intro ht
        rw [log_tracking] at ht
        exact ValuesFaithful_del c k ht hc.base.nodup (hc.base.vals ht)
      · intro ht
        rw [log_tracking] at ht
        exact TagsFaithfulT_value c _ k .deleted rfl rfl rfl rfl rfl (hc.tagsF ht)
  setTags := by
    intro c k ts hc
    refine ⟨HistInv_tagStep c _ k ts rfl rfl rfl rfl hc.base, ?_⟩
    intro ht
    rw [log_tracking] at ht
    exact TagsFaithfulT_setTags c k ts ht (hc.tagsF ht)
  logTags := by
    intro c k hc
    refine ⟨HistInv_tagStep c c k _ rfl rfl rfl rfl hc.base, ?_⟩
    intro ht
    rw [log_tracking] at ht
    exact TagsFaithfulT_logTags c k ht (hc.tagsF ht)
  logFn := by
    intro c hc
    refine ⟨⟨?_, ?_, ?_⟩, ?_⟩
    · rw [log_args]; exact hc.base.nodup
    · exact SeqOK_log _ _ _ hc.base.seq
    · intro ht
      rw [log_tracking] at ht
      exact ValuesFaithful_logFn c (hc.base.vals ht)
    · intro ht
      rw [log_tracking] at ht
      exact TagsFaithfulT_value c c (.name "__fn_or_cls__") (.val (.v 0)) rfl rfl rfl rfl rfl (hc.tagsF ht)

/-- ... for histories during which tracking is never switched off. -/
def TrackedInvT (c : Cfg) : Prop := HistInvT c ∧ c.tracking = true

theorem TrackedInvT_core : Cfg.ClosedCore TrackedInvT where
  plain := fun c k v ⟨hi, ht⟩ => ⟨HistInvT_core.plain c k v hi, by rw [log_tracking]; exact ht⟩
  del := fun c k ⟨hi, ht⟩ => ⟨HistInvT_core.del c k hi, by rw [log_tracking]; exact ht⟩
  setTags := fun c k ts ⟨hi, ht⟩ => ⟨HistInvT_core.setTags c k ts hi, by rw [log_tracking]; exact ht⟩
  logTags := fun c k ⟨hi, ht⟩ => ⟨HistInvT_core.logTags c k hi, by rw [log_tracking]; exact ht⟩
  logFn := fun c ⟨hi, ht⟩ => ⟨HistInvT_core.logFn c hi, by rw [log_tracking]; exact ht⟩

/-- While tracking is off nothing is appended and no sequence number is drawn, whatever the edit. -/
theorem Silent_core (h0 : List HEntry) (n0 : Nat) : Cfg.ClosedCore (Silent h0 n0) where
  plain := by
    intro c k v ⟨ht, hh, hn⟩
    rw [log_off _ _ _ (by simpa using ht)]; exact ⟨ht, hh, hn⟩
  del := by
    intro c k ⟨ht, hh, hn⟩
    rw [log_off _ _ _ (by simpa using ht)]; exact ⟨ht, hh, hn⟩
  setTags := by
    intro c k ts ⟨ht, hh, hn⟩
    rw [log_off _ _ _ (by simpa using ht)]; exact ⟨ht, hh, hn⟩
  logTags := by
    intro c k ⟨ht, hh, hn⟩
    rw [log_off _ _ _ (by simpa using ht)]; exact ⟨ht, hh, hn⟩
  logFn := by
    intro c ⟨ht, hh, hn⟩
    rw [log_off _ _ _ (by simpa using ht)]; exact ⟨ht, hh, hn⟩

end Fiddle
