/-
`ordered_arguments` lists the `**kwargs` entries after everything else, in the order in which
they are stored (the insertion order of `__arguments__`).
-/
import FiddleModel.Lemmas.Materialize

namespace Fiddle
open Sig

/-- A stored entry that `ordered_arguments` treats as a `**kwargs` entry. -/
def isExtra (s : Sig) (kv : Key × Val) : Bool :=
  match kv.1 with
  | .name n =>
    match s.find? n with
    | none => true
    | some p => p.kind == .vk || p.kind == .po || p.kind == .vp
  | .idx _ => false

theorem contains_append_single (d : Dict Val) (k k' : Key) (v : Val) (h : d.contains k' = false)
    (hne : k ≠ k') : (d ++ [(k, v)]).contains k' = false := by
  unfold Dict.contains at h ⊢
  rw [Dict.get?_append]
  have : d.get? k' = none := by
    cases hg : d.get? k' with
    | none => rfl
    | some x => simp [hg] at h
  simp [this, Dict.get?, hne]

/-- The `include_var_keyword` loop appends exactly the extra entries, in stored order, provided
    none of them is in the result so far and stored keys are distinct. -/
theorem oaExtras_append (s : Sig) : ∀ (d res : Dict Val), d.NodupKeys →
    (∀ kv ∈ d, isExtra s kv = true → res.contains kv.1 = false) →
    Cfg.oaExtras s d res = res ++ d.filter (isExtra s) := by
  intro d
  induction d with
  | nil => intro res _ _; simp [Cfg.oaExtras]
  | cons kv r ih =>
    intro res hn habs
    obtain ⟨k, v⟩ := kv
    have hn' : Dict.NodupKeys r := by
      unfold Dict.NodupKeys Dict.keys at hn ⊢
      simp only [List.map_cons, List.nodup_cons] at hn
      exact hn.2
    have hk_notin : k ∉ r.map (·.1) := by
      unfold Dict.NodupKeys Dict.keys at hn
      simp only [List.map_cons, List.nodup_cons] at hn
      exact hn.1
    by_cases he : isExtra s (k, v) = true
    · have habs0 := habs (k, v) (by simp) he
      have step : Cfg.oaExtras s ((k, v) :: r) res = Cfg.oaExtras s r (res.set k v) := by
        unfold isExtra at he
        cases k with
        | idx i => simp at he
        | name n =>
          simp only [Cfg.oaExtras]
          cases hf : s.find? n with
          | none => rfl
          | some p =>
            simp only [hf] at he ⊢
            simp only [he, if_true]
      rw [step, Dict.set_absent _ _ _ habs0]
      rw [ih (res ++ [(k, v)]) hn' ?_]
      · simp [List.filter, he]
      · intro kv' hkv' he'
        have hne : k ≠ kv'.1 := fun e => hk_notin (List.mem_map.mpr ⟨kv', hkv', e.symm⟩)
        exact contains_append_single res k kv'.1 v (habs kv' (by simp [hkv']) he') hne
    · have step : Cfg.oaExtras s ((k, v) :: r) res = Cfg.oaExtras s r res := by
        unfold isExtra at he
        cases k with
        | idx i => simp [Cfg.oaExtras]
        | name n =>
          simp only [Cfg.oaExtras]
          cases hf : s.find? n with
          | none => simp [hf] at he
          | some p =>
            simp only [hf] at he ⊢
            simp only [he, Bool.false_eq_true, if_false]
      rw [step, ih res hn' (fun kv' hkv' he' => habs kv' (by simp [hkv']) he')]
      simp [List.filter, he]

/-- Keys the two parameter loops can add: indices, and names of keyword-capable parameters. -/
def CoreKey (ps : List Param) (k : Key) : Prop :=
  (∃ j, k = .idx j) ∨ ∃ p ∈ ps, (p.kind = .pk ∨ p.kind = .ko) ∧ k = .name p.name

theorem oaVar_keys (args : Dict Val) : ∀ (fuel i : Nat) (res : Dict Val) (k : Key),
    k ∈ (Cfg.oaVar args fuel i res).keys → k ∈ res.keys ∨ ∃ j, k = .idx j := by
  intro fuel
  induction fuel with
  | zero => intro i res k h; exact .inl h
  | succ fuel ih =>
    intro i res k h
    simp only [Cfg.oaVar] at h
    split at h
    · rcases ih _ _ _ h with h1 | h1
      · rcases Dict.keys_set_subset _ _ _ _ h1 with e | e
        · exact .inr ⟨_, e⟩
        · exact .inl e
      · exact .inr h1
    · exact .inl h

theorem oaLoop_keys (args : Dict Val) (f : Cfg.OAFlags) : ∀ (ps : List Param) (i : Nat) (res : Dict Val)
    (k : Key), k ∈ (Cfg.oaLoop args f ps i res).keys → k ∈ res.keys ∨ CoreKey ps k := by
  intro ps
  induction ps with
  | nil => intro i res k h; exact .inl h
  | cons p ps ih =>
    intro i res k h
    have lift : (k ∈ res.keys ∨ CoreKey ps k) → k ∈ res.keys ∨ CoreKey (p :: ps) k := by
      rintro (h1 | h1 | ⟨q, hq, hk, e⟩)
      · exact .inl h1
      · exact .inr (.inl h1)
      · exact .inr (.inr ⟨q, by simp [hq], hk, e⟩)
    simp only [Cfg.oaLoop] at h
    cases hk : p.kind <;> simp only [hk] at h
    case vp =>
      rcases ih _ _ _ h with h1 | h1
      · rcases oaVar_keys _ _ _ _ _ h1 with h2 | h2
        · exact .inl h2
        · exact .inr (.inl h2)
      · exact lift (.inr h1)
    case vk => exact lift (ih _ _ _ h)
    all_goals
      repeat' split at h
      all_goals first
        | exact lift (ih _ _ _ h)
        | (rename_i hbad; exact absurd (by decide) hbad)
        | (rename_i hbad; exact absurd hbad (by decide))
        | (rcases ih _ _ _ h with h1 | h1
           · rcases Dict.keys_set_subset _ _ _ _ h1 with e | e
             · first
                 | exact .inr (.inl ⟨_, e⟩)
                 | exact .inr (.inr ⟨p, by simp, by simp [hk], e⟩)
             · exact .inl e
           · exact lift (.inr h1))

theorem find?_of_nodup_names : ∀ (s : Sig) (p : Param), p ∈ s → (s.map (·.name)).Nodup →
    s.find? p.name = some p := by
  intro s
  induction s with
  | nil => intro p hp; cases hp
  | cons q r ih =>
    intro p hp hs
    unfold Sig.find? at ih ⊢
    simp only [List.map_cons, List.nodup_cons] at hs
    rcases List.mem_cons.mp hp with rfl | hp'
    · simp [List.find?]
    · have hne : (q.name == p.name) = false := by
        simp only [beq_eq_false_iff_ne, ne_eq]
        intro e2
        exact hs.1 (List.mem_map.mpr ⟨p, hp', e2.symm⟩)
      simp only [List.find?, hne]
      exact ih p hp' hs.2

theorem not_contains_of_not_key (d : Dict Val) (k : Key) (h : k ∉ d.keys) : d.contains k = false := by
  unfold Dict.contains
  rw [Dict.get?_none_of_not_mem d k h]; rfl

/-- **`ordered_arguments` lists the `**kwargs` entries last, in stored order**: with the flags
    `build` uses, the result is the parameter part followed by exactly the extra entries of
    `__arguments__` in their insertion order. (Parameter names of a signature are distinct.) -/
theorem orderedArguments_extras (s : Sig) (c : Cfg) (hn : c.args.NodupKeys)
    (hs : (s.map (·.name)).Nodup) (oa : Dict Val)
    (h : c.orderedArguments s {} = .ok oa) :
    oa = Cfg.oaLoop c.args {} s 0 [] ++ c.args.filter (isExtra s) := by
  unfold Cfg.orderedArguments at h
  simp only [Bool.not_true, Bool.false_and, Bool.false_eq_true, if_false, if_true] at h
  cases h
  apply oaExtras_append s c.args _ hn
  intro kv hkv he
  apply not_contains_of_not_key
  intro hmem
  rcases oaLoop_keys _ _ _ _ _ _ hmem with h1 | ⟨j, e⟩ | ⟨p, hp, hkind, e⟩
  · simp at h1
  · unfold isExtra at he; rw [e] at he; simp at he
  · -- an extra entry is not named like a keyword-capable parameter
    unfold isExtra at he
    rw [e] at he
    simp only at he
    have hfind : s.find? p.name = some p := find?_of_nodup_names s p hp hs
    rw [hfind] at he
    rcases hkind with hk | hk <;> simp [hk] at he

end Fiddle
