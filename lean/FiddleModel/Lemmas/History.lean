/-
History invariants of the ArgStore model (C16): sequence numbers, "last entry = current
value", suspension.
-/
import FiddleModel.Lemmas.Dict
import FiddleModel.Lemmas.Ops

namespace Fiddle

def HVal.isValue : HVal → Bool
  | .val _ => true
  | .deleted => true
  | .tags _ => false

/-- The last NEW_VALUE entry (a value or the deletion marker) logged for `k`. -/
def lastValue (h : List HEntry) (k : Key) : Option HVal :=
  ((h.filter (fun e => e.key == k && e.new.isValue)).getLast?).map (·.new)

/-- The last UPDATE_TAGS entry logged for `k`. -/
def lastTags (h : List HEntry) (k : Key) : Option HVal :=
  ((h.filter (fun e => e.key == k && !e.new.isValue)).getLast?).map (·.new)

theorem lastValue_append (h : List HEntry) (e : HEntry) (k : Key) :
    lastValue (h ++ [e]) k = if e.key = k ∧ e.new.isValue = true then some e.new else lastValue h k := by
  unfold lastValue
  rw [List.filter_append]
  by_cases hk : e.key = k ∧ e.new.isValue = true
  · have : (e.key == k && e.new.isValue) = true := by simp [hk.1, hk.2]
    simp [List.filter, this, hk]
  · have : (e.key == k && e.new.isValue) = false := by
      cases hv : e.new.isValue <;> simp_all
    simp [List.filter, this, hk]

theorem lastTags_append (h : List HEntry) (e : HEntry) (k : Key) :
    lastTags (h ++ [e]) k = if e.key = k ∧ e.new.isValue = false then some e.new else lastTags h k := by
  unfold lastTags
  rw [List.filter_append]
  by_cases hk : e.key = k ∧ e.new.isValue = false
  · have : (e.key == k && !e.new.isValue) = true := by simp [hk.1, hk.2]
    simp [List.filter, this, hk]
  · have : (e.key == k && !e.new.isValue) = false := by
      cases hv : e.new.isValue <;> simp_all
    simp [List.filter, this, hk]

/-- Sequence numbers in the log are strictly increasing and below the counter. -/
def SeqOK (c : Cfg) : Prop :=
  c.hist.Pairwise (fun a b => a.seq < b.seq) ∧ ∀ e ∈ c.hist, e.seq < c.ctr

/-- The value part of the history is faithful (for argument keys; `__fn_or_cls__` has history
    entries of its own but is not an argument): the last NEW_VALUE entry of every key is its
    current value, or the deletion marker (or nothing at all) if it is unset. -/
def fnKey : Key := .name "__fn_or_cls__"

def ValuesFaithful (c : Cfg) : Prop :=
  ∀ k, k ≠ fnKey → match c.args.get? k with
    | some v => lastValue c.hist k = some (.val v)
    | none => lastValue c.hist k = none ∨ lastValue c.hist k = some .deleted

/-- The tag part: if any tag update was logged for `k`, the last one is the current tag set. -/
def TagsFaithful (c : Cfg) : Prop :=
  ∀ k ts, lastTags c.hist k = some (.tags ts) → c.tags.get? k = some ts

theorem SeqOK_log (c : Cfg) (k : Key) (h : HVal) (hc : SeqOK c) : SeqOK (c.log k h) := by
  unfold Cfg.log
  split
  · refine ⟨?_, ?_⟩
    · simp only [List.pairwise_append, List.pairwise_cons, List.Pairwise.nil, List.mem_singleton]
      refine ⟨hc.1, ⟨by simp, by simp⟩, ?_⟩
      intro a ha b hb; subst hb; exact hc.2 a ha
    · intro e he
      simp only [List.mem_append, List.mem_singleton] at he
      rcases he with he | he
      · exact Nat.lt_succ_of_lt (hc.2 e he)
      · subst he; exact Nat.lt_succ_self _
  · exact hc

theorem log_args (c : Cfg) (k : Key) (h : HVal) : (c.log k h).args = c.args := by
  unfold Cfg.log; split <;> rfl
theorem log_tags (c : Cfg) (k : Key) (h : HVal) : (c.log k h).tags = c.tags := by
  unfold Cfg.log; split <;> rfl
theorem log_tracking (c : Cfg) (k : Key) (h : HVal) : (c.log k h).tracking = c.tracking := by
  unfold Cfg.log; split <;> rfl
theorem log_hist_on (c : Cfg) (k : Key) (h : HVal) (ht : c.tracking = true) :
    (c.log k h).hist = c.hist ++ [⟨c.ctr, k, h⟩] := by
  unfold Cfg.log; simp [ht]
theorem log_off (c : Cfg) (k : Key) (h : HVal) (ht : c.tracking = false) : c.log k h = c := by
  unfold Cfg.log; simp [ht]

/-- Setting a plain (non-TaggedValue) value: the store update followed by one log entry. -/
theorem setValue_plain (c : Cfg) (k : Key) (v : Val) (hv : ∀ ts i, v ≠ .tv ts i) :
    c.setValue k v = ({ c with args := c.args.set k v }).log k (.val v) := by
  unfold Cfg.setValue
  cases v with
  | tv ts i => exact absurd rfl (hv ts i)
  | _ => rfl

/-- All history invariants at once, for states whose tracking switch is on. -/
structure HistInv (c : Cfg) : Prop where
  nodup : c.args.NodupKeys
  seq : SeqOK c
  vals : c.tracking = true → ValuesFaithful c

theorem ValuesFaithful_set (c : Cfg) (k : Key) (v : Val) (ht : c.tracking = true)
    (hf : ValuesFaithful c) :
    ValuesFaithful (({ c with args := c.args.set k v } : Cfg).log k (.val v)) := by
  intro k' hk'
  rw [log_args, log_hist_on ({ c with args := c.args.set k v } : Cfg) _ _ ht]
  simp only [lastValue_append]
  by_cases hk : k = k'
  · subst hk
    simp [Dict.get?_set_same, HVal.isValue]
  · have := hf k' hk'
    simp only [Dict.get?_set_other _ _ _ _ hk, hk, false_and, if_false]
    exact this

theorem ValuesFaithful_del (c : Cfg) (k : Key) (ht : c.tracking = true) (hn : c.args.NodupKeys)
    (hf : ValuesFaithful c) :
    ValuesFaithful (({ c with args := c.args.del k } : Cfg).log k .deleted) := by
  intro k' hk'
  rw [log_args, log_hist_on ({ c with args := c.args.del k } : Cfg) _ _ ht]
  simp only [lastValue_append]
  by_cases hk : k = k'
  · subst hk
    simp [Dict.get?_del_same _ _ hn, HVal.isValue]
  · have := hf k' hk'
    simp only [Dict.get?_del_other _ _ _ hk, hk, false_and, if_false]
    exact this

/-- Logging a tag update does not disturb the value part. -/
theorem ValuesFaithful_logTags (c : Cfg) (k : Key) (ts : List Nat) (hf : ValuesFaithful c) :
    ValuesFaithful (c.log k (.tags ts)) := by
  by_cases ht : c.tracking = true
  · intro k' hk'
    rw [log_args, log_hist_on _ _ _ ht]
    simp only [lastValue_append, HVal.isValue]
    simpa using hf k' hk'
  · rw [log_off _ _ _ (by simpa using ht)]; exact hf

theorem HistInv_closed : Cfg.Closed HistInv where
  set := by
    intro c k v hc
    cases v with
    | tv ts inner =>
      -- TaggedValue expansion: optional tag update, then optional value
      simp only [Cfg.setValue]
      -- state after the (optional) tag update
      have h1 : HistInv (if ts.isEmpty then c else
          ({ c with tags := c.tags.set k (tagUnion ((c.tags.get? k).getD []) ts) } : Cfg).log k
            (.tags (tagUnion ((c.tags.get? k).getD []) ts))) := by
        split
        · exact hc
        · refine ⟨?_, ?_, ?_⟩
          · rw [log_args]; exact hc.nodup
          · exact SeqOK_log _ _ _ hc.seq
          · intro ht
            rw [log_tracking] at ht
            exact ValuesFaithful_logTags _ _ _ (hc.vals ht)
      generalize (if ts.isEmpty then c else _) = c1 at h1
      cases inner with
      | none => exact h1
      | some n =>
        refine ⟨?_, ?_, ?_⟩
        · rw [log_args]; exact Dict.nodup_set _ _ _ h1.nodup
        · exact SeqOK_log _ _ _ h1.seq
        · intro ht
          rw [log_tracking] at ht
          exact ValuesFaithful_set c1 k (.v n) ht (h1.vals ht)
    | v n =>
      refine ⟨?_, ?_, ?_⟩
      · simp only [Cfg.setValue]; rw [log_args]; exact Dict.nodup_set _ _ _ hc.nodup
      · exact SeqOK_log _ _ _ hc.seq
      · intro ht
        simp only [Cfg.setValue] at ht ⊢
        rw [log_tracking] at ht
        exact ValuesFaithful_set c k _ ht (hc.vals ht)
    | d n =>
      refine ⟨?_, ?_, ?_⟩
      · simp only [Cfg.setValue]; rw [log_args]; exact Dict.nodup_set _ _ _ hc.nodup
      · exact SeqOK_log _ _ _ hc.seq
      · intro ht
        simp only [Cfg.setValue] at ht ⊢
        rw [log_tracking] at ht
        exact ValuesFaithful_set c k _ ht (hc.vals ht)
    | nov =>
      refine ⟨?_, ?_, ?_⟩
      · simp only [Cfg.setValue]; rw [log_args]; exact Dict.nodup_set _ _ _ hc.nodup
      · exact SeqOK_log _ _ _ hc.seq
      · intro ht
        simp only [Cfg.setValue] at ht ⊢
        rw [log_tracking] at ht
        exact ValuesFaithful_set c k _ ht (hc.vals ht)
  del := by
    intro c k c' h hc
    unfold Cfg.delValue at h
    split at h
    · cases h
      refine ⟨?_, ?_, ?_⟩
      · rw [log_args]; exact Dict.nodup_del _ _ hc.nodup
      · exact SeqOK_log _ _ _ hc.seq
      · intro ht
        rw [log_tracking] at ht
        exact ValuesFaithful_del c k ht hc.nodup (hc.vals ht)
    · cases h

/-- While tracking is suspended the two hooks add nothing to the log and draw no sequence
    number. -/
def Silent (h0 : List HEntry) (n0 : Nat) (c : Cfg) : Prop :=
  c.tracking = false ∧ c.hist = h0 ∧ c.ctr = n0

theorem Silent_closed (h0 : List HEntry) (n0 : Nat) : Cfg.Closed (Silent h0 n0) where
  set := by
    intro c k v ⟨ht, hh, hn⟩
    cases v with
    | tv ts inner =>
      simp only [Cfg.setValue]
      have h1 : Silent h0 n0 (if ts.isEmpty then c else
          ({ c with tags := c.tags.set k (tagUnion ((c.tags.get? k).getD []) ts) } : Cfg).log k
            (.tags (tagUnion ((c.tags.get? k).getD []) ts))) := by
        split
        · exact ⟨ht, hh, hn⟩
        · rw [log_off _ _ _ (by simpa using ht)]; exact ⟨ht, hh, hn⟩
      generalize (if ts.isEmpty then c else _) = c1 at h1
      cases inner with
      | none => exact h1
      | some n =>
        show Silent h0 n0 (({ c1 with args := c1.args.set k (.v n) } : Cfg).log k (.val (.v n)))
        rw [log_off ({ c1 with args := c1.args.set k (.v n) } : Cfg) _ _ (by simpa using h1.1)]
        exact ⟨h1.1, h1.2.1, h1.2.2⟩
    | v n => simp only [Cfg.setValue]; rw [log_off _ _ _ (by simpa using ht)]; exact ⟨ht, hh, hn⟩
    | d n => simp only [Cfg.setValue]; rw [log_off _ _ _ (by simpa using ht)]; exact ⟨ht, hh, hn⟩
    | nov => simp only [Cfg.setValue]; rw [log_off _ _ _ (by simpa using ht)]; exact ⟨ht, hh, hn⟩
  del := by
    intro c k c' h ⟨ht, hh, hn⟩
    unfold Cfg.delValue at h
    split at h
    · cases h; rw [log_off _ _ _ (by simpa using ht)]; exact ⟨ht, hh, hn⟩
    · cases h

end Fiddle
