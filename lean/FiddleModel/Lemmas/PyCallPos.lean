/-
`pyCall` (CPython's argument binding): every positional argument that meets a positional
parameter is what that parameter receives; the excess is exactly `*args`.
-/
import FiddleModel.Model.Call

namespace Fiddle
open Sig

/-- The keyword loop only appends to `named`. -/
theorem pyCall_kwLoop_prefix (s : Sig) :
    ∀ (kws named extra named' extra' : List (String × Val)),
      pyCall.kwLoop s kws named extra = .ok (named', extra') → ∃ t, named' = named ++ t := by
  intro kws
  induction kws with
  | nil =>
    intro named extra named' extra' h
    simp only [pyCall.kwLoop, Except.ok.injEq, Prod.mk.injEq] at h
    exact ⟨[], by simp [h.1]⟩
  | cons kv r ih =>
    intro named extra named' extra' h
    obtain ⟨n, v⟩ := kv
    simp only [pyCall.kwLoop] at h
    split at h
    · split at h
      · cases h
      · obtain ⟨t, ht⟩ := ih _ _ _ _ h
        exact ⟨(n, v) :: t, by simp [ht]⟩
    · split at h
      · exact ih _ _ _ _ h
      · cases h

/-- The default-filling loop only appends to its accumulator, one slot per parameter, and a
    parameter bound in `named` receives the value of its FIRST binding there. -/
theorem pyCall_fill_spec (named : List (String × Val)) :
    ∀ (ps : List Param) (acc slots : List (String × Val)),
      pyCall.fill named ps acc = .ok slots →
      ∃ t, slots = acc ++ t ∧ t.length = ps.length ∧
        ∀ p ∈ ps, ∀ kv, named.find? (fun kv => kv.1 == p.name) = some kv → (p.name, kv.2) ∈ t := by
  intro ps
  induction ps with
  | nil =>
    intro acc slots h
    simp only [pyCall.fill, Except.ok.injEq] at h
    exact ⟨[], by simp [h]⟩
  | cons p r ih =>
    intro acc slots h
    simp only [pyCall.fill] at h
    split at h
    · rename_i kv hkv
      obtain ⟨t, ht, hl, hm⟩ := ih _ _ h
      refine ⟨(p.name, kv.2) :: t, by simp [ht], by simp [hl], ?_⟩
      intro q hq kv' hkv'
      rcases List.mem_cons.mp hq with rfl | hq
      · rw [hkv] at hkv'; cases hkv'; exact List.mem_cons_self ..
      · exact List.mem_cons_of_mem _ (hm q hq kv' hkv')
    · rename_i hnone
      split at h
      · obtain ⟨t, ht, hl, hm⟩ := ih _ _ h
        refine ⟨(p.name, Sig.dfltVal p) :: t, by simp [ht], by simp [hl], ?_⟩
        intro q hq kv' hkv'
        rcases List.mem_cons.mp hq with rfl | hq
        · rw [hnone] at hkv'; cases hkv'
        · exact List.mem_cons_of_mem _ (hm q hq kv' hkv')
      · cases h

/-- In a list of pairs with distinct first components, `find?` by first component finds the pair. -/
theorem find?_of_mem_nodup (l : List (String × Val)) (hn : (l.map (·.1)).Nodup)
    (n : String) (v : Val) (h : (n, v) ∈ l) : l.find? (fun kv => kv.1 == n) = some (n, v) := by
  induction l with
  | nil => cases h
  | cons a r ih =>
    simp only [List.map_cons, List.nodup_cons] at hn
    rcases List.mem_cons.mp h with e | hr
    · subst e; simp
    · have hne : a.1 ≠ n := by
        intro e
        exact hn.1 (e ▸ List.mem_map_of_mem (f := (·.1)) hr)
      have hb : (a.1 == n) = false := by simpa using hne
      simp only [List.find?_cons, hb]
      exact ih hn.2 hr

theorem map_fst_zip_sublist {α β : Type} : ∀ (l₁ : List α) (l₂ : List β),
    ((l₁.zip l₂).map (·.1)).Sublist l₁
  | [], _ => by simp
  | _ :: _, [] => by simp
  | a :: as, b :: bs => by
    simp only [List.zip_cons_cons, List.map_cons]
    exact (map_fst_zip_sublist as bs).cons₂ a

theorem find?_append_left (l t : List (String × Val)) (n : String) (kv : String × Val)
    (h : l.find? (fun kv => kv.1 == n) = some kv) : (l ++ t).find? (fun kv => kv.1 == n) = some kv := by
  rw [List.find?_append, h]; rfl

/-- **CPython binds positional arguments in order**: whenever the call `fn(*args, **kwargs)` binds,
    the `j`-th positional argument is what the `j`-th positional-mode parameter receives (for
    every `j` below both lengths), every named parameter receives exactly one value, and
    the arguments beyond the positional parameters are exactly the `*args` tuple. -/
theorem pyCall_positional (s : Sig) (hs : (s.positionalParams.map (·.name)).Nodup)
    (args : List Val) (kws : List (String × Val)) (b : Binding) (h : pyCall s args kws = .ok b) :
    b.var = args.drop s.positionalParams.length ∧
    b.slots.length = s.namedParams.length ∧
    ∀ p v, (p, v) ∈ s.positionalParams.zip args → (p.name, v) ∈ b.slots := by
  unfold pyCall at h
  simp only at h
  split at h
  · cases h
  · cases hk : pyCall.kwLoop s kws ((s.positionalParams.zip args).map (fun (p, v) => (p.name, v))) [] with
    | error e => simp [hk] at h
    | ok r =>
      obtain ⟨named, extra⟩ := r
      simp only [hk] at h
      cases hf : pyCall.fill named s.namedParams [] with
      | error e => simp [hf] at h
      | ok slots =>
        simp only [hf, Except.ok.injEq] at h
        subst h
        obtain ⟨t, ht, hl, hm⟩ := pyCall_fill_spec named _ _ _ hf
        simp only [List.nil_append] at ht
        subst ht
        refine ⟨rfl, hl, ?_⟩
        intro p v hpv
        obtain ⟨t', ht'⟩ := pyCall_kwLoop_prefix s _ _ _ _ _ hk
        have hp : p ∈ s.positionalParams := (List.of_mem_zip hpv).1
        have hpn : p ∈ s.namedParams := by
          unfold Sig.positionalParams at hp
          unfold Sig.namedParams
          rw [List.mem_filter] at hp ⊢
          refine ⟨hp.1, ?_⟩
          have := hp.2
          simp only [Bool.or_eq_true] at this ⊢
          exact .inl this
        have hmem : (p.name, v) ∈ (s.positionalParams.zip args).map (fun (p, v) => (p.name, v)) :=
          List.mem_map.mpr ⟨(p, v), hpv, rfl⟩
        have hnod : (((s.positionalParams.zip args).map (fun (p, v) => (p.name, v))).map (·.1)).Nodup := by
          have e : ((s.positionalParams.zip args).map (fun (p, v) => (p.name, v))).map (·.1)
              = ((s.positionalParams.zip args).map (·.1)).map (·.name) := by
            simp [List.map_map, Function.comp_def]
          rw [e]
          have hsub : ((s.positionalParams.zip args).map (·.1)).Sublist s.positionalParams := by
            exact map_fst_zip_sublist _ _
          exact (hsub.map _).nodup hs
        have hfind := find?_of_mem_nodup _ hnod p.name v hmem
        have hfind' := find?_append_left _ t' p.name _ hfind
        rw [← ht'] at hfind'
        exact hm p hpn _ hfind'

end Fiddle

namespace Fiddle
open Sig

/-- The keyword loop: every keyword naming a keyword-capable parameter is, afterwards, THE binding
    of that name (a second binding of a name is rejected), and the others are appended to the
    `**kwargs` dict in call order. -/
theorem pyCall_kwLoop_spec (s : Sig) :
    ∀ (kws named extra named' extra' : List (String × Val)),
      pyCall.kwLoop s kws named extra = .ok (named', extra') →
      extra' = extra ++ kws.filter (fun kv => !s.isKwParam kv.1) ∧
      ∀ n v, (n, v) ∈ kws → s.isKwParam n = true →
        named'.find? (fun kv => kv.1 == n) = some (n, v) := by
  intro kws
  induction kws with
  | nil =>
    intro named extra named' extra' h
    simp only [pyCall.kwLoop, Except.ok.injEq, Prod.mk.injEq] at h
    refine ⟨by simp [h.2], ?_⟩
    intro n v hm; cases hm
  | cons kv r ih =>
    intro named extra named' extra' h
    obtain ⟨n0, v0⟩ := kv
    simp only [pyCall.kwLoop] at h
    split at h
    · rename_i hkw
      split at h
      · cases h
      · rename_i hany
        obtain ⟨e1, e2⟩ := ih _ _ _ _ h
        refine ⟨by simp [e1, hkw], ?_⟩
        intro n v hm hk
        rcases List.mem_cons.mp hm with e | hr
        · cases e
          obtain ⟨t, ht⟩ := pyCall_kwLoop_prefix s _ _ _ _ _ h
          rw [ht]
          apply find?_append_left
          have hnone : named.find? (fun kv => kv.1 == n0) = none := by
            rw [List.find?_eq_none]
            intro x hx hxe
            exact hany (List.any_eq_true.mpr ⟨x, hx, hxe⟩)
          rw [List.find?_append, hnone]
          simp
        · exact e2 n v hr hk
    · rename_i hkw
      split at h
      · obtain ⟨e1, e2⟩ := ih _ _ _ _ h
        have hkw' : s.isKwParam n0 = false := by simpa using hkw
        refine ⟨by simp [e1, hkw'], ?_⟩
        intro n v hm hk
        rcases List.mem_cons.mp hm with e | hr
        · cases e; rw [hk] at hkw'; cases hkw'
        · exact e2 n v hr hk
      · cases h

/-- **CPython binds keywords by name**: whenever `fn(*args, **kwargs)` binds, every keyword that
    names a keyword-capable parameter is what that parameter receives, and the remaining keywords
    are exactly the `**kwargs` dict the callable sees, in call order. -/
theorem pyCall_keywords (s : Sig) (args : List Val) (kws : List (String × Val)) (b : Binding)
    (h : pyCall s args kws = .ok b) :
    b.kw = kws.filter (fun kv => !s.isKwParam kv.1) ∧
    ∀ n v, (n, v) ∈ kws → s.isKwParam n = true → (n, v) ∈ b.slots := by
  unfold pyCall at h
  simp only at h
  split at h
  · cases h
  · cases hk : pyCall.kwLoop s kws ((s.positionalParams.zip args).map (fun (p, v) => (p.name, v))) [] with
    | error e => simp [hk] at h
    | ok r =>
      obtain ⟨named, extra⟩ := r
      simp only [hk] at h
      cases hf : pyCall.fill named s.namedParams [] with
      | error e => simp [hf] at h
      | ok slots =>
        simp only [hf, Except.ok.injEq] at h
        subst h
        obtain ⟨e1, e2⟩ := pyCall_kwLoop_spec s _ _ _ _ _ hk
        refine ⟨by simpa using e1, ?_⟩
        intro n v hm hkw
        obtain ⟨t, ht, _, hmem⟩ := pyCall_fill_spec named _ _ _ hf
        simp only [List.nil_append] at ht
        subst ht
        unfold Sig.isKwParam at hkw
        rw [List.any_eq_true] at hkw
        obtain ⟨p, hp, hpp⟩ := hkw
        simp only [Bool.and_eq_true, beq_iff_eq, Bool.or_eq_true] at hpp
        obtain ⟨hname, hkind⟩ := hpp
        have hpn : p ∈ s.namedParams := by
          unfold Sig.namedParams
          rw [List.mem_filter]
          refine ⟨hp, ?_⟩
          simp only [Bool.or_eq_true, beq_iff_eq]
          rcases hkind with hk1 | hk1
          · exact .inl (.inr hk1)
          · exact .inr hk1
        have := hmem p hpn (n, v) (by rw [hname]; exact e2 n v hm (by
          unfold Sig.isKwParam; rw [List.any_eq_true]; exact ⟨p, hp, by simp [hname, hkind]⟩))
        rw [hname] at this
        exact this

end Fiddle

namespace Fiddle
open Sig

/-- More positional arguments than positional parameters and no `*args`: `TypeError`. -/
theorem pyCall_excess_rejected (s : Sig) (args : List Val) (kws : List (String × Val))
    (h : s.positionalParams.length < args.length) (hv : s.hasVp = false) :
    pyCall s args kws = .error .typeError := by
  unfold pyCall
  have : (args.drop s.positionalParams.length).isEmpty = false := by
    cases hd : args.drop s.positionalParams.length with
    | nil =>
      have := congrArg List.length hd
      simp at this; omega
    | cons a r => rfl
  simp [this, hv]

theorem pyCall_kwLoop_unknown (s : Sig) (n : String) (hk : s.isKwParam n = false) (hvk : s.hasVk = false) :
    ∀ (kws named extra : List (String × Val)) (v : Val), (n, v) ∈ kws →
      pyCall.kwLoop s kws named extra = .error .typeError := by
  intro kws
  induction kws with
  | nil => intro _ _ v h; cases h
  | cons kv r ih =>
    intro named extra v h
    obtain ⟨n0, v0⟩ := kv
    simp only [pyCall.kwLoop]
    rcases List.mem_cons.mp h with e | hr
    · cases e
      simp [hk, hvk]
    · split
      · split
        · rfl
        · exact ih _ _ v hr
      · split
        · exact ih _ _ v hr
        · rfl

/-- A keyword that names no keyword-capable parameter, with no `**kwargs` to take it: `TypeError`
    — it is never bound to some other parameter. -/
theorem pyCall_unknown_keyword_rejected (s : Sig) (args : List Val) (kws : List (String × Val))
    (n : String) (v : Val) (hm : (n, v) ∈ kws) (hk : s.isKwParam n = false) (hvk : s.hasVk = false) :
    pyCall s args kws = .error .typeError := by
  unfold pyCall
  simp only
  split
  · rfl
  · rw [pyCall_kwLoop_unknown s n hk hvk _ _ _ v hm]

end Fiddle
