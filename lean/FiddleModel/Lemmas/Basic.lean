/- Shared instances for the proof files. -/
namespace Fiddle
end Fiddle
deriving instance DecidableEq for Except
