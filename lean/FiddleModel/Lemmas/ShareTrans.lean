/-
Transitivity of `==` (`buildableEq`): values by `valEq_trans`, sharing by composing the
one-to-one correspondences of `Lemmas/ShareL.lean`.  The composition needs to know that paired
objects have the same kind and that paired children are internable together, which is what the
value comparison provides; so the correspondences are first restricted to value-equal pairs.
-/
import FiddleModel.Lemmas.ShareL

namespace Fiddle

theorem all_congr_mem {α} {l : List α} {f g : α → Bool} (h : ∀ x ∈ l, f x = g x) :
    l.all f = l.all g := by
  induction l with
  | nil => rfl
  | cons a r ih =>
    simp only [List.all_cons]
    rw [h a (by simp), ih (fun x hx => h x (by simp [hx]))]

/-! ## The value comparison does not depend on the fuel (beyond being enough) -/

theorem valEq_fuel (h1 h2 : Heap) (w1 : h1.EqWF) : ∀ (f f' : Nat) (v w : GVal),
    (∀ i, v = .ref i → i < f) → (∀ i, v = .ref i → i < f') →
    valEq h1 h2 f v w = valEq h1 h2 f' v w := by
  intro f
  induction f with
  | zero =>
    intro f' v w hf hf'
    cases v with
    | ref i => exact absurd (hf i rfl) (Nat.not_lt_zero _)
    | atom s => cases w <;> cases f' <;> simp [valEq]
  | succ f ih =>
    intro f' v w hf hf'
    cases f' with
    | zero =>
      cases v with
      | ref i => exact absurd (hf' i rfl) (Nat.not_lt_zero _)
      | atom s => cases w <;> simp [valEq]
    | succ f' =>
      cases v with
      | atom s => cases w <;> simp [valEq]
      | ref i =>
        cases w with
        | atom t => simp [valEq]
        | ref j =>
          simp only [valEq]
          cases ha : h1[i]? with
          | none => rfl
          | some a =>
            cases hb : h2[j]? with
            | none => rfl
            | some b =>
              simp only []
              have hi := hf i rfl
              have hi' := hf' i rfl
              have kid : ∀ x ∈ a.children, ∀ y, valEq h1 h2 f x.2 y = valEq h1 h2 f' x.2 y := by
                intro x hx y
                apply ih
                · intro k hk; have := w1.ch' i a ha x hx k hk; omega
                · intro k hk; have := w1.ch' i a ha x hx k hk; omega
              have kidd : ∀ x ∈ childrenWithDefaults a, ∀ y, valEq h1 h2 f x.2 y = valEq h1 h2 f' x.2 y := by
                intro x hx y
                apply ih
                · intro k hk; have := w1.ch i a ha x hx k hk; omega
                · intro k hk; have := w1.ch i a ha x hx k hk; omega
              split
              · rfl
              · cases a.kind <;> simp only []
                all_goals first
                  | rfl
                  | (congr 1
                     apply all_congr_mem
                     intro xy hxy
                     obtain ⟨x, y⟩ := xy
                     simp only [kid x (List.of_mem_zip hxy).1])
                  | (congr 1
                     apply all_congr_mem
                     intro x hx
                     cases lookupChild b.children x.1 with
                     | none => rfl
                     | some y => exact kid x hx y)
                  | (congr 1
                     apply all_congr_mem
                     intro x hx
                     cases lookupChild (childrenWithDefaults b) x.1 with
                     | none => rfl
                     | some y => exact kidd x hx y)

/-! ## What a successful value comparison says about two objects -/

theorem zip_partner {α β} : ∀ (la : List α) (lb : List β), la.length = lb.length →
    ∀ x ∈ la, ∃ y ∈ lb, (x, y) ∈ la.zip lb := by
  intro la
  induction la with
  | nil => intro lb _ x hx; cases hx
  | cons a r ih =>
    intro lb hl x hx
    cases lb with
    | nil => simp at hl
    | cons b rb =>
      rcases List.mem_cons.mp hx with rfl | hx
      · exact ⟨b, by simp, by simp⟩
      · obtain ⟨y, hy, hz⟩ := ih rb (by simpa using hl) x hx
        exact ⟨y, List.mem_cons_of_mem _ hy, by simp [hz]⟩

theorem zip_all_eq {α β} (p : α → Bool) (q : β → Bool) : ∀ (la : List α) (lb : List β),
    la.length = lb.length → (∀ xy ∈ la.zip lb, p xy.1 = q xy.2) → la.all p = lb.all q := by
  intro la
  induction la with
  | nil => intro lb hl _; cases lb <;> simp_all
  | cons a r ih =>
    intro lb hl h
    cases lb with
    | nil => simp at hl
    | cons b rb =>
      simp only [List.all_cons]
      rw [h (a, b) (by simp), ih rb (by simpa using hl) (fun xy hxy => h xy (by simp [hxy]))]

theorem cwd_noncfg (o : GObj) (h : o.kind ≠ .cfg) : childrenWithDefaults o = o.children := by
  unfold childrenWithDefaults
  simp [h]

/-- Equal-valued objects have the same kind, and - unless opaque - the same number of children,
    with every key of the left one present on the right and the two children equal-valued. -/
theorem valEq_node (h1 h2 : Heap) (w2 : h2.EqWF) (f i j : Nat) (a b : GObj)
    (ha : h1[i]? = some a) (hb : h2[j]? = some b)
    (h : valEq h1 h2 (f + 1) (.ref i) (.ref j) = true) :
    a.kind = b.kind ∧ (a.kind ≠ .opaque →
      (childrenWithDefaults a).length = (childrenWithDefaults b).length ∧
      ∀ x ∈ childrenWithDefaults a, ∃ y, lookupChild (childrenWithDefaults b) x.1 = some y ∧
        valEq h1 h2 f x.2 y = true) := by
  simp only [valEq, ha, hb] at h
  by_cases c : (a.kind != b.kind || a.ty != b.ty || a.bk != b.bk) = true
  · simp [c] at h
  · rw [if_neg c] at h
    simp only [Bool.not_eq_true, Bool.or_eq_false_iff, bne_eq_false_iff_eq] at c
    have hk : a.kind = b.kind := c.1.1
    refine ⟨hk, ?_⟩
    intro hop
    have seqcase : a.kind ≠ .cfg → b.kind ≠ .cfg →
        (a.children.length == b.children.length &&
          (a.children.zip b.children).all (fun (x, y) => x.1 == y.1 && valEq h1 h2 f x.2 y.2)) = true →
        (childrenWithDefaults a).length = (childrenWithDefaults b).length ∧
        ∀ x ∈ childrenWithDefaults a, ∃ y, lookupChild (childrenWithDefaults b) x.1 = some y ∧
          valEq h1 h2 f x.2 y = true := by
      intro na nb e
      rw [cwd_noncfg a na, cwd_noncfg b nb]
      simp only [Bool.and_eq_true, beq_iff_eq, List.all_eq_true] at e
      refine ⟨e.1, ?_⟩
      intro x hx
      obtain ⟨y, hy, hz⟩ := zip_partner _ _ e.1 x hx
      have := e.2 (x, y) hz
      simp only [Bool.and_eq_true, beq_iff_eq] at this
      refine ⟨y.2, ?_, this.2⟩
      rw [this.1]
      exact lookupChild_self _ (w2.keys' j b hb) y hy
    have dictcase : a.kind ≠ .cfg → b.kind ≠ .cfg →
        (a.children.length == b.children.length && a.children.all (fun x =>
          match lookupChild b.children x.1 with
          | some y => valEq h1 h2 f x.2 y
          | none => false)) = true →
        (childrenWithDefaults a).length = (childrenWithDefaults b).length ∧
        ∀ x ∈ childrenWithDefaults a, ∃ y, lookupChild (childrenWithDefaults b) x.1 = some y ∧
          valEq h1 h2 f x.2 y = true := by
      intro na nb e
      rw [cwd_noncfg a na, cwd_noncfg b nb]
      simp only [Bool.and_eq_true, beq_iff_eq, List.all_eq_true] at e
      refine ⟨e.1, ?_⟩
      intro x hx
      have := e.2 x hx
      cases hl : lookupChild b.children x.1 with
      | none => simp [hl] at this
      | some y => simp only [hl] at this; exact ⟨y, rfl, this⟩
    have cfgcase :
        ((childrenWithDefaults a).length == (childrenWithDefaults b).length &&
          (childrenWithDefaults a).all (fun x =>
          match lookupChild (childrenWithDefaults b) x.1 with
          | some y => valEq h1 h2 f x.2 y
          | none => false)) = true →
        (childrenWithDefaults a).length = (childrenWithDefaults b).length ∧
        ∀ x ∈ childrenWithDefaults a, ∃ y, lookupChild (childrenWithDefaults b) x.1 = some y ∧
          valEq h1 h2 f x.2 y = true := by
      intro e
      simp only [Bool.and_eq_true, beq_iff_eq, List.all_eq_true] at e
      refine ⟨e.1, ?_⟩
      intro x hx
      have := e.2 x hx
      cases hl : lookupChild (childrenWithDefaults b) x.1 with
      | none => simp [hl] at this
      | some y => simp only [hl] at this; exact ⟨y, rfl, this⟩
    have hkb : b.kind = a.kind := hk.symm
    cases hka : a.kind
    all_goals (rw [hka] at h hkb; simp only [] at h)
    all_goals first
      | exact absurd hka hop
      | exact cfgcase h
      | exact seqcase (by rw [hka]; decide) (by rw [hkb]; decide) h
      | exact dictcase (by rw [hka]; decide) (by rw [hkb]; decide) h

/-! ## Equal values are internable together -/

theorem valEq_internable (h1 h2 : Heap) (w1 : h1.EqWF) (w2 : h2.EqWF) : ∀ (f : Nat) (v w : GVal) (n m : Nat),
    valEq h1 h2 f v w = true → (∀ i, v = .ref i → i < n) → (∀ j, w = .ref j → j < m) →
    isInternable h1 n v = isInternable h2 m w := by
  intro f
  induction f with
  | zero =>
    intro v w n m h _ _
    cases v <;> cases w <;> simp [valEq] at h
    simp [isInternable_atom]
  | succ f ih =>
    intro v w n m h hn hm
    cases v with
    | atom s =>
      cases w with
      | atom t => simp [isInternable_atom]
      | ref j => simp [valEq] at h
    | ref i =>
      cases w with
      | atom t => simp [valEq] at h
      | ref j =>
        have hin := hn i rfl
        have hjm := hm j rfl
        obtain ⟨n', rfl⟩ : ∃ n', n = n' + 1 := ⟨n - 1, by omega⟩
        obtain ⟨m', rfl⟩ : ∃ m', m = m' + 1 := ⟨m - 1, by omega⟩
        have h0 := h
        simp only [valEq] at h
        cases ha : h1[i]? with
        | none => simp [ha] at h
        | some a =>
          cases hb : h2[j]? with
          | none => simp [ha, hb] at h
          | some b =>
            simp only [ha, hb] at h
            simp only [isInternable, ha, hb]
            by_cases c : (a.kind != b.kind || a.ty != b.ty || a.bk != b.bk) = true
            · simp [c] at h
            · rw [if_neg c] at h
              simp only [Bool.not_eq_true, Bool.or_eq_false_iff, bne_eq_false_iff_eq] at c
              have hk : a.kind = b.kind := c.1.1
              rw [← hk]
              by_cases ht : a.kind = .tuple
              · rw [ht] at h
                simp only [Bool.and_eq_true, beq_iff_eq, List.all_eq_true] at h
                simp only [ht, beq_self_eq_true, Bool.true_and]
                apply zip_all_eq _ _ _ _ h.1
                intro xy hxy
                have e := h.2 xy hxy
                have hx := (List.of_mem_zip hxy).1
                have hy := (List.of_mem_zip hxy).2
                apply ih _ _ _ _ e.2
                · intro k hk2; have := w1.ch' i a ha xy.1 hx k hk2; omega
                · intro k hk2; have := w2.ch' j b hb xy.2 hy k hk2; omega
              · have : (a.kind == NKind.tuple) = false := by simp [ht]
                simp [this]

/-! ## Restricting a correspondence to value-equal pairs -/

def veqPairs (h1 h2 : Heap) (F : Nat) (B : List (Nat × Nat)) : List (Nat × Nat) :=
  B.filter (fun p => valEq h1 h2 F (.ref p.1) (.ref p.2))

theorem mem_veqPairs {h1 h2 : Heap} {F : Nat} {B : List (Nat × Nat)} {p : Nat × Nat} :
    p ∈ veqPairs h1 h2 F B ↔ p ∈ B ∧ valEq h1 h2 F (.ref p.1) (.ref p.2) = true := by
  simp [veqPairs, List.mem_filter]

theorem Rec.restrict {h1 h2 : Heap} {F : Nat} {B : List (Nat × Nat)} {v w : GVal}
    (h : Rec h1 h2 B v w) (hv : valEq h1 h2 F v w = true) : Rec h1 h2 (veqPairs h1 h2 F B) v w := by
  rcases h with h | ⟨i, j, rfl, rfl, hm⟩
  · exact .inl h
  · exact .inr ⟨i, j, rfl, rfl, mem_veqPairs.mpr ⟨hm, hv⟩⟩

theorem corr_restrict (h1 h2 : Heap) (w1 : h1.EqWF) (w2 : h2.EqWF) (B : List (Nat × Nat))
    (hB : Corr h1 h2 B) (F : Nat) (hF : h1.length < F) : Corr h1 h2 (veqPairs h1 h2 F B) := by
  refine ⟨?_, ?_, ?_⟩
  · intro i j j' a b
    exact hB.fun1 i j j' (mem_veqPairs.mp a).1 (mem_veqPairs.mp b).1
  · intro i i' j a b
    exact hB.fun2 i i' j (mem_veqPairs.mp a).1 (mem_veqPairs.mp b).1
  · intro p hp
    obtain ⟨hpB, hpv⟩ := mem_veqPairs.mp hp
    obtain ⟨a, b, ha, hb, hok⟩ := hB.closed p hpB
    refine ⟨a, b, ha, hb, ?_⟩
    by_cases hop : a.kind = .opaque
    · exact .inl hop
    · obtain ⟨F', rfl⟩ : ∃ F', F = F' + 1 := ⟨F - 1, by omega⟩
      obtain ⟨hk, hch⟩ := valEq_node h1 h2 w2 F' p.1 p.2 a b ha hb hpv
      obtain ⟨_, hv⟩ := hch hop
      rcases hok with h | h | ⟨hl, hc⟩
      · exact absurd h hop
      · exact absurd (hk.trans h) hop
      · refine .inr (.inr ⟨hl, ?_⟩)
        intro x hx
        obtain ⟨y, hy, hr⟩ := hc x hx
        obtain ⟨y', hy', hvv⟩ := hv x hx
        rw [hy] at hy'; cases hy'
        refine ⟨y, hy, hr.restrict ?_⟩
        have hi : p.1 < h1.length := (List.getElem?_eq_some_iff.mp ha).1
        rw [← valEq_fuel h1 h2 w1 F' (F' + 1) x.2 y
          (fun k hk2 => by have := w1.ch p.1 a ha x hx k hk2; omega)
          (fun k hk2 => by have := w1.ch p.1 a ha x hx k hk2; omega)]
        exact hvv

/-! ## Composing two correspondences -/

def compPairs (B C : List (Nat × Nat)) : List (Nat × Nat) :=
  B.flatMap (fun p => (C.filter (fun q => q.1 == p.2)).map (fun q => (p.1, q.2)))

theorem mem_compPairs {B C : List (Nat × Nat)} {i k : Nat} :
    (i, k) ∈ compPairs B C ↔ ∃ j, (i, j) ∈ B ∧ (j, k) ∈ C := by
  unfold compPairs
  simp only [List.mem_flatMap, List.mem_map, List.mem_filter, beq_iff_eq, Prod.mk.injEq]
  constructor
  · rintro ⟨p, hp, q, ⟨hq, e⟩, e1, e2⟩
    refine ⟨p.2, ?_, ?_⟩
    · rw [← e1]; exact hp
    · rw [← e2, ← e]; exact hq
  · rintro ⟨j, hb, hc⟩
    exact ⟨(i, j), hb, (j, k), ⟨hc, rfl⟩, rfl, rfl⟩

theorem rec_comp (h1 h2 h3 : Heap) (w1 : h1.EqWF) (w2 : h2.EqWF) (w3 : h3.EqWF)
    (B C : List (Nat × Nat)) (x y z : GVal) (f g : Nat)
    (r12 : Rec h1 h2 B x y) (r23 : Rec h2 h3 C y z)
    (v12 : valEq h1 h2 f x y = true) (v23 : valEq h2 h3 g y z = true)
    (bx : ∀ i, x = .ref i → i < h1.length + 1) (by_ : ∀ j, y = .ref j → j < h2.length + 1)
    (bz : ∀ k, z = .ref k → k < h3.length + 1) :
    Rec h1 h3 (compPairs B C) x z := by
  have e12 := valEq_internable h1 h2 w1 w2 f x y _ _ v12 bx by_
  have e23 := valEq_internable h2 h3 w2 w3 g y z _ _ v23 by_ bz
  rcases r12 with s12 | ⟨i, j, rfl, rfl, hm12⟩
  · left
    unfold skipB at s12 ⊢
    rw [← e12, Bool.or_self] at s12
    simp [s12]
  · rcases r23 with s23 | ⟨j', k, e, rfl, hm23⟩
    · left
      unfold skipB at s23 ⊢
      rw [e23, Bool.or_self] at s23
      simp [s23]
    · cases e
      exact .inr ⟨i, k, rfl, rfl, mem_compPairs.mpr ⟨j, hm12, hm23⟩⟩

theorem corr_comp (h1 h2 h3 : Heap) (w1 : h1.EqWF) (w2 : h2.EqWF) (w3 : h3.EqWF)
    (B C : List (Nat × Nat)) (hB : Corr h1 h2 B) (hC : Corr h2 h3 C) (F G : Nat)
    (pB : ∀ p ∈ B, valEq h1 h2 (F + 1) (.ref p.1) (.ref p.2) = true)
    (pC : ∀ p ∈ C, valEq h2 h3 (G + 1) (.ref p.1) (.ref p.2) = true) :
    Corr h1 h3 (compPairs B C) := by
  refine ⟨?_, ?_, ?_⟩
  · intro i k k' a b
    obtain ⟨j, a1, a2⟩ := mem_compPairs.mp a
    obtain ⟨j', b1, b2⟩ := mem_compPairs.mp b
    have := hB.fun1 i j j' a1 b1
    subst this
    exact hC.fun1 j k k' a2 b2
  · intro i i' k a b
    obtain ⟨j, a1, a2⟩ := mem_compPairs.mp a
    obtain ⟨j', b1, b2⟩ := mem_compPairs.mp b
    have := hC.fun2 j j' k a2 b2
    subst this
    exact hB.fun2 i i' j a1 b1
  · intro p hp
    obtain ⟨i, k⟩ := p
    obtain ⟨j, hij, hjk⟩ := mem_compPairs.mp hp
    obtain ⟨a, b, ha, hb, ok12⟩ := hB.closed (i, j) hij
    obtain ⟨b', c, hb', hc, ok23⟩ := hC.closed (j, k) hjk
    simp only at ha hb hb' hc
    rw [hb] at hb'; cases hb'
    refine ⟨a, c, ha, hc, ?_⟩
    obtain ⟨k12, n12⟩ := valEq_node h1 h2 w2 F i j a b ha hb (pB (i, j) hij)
    obtain ⟨k23, n23⟩ := valEq_node h2 h3 w3 G j k b c hb hc (pC (j, k) hjk)
    by_cases hop : a.kind = .opaque
    · exact .inl hop
    · have hopb : b.kind ≠ .opaque := fun e => hop (k12.trans e)
      have hopc : c.kind ≠ .opaque := fun e => hopb (k23.trans e)
      obtain ⟨_, v12⟩ := n12 hop
      obtain ⟨_, v23⟩ := n23 hopb
      rcases ok12 with h | h | ⟨hl12, hc12⟩
      · exact absurd h hop
      · exact absurd h hopb
      rcases ok23 with h | h | ⟨hl23, hc23⟩
      · exact absurd h hopb
      · exact absurd h hopc
      refine .inr (.inr ⟨hl12.trans hl23, ?_⟩)
      intro x hx
      obtain ⟨y, hy, r12⟩ := hc12 x hx
      have hymem : (x.1, y) ∈ childrenWithDefaults b := lookupChild_mem _ _ _ hy
      obtain ⟨z, hz, r23⟩ := hc23 (x.1, y) hymem
      obtain ⟨y', hy', e12⟩ := v12 x hx
      rw [hy] at hy'; cases hy'
      obtain ⟨z', hz', e23⟩ := v23 (x.1, y) hymem
      simp only at hz hz'
      rw [hz] at hz'; cases hz'
      have hi : i < h1.length := (List.getElem?_eq_some_iff.mp ha).1
      have hj : j < h2.length := (List.getElem?_eq_some_iff.mp hb).1
      have hk : k < h3.length := (List.getElem?_eq_some_iff.mp hc).1
      have hzmem : (x.1, z) ∈ childrenWithDefaults c := lookupChild_mem _ _ _ hz
      refine ⟨z, hz, rec_comp h1 h2 h3 w1 w2 w3 B C x.2 y z F G r12 r23 e12 e23 ?_ ?_ ?_⟩
      · intro t ht; have := w1.ch i a ha x hx t ht; omega
      · intro t ht; have := w2.ch j b hb (x.1, y) hymem t ht; omega
      · intro t ht; have := w3.ch k c hc (x.1, z) hzmem t ht; omega

/-! ## `==` is transitive -/

theorem buildableEq_trans (h1 h2 h3 : Heap) (w1 : h1.EqWF) (w2 : h2.EqWF) (w3 : h3.EqWF)
    (x y z : GVal) (bx : ∀ i, x = .ref i → i < h1.length) (by_ : ∀ j, y = .ref j → j < h2.length)
    (bz : ∀ k, z = .ref k → k < h3.length)
    (e12 : buildableEq h1 h2 x y = true) (e23 : buildableEq h2 h3 y z = true) :
    buildableEq h1 h3 x z = true := by
  unfold buildableEq at e12 e23 ⊢
  simp only [Bool.and_eq_true] at e12 e23 ⊢
  obtain ⟨v12, s12⟩ := e12
  obtain ⟨v23, s23⟩ := e23
  -- values: bring the three comparisons to one fuel
  let F := h1.length + h2.length + h3.length + 2
  have v12' : valEq h1 h2 F x y = true := by
    rw [← valEq_fuel h1 h2 w1 (h1.length + h2.length + 2) F x y
      (fun i hi => by have := bx i hi; omega) (fun i hi => by have := bx i hi; omega)]
    exact v12
  have v23' : valEq h2 h3 F y z = true := by
    rw [← valEq_fuel h2 h3 w2 (h2.length + h3.length + 2) F y z
      (fun i hi => by have := by_ i hi; omega) (fun i hi => by have := by_ i hi; omega)]
    exact v23
  have v13' := valEq_trans h1 h2 h3 F x y z v12' v23'
  have v13 : valEq h1 h3 (h1.length + h3.length + 2) x z = true := by
    rw [valEq_fuel h1 h3 w1 (h1.length + h3.length + 2) F x z
      (fun i hi => by have := bx i hi; omega) (fun i hi => by have := bx i hi; omega)]
    exact v13'
  refine ⟨v13, ?_⟩
  -- sharing: restrict both correspondences to value-equal pairs and compose them
  obtain ⟨B, hB, rB⟩ := (shareVisit_iff h1 h2 w1 _ x y (fun i hi => by have := bx i hi; omega)).mp s12
  obtain ⟨C, hC, rC⟩ := (shareVisit_iff h2 h3 w2 _ y z (fun i hi => by have := by_ i hi; omega)).mp s23
  have hB' := corr_restrict h1 h2 w1 w2 B hB (h1.length + h2.length + 1 + 1) (by omega)
  have hC' := corr_restrict h2 h3 w2 w3 C hC (h2.length + h3.length + 1 + 1) (by omega)
  have rB' := rB.restrict (F := h1.length + h2.length + 1 + 1) v12
  have rC' := rC.restrict (F := h2.length + h3.length + 1 + 1) v23
  have hcomp := corr_comp h1 h2 h3 w1 w2 w3 _ _ hB' hC' (h1.length + h2.length + 1) (h2.length + h3.length + 1)
    (fun p hp => (mem_veqPairs.mp hp).2) (fun p hp => (mem_veqPairs.mp hp).2)
  have rcomp := rec_comp h1 h2 h3 w1 w2 w3 _ _ x y z _ _ rB' rC' v12 v23
    (fun i hi => by have := bx i hi; omega) (fun i hi => by have := by_ i hi; omega)
    (fun i hi => by have := bz i hi; omega)
  exact (shareVisit_iff h1 h3 w1 _ x z (fun i hi => by have := bx i hi; omega)).mpr ⟨_, hcomp, rcomp⟩

end Fiddle
