/-
Symmetry of the value comparison of `==`.
-/
import FiddleModel.Lemmas.EqL

namespace Fiddle

theorem subset_of_nodup_subset_length {α} [DecidableEq α] : ∀ (l1 l2 : List α), l1.Nodup →
    l1 ⊆ l2 → l2.length ≤ l1.length → l2 ⊆ l1 := by
  intro l1
  induction l1 with
  | nil => intro l2 _ _ hl; cases l2 <;> simp_all
  | cons a t ih =>
    intro l2 hn hsub hl
    rw [List.nodup_cons] at hn
    have ha : a ∈ l2 := hsub (List.mem_cons_self ..)
    have htsub : t ⊆ l2.erase a := by
      intro x hx
      have hxa : x ≠ a := fun h => hn.1 (h ▸ hx)
      exact (List.mem_erase_of_ne hxa).2 (hsub (List.mem_cons_of_mem _ hx))
    have hlen : (l2.erase a).length = l2.length - 1 := by rw [List.length_erase]; simp [ha]
    have := ih (l2.erase a) hn.2 htsub (by simp at hl; omega)
    intro x hx
    by_cases hxa : x = a
    · subst hxa; simp
    · exact List.mem_cons_of_mem _ (this ((List.mem_erase_of_ne hxa).2 hx))

theorem lookupChild_mem (ch : List (PElem × GVal)) (pe : PElem) (v : GVal)
    (h : lookupChild ch pe = some v) : (pe, v) ∈ ch := by
  unfold lookupChild at h
  cases hf : ch.find? (fun c => c.1 == pe) with
  | none => simp [hf] at h
  | some c =>
    simp [hf] at h
    have h1 := List.find?_some hf
    have h2 := List.mem_of_find?_eq_some hf
    simp at h1
    subst h; subst h1; exact h2

/-- The map-like comparison used for dicts and Buildables is symmetric, given a symmetric
    comparison of the values, distinct keys on both sides and equal sizes. -/
theorem mapCmp_symm (ca cb : List (PElem × GVal)) (f g : GVal → GVal → Bool)
    (hfg : ∀ x ∈ ca, ∀ y ∈ cb, f x.2 y.2 = true → g y.2 x.2 = true)
    (na : (ca.map (·.1)).Nodup) (nb : (cb.map (·.1)).Nodup) (hl : ca.length = cb.length)
    (h : ca.all (fun x => match lookupChild cb x.1 with
      | some y => f x.2 y
      | none => false) = true) :
    cb.all (fun y => match lookupChild ca y.1 with
      | some x => g y.2 x
      | none => false) = true := by
  rw [List.all_eq_true] at h ⊢
  -- every key of `ca` is a key of `cb`
  have hsub : ca.map (·.1) ⊆ cb.map (·.1) := by
    intro k hk
    obtain ⟨x, hx, rfl⟩ := List.mem_map.mp hk
    have := h x hx
    cases hlk : lookupChild cb x.1 with
    | none => simp [hlk] at this
    | some y => exact List.mem_map.mpr ⟨(x.1, y), lookupChild_mem cb x.1 y hlk, rfl⟩
  have hrev := subset_of_nodup_subset_length _ _ na hsub (by simp [hl])
  intro y hy
  have hk : y.1 ∈ ca.map (·.1) := hrev (List.mem_map_of_mem hy)
  obtain ⟨x, hx, hxy⟩ := List.mem_map.mp hk
  have hlx : lookupChild ca y.1 = some x.2 := by
    rw [← hxy]; exact lookupChild_self ca na x hx
  have hly : lookupChild cb x.1 = some y.2 := by
    rw [hxy]; exact lookupChild_self cb nb y hy
  have := h x hx
  simp only [hly] at this
  simp only [hlx]
  exact hfg x hx y hy this

end Fiddle

namespace Fiddle

theorem zip_all_symm {α β} (la : List α) (lb : List β) (f : α × β → Bool) (g : β × α → Bool)
    (hfg : ∀ x ∈ la, ∀ y ∈ lb, f (x, y) = true → g (y, x) = true)
    (h : (la.zip lb).all f = true) : (lb.zip la).all g = true := by
  induction la generalizing lb with
  | nil => cases lb <;> simp
  | cons x xs ih =>
    cases lb with
    | nil => simp
    | cons y ys =>
      simp only [List.zip_cons_cons, List.all_cons, Bool.and_eq_true] at h ⊢
      exact ⟨hfg x (by simp) y (by simp) h.1,
        ih ys (fun x' hx' y' hy' => hfg x' (by simp [hx']) y' (by simp [hy'])) h.2⟩

/-- Value comparison is symmetric: `x == y` implies `y == x` (values, defaults filled in). -/
theorem valEq_symm (h1 h2 : Heap) (w1 : h1.EqWF) (w2 : h2.EqWF) (fuel : Nat) :
    ∀ (v w : GVal), valEq h1 h2 fuel v w = true → valEq h2 h1 fuel w v = true := by
  induction fuel with
  | zero =>
    intro v w h
    cases v <;> cases w <;> simp [valEq] at h ⊢
    exact h.symm
  | succ fuel ih =>
    intro v w h
    cases v with
    | atom s =>
      cases w with
      | atom t => simp [valEq] at h ⊢; exact h.symm
      | ref j => simp [valEq] at h
    | ref i =>
      cases w with
      | atom t => simp [valEq] at h
      | ref j =>
        simp only [valEq] at h ⊢
        cases ha : h1[i]? with
        | none => simp [ha] at h
        | some a =>
          cases hb : h2[j]? with
          | none => simp [ha, hb] at h
          | some b =>
            simp only [ha, hb] at h ⊢
            by_cases hc : (a.kind != b.kind || a.ty != b.ty || a.bk != b.bk) = true
            · simp [hc] at h
            · have hc' : (b.kind != a.kind || b.ty != a.ty || b.bk != a.bk) = false := by
                simp only [Bool.not_eq_true] at hc
                simp only [Bool.or_eq_false_iff, bne_eq_false_iff_eq] at hc ⊢
                exact ⟨⟨hc.1.1.symm, hc.1.2.symm⟩, hc.2.symm⟩
              have hkind : b.kind = a.kind := by
                simp only [Bool.or_eq_false_iff, bne_eq_false_iff_eq] at hc'
                exact hc'.1.1
              rw [if_neg hc] at h
              rw [if_neg (by simp [hc'])]
              rw [hkind]
              have seq : (a.children.length == b.children.length &&
                    (a.children.zip b.children).all
                      (fun x => x.1.1 == x.2.1 && valEq h1 h2 fuel x.1.2 x.2.2)) = true →
                  (b.children.length == a.children.length &&
                    (b.children.zip a.children).all
                      (fun x => x.1.1 == x.2.1 && valEq h2 h1 fuel x.1.2 x.2.2)) = true := by
                intro hs
                simp only [Bool.and_eq_true, beq_iff_eq] at hs ⊢
                refine ⟨hs.1.symm, ?_⟩
                apply zip_all_symm _ _ _ _ _ hs.2
                intro x _ y _ hxy
                simp only [Bool.and_eq_true, beq_iff_eq] at hxy ⊢
                exact ⟨hxy.1.symm, ih _ _ hxy.2⟩
              have dict : (a.children.length == b.children.length &&
                    a.children.all (fun x => match lookupChild b.children x.1 with
                      | some y => valEq h1 h2 fuel x.2 y
                      | none => false)) = true →
                  (b.children.length == a.children.length &&
                    b.children.all (fun x => match lookupChild a.children x.1 with
                      | some y => valEq h2 h1 fuel x.2 y
                      | none => false)) = true := by
                intro hs
                simp only [Bool.and_eq_true, beq_iff_eq] at hs ⊢
                refine ⟨hs.1.symm, ?_⟩
                exact mapCmp_symm a.children b.children _ _ (fun x _ y _ hxy => ih _ _ hxy)
                  (w1.keys' i a ha) (w2.keys' j b hb) hs.1 hs.2
              have cfg : ((childrenWithDefaults a).length == (childrenWithDefaults b).length &&
                    (childrenWithDefaults a).all (fun x => match lookupChild (childrenWithDefaults b) x.1 with
                      | some y => valEq h1 h2 fuel x.2 y
                      | none => false)) = true →
                  ((childrenWithDefaults b).length == (childrenWithDefaults a).length &&
                    (childrenWithDefaults b).all (fun x => match lookupChild (childrenWithDefaults a) x.1 with
                      | some y => valEq h2 h1 fuel x.2 y
                      | none => false)) = true := by
                intro hs
                simp only [Bool.and_eq_true, beq_iff_eq] at hs ⊢
                refine ⟨hs.1.symm, ?_⟩
                exact mapCmp_symm _ _ _ _ (fun x _ y _ hxy => ih _ _ hxy)
                  (w1.keys i a ha) (w2.keys j b hb) hs.1 hs.2
              revert h
              cases a.kind <;> simp only [] <;> first | exact fun h => h | exact seq | exact dict | exact cfg

end Fiddle

namespace Fiddle

theorem zip_all_trans {α β γ} (la : List α) (lb : List β) (lc : List γ)
    (f : α × β → Bool) (g : β × γ → Bool) (k : α × γ → Bool)
    (hfgk : ∀ x ∈ la, ∀ y ∈ lb, ∀ z ∈ lc, f (x, y) = true → g (y, z) = true → k (x, z) = true)
    (hl : la.length = lb.length)
    (h1 : (la.zip lb).all f = true) (h2 : (lb.zip lc).all g = true) : (la.zip lc).all k = true := by
  induction la generalizing lb lc with
  | nil => simp
  | cons x xs ih =>
    cases lb with
    | nil => simp at hl
    | cons y ys =>
      cases lc with
      | nil => simp
      | cons z zs =>
        simp only [List.zip_cons_cons, List.all_cons, Bool.and_eq_true] at h1 h2 ⊢
        exact ⟨hfgk x (by simp) y (by simp) z (by simp) h1.1 h2.1,
          ih ys zs (fun x' hx' y' hy' z' hz' => hfgk x' (by simp [hx']) y' (by simp [hy']) z' (by simp [hz']))
            (by simpa using hl) h1.2 h2.2⟩

theorem mapCmp_trans (ca cb cc : List (PElem × GVal)) (f g k : GVal → GVal → Bool)
    (hfgk : ∀ x ∈ ca, ∀ y ∈ cb, ∀ z ∈ cc, f x.2 y.2 = true → g y.2 z.2 = true → k x.2 z.2 = true)
    (h1 : ca.all (fun x => match lookupChild cb x.1 with
      | some y => f x.2 y
      | none => false) = true)
    (h2 : cb.all (fun y => match lookupChild cc y.1 with
      | some z => g y.2 z
      | none => false) = true) :
    ca.all (fun x => match lookupChild cc x.1 with
      | some z => k x.2 z
      | none => false) = true := by
  rw [List.all_eq_true] at h1 h2 ⊢
  intro x hx
  have hx1 := h1 x hx
  cases hlb : lookupChild cb x.1 with
  | none => simp [hlb] at hx1
  | some y =>
    simp only [hlb] at hx1
    have hy := lookupChild_mem cb x.1 y hlb
    have hy2 := h2 (x.1, y) hy
    cases hlc : lookupChild cc x.1 with
    | none => simp [hlc] at hy2
    | some z =>
      simp only [hlc] at hy2 ⊢
      exact hfgk x hx (x.1, y) hy (x.1, z) (lookupChild_mem cc x.1 z hlc) hx1 hy2

/-- Value comparison is transitive. -/
theorem valEq_trans (h1 h2 h3 : Heap) (fuel : Nat) :
    ∀ (u v w : GVal), valEq h1 h2 fuel u v = true → valEq h2 h3 fuel v w = true →
      valEq h1 h3 fuel u w = true := by
  induction fuel with
  | zero =>
    intro u v w e1 e2
    cases u <;> cases v <;> cases w <;> simp [valEq] at e1 e2 ⊢
    exact e1.trans e2
  | succ fuel ih =>
    intro u v w e1 e2
    cases u with
    | atom s =>
      cases v with
      | atom t =>
        cases w with
        | atom r => simp [valEq] at e1 e2 ⊢; exact e1.trans e2
        | ref k => simp [valEq] at e2
      | ref j => simp [valEq] at e1
    | ref i =>
      cases v with
      | atom t => simp [valEq] at e1
      | ref j =>
        cases w with
        | atom r => simp [valEq] at e2
        | ref k =>
          simp only [valEq] at e1 e2 ⊢
          cases ha : h1[i]? with
          | none => simp [ha] at e1
          | some a =>
            cases hb : h2[j]? with
            | none => simp [ha, hb] at e1
            | some b =>
              cases hc : h3[k]? with
              | none => simp [hb, hc] at e2
              | some c =>
                simp only [ha, hb, hc] at e1 e2 ⊢
                by_cases c1 : (a.kind != b.kind || a.ty != b.ty || a.bk != b.bk) = true
                · simp [c1] at e1
                · by_cases c2 : (b.kind != c.kind || b.ty != c.ty || b.bk != c.bk) = true
                  · simp [c2] at e2
                  · rw [if_neg c1] at e1
                    rw [if_neg c2] at e2
                    simp only [Bool.not_eq_true, Bool.or_eq_false_iff, bne_eq_false_iff_eq] at c1 c2
                    have c3 : ¬ (a.kind != c.kind || a.ty != c.ty || a.bk != c.bk) = true := by
                      simp only [Bool.not_eq_true, Bool.or_eq_false_iff, bne_eq_false_iff_eq]
                      exact ⟨⟨c1.1.1.trans c2.1.1, c1.1.2.trans c2.1.2⟩, c1.2.trans c2.2⟩
                    rw [if_neg c3]
                    have hbk : b.kind = a.kind := c1.1.1.symm
                    rw [hbk] at e2
                    revert e1 e2
                    cases a.kind <;> simp only []
                    all_goals first
                      | (intro e1 e2
                         simp only [Bool.and_eq_true, beq_iff_eq] at e1 e2 ⊢
                         refine ⟨e1.1.trans e2.1, ?_⟩
                         first
                           | (apply zip_all_trans _ _ _ _ _ _ _ e1.1 e1.2 e2.2
                              intro x _ y _ z _ hxy hyz
                              simp only [Bool.and_eq_true, beq_iff_eq] at hxy hyz ⊢
                              exact ⟨hxy.1.trans hyz.1, ih _ _ _ hxy.2 hyz.2⟩)
                           | exact mapCmp_trans _ _ _ _ _ _
                               (fun x _ y _ z _ hxy hyz => ih _ _ _ hxy hyz) e1.2 e2.2)
                      | (intros; trivial)

end Fiddle
