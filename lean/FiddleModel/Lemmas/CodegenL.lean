import FiddleModel.Model.Codegen

namespace Fiddle

theorem lookup_cons (env : CEnv) (x y : Nat) (v : GVal) :
    CEnv.lookup ((x, v) :: env) y = if x = y then some v else env.lookup y := by
  unfold CEnv.lookup
  by_cases h : x = y
  · subst h; simp
  · simp [h]

/-- Children that are literals or variables evaluate to themselves and allocate nothing. -/
theorem evalCh_leaf (env : CEnv) (h : Heap) : ∀ (cs : List (PElem × GVal)),
    (∀ c ∈ cs, ∀ j, c.2 = .ref j → env.lookup j = some (.ref j)) →
    CExpr.evalCh (cs.map childExpr) env h = some (cs, h) := by
  intro cs
  induction cs with
  | nil => intro _; simp [CExpr.evalCh]
  | cons c cs ih =>
    intro hall
    obtain ⟨pe, v⟩ := c
    have ih' := ih (fun c hc => hall c (by simp [hc]))
    cases v with
    | atom t => simp [childExpr, CExpr.evalCh, CExpr.eval, ih']
    | ref j =>
      have := hall (pe, .ref j) (by simp) j rfl
      simp [childExpr, CExpr.evalCh, CExpr.eval, this, ih']

/-- Running the straight-line program for the rest of a heap reconstructs that rest, object by
    object, at the same indices. -/
theorem runAssigns_straight : ∀ (suf pre : List GObj) (env : CEnv),
    (∀ j, j < pre.length → env.lookup j = some (.ref j)) →
    (∀ (i : Nat) (o : GObj), (pre ++ suf)[i]? = some o →
      ∀ c ∈ o.children, ∀ j : Nat, c.2 = GVal.ref j → j < i) →
    (∀ o ∈ suf, o.defaults = []) →
    ∃ env', runAssigns ((suf.zipIdx pre.length).map (fun oi => (oi.2, objExpr oi.1))) env pre =
        some (env', pre ++ suf) ∧
      ∀ j, j < (pre ++ suf).length → env'.lookup j = some (.ref j) := by
  intro suf
  induction suf with
  | nil => intro pre env henv _ _; exact ⟨env, by simp [runAssigns], by simpa using henv⟩
  | cons o suf ih =>
    intro pre env henv wf hdef
    have ho : (pre ++ o :: suf)[pre.length]? = some o := by simp
    have hch : ∀ c ∈ o.children, ∀ j, c.2 = .ref j → env.lookup j = some (.ref j) :=
      fun c hc j hj => henv j (wf _ o ho c hc j hj)
    have hod : o.defaults = [] := hdef o (by simp)
    have hobj : ({ kind := o.kind, ty := o.ty, bk := o.bk, sig := o.sig, children := o.children,
                   tags := o.tags } : GObj) = o := by
      cases o; simp_all
    have henv' : ∀ j, j < (pre ++ [o]).length →
        CEnv.lookup ((pre.length, GVal.ref pre.length) :: env) j = some (.ref j) := by
      intro j hj
      rw [lookup_cons]
      by_cases e : pre.length = j
      · subst e; simp
      · simp only [e, if_false]
        apply henv
        simp at hj; omega
    obtain ⟨env', hr, hl⟩ := ih (pre ++ [o]) _ henv'
      (by simpa [List.append_assoc] using wf) (fun o' ho' => hdef o' (by simp [ho']))
    refine ⟨env', ?_, by simpa [List.append_assoc] using hl⟩
    simp only [List.zipIdx_cons, List.map_cons, runAssigns, objExpr, CExpr.eval,
      evalCh_leaf env pre o.children hch, hobj]
    have hlen : (pre ++ [o]).length = pre.length + 1 := by simp
    rw [hlen] at hr
    simpa [List.append_assoc, objExpr] using hr

end Fiddle

namespace Fiddle

mutual
/-- Evaluation only allocates: the heap it returns extends the heap it was given. -/
theorem CExpr.eval_prefix : ∀ (e : CExpr) (env : CEnv) (h : Heap) (v : GVal) (h' : Heap),
    e.eval env h = some (v, h') → h <+: h'
  | .atom t, env, h, v, h', he => by simp [CExpr.eval] at he; rw [he.2]; exact List.prefix_refl _
  | .var x, env, h, v, h', he => by
    simp only [CExpr.eval, Option.map_eq_some_iff, Prod.mk.injEq] at he
    obtain ⟨_, _, _, rfl⟩ := he
    exact List.prefix_refl _
  | .node kind ty bk sig ch tags, env, h, v, h', he => by
    simp only [CExpr.eval] at he
    split at he
    · cases he
    · rename_i vals h1 hc
      simp only [Option.some.injEq, Prod.mk.injEq] at he
      obtain ⟨_, rfl⟩ := he
      exact (CExpr.evalCh_prefix ch env h vals h1 hc).trans (List.prefix_append _ _)
theorem CExpr.evalCh_prefix : ∀ (ch : List (PElem × CExpr)) (env : CEnv) (h : Heap)
    (vs : List (PElem × GVal)) (h' : Heap), CExpr.evalCh ch env h = some (vs, h') → h <+: h'
  | [], env, h, vs, h', he => by simp [CExpr.evalCh] at he; rw [he.2]; exact List.prefix_refl _
  | (pe, e) :: r, env, h, vs, h', he => by
    simp only [CExpr.evalCh] at he
    split at he
    · cases he
    · rename_i v h1 h1e
      split at he
      · cases he
      · rename_i vs' h2 h2e
        simp only [Option.some.injEq, Prod.mk.injEq] at he
        obtain ⟨_, rfl⟩ := he
        exact (CExpr.eval_prefix e env h v h1 h1e).trans (CExpr.evalCh_prefix r env h1 vs' h2 h2e)
end

end Fiddle
