/-
Copies of configurations over heaps (`copy.deepcopy`, pickle round trip, `fdl.deepcopy_with`;
`copy.copy`, `fdl.copy_with`, `fdl.cast`).

A deep copy allocates a new object for every object of the configuration; in the heap model
the copy of object `i` is object `i + n` (`n` = size of the heap before the copy), with every
reference shifted likewise. A shallow copy allocates one new top-level Buildable whose
arguments are the *same* objects. Default objects belong to the callable, not to the
configuration, and are not copied.
-/
import FiddleModel.Model.Graph

namespace Fiddle

def shiftVal (n : Nat) : GVal → GVal
  | .atom t => .atom t
  | .ref i => .ref (i + n)

def shiftObj (n : Nat) (o : GObj) : GObj :=
  { o with children := o.children.map (fun c => (c.1, shiftVal n c.2)) }

/-- `copy.deepcopy(cfg)`: the copy of object `i` is object `i + h.length`. -/
def Heap.deepcopy (h : Heap) : Heap := h ++ h.map (shiftObj h.length)

/-- `copy.copy(cfg)` / `fdl.copy_with(cfg)` / `fdl.cast(T, cfg)` of object `i`: one new object
    (index `h.length`) with the same arguments; `bk` = the new Buildable type for a cast. -/
def Heap.shallowCopy (h : Heap) (i : Nat) (bk : Option String) : Heap :=
  match h[i]? with
  | some o => h ++ [{ o with bk := bk.getD o.bk }]
  | none => h

end Fiddle
